//! C04: indexed region queries = filtered linear scan.
//!
//! Modelled kind (obs compared with the extracted Coq model NV.Index.Indexer):
//!   idx  lin|bin ms d nref recs queries
//!        recs    = rid:s:e:a:b:mapped,...   (rid "-" = unplaced)   in file order
//!        queries = rid:qs:qe;...
//!        obs     = the whole index (bins with chunks in insertion order, linear offsets or
//!                  per-bin loffsets) followed by the chunk list (or Err) of each query
//!        oracle  = reading the returned chunks and filtering == filtering the whole file
//! File-level kinds (implementation only) are in the second half of this file.

#[path = "../shared/c04_files.rs"]
mod files;
#[path = "../shared/c04_fmt.rs"]
mod fmt;
#[path = "../shared/c04_bytes.rs"]
mod bytes;

use noodles_bgzf::VirtualPosition as VP;
use noodles_core::Position;
use noodles_csi::binning_index::{
    self, BinningIndex, Indexer, ReferenceSequence as _,
    index::reference_sequence::{bin::Chunk, index::BinnedIndex, index::LinearIndex},
};
use nv::{Case, CaseWriter, Obs, Rng};

#[derive(Clone, Debug)]
pub struct Rec {
    rid: Option<u64>,
    s: u64,
    e: u64,
    a: u64,
    b: u64,
    mapped: bool,
}

fn pos(n: u64) -> Position {
    Position::try_from(n as usize).expect("position")
}

fn parse_recs(s: &str) -> Vec<Rec> {
    if s == "_" {
        return vec![];
    }
    s.split(',')
        .map(|p| {
            let f: Vec<&str> = p.split(':').collect();
            Rec {
                rid: if f[0] == "-" { None } else { Some(f[0].parse().unwrap()) },
                s: f[1].parse().unwrap(),
                e: f[2].parse().unwrap(),
                a: f[3].parse().unwrap(),
                b: f[4].parse().unwrap(),
                mapped: f[5] == "1",
            }
        })
        .collect()
}

fn fmt_recs(rs: &[Rec]) -> String {
    if rs.is_empty() {
        return "_".into();
    }
    rs.iter()
        .map(|r| {
            format!(
                "{}:{}:{}:{}:{}:{}",
                r.rid.map(|x| x.to_string()).unwrap_or("-".into()),
                r.s,
                r.e,
                r.a,
                r.b,
                r.mapped as u8
            )
        })
        .collect::<Vec<_>>()
        .join(",")
}

fn fmt_chunks(cs: &[Chunk]) -> String {
    if cs.is_empty() {
        return "_".into();
    }
    cs.iter()
        .map(|c| format!("{}:{}", u64::from(c.start()), u64::from(c.end())))
        .collect::<Vec<_>>()
        .join(",")
}

fn build<I>(ms: u8, d: u8, nref: usize, recs: &[Rec]) -> binning_index::Index<I>
where
    I: binning_index::index::reference_sequence::Index + Default,
{
    let mut ix = Indexer::<I>::new(ms, d);
    for r in recs {
        let ctx = r.rid.map(|rid| (rid as usize, pos(r.s), pos(r.e), r.mapped));
        ix.add_record(ctx, Chunk::new(VP::from(r.a), VP::from(r.b))).expect("add_record");
    }
    ix.build(nref)
}

/// the oracle: read the chunks (records whose start offset lies in a chunk, chunk by chunk) and
/// filter, versus filtering the whole file
fn check_query(recs: &[Rec], rid: u64, qs: u64, qe: u64, chunks: &[Chunk]) -> Result<(), String> {
    let hit = |r: &Rec| r.rid == Some(rid) && r.s <= qe && qs <= r.e;
    let want: Vec<u64> = recs.iter().filter(|r| hit(r)).map(|r| r.a).collect();
    let mut got = Vec::new();
    for c in chunks {
        let (cs, ce) = (u64::from(c.start()), u64::from(c.end()));
        for r in recs {
            if cs <= r.a && r.a < ce && hit(r) {
                got.push(r.a);
            }
        }
    }
    if got != want {
        return Err(format!("region {rid}:{qs}-{qe} scan={want:?} indexed={got:?} chunks={}", fmt_chunks(chunks)));
    }
    Ok(())
}

fn run_idx(c: &Case) -> Obs {
    let binned = c.args[0] == "bin";
    let (ms, d, nref) = (c.u(1) as u8, c.u(2) as u8, c.u(3) as usize);
    let recs = parse_recs(&c.args[4]);
    let queries: Vec<(u64, u64, u64)> = if c.args[5] == "_" {
        vec![]
    } else {
        c.args[5]
            .split(';')
            .map(|q| {
                let f: Vec<u64> = q.split(':').map(|x| x.parse().unwrap()).collect();
                (f[0], f[1], f[2])
            })
            .collect()
    };
    let mut obs = String::new();
    let mut verdict: Result<(), (String, String)> = Ok(());
    let maxp = (1u64 << (ms as u64 + 3 * d as u64)) - 1;
    let mut nontrivial = false;
    macro_rules! go {
        ($I:ty, $render:expr) => {{
            let index = build::<$I>(ms, d, nref, &recs);
            for (k, rs) in index.reference_sequences().iter().enumerate() {
                obs.push_str(&format!("ref{k}{{"));
                for (id, bin) in rs.bins() {
                    obs.push_str(&format!("{id}=[{}]", fmt_chunks(bin.chunks())));
                }
                obs.push('|');
                obs.push_str(&$render(rs.index()));
                obs.push('}');
            }
            for &(rid, qs, qe) in &queries {
                match index.query(rid as usize, (pos(qs)..=pos(qe)).into()) {
                    Err(_) => obs.push_str(" Q:Err"),
                    Ok(chunks) => {
                        obs.push_str(&format!(" Q:{}", fmt_chunks(&chunks)));
                        if verdict.is_ok() && qs <= qe && qe <= maxp {
                            if let Err(m) = check_query(&recs, rid, qs, qe, &chunks) {
                                // cause analysis: do the unpruned chunks of the region's bins cover it?
                                let rs = &index.reference_sequences()[rid as usize];
                                let bins = rs.query(ms, d, pos(qs)..=pos(qe)).unwrap();
                                let all: Vec<Chunk> = bins.iter().flat_map(|b| b.chunks()).copied().collect();
                                let unpruned = binning_index::optimize_chunks(&all, VP::from(0));
                                let tag = if check_query(&recs, rid, qs, qe, &unpruned).is_ok() {
                                    if binned { "csi-binned-min-offset" } else { "linear-min-offset-prunes-hit" }
                                } else {
                                    "query-bins-miss-hit"
                                };
                                verdict = Err((tag.to_string(), m));
                            }
                        }
                        if chunks.len() >= 1 && recs.len() >= 3 {
                            nontrivial = true;
                        }
                    }
                }
            }
        }};
    }
    if binned {
        go!(BinnedIndex, |ix: &BinnedIndex| ix
            .iter()
            .map(|(id, v)| format!("{id}={}", u64::from(*v)))
            .collect::<Vec<_>>()
            .join(","));
    } else {
        go!(LinearIndex, |ix: &LinearIndex| ix
            .iter()
            .map(|v| u64::from(*v).to_string())
            .collect::<Vec<_>>()
            .join(","));
    }
    Obs::ok(obs, nontrivial).with_verdict(verdict)
}

// -------------------------------------------------------------------------------------------

const GEOMS: &[(u64, u64)] = &[(14, 5), (14, 5), (14, 5), (14, 6), (12, 4), (3, 2), (1, 1), (2, 3), (16, 3)];

fn gen_point(rng: &mut Rng, ms: u64, d: u64) -> u64 {
    let maxp = (1u64 << (ms + 3 * d)) - 1;
    let lvl = rng.below(d + 1);
    let w = 1u64 << (ms + 3 * lvl);
    let edge = rng.below(maxp / w + 1) * w;
    match rng.below(4) {
        0 => rng.range(1, maxp),
        _ => (edge as i64 + rng.range(0, 4) as i64 - 2).clamp(1, maxp as i64) as u64,
    }
}

fn gen_idx_case(rng: &mut Rng, w: &mut CaseWriter) {
    let binned = rng.chance(1, 2);
    // linear indexes are only ever used at the default geometry (BAI/tabix); their window is 2^14
    let (ms, d) = if binned { *rng.pick(GEOMS) } else { (14, 5) };
    let maxp = (1u64 << (ms + 3 * d)) - 1;
    let nref = rng.range(1, 3);
    let n = match rng.below(4) {
        0 => rng.range(0, 3),
        1 => rng.range(3, 12),
        _ => rng.range(8, 60),
    };
    let mut recs = Vec::new();
    let mut off = rng.below(1 << 18);
    let mut rid = 0u64;
    // region of interest so that records and queries interact
    let focus = gen_point(rng, ms, d);
    let mut s = if rng.chance(1, 2) { focus.saturating_sub(rng.below(1 << ms.min(20)) * 4).max(1) } else { rng.range(1, maxp) };
    for _ in 0..n {
        if rid + 1 < nref && rng.chance(1, 10) {
            rid += rng.range(1, nref - rid - 1);
            s = gen_point(rng, ms, d).min(maxp);
        }
        // coordinate sorted within a reference
        s = (s + match rng.below(4) {
            0 => 0,
            1 => rng.below(50),
            2 => rng.below(1 << ms),
            _ => {
                let sh = rng.below(12).min(ms + 3 * d - 1);
                rng.below(1 + (maxp >> sh))
            }
        })
        .min(maxp);
        let len = match rng.below(6) {
            0 => 0,
            1 => rng.below(200),
            2 => rng.below(1 << ms) ,
            3 => (1u64 << (ms + 3 * rng.below(d + 1))) + rng.below(3),
            4 => rng.below(maxp),
            _ => rng.below(2000),
        };
        let e = (s + len).min(maxp);
        let a = off;
        off += rng.range(1, 70000);
        recs.push(Rec { rid: Some(rid), s, e, a, b: off, mapped: rng.chance(9, 10) });
    }
    for _ in 0..rng.below(3) {
        let a = off;
        off += rng.range(1, 300);
        recs.push(Rec { rid: None, s: 0, e: 0, a, b: off, mapped: false });
    }
    let mut qs = Vec::new();
    for _ in 0..rng.range(4, 14) {
        let qrid = rng.below(nref);
        let (a, b) = match rng.below(6) {
            0 => (1, maxp),
            1 => {
                let p = gen_point(rng, ms, d);
                (p, p)
            }
            2 if !recs.is_empty() => {
                // around a record
                let r = rng.pick(&recs).clone();
                if r.rid.is_none() {
                    (1, maxp)
                } else {
                    let a = (r.s as i64 + rng.range(0, 6) as i64 - 3).clamp(1, maxp as i64) as u64;
                    let b = (r.e as i64 + rng.range(0, 6) as i64 - 3).clamp(a as i64, maxp as i64) as u64;
                    match rng.below(3) {
                        0 => (a, b),
                        1 => (r.e, (r.e + rng.below(1 << ms)).min(maxp)),
                        _ => (r.s.saturating_sub(rng.below(1 << ms)).max(1), r.s),
                    }
                }
            }
            3 => {
                // bin aligned
                let lvl = rng.below(d + 1);
                let w = 1u64 << (ms + 3 * lvl);
                let i = rng.below(maxp / w + 1);
                ((i * w + 1).min(maxp), ((i + 1) * w).min(maxp))
            }
            4 => {
                // out of range bounds (must be rejected)
                let p = gen_point(rng, ms, d);
                (p, maxp + rng.range(1, 3))
            }
            _ => {
                let a = gen_point(rng, ms, d);
                let sh = rng.below(16).min(ms + 3 * d - 1);
                let b = (a + rng.below(1 + (maxp >> sh))).min(maxp);
                (a, b)
            }
        };
        qs.push(format!("{qrid}:{a}:{b}"));
    }
    w.push(
        "idx",
        vec![
            if binned { "bin" } else { "lin" }.into(),
            ms.to_string(),
            d.to_string(),
            nref.to_string(),
            fmt_recs(&recs),
            qs.join(";"),
        ],
    );
}

fn generate(rng: &mut Rng, tier: &str, w: &mut CaseWriter) {
    let thorough = tier == "thorough";
    let n = if thorough { 20000 } else { 600 };
    for _ in 0..n {
        gen_idx_case(rng, w);
    }
    files::generate(rng, tier, w);
    // real files with their virtual offsets in the case text, against NV.Index.Formats
    fmt::generate(rng, tier, w);
    bytes::generate(rng, tier, w);
    // alignment_end from POS and CIGAR against NV.Index.AlignEnd
    let n = if thorough { 6000 } else { 300 };
    for _ in 0..n {
        gen_aend_case(rng, w);
    }
    // the BCF indexing key read off the site bytes against NV.Index.BcfSiteKey (appended last)
    bytes::generate_bcfk(rng, tier, w);
}

fn gen_aend_case(rng: &mut Rng, w: &mut CaseWriter) {
    let start = match rng.below(8) {
        0 => "-".to_string(),
        1 => (u64::MAX - rng.below(3)).to_string(),
        2 => "1".into(),
        _ => rng.range(1, 1 << 31).to_string(),
    };
    let k = rng.range(0, 8);
    let ops: Vec<String> = (0..k)
        .map(|_| {
            let kind = rng.below(9);
            let len = match rng.below(12) {
                0 => 0,
                1 => u64::MAX - rng.below(3),
                2 => 1u64 << rng.below(64),
                3 => u64::MAX / 2 + rng.below(3),
                _ => rng.range(1, 300),
            };
            format!("{kind}:{len}")
        })
        .collect();
    w.push("aend", vec![start, if ops.is_empty() { "_".into() } else { ops.join(",") }]);
}

fn run_aend(c: &Case) -> Obs {
    use noodles_sam::alignment::{
        RecordBuf,
        record::cigar::{Op, op::Kind},
    };
    let kinds = [
        Kind::Match, Kind::Insertion, Kind::Deletion, Kind::Skip, Kind::SoftClip,
        Kind::HardClip, Kind::Pad, Kind::SequenceMatch, Kind::SequenceMismatch,
    ];
    let ops: Vec<(u64, u64)> = if c.args[1] == "_" {
        vec![]
    } else {
        c.args[1]
            .split(',')
            .map(|p| {
                let (k, l) = p.split_once(':').unwrap();
                (k.parse().unwrap(), l.parse().unwrap())
            })
            .collect()
    };
    let cigar: noodles_sam::alignment::record_buf::Cigar =
        ops.iter().map(|&(k, l)| Op::new(kinds[k as usize], l as usize)).collect::<Vec<_>>().into();
    let mut b = RecordBuf::builder().set_cigar(cigar);
    let start: Option<u64> = if c.args[0] == "-" { None } else { Some(c.args[0].parse().unwrap()) };
    if let Some(s) = start {
        b = b.set_alignment_start(noodles_core::Position::new(s as usize).unwrap());
    }
    let rec = b.build();
    let obs = match nv::guarded(move || noodles_sam::alignment::Record::alignment_end(&rec)) {
        nv::Outcome::Panicked(_) => "Panic".to_string(),
        nv::Outcome::Done(None) => "-".into(),
        nv::Outcome::Done(Some(Err(_))) => "Err".into(),
        nv::Outcome::Done(Some(Ok(p))) => usize::from(p).to_string(),
    };
    // the specification: POS + sum of M D N = X lengths - 1 (POS when the sum is 0)
    let sum: u128 = ops.iter().filter(|(k, _)| matches!(k, 0 | 2 | 3 | 7 | 8)).map(|&(_, l)| l as u128).sum();
    let want = match start {
        None => "-".to_string(),
        Some(s) => {
            let e = if sum == 0 { s as u128 } else { s as u128 + sum - 1 };
            if e <= u64::MAX as u128 { e.to_string() } else { "Err".into() }
        }
    };
    if obs == want {
        Obs::ok(obs, sum > 0)
    } else {
        Obs::fail(obs.clone(), "alignment-end-differs-from-spec", format!("want={want} got={obs} {}", c.line()))
    }
}

fn run(c: &Case) -> Obs {
    match c.kind.as_str() {
        "idx" => run_idx(c),
        "aend" => run_aend(c),
        k => fmt::run(c).or_else(|| bytes::run(c)).or_else(|| files::run(c)).unwrap_or_else(|| Obs::fail("-", "harness-unknown-kind", k)),
    }
}

fn main() {
    nv::main_with(generate, run);
}
