//! C19: CRAM indexing (cram::fs::index -> crai) and region queries (cram::io::Reader::query /
//! IndexedReader::query) return exactly the scan-filtered records.
//!
//! Case kinds (both modelled by NV.CramIdx.Crai; obs compared byte for byte):
//!
//!   idx  per_slice  reflens  seqseed  records  p0  layout  transport
//!        -> obs `I=<entry;entry;...>` | `I=Panic` | `I=Err:<kind>`
//!           entry = rid,start,span,offset,landmark,slice_length   (rid `*`, start `-` when absent)
//!        verdict: every crai::Record equals an INDEPENDENT computation (own container/block
//!        walker for offset / landmark / slice length, own CIGAR arithmetic for start / span),
//!        one entry per single-reference slice, one per reference (and one unmapped entry) for a
//!        multi-reference slice; and the index survives the transport (0 = none, 1 = crai::fs
//!        write+read through a temp file, 2 = crai::io::Writer/Reader in memory).
//!
//!   qry  per_slice  reflens  seqseed  records  p0  layout  regions  mode
//!        -> obs `Q=<answer;answer;...>`, answer = ordinals of the returned records (`_` = none)
//!           or `Err:<kind>` / `Panic`
//!        verdict: for every region the indexed query returns exactly the records a scan keeps
//!        (on the named reference, intersecting the interval), each once, in file order.
//!        The index handed to the query is the one from cram::fs::index when that succeeds, else
//!        the independently computed one.  mode: 0 = one Reader for all regions, 1 = a fresh
//!        Reader per region, 2 = IndexedReader (built from a .crai read back from disk).
//!
//!   records  = `;`-separated `rid:start:end:bases:cigar:readlen`; `*:0:0:0:*:readlen` = unmapped,
//!              `rid:start:end:0:*:readlen` = placed unmapped (flag 0x4 with RNAME/POS, index cases
//!              only), bases = 1 for mapped records (they carry SEQ/QUAL and need their reference);
//!              record i is named `r<i>`; `end` is recomputed here from the CIGAR.
//!
//! History: this check found that cram::fs::index panicked on multi-reference slices (repaired by
//! 8aa2016; a recurrence is tagged `cram-index-multiref-slice-panics`) and that Query ignored the
//! record's reference id (repaired by 6527417; tag `cram-query-ignores-reference-id`).
//!   layout   = `;`-separated `offset:header_len:body_len:landmark:slice_len:nrecords`, the data
//!              containers observed when the generator wrote the file; `run` writes the file
//!              again and checks that its own walker sees the same layout.
//!   regions  = `;`-separated `ref:lo:hi` (`-` = unbounded)

use std::io::Cursor;

use noodles_core::{Position, Region};
use noodles_cram::{self as cram, crai};
use noodles_fasta as fasta;
use noodles_sam as sam;
use nv::{Case, CaseWriter, Obs, Outcome, Rng, errkind, guarded};

#[path = "../shared/c19_multi.rs"]
mod c19_multi;
#[allow(dead_code)]
#[path = "../shared/c16_adversary.rs"]
mod c16_adversary;
#[path = "../shared/c19_async.rs"]
mod c19_async;
#[path = "../shared/c19_gz.rs"]
mod c19_gz;

// ---------------------------------------------------------------------------------------------
// file specification

#[derive(Clone, Debug)]
struct RecSpec {
    rid: Option<usize>,
    start: u64,
    end: u64,
    has_seq: bool,
    cigar: Vec<(char, u64)>,
    read_len: u64,
}

#[derive(Clone, Debug)]
struct FileSpec {
    per_slice: usize,
    ref_lens: Vec<u64>,
    seqseed: u64,
    recs: Vec<RecSpec>,
}

fn ref_span(cigar: &[(char, u64)]) -> u64 {
    cigar
        .iter()
        .filter(|(op, _)| matches!(op, 'M' | 'D' | 'N' | '=' | 'X'))
        .map(|&(_, n)| n)
        .sum()
}

fn read_len(cigar: &[(char, u64)]) -> u64 {
    cigar
        .iter()
        .filter(|(op, _)| matches!(op, 'M' | 'I' | 'S' | '=' | 'X'))
        .map(|&(_, n)| n)
        .sum()
}

/// last position of the interval Reader::query's `intersects` tests: the decoded RecordBuf's
/// alignment_end -- start + reference span of the CIGAR - 1, and the start itself for a record
/// without CIGAR (a placed read flagged unmapped covers its POS only, the SAM convention), whatever
/// its read length (which is what the CRAM record and the index use: `end`)
fn hit_end(x: &RecSpec) -> u64 {
    // a CIGAR that consumes no reference base (`5S`, `2S3I`): RecordBuf::alignment_span is None and
    // alignment_end is the start as well (x.end = start - 1 is the CRAM record's end)
    if x.cigar.is_empty() { x.start } else { x.end.max(x.start) }
}

/// a placed record without bases: reference id and POS, no CIGAR, SEQ `*` (CRAM end = start - 1)
fn no_bases(x: &RecSpec) -> bool {
    x.rid.is_some() && x.cigar.is_empty() && x.read_len == 0
}

/// the end the statement's "covered span" uses: a placed record occupies at least its start (the
/// writer's convention since b02b368)
fn idx_end(x: &RecSpec) -> u64 {
    x.end.max(x.start)
}

/// input class of the finding cram-index-placed-record-without-bases-span-underflow: a
/// multi-reference slice holds a placed record without bases
pub const SPAN_CLASS_TAG: &str = "cram-index-placed-record-without-bases-span-underflow";

fn span_class_slice(recs: &[RecSpec]) -> bool {
    !recs.is_empty() && is_multi(recs) && recs.iter().any(no_bases)
}

fn fmt_cigar(c: &[(char, u64)]) -> String {
    if c.is_empty() {
        return "*".into();
    }
    c.iter().map(|(op, n)| format!("{n}{op}")).collect()
}

fn parse_cigar(s: &str) -> Vec<(char, u64)> {
    if s == "*" {
        return vec![];
    }
    let mut out = vec![];
    let mut n = 0u64;
    for ch in s.chars() {
        if let Some(d) = ch.to_digit(10) {
            n = n * 10 + d as u64;
        } else {
            out.push((ch, n));
            n = 0;
        }
    }
    out
}

fn fmt_recs(recs: &[RecSpec]) -> String {
    if recs.is_empty() {
        return "_".into();
    }
    recs.iter()
        .map(|r| {
            format!(
                "{}:{}:{}:{}:{}:{}",
                r.rid.map(|x| x.to_string()).unwrap_or_else(|| "*".into()),
                r.start,
                r.end,
                r.has_seq as u8,
                fmt_cigar(&r.cigar),
                r.read_len
            )
        })
        .collect::<Vec<_>>()
        .join(";")
}

fn parse_recs(s: &str) -> Vec<RecSpec> {
    if s == "_" {
        return vec![];
    }
    s.split(';')
        .map(|t| {
            let f: Vec<&str> = t.split(':').collect();
            RecSpec {
                rid: if f[0] == "*" { None } else { Some(f[0].parse().unwrap()) },
                start: f[1].parse().unwrap(),
                end: f[2].parse().unwrap(),
                has_seq: f[3] == "1",
                cigar: parse_cigar(f[4]),
                read_len: f[5].parse().unwrap(),
            }
        })
        .collect()
}

fn ref_bases(seqseed: u64, i: usize, len: u64) -> Vec<u8> {
    let mut r = Rng::new(seqseed ^ (0x5151 + i as u64 * 7919));
    (0..len).map(|_| b"ACGT"[r.below(4) as usize]).collect()
}

fn repository(spec: &FileSpec) -> fasta::Repository {
    let recs: Vec<fasta::Record> = spec
        .ref_lens
        .iter()
        .enumerate()
        .map(|(i, &l)| {
            fasta::Record::new(
                fasta::record::Definition::new(format!("sq{i}"), None),
                fasta::record::Sequence::from(ref_bases(spec.seqseed, i, l)),
            )
        })
        .collect();
    fasta::Repository::new(recs)
}

fn sam_text(spec: &FileSpec) -> Vec<u8> {
    let mut s = String::from("@HD\tVN:1.6\tSO:coordinate\n");
    for (i, l) in spec.ref_lens.iter().enumerate() {
        s.push_str(&format!("@SQ\tSN:sq{i}\tLN:{l}\n"));
    }
    let mut rng = Rng::new(spec.seqseed ^ 0xABCD);
    for (i, r) in spec.recs.iter().enumerate() {
        let (seq, qual) = if true {
            let mut seq = Vec::new();
            match r.rid.filter(|_| !r.cigar.is_empty()) {
                Some(rid) => {
                    let rb = ref_bases(spec.seqseed, rid, spec.ref_lens[rid]);
                    let mut p = (r.start - 1) as usize;
                    for &(op, n) in &r.cigar {
                        for _ in 0..n {
                            match op {
                                'M' | '=' | 'X' => {
                                    let b = if op == 'X' || (op == 'M' && rng.chance(1, 8)) {
                                        b"ACGT"[rng.below(4) as usize]
                                    } else {
                                        rb[p]
                                    };
                                    seq.push(b);
                                    p += 1;
                                }
                                'I' | 'S' => seq.push(b"ACGT"[rng.below(4) as usize]),
                                'D' | 'N' => p += 1,
                                _ => {}
                            }
                        }
                    }
                }
                None => {
                    for _ in 0..r.read_len {
                        seq.push(b"ACGT"[rng.below(4) as usize]);
                    }
                }
            }
            let qual: String = (0..seq.len()).map(|_| (b'0' + rng.below(40) as u8) as char).collect();
            if seq.is_empty() { ("*".to_string(), "*".to_string()) } else { (String::from_utf8(seq).unwrap(), qual) }
        } else {
            ("*".to_string(), "*".to_string())
        };
        match r.rid {
            Some(rid) if r.cigar.is_empty() => {
                // placed, flagged unmapped: alone, reverse, or the unmapped mate of a pair placed at its
                // mate's position (first / last segment, mate reverse)
                let flag = *rng.pick(&[4u32, 4, 20, 69, 133, 165, 77]);
                let (rnext, pnext) = if flag & 1 != 0 && flag & 8 == 0 { ("=".to_string(), r.start) } else { ("*".to_string(), 0) };
                s.push_str(&format!("r{i}\t{flag}\tsq{rid}\t{}\t0\t*\t{rnext}\t{pnext}\t0\t{seq}\t{qual}\n", r.start))
            }
            Some(rid) => {
                // mapped: forward / reverse, secondary, supplementary, paired with a mapped or an
                // unmapped mate
                let flag = *rng.pick(&[0u32, 0, 16, 16, 256, 272, 2048, 2064, 67, 131, 73, 89]);
                let (rnext, pnext) = if flag & 1 != 0 { ("=".to_string(), r.start) } else { ("*".to_string(), 0) };
                s.push_str(&format!(
                    "r{i}\t{flag}\tsq{rid}\t{}\t{}\t{}\t{rnext}\t{pnext}\t0\t{seq}\t{qual}\n",
                    r.start,
                    rng.below(61),
                    fmt_cigar(&r.cigar)
                ))
            }
            None => s.push_str(&format!("r{i}\t4\t*\t0\t255\t*\t*\t0\t0\t{seq}\t{qual}\n")),
        }
    }
    s.into_bytes()
}

fn write_cram(spec: &FileSpec, repo: &fasta::Repository) -> Result<Vec<u8>, String> {
    use sam::alignment::io::Write as _;
    let text = sam_text(spec);
    let mut r = sam::io::Reader::new(&text[..]);
    let h = r.read_header().map_err(|e| format!("sam header: {e}"))?;
    let recs = r
        .record_bufs(&h)
        .collect::<Result<Vec<_>, _>>()
        .map_err(|e| format!("sam records: {e}"))?;
    let repo = repo.clone();
    let per = spec.per_slice;
    match guarded(std::panic::AssertUnwindSafe(move || -> std::io::Result<Vec<u8>> {
        let mut w = cram::io::writer::Builder::default()
            .set_reference_sequence_repository(repo)
            .verif_set_records_per_slice(per)
            .build_from_writer(Vec::new());
        w.write_header(&h)?;
        for r in &recs {
            w.write_alignment_record(&h, r)?;
        }
        w.try_finish(&h)?;
        Ok(w.get_ref().clone())
    })) {
        Outcome::Done(Ok(b)) => Ok(b),
        Outcome::Done(Err(e)) => Err(format!("Err:{}", errkind(&e))),
        Outcome::Panicked(m) => Err(format!("Panic {m}")),
    }
}

// ---------------------------------------------------------------------------------------------
// independent container / block walker (CRAM 3.0 layout, written from the specification)

fn itf8(b: &[u8], p: &mut usize) -> Option<i32> {
    let b0 = *b.get(*p)? as u32;
    let (n, v) = if b0 & 0x80 == 0 {
        (1, b0)
    } else if b0 & 0x40 == 0 {
        (2, (b0 & 0x7f) << 8 | *b.get(*p + 1)? as u32)
    } else if b0 & 0x20 == 0 {
        (3, (b0 & 0x3f) << 16 | (*b.get(*p + 1)? as u32) << 8 | *b.get(*p + 2)? as u32)
    } else if b0 & 0x10 == 0 {
        (
            4,
            (b0 & 0x1f) << 24 | (*b.get(*p + 1)? as u32) << 16 | (*b.get(*p + 2)? as u32) << 8 | *b.get(*p + 3)? as u32,
        )
    } else {
        (
            5,
            (b0 & 0x0f) << 28
                | (*b.get(*p + 1)? as u32) << 20
                | (*b.get(*p + 2)? as u32) << 12
                | (*b.get(*p + 3)? as u32) << 4
                | (*b.get(*p + 4)? as u32 & 0x0f),
        )
    };
    *p += n;
    Some(v as i32)
}

fn ltf8_skip(b: &[u8], p: &mut usize) -> Option<()> {
    let b0 = *b.get(*p)?;
    let extra = b0.leading_ones() as usize;
    *p += 1 + extra.min(8);
    if *p <= b.len() { Some(()) } else { None }
}

#[derive(Clone, Debug, PartialEq, Eq)]
struct Cont {
    offset: u64,
    header_len: u64,
    body_len: u64,
    landmark: u64,  // = size of the first (compression header) block, from the block walk
    slice_len: u64, // = total size of the remaining blocks, from the block walk
    nrec: u64,
    hdr_landmarks: Vec<u64>,
    hdr_ref: i32,
    hdr_start: i32,
    hdr_span: i32,
}

/// returns (offset of the first data container, data containers, saw EOF container)
fn walk(b: &[u8]) -> Result<(u64, Vec<Cont>, bool), String> {
    if b.len() < 26 || &b[..4] != b"CRAM" {
        return Err("no file definition".into());
    }
    let mut p = 26usize;
    let mut out = Vec::new();
    let mut first = true;
    let mut p0 = 0u64;
    let mut eof = false;
    while p < b.len() {
        let off = p;
        if p + 4 > b.len() {
            return Err("cut length".into());
        }
        let len = i32::from_le_bytes(b[p..p + 4].try_into().unwrap());
        p += 4;
        let e = || "cut header".to_string();
        let rid = itf8(b, &mut p).ok_or_else(e)?;
        let st = itf8(b, &mut p).ok_or_else(e)?;
        let sp = itf8(b, &mut p).ok_or_else(e)?;
        let nrec = itf8(b, &mut p).ok_or_else(e)?;
        ltf8_skip(b, &mut p).ok_or_else(e)?;
        ltf8_skip(b, &mut p).ok_or_else(e)?;
        let nblocks = itf8(b, &mut p).ok_or_else(e)?;
        let nl = itf8(b, &mut p).ok_or_else(e)?;
        let mut lms = Vec::new();
        for _ in 0..nl {
            lms.push(itf8(b, &mut p).ok_or_else(e)? as u64);
        }
        p += 4; // crc32
        let hl = p - off;
        let body = p;
        if len < 0 || body + len as usize > b.len() {
            return Err("cut body".into());
        }
        // walk the blocks
        let mut q = body;
        let mut sizes = Vec::new();
        for _ in 0..nblocks {
            let bs = q;
            q += 2;
            itf8(b, &mut q).ok_or_else(e)?;
            let csize = itf8(b, &mut q).ok_or_else(e)?;
            itf8(b, &mut q).ok_or_else(e)?;
            q += csize as usize + 4;
            sizes.push((q - bs) as u64);
        }
        if q != body + len as usize {
            return Err(format!("blocks do not fill the container at {off}"));
        }
        p = q;
        if first {
            first = false;
            p0 = p as u64;
            continue;
        }
        if len == 15 && rid == -1 && st == 4542278 && nrec == 0 {
            eof = true;
            continue;
        }
        out.push(Cont {
            offset: off as u64,
            header_len: hl as u64,
            body_len: len as u64,
            landmark: sizes.first().copied().unwrap_or(0),
            slice_len: sizes.iter().skip(1).sum(),
            nrec: nrec as u64,
            hdr_landmarks: lms,
            hdr_ref: rid,
            hdr_start: st,
            hdr_span: sp,
        });
    }
    Ok((p0, out, eof))
}

fn fmt_layout(cs: &[Cont]) -> String {
    if cs.is_empty() {
        return "_".into();
    }
    cs.iter()
        .map(|c| format!("{}:{}:{}:{}:{}:{}", c.offset, c.header_len, c.body_len, c.landmark, c.slice_len, c.nrec))
        .collect::<Vec<_>>()
        .join(";")
}

// ---------------------------------------------------------------------------------------------
// expected index (independent computation)

type Entry = (Option<usize>, Option<u64>, u64, u64, u64, u64); // rid start span offset landmark slice_len

fn fmt_entries(es: &[Entry]) -> String {
    if es.is_empty() {
        return "_".into();
    }
    es.iter()
        .map(|e| {
            format!(
                "{},{},{},{},{},{}",
                e.0.map(|x| x.to_string()).unwrap_or_else(|| "*".into()),
                e.1.map(|x| x.to_string()).unwrap_or_else(|| "-".into()),
                e.2,
                e.3,
                e.4,
                e.5
            )
        })
        .collect::<Vec<_>>()
        .join(";")
}

fn entry_of(r: &crai::Record) -> Entry {
    (
        r.reference_sequence_id(),
        r.alignment_start().map(|p| usize::from(p) as u64),
        r.alignment_span() as u64,
        r.offset(),
        r.landmark(),
        r.slice_length(),
    )
}

fn record_of(e: &Entry) -> crai::Record {
    crai::Record::new(e.0, e.1.and_then(|s| Position::new(s as usize)), e.2 as usize, e.3, e.4, e.5)
}

/// chunks of the record list held by each container
fn chunks<'a>(spec: &'a FileSpec, conts: &[Cont]) -> Option<Vec<&'a [RecSpec]>> {
    let mut out = Vec::new();
    let mut i = 0usize;
    for c in conts {
        let n = c.nrec as usize;
        if i + n > spec.recs.len() || n == 0 {
            return None;
        }
        out.push(&spec.recs[i..i + n]);
        i += n;
    }
    if i == spec.recs.len() { Some(out) } else { None }
}

/// the entries the statement asks for: per slice, one entry per reference held (ascending
/// reference id, the unmapped entry first as Option orders None first), span = min start .. max end
fn expected_index(conts: &[Cont], chunks: &[&[RecSpec]]) -> Vec<Entry> {
    let mut out = Vec::new();
    for (c, recs) in conts.iter().zip(chunks) {
        let mut rids: Vec<Option<usize>> = recs.iter().map(|r| r.rid).collect();
        rids.sort();
        rids.dedup();
        for rid in rids {
            let (start, span) = match rid {
                None => (None, 0),
                Some(_) => {
                    let lo = recs.iter().filter(|r| r.rid == rid).map(|r| r.start).min().unwrap();
                    let hi = recs.iter().filter(|r| r.rid == rid).map(idx_end).max().unwrap();
                    (Some(lo), hi - lo + 1)
                }
            };
            out.push((rid, start, span, c.offset, c.landmark, c.slice_len));
        }
    }
    out
}

/// a multi-reference slice (as the writer classifies it) holding a mapped record with bases
fn has_multiref_slice_with_bases(chunks: &[&[RecSpec]]) -> bool {
    chunks.iter().any(|recs| {
        let first = recs[0].rid;
        let multi = first.is_none() && recs.iter().any(|r| r.rid.is_some()) || first.is_some() && recs.iter().any(|r| r.rid != first);
        multi && recs.iter().any(|r| r.rid.is_some() && r.has_seq)
    })
}

fn is_multi(recs: &[RecSpec]) -> bool {
    let first = recs[0].rid;
    recs.iter().any(|r| r.rid != first)
}

// ---------------------------------------------------------------------------------------------
// running the real code

struct Built {
    spec: FileSpec,
    repo: fasta::Repository,
    bytes: Vec<u8>,
    conts: Vec<Cont>,
}

fn parse_spec(c: &Case) -> FileSpec {
    FileSpec {
        per_slice: c.u(0) as usize,
        ref_lens: c.args[1].split(',').map(|x| x.parse().unwrap()).collect(),
        seqseed: c.u(2),
        recs: parse_recs(&c.args[3]),
    }
}

fn build(c: &Case) -> Result<Built, Obs> {
    let spec = parse_spec(c);
    for (i, r) in spec.recs.iter().enumerate() {
        if r.rid.is_some() {
            // placed unmapped records (no CIGAR) cover start .. start + read length - 1 in CRAM
            let e = if r.cigar.is_empty() { r.start + r.read_len - 1 } else { r.start + ref_span(&r.cigar) - 1 };
            if e != r.end || (!r.cigar.is_empty() && read_len(&r.cigar) != r.read_len) || r.has_seq == r.cigar.is_empty() {
                return Err(Obs::fail("-", "harness-bad-case", format!("record {i}: end {} vs cigar {e}", r.end)));
            }
        }
    }
    let repo = repository(&spec);
    let bytes = match write_cram(&spec, &repo) {
        Ok(b) => b,
        Err(m) => return Err(Obs::fail("-", "cram-write-failed", m)),
    };
    let (p0, conts, eof) = match walk(&bytes) {
        Ok(x) => x,
        Err(m) => return Err(Obs::fail("-", "cram-container-walk", m)),
    };
    if !eof {
        return Err(Obs::fail("-", "cram-no-eof-container", ""));
    }
    if p0.to_string() != c.args[4] || fmt_layout(&conts) != c.args[5] {
        return Err(Obs::fail(
            "-",
            "harness-layout-drift",
            format!("case layout {} {} vs written {} {}", c.args[4], c.args[5], p0, fmt_layout(&conts)),
        ));
    }
    Ok(Built { spec, repo, bytes, conts })
}

fn temp_path(tag: &str, c: &Case) -> std::path::PathBuf {
    use std::hash::{Hash, Hasher};
    let mut h = std::collections::hash_map::DefaultHasher::new();
    c.line().hash(&mut h);
    std::env::temp_dir().join(format!("nv-c19-{}-{}-{:016x}.{tag}", std::process::id(), c.id.replace('/', "_"), h.finish()))
}

struct TempFile(std::path::PathBuf);
impl Drop for TempFile {
    fn drop(&mut self) {
        let _ = std::fs::remove_file(&self.0);
    }
}

enum IndexResult {
    Ok(crai::Index),
    Err(String),
    Panic(String),
}

fn real_index(b: &Built, c: &Case) -> IndexResult {
    let path = temp_path("cram", c);
    let _guard = TempFile(path.clone());
    if let Err(e) = std::fs::write(&path, &b.bytes) {
        return IndexResult::Err(format!("tempfile:{e}"));
    }
    let p = path.clone();
    match guarded(move || cram::fs::index(&p)) {
        Outcome::Done(Ok(i)) => IndexResult::Ok(i),
        Outcome::Done(Err(e)) => IndexResult::Err(errkind(&e)),
        Outcome::Panicked(m) => IndexResult::Panic(m),
    }
}

fn run_idx(c: &Case) -> Obs {
    let b = match build(c) {
        Ok(b) => b,
        Err(o) => return o,
    };
    let transport = c.u(6);
    let Some(chunks) = chunks(&b.spec, &b.conts) else {
        return Obs::fail("-", "cram-container-record-counts", fmt_layout(&b.conts));
    };
    let nontrivial = !b.conts.is_empty();
    // structural facts of the written layout that the statement relies on
    for (k, ct) in b.conts.iter().enumerate() {
        if ct.hdr_landmarks != vec![ct.landmark] {
            return Obs::fail("-", "cram-container-landmarks", format!("container {k}: header {:?} vs block walk {}", ct.hdr_landmarks, ct.landmark));
        }
        if ct.nrec as usize > b.spec.per_slice {
            return Obs::fail("-", "cram-container-record-counts", format!("container {k} holds {} records", ct.nrec));
        }
    }
    let expected = expected_index(&b.conts, &chunks);
    let idx = match real_index(&b, c) {
        IndexResult::Ok(i) => i,
        IndexResult::Err(k) => return Obs::fail(format!("I=Err:{k}"), "cram-index-error", k.clone()),
        IndexResult::Panic(m) => {
            let tag = if chunks.iter().any(|r| span_class_slice(r)) {
                SPAN_CLASS_TAG
            } else if has_multiref_slice_with_bases(&chunks) && m.contains("invalid reference sequence name") {
                "cram-index-multiref-slice-panics"
            } else {
                "cram-index-panic"
            };
            return Obs::fail("I=Panic", tag, m);
        }
    };
    let got: Vec<Entry> = idx.iter().map(entry_of).collect();
    let obs = format!("I={}", fmt_entries(&got));
    // compare per slice: the entries of a slice are those carrying its offset
    let mut verdict: Result<(), (String, String)> = Ok(());
    let mut fail = |tag: &str, d: String| {
        if verdict.is_ok() {
            verdict = Err((tag.to_string(), d));
        }
    };
    if got.len() != expected.len() {
        fail("crai-entry-count", format!("{} entries, expected {}: got {} want {}", got.len(), expected.len(), fmt_entries(&got), fmt_entries(&expected)));
    } else if got != expected && {
        let (mut a, mut b2) = (got.clone(), expected.clone());
        a.sort();
        b2.sort();
        a == b2
    } {
        // the right entries in another order (within a slice: unmapped first, then ascending reference id;
        // slices in file order) -- readers that bisect the index by reference rely on it
        fail("crai-entry-order", format!("got {} want {}", fmt_entries(&got), fmt_entries(&expected)));
    } else {
        for (g, e) in got.iter().zip(&expected) {
            let field = if g.3 != e.3 {
                Some("offset")
            } else if g.4 != e.4 {
                Some("landmark")
            } else if g.5 != e.5 {
                Some("slice-length")
            } else if g.0 != e.0 {
                Some("reference")
            } else if g.1 != e.1 {
                Some("start")
            } else if g.2 != e.2 {
                Some("span")
            } else {
                None
            };
            if let Some(f) = field {
                let tag = if f == "span" && chunks.iter().any(|r| span_class_slice(r)) { SPAN_CLASS_TAG.to_string() } else { format!("crai-entry-wrong-{f}") };
                fail(&tag, format!("got {} want {}", fmt_entries(&[*g]), fmt_entries(&[*e])));
            }
        }
    }
    // transport of the index through the crai writer/reader
    let back: Option<std::io::Result<crai::Index>> = match transport {
        1 => {
            let p = temp_path("crai", c);
            let _g = TempFile(p.clone());
            Some(crai::fs::write(&p, &idx).and_then(|_| crai::fs::read(&p)))
        }
        2 => {
            let mut w = crai::io::Writer::new(Vec::new());
            Some(w.write_index(&idx).and_then(|_| w.finish()).and_then(|bytes| crai::io::Reader::new(&bytes[..]).read_index()))
        }
        _ => None,
    };
    match back {
        Some(Ok(i2)) if i2 != idx => fail("crai-roundtrip-differs", format!("read back {}", fmt_entries(&i2.iter().map(entry_of).collect::<Vec<_>>()))),
        Some(Err(e)) => fail("crai-roundtrip-error", errkind(&e)),
        _ => {}
    }
    Obs::ok(obs, nontrivial).with_verdict(verdict)
}

fn parse_regions(s: &str) -> Vec<(usize, Option<u64>, Option<u64>)> {
    if s == "_" {
        return vec![];
    }
    s.split(';')
        .map(|t| {
            let f: Vec<&str> = t.split(':').collect();
            let o = |x: &str| if x == "-" { None } else { Some(x.parse().unwrap()) };
            (f[0].parse().unwrap(), o(f[1]), o(f[2]))
        })
        .collect()
}

fn region(r: usize, lo: Option<u64>, hi: Option<u64>) -> Region {
    let name = format!("sq{r}");
    let p = |x: u64| Position::new(x as usize).expect("position");
    match (lo, hi) {
        (Some(a), Some(b)) => Region::new(name, p(a)..=p(b)),
        (Some(a), None) => Region::new(name, p(a)..),
        (None, Some(b)) => Region::new(name, ..=p(b)),
        (None, None) => Region::new(name, ..),
    }
}

enum Ans {
    Names(Vec<String>),
    Err(String),
    Panic(String),
}

fn name_of(r: &sam::alignment::RecordBuf) -> String {
    r.name().map(|n| n.to_string()).unwrap_or_else(|| "?".into())
}

fn run_qry(c: &Case) -> Obs {
    let b = match build(c) {
        Ok(b) => b,
        Err(o) => return o,
    };
    let regions = parse_regions(&c.args[6]);
    let mode = c.u(7);
    let Some(chunks) = chunks(&b.spec, &b.conts) else {
        return Obs::fail("-", "cram-container-record-counts", fmt_layout(&b.conts));
    };
    let chunk_of: Vec<usize> = chunks.iter().enumerate().flat_map(|(k, ch)| std::iter::repeat(k).take(ch.len())).collect();
    let expected_idx = expected_index(&b.conts, &chunks);
    let mut index: crai::Index = match real_index(&b, c) {
        IndexResult::Ok(i) => i,
        _ => expected_idx.iter().map(record_of).collect(),
    };
    if mode == 2 {
        // through a .crai file
        let p = temp_path("crai", c);
        let _g = TempFile(p.clone());
        match crai::fs::write(&p, &index).and_then(|_| crai::fs::read(&p)) {
            Ok(i) => index = i,
            Err(e) => return Obs::fail("-", "crai-roundtrip-error", errkind(&e)),
        }
    }
    let n = b.spec.recs.len();
    let nrefs = b.spec.ref_lens.len();
    let collect = |it: &mut dyn Iterator<Item = std::io::Result<sam::alignment::RecordBuf>>| -> Ans {
        let mut names = Vec::new();
        for r in it {
            match r {
                Ok(r) => names.push(name_of(&r)),
                Err(e) => return Ans::Err(errkind(&e)),
            }
            if names.len() > 4 * n + 8 {
                return Ans::Err("Runaway".into());
            }
        }
        Ans::Names(names)
    };
    let mut answers: Vec<Ans> = Vec::new();
    let bytes = &b.bytes;
    let repo = &b.repo;
    let out = guarded(std::panic::AssertUnwindSafe(|| -> Vec<Ans> {
        let mut answers = Vec::new();
        match mode {
            0 => {
                let mut rd = cram::io::reader::Builder::default()
                    .set_reference_sequence_repository(repo.clone())
                    .build_from_reader(Cursor::new(bytes.clone()));
                let h = match rd.read_header() {
                    Ok(h) => h,
                    Err(e) => return vec![Ans::Err(errkind(&e))],
                };
                for &(r, lo, hi) in &regions {
                    let a = match guarded(std::panic::AssertUnwindSafe(|| match rd.query(&h, &index, &region(r, lo, hi)) {
                        Ok(q) => collect(&mut q.records()),
                        Err(e) => Ans::Err(errkind(&e)),
                    })) {
                        Outcome::Done(a) => a,
                        Outcome::Panicked(m) => Ans::Panic(m),
                    };
                    answers.push(a);
                }
            }
            1 => {
                for &(r, lo, hi) in &regions {
                    let a = match guarded(std::panic::AssertUnwindSafe(|| {
                        let mut rd = cram::io::reader::Builder::default()
                            .set_reference_sequence_repository(repo.clone())
                            .build_from_reader(Cursor::new(bytes.clone()));
                        let h = match rd.read_header() {
                            Ok(h) => h,
                            Err(e) => return Ans::Err(errkind(&e)),
                        };
                        match rd.query(&h, &index, &region(r, lo, hi)) {
                            Ok(q) => collect(&mut q.records()),
                            Err(e) => Ans::Err(errkind(&e)),
                        }
                    })) {
                        Outcome::Done(a) => a,
                        Outcome::Panicked(m) => Ans::Panic(m),
                    };
                    answers.push(a);
                }
            }
            _ => {
                let mut rd = match cram::io::indexed_reader::Builder::default()
                    .set_reference_sequence_repository(repo.clone())
                    .set_index(index.clone())
                    .build_from_reader(Cursor::new(bytes.clone()))
                {
                    Ok(r) => r,
                    Err(e) => return vec![Ans::Err(errkind(&e))],
                };
                let h = match rd.read_header() {
                    Ok(h) => h,
                    Err(e) => return vec![Ans::Err(errkind(&e))],
                };
                for &(r, lo, hi) in &regions {
                    let a = match guarded(std::panic::AssertUnwindSafe(|| match rd.query(&h, &region(r, lo, hi)) {
                        Ok(q) => collect(&mut q.records()),
                        Err(e) => Ans::Err(errkind(&e)),
                    })) {
                        Outcome::Done(a) => a,
                        Outcome::Panicked(m) => Ans::Panic(m),
                    };
                    answers.push(a);
                }
            }
        }
        answers
    }));
    match out {
        Outcome::Done(a) => answers.extend(a),
        Outcome::Panicked(m) => return Obs::fail("Q=Panic", "cram-query-panic", m),
    }
    if answers.len() != regions.len() {
        let k = match answers.first() {
            Some(Ans::Err(k)) => k.clone(),
            _ => "?".into(),
        };
        return Obs::fail(format!("Q=Err:{k}"), "cram-reader-open-error", k);
    }

    // scan-and-filter expectation from the records written (own CIGAR arithmetic)
    let mut obs_parts = Vec::new();
    // failures by priority class: 0 = wrong set/order/duplicate/error, 1 = reference id ignored
    let mut fails: Vec<(u8, String, String)> = Vec::new();
    let mut nontrivial = false;
    for (k, (&(r, lo, hi), a)) in regions.iter().zip(&answers).enumerate() {
        let rl = lo.unwrap_or(1);
        let rh = hi.unwrap_or(u64::MAX);
        let want: Vec<usize> = if r < nrefs {
            (0..n)
                .filter(|&i| {
                    let x = &b.spec.recs[i];
                    x.rid == Some(r) && x.start <= rh && rl <= hit_end(x)
                })
                .collect()
        } else {
            vec![]
        };
        let desc = format!("region {k} sq{r}:{}-{}", lo.map(|x| x.to_string()).unwrap_or_default(), hi.map(|x| x.to_string()).unwrap_or_default());
        match a {
            Ans::Err(kind) => {
                obs_parts.push(format!("Err:{kind}"));
                if r >= nrefs && kind == "InvalidInput" {
                    // a region naming a reference the header does not declare is rejected
                } else {
                    fails.push((0, "cram-query-error".into(), format!("{desc}: {kind}")));
                }
            }
            Ans::Panic(m) => {
                obs_parts.push("Panic".into());
                fails.push((0, "cram-query-panic".into(), format!("{desc}: {m}")));
            }
            Ans::Names(names) => {
                let got: Vec<Option<usize>> = names
                    .iter()
                    .map(|s| s.strip_prefix('r').and_then(|t| t.parse::<usize>().ok()).filter(|&i| i < n))
                    .collect();
                obs_parts.push(if got.is_empty() {
                    "_".into()
                } else {
                    got.iter().map(|g| g.map(|i| i.to_string()).unwrap_or_else(|| "?".into())).collect::<Vec<_>>().join(",")
                });
                if r >= nrefs {
                    fails.push((0, "cram-query-unknown-reference-accepted".into(), desc.clone()));
                    continue;
                }
                if !want.is_empty() {
                    nontrivial = true;
                }
                if got.iter().any(|g| g.is_none()) {
                    fails.push((0, "cram-query-unknown-record".into(), format!("{desc}: {names:?}")));
                    continue;
                }
                let got: Vec<usize> = got.into_iter().flatten().collect();
                if got == want {
                    continue;
                }
                let mut seen = std::collections::BTreeSet::new();
                let dup = got.iter().find(|i| !seen.insert(**i));
                let missing: Vec<usize> = want.iter().copied().filter(|i| !seen.contains(i)).collect();
                let extra: Vec<usize> = seen.iter().copied().filter(|i| !want.contains(i)).collect();
                let extra_other_ref: Vec<usize> = extra.iter().copied().filter(|&i| b.spec.recs[i].rid != Some(r)).collect();
                let detail = format!("{desc}: got {got:?} want {want:?}");
                if !missing.is_empty() {
                    fails.push((0, "cram-query-missing-record".into(), detail));
                } else if let Some(d) = dup {
                    fails.push((0, "cram-query-duplicate".into(), format!("{detail} (r{d} twice)")));
                } else if extra.len() > extra_other_ref.len() {
                    fails.push((0, "cram-query-extra-record".into(), detail));
                } else if !extra_other_ref.is_empty() {
                    // records of ANOTHER reference whose coordinates fall in the interval; they can only
                    // come from a multi-reference slice that also holds a record of the queried reference
                    let from_multi = extra_other_ref.iter().all(|&i| {
                        let ch = chunks[chunk_of[i]];
                        is_multi(ch) && ch.iter().any(|x| x.rid == Some(r))
                    });
                    // the remaining records must still be the right ones in file order
                    let rest: Vec<usize> = got.iter().copied().filter(|i| want.contains(i)).collect();
                    let in_order = got.windows(2).all(|w| w[0] < w[1]);
                    if from_multi && rest == want && in_order {
                        fails.push((1, "cram-query-ignores-reference-id".into(), detail));
                    } else {
                        fails.push((0, "cram-query-extra-record".into(), detail));
                    }
                } else {
                    fails.push((0, "cram-query-order".into(), detail));
                }
            }
        }
    }
    let obs = format!("Q={}", if obs_parts.is_empty() { "_".into() } else { obs_parts.join(";") });
    fails.sort_by_key(|f| f.0);
    match fails.into_iter().next() {
        None => Obs::ok(obs, nontrivial),
        Some((_, tag, d)) => Obs::fail(obs, &tag, d),
    }
}

fn run(c: &Case) -> Obs {
    match c.kind.as_str() {
        "idx" => run_idx(c),
        // `zq`: as `qry`, on files holding mapped reads whose CIGAR consumes no reference base; the
        // model side runs cram::fs::index -> Reader::query as one chain (ZeroSpan.index_then_query)
        "qry" | "zq" => run_qry(c),
        "midx" => c19_multi::run_midx(c),
        // `mzq`: as `mqry` (merged multi-slice containers, multi-reference slices), on files holding
        // mapped reads whose CIGAR consumes no reference base; model side: ZeroSpan.index_then_query
        "mqry" | "mzq" => c19_multi::run_mqry(c),
        "mqbad" => c19_multi::run_mqbad(c),
        "unm" => c19_multi::run_unm(c),
        "via" => c19_multi::run_via(c),
        "hdr" => c19_multi::run_hdr(c),
        "aq" => c19_async::run_aq(c),
        "gz" | "gzb" => c19_gz::run_gz(c),
        _ => Obs::ok("-", false),
    }
}

// ---------------------------------------------------------------------------------------------
// generation

fn gen_cigar(rng: &mut Rng, max_ref: u64) -> Vec<(char, u64)> {
    // a CIGAR whose reference span is <= max_ref (>= 1)
    let mut c: Vec<(char, u64)> = Vec::new();
    let shape = rng.below(8);
    let m = |rng: &mut Rng, cap: u64| rng.range(1, cap.max(1).min(12));
    match shape {
        0 | 1 | 2 => c.push(('M', m(rng, max_ref))),
        3 => {
            c.push(('M', 1));
        }
        4 if max_ref >= 3 => {
            let a = m(rng, (max_ref - 2).min(6));
            let d = rng.range(1, (max_ref - a - 1).min(9));
            let rest = max_ref - a - d;
            c.push(('M', a));
            c.push((if rng.chance(1, 2) { 'D' } else { 'N' }, d));
            c.push(('M', m(rng, rest)));
        }
        5 if max_ref >= 2 => {
            let a = m(rng, max_ref - 1);
            c.push(('M', a));
            c.push(('I', rng.range(1, 4)));
            c.push(('M', m(rng, max_ref - a)));
        }
        6 => {
            c.push(('S', rng.range(1, 5)));
            c.push(('M', m(rng, max_ref)));
            if rng.chance(1, 2) {
                c.push(('S', rng.range(1, 3)));
            }
        }
        _ => {
            if rng.chance(1, 2) {
                c.push(('H', rng.range(1, 3)));
            }
            c.push(('M', m(rng, max_ref)));
        }
    }
    c
}

fn gen_spec(rng: &mut Rng, flavour: u64) -> FileSpec {
    let big = flavour % 10 == 9;
    let nrefs = match flavour % 4 {
        0 => rng.range(2, 3),
        1 => rng.range(1, 4),
        _ => rng.range(2, if big { 6 } else { 4 }),
    } as usize;
    let ref_lens: Vec<u64> = (0..nrefs).map(|_| rng.range(24, 120)).collect();
    let placed_file = flavour % 7 == 3;
    let mut recs = Vec::new();
    for rid in 0..nrefs {
        // some references get no record at all
        let k = if nrefs > 1 && rng.chance(1, 5) { 0 } else { rng.range(1, if big { 9 } else { 5 }) };
        let mut v = Vec::new();
        // cluster starts so that regions and records share boundaries
        let base = rng.range(1, ref_lens[rid] / 2);
        for _ in 0..k {
            // a third of the starts anywhere, the rest clustered (ties and nested records included)
            let start = if rng.chance(1, 3) { rng.range(1, ref_lens[rid] - 1) } else { let w = if rng.chance(1, 4) { 2 } else { 12 }; (base + rng.below(w)).min(ref_lens[rid] - 1) };
            let max_ref = ref_lens[rid] - start + 1;
            let cigar = if placed_file { vec![] } else { gen_cigar(rng, max_ref) };
            let plen = rng.range(1, max_ref.min(8));
            let end = if placed_file { start + plen - 1 } else { start + ref_span(&cigar) - 1 };
            assert!(end <= ref_lens[rid]);
            v.push(RecSpec {
                rid: Some(rid),
                start,
                end,
                has_seq: !placed_file,
                read_len: if placed_file { plen } else { read_len(&cigar) },
                cigar,
            });
        }
        v.sort_by_key(|r| r.start);
        recs.extend(v);
    }
    // mixed files: some of the mapped records become placed reads flagged unmapped (no CIGAR; the CRAM
    // record and the index cover start .. start + read length - 1, a query hits POS only)
    if !placed_file && flavour % 5 == 2 {
        let p = if rng.chance(1, 2) { 2 } else { 4 };
        for r in recs.iter_mut() {
            if rng.chance(1, p) {
                let plen = rng.range(1, 8).min(ref_lens[r.rid.unwrap()] - r.start + 1);
                r.cigar = vec![];
                r.has_seq = false;
                r.read_len = plen;
                r.end = r.start + plen - 1;
            }
        }
    }
    let unmapped = match rng.below(4) {
        0 => 0,
        1 => 1,
        _ => rng.range(0, 4),
    };
    for _ in 0..unmapped {
        recs.push(RecSpec { rid: None, start: 0, end: 0, has_seq: false, cigar: vec![], read_len: rng.range(1, 8) });
    }
    if recs.is_empty() {
        recs.push(RecSpec { rid: Some(0), start: 1, end: 3, has_seq: true, cigar: vec![('M', 3)], read_len: 3 });
    }
    let n = recs.len() as u64;
    let per_slice = match rng.below(8) {
        0 => 1,
        1 => 2,
        2 => 3,
        3 => rng.range(1, n),
        4 => n,
        5 => n + 1,
        6 => rng.range(2, 5),
        _ => 10_000,
    } as usize;
    FileSpec { per_slice, ref_lens, seqseed: rng.next() >> 8, recs }
}

fn gen_regions(rng: &mut Rng, spec: &FileSpec, count: usize) -> String {
    let nrefs = spec.ref_lens.len();
    let mut out: Vec<String> = Vec::new();
    let o = |x: Option<u64>| x.map(|v| v.to_string()).unwrap_or_else(|| "-".into());
    // boundary positions: record starts/ends of ANY reference (so that other references' records fall inside)
    let mut marks: Vec<u64> = spec.recs.iter().filter(|r| r.rid.is_some()).flat_map(|r| [r.start, r.end]).collect();
    if marks.is_empty() {
        marks.push(1);
    }
    for k in 0..count {
        let r = if k == count - 1 && rng.chance(1, 3) { nrefs + rng.below(2) as usize } else { rng.below(nrefs as u64) as usize };
        let m = *rng.pick(&marks);
        let wig = |rng: &mut Rng, m: u64| (m as i64 + rng.range(0, 2) as i64 - 1).max(1) as u64;
        let (lo, hi) = match k % 8 {
            0 => (None, None),
            1 => {
                let p = wig(rng, m);
                (Some(p), Some(p))
            }
            2 => (Some(wig(rng, m)), None),
            3 => (None, Some(wig(rng, m))),
            4 => {
                let a = wig(rng, m);
                let m2 = *rng.pick(&marks);
                let b2 = wig(rng, m2);
                (Some(a.min(b2)), Some(a.max(b2)))
            }
            5 => {
                // beyond every record
                let far = 130 + rng.below(1000);
                (Some(far), if rng.chance(1, 2) { Some(far + rng.below(50)) } else { None })
            }
            6 => {
                let a = rng.range(1, 120);
                (Some(a), Some(a + rng.below(20)))
            }
            _ => {
                let a = wig(rng, m);
                (Some(a), Some(a + rng.below(4)))
            }
        };
        out.push(format!("{r}:{}:{}", o(lo), o(hi)));
    }
    out.join(";")
}

/// files with placed records WITHOUT bases (flag 0x4, RNAME/POS, SEQ `*`): some of the placed reads of
/// a mixed file lose their bases, some references get such a record at POS 1, slices are small so that
/// the record is often alone on its reference in a multi-reference slice; per_slice >= n gives
/// single-reference slices when one reference is declared.  Index kinds only.
pub fn gen_spec_nobases(rng: &mut Rng, i: u64) -> FileSpec {
    let mut spec = gen_spec(rng, i * 5 + 2 + if i % 7 == 3 { 5 } else { 0 });
    for r in spec.recs.iter_mut() {
        if r.rid.is_some() && r.cigar.is_empty() && rng.chance(1, 2) {
            r.read_len = 0;
            r.end = r.start - 1;
        }
    }
    for rid in 0..spec.ref_lens.len() {
        if rng.chance(1, 3) {
            let at = spec.recs.iter().position(|r| r.rid.is_none() || r.rid >= Some(rid)).unwrap_or(spec.recs.len());
            let start = if rng.chance(2, 3) { 1 } else { spec.recs.get(at).filter(|r| r.rid == Some(rid)).map(|r| r.start).unwrap_or(1) };
            spec.recs.insert(at, RecSpec { rid: Some(rid), start, end: start - 1, has_seq: false, cigar: vec![], read_len: 0 });
        }
    }
    let n = spec.recs.len() as u64;
    spec.per_slice = match rng.below(6) {
        0 => 1,
        1 | 2 => 2,
        3 => 3,
        4 => rng.range(1, n.max(1)),
        _ => 10_000,
    } as usize;
    spec
}

/// files holding MAPPED reads whose CIGAR consumes no reference base (soft clips / insertions only,
/// optionally behind a hard clip): read length > 0, bases present, CRAM end = start - 1 -- the same
/// arithmetic as a placed record without bases, reached by "any read".  The index floors the end at
/// the start (span 1 when alone), a region query returns the read exactly at its POS.  Some of them
/// sit at POS 1 (CRAM end = "no position"), small slices make them often alone on their reference in
/// a multi-reference slice.
pub fn gen_spec_zspan(rng: &mut Rng, i: u64) -> FileSpec {
    // never a placed_file flavour (7k+1), mixed files (placed reads flagged unmapped) every fifth
    let mut spec = gen_spec(rng, i * 7 + 1);
    let zc = |rng: &mut Rng| -> Vec<(char, u64)> {
        let mut c = Vec::new();
        if rng.chance(1, 5) {
            c.push(('H', rng.range(1, 3)));
        }
        match rng.below(4) {
            0 => c.push(('S', rng.range(1, 6))),
            1 => c.push(('I', rng.range(1, 4))),
            2 => {
                c.push(('S', rng.range(1, 3)));
                c.push(('I', rng.range(1, 3)));
            }
            _ => {
                c.push(('S', rng.range(1, 3)));
                c.push(('I', rng.range(1, 2)));
                c.push(('S', rng.range(1, 2)));
            }
        }
        c
    };
    let p = if rng.chance(1, 2) { 2 } else { 3 };
    let mut any = false;
    for r in spec.recs.iter_mut() {
        if r.rid.is_some() && !r.cigar.is_empty() && rng.chance(1, p) {
            r.cigar = zc(rng);
            r.read_len = read_len(&r.cigar);
            r.end = r.start - 1;
            any = true;
        }
    }
    for rid in 0..spec.ref_lens.len() {
        if rng.chance(1, 3) || (!any && rid == 0) {
            let at = spec.recs.iter().position(|r| r.rid.is_none() || r.rid >= Some(rid)).unwrap_or(spec.recs.len());
            let start = if rng.chance(1, 2) { 1 } else { spec.recs.get(at).filter(|r| r.rid == Some(rid)).map(|r| r.start).unwrap_or(1) };
            let cigar = zc(rng);
            spec.recs.insert(at, RecSpec { rid: Some(rid), start, end: start - 1, has_seq: true, read_len: read_len(&cigar), cigar });
        }
    }
    let n = spec.recs.len() as u64;
    spec.per_slice = match rng.below(6) {
        0 => 1,
        1 | 2 => 2,
        3 => 3,
        4 => rng.range(1, n.max(1)),
        _ => 10_000,
    } as usize;
    spec
}

fn push_file(rng: &mut Rng, w: &mut CaseWriter, spec: &FileSpec, nreg: usize) {
    push_file_as(rng, w, spec, nreg, "qry")
}

fn push_file_as(rng: &mut Rng, w: &mut CaseWriter, spec: &FileSpec, nreg: usize, qkind: &str) {
    let repo = repository(spec);
    let (p0, layout) = match write_cram(spec, &repo).and_then(|b| walk(&b)) {
        Ok((p0, conts, _)) => (p0.to_string(), fmt_layout(&conts)),
        Err(m) => ("0".to_string(), format!("!{}", m.replace(['\t', ' ', ';', ':'], "_"))),
    };
    let base = vec![
        spec.per_slice.to_string(),
        spec.ref_lens.iter().map(|x| x.to_string()).collect::<Vec<_>>().join(","),
        spec.seqseed.to_string(),
        fmt_recs(&spec.recs),
        p0,
        layout,
    ];
    let mut a = base.clone();
    a.push(rng.below(3).to_string());
    w.push("idx", a);
    if nreg == 0 || spec.recs.iter().any(no_bases) {
        return;
    }
    let mut a = base;
    a.push(gen_regions(rng, spec, nreg));
    a.push(rng.below(3).to_string());
    w.push(qkind, a);
}

fn generate(rng: &mut Rng, tier: &str, w: &mut CaseWriter) {
    nv::silence_panics();
    let thorough = tier == "thorough";
    let nfiles = if thorough { 30000 } else { 1500 };
    for i in 0..nfiles {
        let spec = gen_spec(rng, i);
        push_file(rng, w, &spec, 15);
    }
    for i in 0..(if thorough { 3000 } else { 160 }) {
        let spec = gen_spec_nobases(rng, i);
        push_file(rng, w, &spec, 0);
    }
    c19_multi::generate_multi(rng, thorough, w);
    c19_async::generate_async(rng, thorough, w);
    c19_gz::generate_gz(rng, thorough, w);
    // last, so that the cases of the other kinds are the ones of the earlier rounds
    for i in 0..(if thorough { 3000 } else { 150 }) {
        let spec = gen_spec_zspan(rng, i);
        push_file_as(rng, w, &spec, 12, "zq");
    }
    // the same files cut into small slices, consecutive containers merged into multi-slice containers
    for i in 0..(if thorough { 3000 } else { 150 }) {
        let mut spec = gen_spec_zspan(rng, i);
        spec.per_slice = match rng.below(4) {
            0 => 1,
            1 => 2,
            2 => rng.range(1, 3) as usize,
            _ => spec.per_slice,
        };
        let Some((mut a, _multi)) = c19_multi::mbase(rng, &spec, true) else { continue };
        a.push(gen_regions(rng, &spec, 10));
        a.push(rng.below(3).to_string());
        w.push("mzq", a);
    }
}

fn main() {
    nv::main_with(generate, run)
}
