//! C19 probe (temporary)
use noodles_cram as cram;
use noodles_fasta as fasta;
use noodles_sam as sam;
use nv::{Case, CaseWriter, Obs, Rng};

fn generate(_rng: &mut Rng, _tier: &str, _w: &mut CaseWriter) {}
fn run(_c: &Case) -> Obs { Obs::ok("-", false) }

fn main() {
    if std::env::args().nth(1).as_deref() == Some("probe") {
        probe();
        return;
    }
    nv::main_with(generate, run)
}

fn probe() {
    use sam::alignment::io::Write as _;
    let refs = vec![
        fasta::Record::new(fasta::record::Definition::new("sq0", None), fasta::record::Sequence::from(b"ACGTACGTACGTACGTACGTACGTACGTACGTACGTACGT".to_vec())),
        fasta::Record::new(fasta::record::Definition::new("sq1", None), fasta::record::Sequence::from(b"TTGCATTGCATTGCATTGCATTGCATTGCATTGCATTGCA".to_vec())),
    ];
    let repo = fasta::Repository::new(refs);
    let text = b"@HD\tVN:1.6\tSO:coordinate\n@SQ\tSN:sq0\tLN:40\n@SQ\tSN:sq1\tLN:40\n\
r0\t0\tsq0\t5\t30\t4M\t*\t0\t0\tACGT\tIIII\n\
r1\t0\tsq0\t20\t30\t4M\t*\t0\t0\tTACG\tIIII\n\
r2\t0\tsq1\t6\t30\t4M\t*\t0\t0\tTTGC\tIIII\n\
r3\t0\tsq1\t30\t30\t4M\t*\t0\t0\tTTGC\tIIII\n";
    let mut r = sam::io::Reader::new(&text[..]);
    let h = r.read_header().unwrap();
    let recs = r.record_bufs(&h).collect::<Result<Vec<_>, _>>().unwrap();
    let per: usize = std::env::args().nth(2).unwrap().parse().unwrap();
    let mut w = cram::io::writer::Builder::default()
        .set_reference_sequence_repository(repo.clone())
        .verif_set_records_per_slice(per)
        .build_from_writer(Vec::new());
    w.write_header(&h).unwrap();
    for r in &recs { w.write_alignment_record(&h, r).unwrap(); }
    w.try_finish(&h).unwrap();
    let bytes = w.get_ref().clone();
    let path = std::env::temp_dir().join("c19probe.cram");
    std::fs::write(&path, &bytes).unwrap();
    let idx = nv::guarded(|| cram::fs::index(&path));
    let idx = match idx {
        nv::Outcome::Done(r) => { println!("index: {:?}", r); r.ok() }
        nv::Outcome::Panicked(m) => { println!("index PANIC {m}"); None }
    };
    if let Some(idx) = idx {
        let mut rd = cram::io::reader::Builder::default().set_reference_sequence_repository(repo.clone()).build_from_path(&path).unwrap();
        let hh = rd.read_header().unwrap();
        for reg in ["sq0:1-10", "sq0", "sq1:1-10", "sq1:20-40"] {
            let region: noodles_core::Region = reg.parse().unwrap();
            let q = rd.query(&hh, &idx, &region).unwrap();
            let names: Vec<String> = q.records().map(|r| r.map(|r| format!("{:?}", r.name().map(|n| n.to_string()))).unwrap_or_else(|e| format!("ERR {e}"))).collect();
            println!("{reg}: {names:?}");
        }
    }
    std::fs::remove_file(&path).ok();
}
