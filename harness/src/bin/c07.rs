//! C07: CRAM files round-trip their records and are structurally conformant containers.
//!
//! Implementation-only oracle (L3):
//!   rt   opts refs samhex     write the SAM stream (header + records, as SAM text) with cram::io::Writer under
//!                             `opts`, (a) read it back with cram::io::Reader and compare every record's SAM
//!                             rendering, (b) walk the bytes with the independent container walker
//!                             (shared/c07_walk.rs) and check the container format's invariants.
//!        opts = n=<0|1>;d=<0|1>;rps=<k>;e=<encoder assignments>   (see parse_opts)
//!        refs = name:hexbases,name:hexbases,...
//! Modelled kinds (L2, obs compared with the extracted Coq model):
//!   feat refhex start cigar seqhex qualhex
//!                             one mapped record through writer+reader: obs = "<cigar> <seqhex>" as read back
//!                             (model: NV.CramRec.Features.roundtrip), `Panic` when the writer/reader panics
//!   cont counter nrec bases blocks
//!                             container bookkeeping: `blocks` are the (type,id,csize,rsize) descriptors of a
//!                             container produced by the writer for the spec in the remaining args; obs = the
//!                             header fields the file really carries (model: NV.CramRec.Container)
//!   mates names refs recs     one slice through set_mates/write_mate and read_mate/resolve_mates: obs = the
//!                             FLAG/RNEXT/PNEXT/TLEN columns read back and the CF/NF series of the file
//!                             (model: NV.CramRec.Mates), see shared/c07_mates.rs
//!   big series n len enc target blocks
//!                             large slices whose block sizes sweep the ITF8 width boundaries of the block
//!                             header size fields: walk + round trip, obs = container header fields
//!                             (model: NV.CramRec.Container), see shared/c07_big.rs
//!   shdr rps lns refs recs    a stream of records through the real writer: obs = reference context, record count,
//!                             record counter (and embedded-reference id, MD5 flag) of every container header and
//!                             slice header as read by the independent walker (model: NV.CramRec.SliceHeader),
//!                             see shared/c07_shdr.rs
//!   file rps refs recs        a stream of records cut into slices of rps records through the real writer and reader:
//!                             obs = slice layout of the file + every column of every record read back
//!                             (model: NV.CramRec.File.file_rt / file_layout / rec_cigar / rec_bases), see shared/c07_file.rs
//!   sblk idx blocks opts refs samhex
//!                             block_count / block_content_ids of the slice headers of one written container
//!                             against the blocks that follow them (model: NV.CramRec.SliceBlocks), see
//!                             shared/c07_sblk.rs
//!   mdist refs recs links     HOSTILE mate distances: a written slice whose CF bits / NF values are replaced
//!                             (CRC-sealed) through the real reader's read_mate / resolve_mates: obs = mate columns
//!                             or ReadErr (model: NV.CramRec.File.mdist_rt), see shared/c07_mdist.rs

use std::{collections::HashMap, io::Read as _, panic::AssertUnwindSafe};

use noodles_core::Position;
use noodles_cram::{
    self as cram,
    codecs::{Encoder, aac, rans_4x8, rans_nx16},
    container::{
        BlockContentEncoderMap,
        compression_header::{data_series_encodings::DataSeries, preservation_map::tag_sets::Key},
    },
};
use noodles_fasta as fasta;
use noodles_sam::{
    self as sam,
    alignment::{
        RecordBuf,
        io::Write as _,
        record::{
            Flags,
            cigar::{Op, op::Kind},
            data::field::{Tag, Type},
        },
        record_buf::{Cigar, QualityScores, Sequence},
    },
};
use nv::{Case, CaseWriter, Obs, Outcome, Rng, hex, unhex};

#[path = "../shared/c07_walk.rs"]
mod walk;
use walk::{BlockInfo, ContainerInfo, SliceHeader};

type Fail = (String, String);
fn fail<T>(tag: &str, detail: impl Into<String>) -> Result<T, Fail> {
    Err((tag.to_string(), detail.into()))
}

// ------------------------------------------------------------------------------------------------
// options

#[derive(Clone, Debug)]
struct Opts {
    names: bool,
    deltas: bool,
    rps: usize,
    enc: String,
}

const DS: &[(&str, DataSeries)] = &[
    ("BF", DataSeries::BamFlags),
    ("CF", DataSeries::CramFlags),
    ("RI", DataSeries::ReferenceSequenceIds),
    ("RL", DataSeries::ReadLengths),
    ("AP", DataSeries::AlignmentStarts),
    ("RG", DataSeries::ReadGroupIds),
    ("RN", DataSeries::Names),
    ("MF", DataSeries::MateFlags),
    ("NS", DataSeries::MateReferenceSequenceIds),
    ("NP", DataSeries::MateAlignmentStarts),
    ("TS", DataSeries::TemplateLengths),
    ("NF", DataSeries::MateDistances),
    ("TL", DataSeries::TagSetIds),
    ("FN", DataSeries::FeatureCounts),
    ("FC", DataSeries::FeatureCodes),
    ("FP", DataSeries::FeaturePositionDeltas),
    ("DL", DataSeries::DeletionLengths),
    ("BB", DataSeries::StretchesOfBases),
    ("QQ", DataSeries::StretchesOfQualityScores),
    ("BS", DataSeries::BaseSubstitutionCodes),
    ("IN", DataSeries::InsertionBases),
    ("RS", DataSeries::ReferenceSkipLengths),
    ("PD", DataSeries::PaddingLengths),
    ("HC", DataSeries::HardClipLengths),
    ("SC", DataSeries::SoftClipBases),
    ("MQ", DataSeries::MappingQualities),
    ("BA", DataSeries::Bases),
    ("QS", DataSeries::QualityScores),
];

/// none | gz<level> | bz | xz<level> | r0 | r1 | n<flags> | a<flags> | tok | fqz
fn parse_encoder(s: &str) -> Option<Encoder> {
    if s == "none" {
        None
    } else if let Some(l) = s.strip_prefix("gz") {
        Some(Encoder::Gzip(flate2::Compression::new(l.parse().unwrap())))
    } else if s == "bz" {
        // the bzip2 crate is not a dependency of the harness: the level type is only reachable
        // through Default (level 6)
        Some(Encoder::Bzip2(Default::default()))
    } else if let Some(l) = s.strip_prefix("xz") {
        Some(Encoder::Lzma(l.parse().unwrap()))
    } else if s == "r0" {
        Some(Encoder::Rans4x8(rans_4x8::Order::Zero))
    } else if s == "r1" {
        Some(Encoder::Rans4x8(rans_4x8::Order::One))
    } else if s == "tok" {
        Some(Encoder::NameTokenizer)
    } else if s == "fqz" {
        Some(Encoder::Fqzcomp)
    } else if let Some(f) = s.strip_prefix('n') {
        Some(Encoder::RansNx16(rans_nx16::Flags::from_bits_truncate(f.parse().unwrap())))
    } else if let Some(f) = s.strip_prefix('a') {
        Some(Encoder::AdaptiveArithmeticCoding(aac::Flags::from_bits_truncate(f.parse().unwrap())))
    } else {
        panic!("encoder {s}")
    }
}

fn type_of_char(c: u8) -> Type {
    match c {
        b'A' => Type::Character,
        b'c' => Type::Int8,
        b'C' => Type::UInt8,
        b's' => Type::Int16,
        b'S' => Type::UInt16,
        b'i' => Type::Int32,
        b'I' => Type::UInt32,
        b'f' => Type::Float,
        b'Z' => Type::String,
        b'H' => Type::Hex,
        _ => Type::Array,
    }
}

/// `e=` is `default` (the writer's own default map) or a '+'-separated list of
/// `all:<enc>` (core, default and every data series), `core:<enc>`, `def:<enc>`, `<DS>:<enc>`
/// (two-letter data series), `t.<XX><type>:<enc>` (tag values).
fn build_encoder_map(spec: &str) -> Option<BlockContentEncoderMap> {
    if spec == "default" {
        return None;
    }
    let mut b = BlockContentEncoderMap::builder();
    for item in spec.split('+') {
        let (k, v) = item.split_once(':').expect("k:v");
        let e = parse_encoder(v);
        if k == "all" {
            b = b.set_core_data_encoder(e.clone()).set_default_encoder(e.clone());
            for (_, ds) in DS {
                b = b.set_data_series_encoder(*ds, e.clone());
            }
        } else if k == "core" {
            b = b.set_core_data_encoder(e);
        } else if k == "def" {
            b = b.set_default_encoder(e);
        } else if let Some(t) = k.strip_prefix("t.") {
            let t = t.as_bytes();
            b = b.set_tag_values_encoder(Key::new(Tag::new(t[0], t[1]), type_of_char(t[2])), e);
        } else {
            let ds = DS.iter().find(|(n, _)| *n == k).unwrap_or_else(|| panic!("data series {k}")).1;
            b = b.set_data_series_encoder(ds, e);
        }
    }
    Some(b.build())
}

fn parse_opts(s: &str) -> Opts {
    let mut o = Opts { names: true, deltas: true, rps: 10_000, enc: "default".into() };
    for kv in s.split(';') {
        let (k, v) = kv.split_once('=').expect("k=v");
        match k {
            "n" => o.names = v == "1",
            "d" => o.deltas = v == "1",
            "rps" => o.rps = v.parse().unwrap(),
            "e" => o.enc = v.to_string(),
            _ => panic!("opt {k}"),
        }
    }
    o
}

fn uses_31(enc: &str) -> bool {
    enc.split('+').any(|item| {
        let v = item.split_once(':').map(|x| x.1).unwrap_or("");
        v == "tok" || (v.starts_with('n') && v != "none") || v.starts_with('a')
    })
}

// ------------------------------------------------------------------------------------------------
// references, SAM text

type Refs = Vec<(String, Vec<u8>)>;

fn parse_refs(s: &str) -> Refs {
    if s == "_" {
        return vec![];
    }
    s.split(',')
        .map(|r| {
            let (n, h) = r.split_once(':').unwrap();
            (n.to_string(), unhex(h))
        })
        .collect()
}

fn fmt_refs(refs: &Refs) -> String {
    if refs.is_empty() {
        return "_".into();
    }
    refs.iter().map(|(n, b)| format!("{n}:{}", hex(b))).collect::<Vec<_>>().join(",")
}

fn repository(refs: &Refs) -> fasta::Repository {
    let recs: Vec<fasta::Record> = refs
        .iter()
        .map(|(n, b)| {
            fasta::Record::new(
                fasta::record::Definition::new(n.as_bytes().to_vec(), None),
                fasta::record::Sequence::from(b.clone()),
            )
        })
        .collect();
    fasta::Repository::new(recs)
}

fn parse_sam(text: &[u8]) -> std::io::Result<(sam::Header, Vec<RecordBuf>)> {
    let mut r = sam::io::Reader::new(text);
    let h = r.read_header()?;
    let recs = r.record_bufs(&h).collect::<std::io::Result<Vec<_>>>()?;
    Ok((h, recs))
}

fn sam_line(h: &sam::Header, r: &RecordBuf) -> std::io::Result<Vec<String>> {
    let mut w = sam::io::Writer::new(Vec::new());
    w.write_alignment_record(h, r)?;
    let s = String::from_utf8_lossy(w.get_ref()).trim_end_matches('\n').to_string();
    Ok(s.split('\t').map(|x| x.to_string()).collect())
}

// ------------------------------------------------------------------------------------------------
// writing and reading with the real crates

fn write_cram(o: &Opts, refs: &Refs, h: &sam::Header, recs: &[RecordBuf]) -> std::io::Result<Vec<u8>> {
    let mut b = cram::io::writer::Builder::default()
        .set_reference_sequence_repository(repository(refs))
        .preserve_read_names(o.names)
        .encode_alignment_start_positions_as_deltas(o.deltas)
        .verif_set_records_per_slice(o.rps);
    if let Some(m) = build_encoder_map(&o.enc) {
        b = b.set_block_content_encoder_map(m);
    }
    let mut w = b.build_from_writer(Vec::new());
    w.write_header(h)?;
    for r in recs {
        w.write_alignment_record(h, r)?;
    }
    w.try_finish(h)?;
    Ok(w.into_inner())
}

fn read_cram(refs: &Refs, file: &[u8]) -> std::io::Result<(sam::Header, Vec<RecordBuf>)> {
    let mut r = cram::io::reader::Builder::default()
        .set_reference_sequence_repository(repository(refs))
        .build_from_reader(file);
    let h = r.read_header()?;
    let recs = r.records(&h).collect::<std::io::Result<Vec<_>>>()?;
    Ok((h, recs))
}

// ------------------------------------------------------------------------------------------------
// expected rendering

fn norm_cigar(c: &str) -> String {
    if c == "*" {
        return c.into();
    }
    let mut ops: Vec<(char, u64)> = Vec::new();
    let mut n = 0u64;
    for ch in c.chars() {
        if let Some(d) = ch.to_digit(10) {
            n = n * 10 + d as u64;
        } else {
            let k = if ch == '=' || ch == 'X' { 'M' } else { ch };
            match ops.last_mut() {
                Some((pk, pn)) if *pk == k => *pn += n,
                _ => ops.push((k, n)),
            }
            n = 0;
        }
    }
    ops.iter().map(|(k, n)| format!("{n}{k}")).collect()
}

/// what is known about the input record's position in the slice layout
struct Ctx<'a> {
    o: &'a Opts,
    recs: &'a [RecordBuf],
}

impl Ctx<'_> {
    fn slice_of(&self, i: usize) -> std::ops::Range<usize> {
        let s = i / self.o.rps * self.o.rps;
        s..(s + self.o.rps).min(self.recs.len())
    }
    /// indices of the records of i's slice that set_mates would chain with i (same name,
    /// segmented, not secondary)
    fn chain(&self, i: usize) -> Vec<usize> {
        let r = &self.recs[i];
        let f = r.flags();
        if !f.is_segmented() || f.is_secondary() {
            return vec![i];
        }
        self.slice_of(i)
            .filter(|&j| {
                let g = self.recs[j].flags();
                g.is_segmented() && !g.is_secondary() && self.recs[j].name() == r.name()
            })
            .collect()
    }
}

const F_NAME: usize = 0;
const F_FLAG: usize = 1;
const F_CIGAR: usize = 5;
const F_RNEXT: usize = 6;
const F_PNEXT: usize = 7;
const F_TLEN: usize = 8;
const F_SEQ: usize = 9;
const F_QUAL: usize = 10;
const FIELD_NAMES: [&str; 11] =
    ["name", "flags", "rname", "pos", "mapq", "cigar", "rnext", "pnext", "tlen", "seq", "qual"];

/// compare one record; returns the list of differing SAM columns (index 11 = tags)
fn diff_record(o: &Opts, exp: &[String], act: &[String]) -> Vec<usize> {
    let mut d = Vec::new();
    for k in 0..11 {
        let (e, a) = (&exp[k], &act[k]);
        let same = match k {
            F_NAME => e == a || !o.names || e == "*",
            F_CIGAR => norm_cigar(e) == *a,
            F_SEQ => e.eq_ignore_ascii_case(a),
            _ => e == a,
        };
        if !same {
            d.push(k);
        }
    }
    if exp[11..] != act[11..] {
        d.push(11);
    }
    d
}

fn is_mapped_missing_quals(r: &RecordBuf) -> bool {
    !r.flags().is_unmapped()
        && r.reference_sequence_id().is_some()
        && r.alignment_start().is_some()
        && r.quality_scores().as_ref().is_empty()
        && !r.sequence().is_empty()
}

fn is_missing_quals(r: &RecordBuf) -> bool {
    r.quality_scores().as_ref().is_empty() && !r.sequence().is_empty()
}

fn is_mapped_missing_bases(r: &RecordBuf) -> bool {
    !r.flags().is_unmapped()
        && r.reference_sequence_id().is_some()
        && r.alignment_start().is_some()
        && r.sequence().is_empty()
        && r.cigar().as_ref().iter().any(|op| op.kind().consumes_read())
}

// ------------------------------------------------------------------------------------------------
// the structural oracle (independent walker)

fn decoded_size(file: &[u8], b: &BlockInfo) -> Result<usize, String> {
    let src = &file[b.data.0..b.data.1];
    let declared = b.rsize.max(0) as usize;
    // decoders that take the output buffer: the true size is `declared` iff decoding into
    // `declared` bytes succeeds and decoding into `declared + 1` bytes does not
    fn probe(declared: usize, f: impl Fn(&mut [u8]) -> std::io::Result<()>) -> Result<usize, String> {
        let mut dst = vec![0u8; declared];
        f(&mut dst).map_err(|e| format!("decoding into the declared size failed: {e}"))?;
        let mut dst = vec![0u8; declared + 1];
        match f(&mut dst) {
            Ok(()) => Ok(declared + 1), // at least one more byte than declared
            Err(_) => Ok(declared),
        }
    }
    match b.method {
        0 => Ok(src.len()),
        1 => {
            let mut out = Vec::new();
            flate2::read::MultiGzDecoder::new(src).read_to_end(&mut out).map_err(|e| format!("gzip: {e}"))?;
            Ok(out.len())
        }
        2 => probe(declared, |dst| cram::verif::bzip2_decode(src, dst)),
        3 => probe(declared, |dst| cram::verif::lzma_decode(src, dst)),
        4 => cram::verif::rans_4x8_decode(src).map(|v| v.len()).map_err(|e| format!("rans4x8: {e}")),
        5 => cram::verif::rans_nx16_decode(src, declared).map(|v| v.len()).map_err(|e| format!("ransNx16: {e}")),
        6 => cram::verif::aac_decode(src, declared).map(|v| v.len()).map_err(|e| format!("aac: {e}")),
        7 => cram::verif::fqzcomp_decode(src).map(|v| v.len()).map_err(|e| format!("fqzcomp: {e}")),
        8 => cram::verif::name_tokenizer_decode(src).map(|v| v.len()).map_err(|e| format!("tok: {e}")),
        m => Err(format!("unknown compression method {m}")),
    }
}

fn ref_span_of(r: &RecordBuf) -> usize {
    r.cigar().as_ref().iter().filter(|op| op.kind().consumes_reference()).map(|op| op.len()).sum()
}

struct SliceInfo {
    hdr: SliceHeader,
    /// index (in the container's block list) of the slice header block
    at: usize,
}

fn slices_of(file: &[u8], c: &ContainerInfo) -> Result<Vec<SliceInfo>, Fail> {
    let mut v = Vec::new();
    for (i, b) in c.blocks.iter().enumerate() {
        if b.ctype == 2 {
            if b.method != 0 {
                return fail("walk-slice-header-compressed", format!("container at {}", c.off));
            }
            let hdr = walk::parse_slice_header(&file[b.data.0..b.data.1])
                .map_err(|e| ("walk-slice-header-parse".to_string(), e))?;
            v.push(SliceInfo { hdr, at: i });
        }
    }
    Ok(v)
}

fn check_structure(o: &Opts, refs: &Refs, h: &sam::Header, recs: &[RecordBuf], file: &[u8]) -> Result<(), Fail> {
    let w = walk::walk_file(file).map_err(|e| {
        let tag = if e.starts_with("eof") { "walk-eof-container" } else { "walk-container-length" };
        (tag.to_string(), e)
    })?;
    // the version must be 3.0 or 3.1, and a 3.0 file must not hold a block compressed with a
    // method that only exists in 3.1 (rANS Nx16 = 5, AAC = 6, fqzcomp = 7, name tokenizer = 8)
    if w.major != 3 || w.minor > 1 {
        return fail("walk-version", format!("{}.{}", w.major, w.minor));
    }
    if w.minor == 0 {
        for (ci, c) in w.containers.iter().enumerate() {
            if let Some(b) = c.blocks.iter().find(|b| b.method >= 5) {
                return fail(
                    "cram-version-3.0-file-has-3.1-codec-block",
                    format!("file definition says 3.0 but container {ci} has a block (type {} id {}) with compression method {}", b.ctype, b.cid, b.method),
                );
            }
        }
    }
    let _ = uses_31;
    if w.containers.is_empty() {
        return fail("walk-no-header-container", "");
    }
    let mut next_counter: i64 = 0;
    let mut rec_i = 0usize;
    for (ci, c) in w.containers.iter().enumerate() {
        let at = format!("container {ci} at {}", c.off);
        if !c.crc_ok {
            return fail("walk-container-crc", at);
        }
        if c.slack != 0 {
            return fail("walk-container-length", format!("{at}: {} bytes of the body are not blocks", c.slack));
        }
        let total: usize = c.blocks.iter().map(|b| b.total).sum();
        if total != c.length as usize {
            return fail("walk-container-length", format!("{at}: length {} != sum of block sizes {total}", c.length));
        }
        if c.n_blocks as usize != c.blocks.len() {
            return fail("walk-block-count", format!("{at}: declared {} found {}", c.n_blocks, c.blocks.len()));
        }
        for (bi, b) in c.blocks.iter().enumerate() {
            if !b.crc_ok {
                return fail("walk-block-crc", format!("{at} block {bi}"));
            }
            match decoded_size(file, b) {
                Ok(n) if n == b.rsize as usize => {}
                Ok(n) => {
                    let tag = if b.method == 7 { "cram-fqzcomp-raw-size" } else { "walk-block-raw-size" };
                    return fail(
                        tag,
                        format!(
                            "{at} block {bi} (method {} type {} id {}): declared raw size {} but the data decode to {n} bytes (compressed size {})",
                            b.method, b.ctype, b.cid, b.rsize, b.csize
                        ),
                    );
                }
                Err(e) => return fail("walk-block-undecodable", format!("{at} block {bi} method {}: {e}", b.method)),
            }
        }
        if ci == 0 {
            // file header container: one or more FILE_HEADER blocks, no records
            if c.blocks.is_empty() || c.blocks[0].ctype != 0 {
                return fail("walk-header-container", format!("{at}: first block type {:?}", c.blocks.first().map(|b| b.ctype)));
            }
            if c.n_records != 0 || c.bases != 0 {
                return fail("walk-header-container", format!("{at}: records {} bases {}", c.n_records, c.bases));
            }
            continue;
        }
        // data container
        if c.blocks.is_empty() || c.blocks[0].ctype != 1 || c.blocks[0].method != 0 {
            return fail("walk-compression-header", format!("{at}: first block is not a raw compression header"));
        }
        if c.counter != next_counter {
            return fail("walk-record-counter", format!("{at}: counter {} expected {next_counter}", c.counter));
        }
        let slices = slices_of(file, c)?;
        if slices.is_empty() {
            return fail("walk-no-slice", at);
        }
        // landmarks point at the slice header blocks, in order
        let want: Vec<i32> = slices.iter().map(|s| c.blocks[s.at].rel as i32).collect();
        if c.landmarks != want {
            return fail("walk-landmarks", format!("{at}: {:?} but slice headers are at {:?}", c.landmarks, want));
        }
        let n = c.n_records.max(0) as usize;
        if rec_i + n > recs.len() {
            return fail("walk-record-count", format!("{at}: {} records but only {} remain", n, recs.len() - rec_i));
        }
        let crecs = &recs[rec_i..rec_i + n];
        let bases: usize = crecs.iter().map(|r| r.sequence().len()).sum();
        if c.bases != bases as i64 {
            return fail("walk-base-count", format!("{at}: declared {} expected {bases}", c.bases));
        }
        let mut s_counter = c.counter;
        let mut s_rec = 0usize;
        let mut block_total = 1usize;
        for (si, s) in slices.iter().enumerate() {
            let sat = format!("{at} slice {si}");
            let sh = &s.hdr;
            if sh.counter != s_counter {
                return fail("walk-record-counter", format!("{sat}: counter {} expected {s_counter}", sh.counter));
            }
            let sn = sh.n_records.max(0) as usize;
            if s_rec + sn > crecs.len() {
                return fail("walk-record-count", format!("{sat}: {sn} records exceed the container's {}", crecs.len()));
            }
            // blocks of the slice: core then externals, as listed
            let nb = sh.n_blocks.max(0) as usize;
            let end = slices.get(si + 1).map(|t| t.at).unwrap_or(c.blocks.len());
            if s.at + 1 + nb != end {
                return fail("walk-slice-block-count", format!("{sat}: declares {nb} blocks, {} follow", end - s.at - 1));
            }
            let bl = &c.blocks[s.at + 1..end];
            if bl.is_empty() || bl[0].ctype != 5 {
                return fail("walk-slice-core-block", format!("{sat}: first block type {:?}", bl.first().map(|b| b.ctype)));
            }
            if bl[1..].iter().any(|b| b.ctype != 4) {
                return fail("walk-slice-external-block", format!("{sat}: non external block after the core block"));
            }
            let ids: Vec<i32> = bl.iter().map(|b| b.cid).collect();
            if ids != sh.ids {
                return fail("walk-slice-content-ids", format!("{sat}: header lists {:?}, blocks carry {:?}", sh.ids, ids));
            }
            let mut sorted = ids[1..].to_vec();
            sorted.sort_unstable();
            sorted.dedup();
            if sorted.len() != ids.len() - 1 {
                return fail("walk-slice-content-ids", format!("{sat}: duplicate external content id in {:?}", ids));
            }
            block_total += 1 + nb;
            // reference context against the input records
            let srecs = &crecs[s_rec..s_rec + sn];
            check_slice_context(refs, h, sh, srecs).map_err(|(t, d)| (t, format!("{sat}: {d}")))?;
            if slices.len() == 1 && (c.ref_id, c.start, c.span) != (sh.ref_id, sh.start, sh.span) {
                return fail(
                    "walk-container-context",
                    format!("{sat}: container ({},{},{}) slice ({},{},{})", c.ref_id, c.start, c.span, sh.ref_id, sh.start, sh.span),
                );
            }
            s_counter += sn as i64;
            s_rec += sn;
        }
        if s_rec != n {
            return fail("walk-record-count", format!("{at}: container {} records, slices {}", n, s_rec));
        }
        if block_total != c.blocks.len() {
            return fail("walk-block-count", format!("{at}: 1 + sum(2 + externals) = {block_total} but {} blocks", c.blocks.len()));
        }
        next_counter += n as i64;
        rec_i += n;
    }
    if rec_i != recs.len() {
        return fail("walk-record-count", format!("containers hold {rec_i} records, {} were written", recs.len()));
    }
    Ok(())
}

fn check_slice_context(refs: &Refs, h: &sam::Header, sh: &SliceHeader, srecs: &[RecordBuf]) -> Result<(), Fail> {
    if srecs.is_empty() {
        return fail("walk-empty-slice", "");
    }
    match sh.ref_id {
        -2 => {
            if (sh.start, sh.span) != (0, 0) {
                return fail("walk-slice-context", format!("multi-reference slice with start {} span {}", sh.start, sh.span));
            }
        }
        -1 => {
            if let Some(r) = srecs.iter().find(|r| r.reference_sequence_id().is_some()) {
                return fail(
                    "walk-slice-context",
                    format!("slice declared unmapped holds a record on reference {:?}", r.reference_sequence_id()),
                );
            }
        }
        id if id >= 0 => {
            let id = id as usize;
            if let Some(r) = srecs.iter().find(|r| r.reference_sequence_id() != Some(id)) {
                return fail(
                    "walk-slice-context",
                    format!("slice declared on reference {id} holds a record on {:?}", r.reference_sequence_id()),
                );
            }
            let mut lo = usize::MAX;
            let mut hi = 0usize;
            for r in srecs {
                let Some(st) = r.alignment_start().map(usize::from) else {
                    return fail("walk-slice-context", "single-reference slice holds a record without a position");
                };
                let span = if r.flags().is_unmapped() { r.sequence().len() } else { ref_span_of(r) };
                lo = lo.min(st);
                hi = hi.max(st + span.max(1) - 1);
            }
            let mapped_only = srecs.iter().all(|r| !r.flags().is_unmapped() && ref_span_of(r) > 0);
            if sh.start as usize != lo || (mapped_only && (sh.start + sh.span - 1) as usize != hi) {
                return fail(
                    "walk-slice-context",
                    format!("start {} span {} but the records cover {lo}..={hi}", sh.start, sh.span),
                );
            }
            // reference MD5 over the declared span
            let Some((name, _)) = h.reference_sequences().get_index(id) else {
                return fail("walk-slice-context", format!("reference id {id} not in the header"));
            };
            let Some((_, bases)) = refs.iter().find(|(n, _)| n.as_bytes() == &name[..]) else {
                return fail("walk-slice-context", "reference not in the repository");
            };
            let a = sh.start as usize - 1;
            let b = a + sh.span as usize;
            if b > bases.len() {
                return fail("walk-slice-context", format!("span {}..{} exceeds the reference ({})", a + 1, b, bases.len()));
            }
            let up: Vec<u8> = bases[a..b].iter().map(|c| c.to_ascii_uppercase()).collect();
            if walk::md5(&up) != sh.md5 {
                return fail("walk-slice-md5", format!("reference {id} {}..{}: md5 {} != {}", a + 1, b, hex(&sh.md5), hex(&walk::md5(&up))));
            }
        }
        other => return fail("walk-slice-context", format!("reference id {other}")),
    }
    if sh.embedded != -1 {
        return fail("walk-slice-embedded", format!("embedded reference id {}", sh.embedded));
    }
    Ok(())
}

// ------------------------------------------------------------------------------------------------
// rt

/// verdict of the plain oracle: Ok | Skip (the writer rejected the input with an error) | Fail
enum V {
    Ok,
    Skip(String),
    Fail(Fail),
}

impl V {
    fn key(&self) -> String {
        match self {
            V::Ok => "ok".into(),
            V::Skip(_) => "skip".into(),
            V::Fail((t, _)) => t.clone(),
        }
    }
}

fn run_rt(c: &Case) -> Obs {
    let o = parse_opts(&c.args[0]);
    let refs = parse_refs(&c.args[1]);
    let text = c.b(2);
    let (h, recs) = match parse_sam(&text) {
        Ok(x) => x,
        Err(e) => return Obs::fail("-", "harness-sam-parse", e.to_string()),
    };
    let nontrivial = !recs.is_empty();
    match classify(&o, &refs, &h, &recs) {
        V::Ok => Obs::ok("-", nontrivial),
        V::Skip(_) => Obs { obs: "-".into(), verdict: "skip".into(), nontrivial: false },
        V::Fail((t, d)) => Obs::fail("-", &t, d),
    }
}

fn plain(o: &Opts, refs: &Refs, h: &sam::Header, recs: &[RecordBuf]) -> V {
    let file = match nv::guarded(AssertUnwindSafe(|| write_cram(o, refs, h, recs))) {
        Outcome::Done(Ok(f)) => f,
        // an io::Error from the writer = the input / option combination is not accepted
        Outcome::Done(Err(e)) => return V::Skip(format!("writer error {:?}: {e}", e.kind())),
        Outcome::Panicked(m) => return V::Fail(("write-panic".into(), format!("writer panic: {m}"))),
    };
    // (b) structure: does not depend on noodles' reader
    let structure = match nv::guarded(AssertUnwindSafe(|| check_structure(o, refs, h, recs, &file))) {
        Outcome::Done(r) => r,
        Outcome::Panicked(m) => fail("walk-panic", m),
    };
    // (a) read back
    match (rt_content(o, refs, h, recs, &file), structure) {
        (Err(e), _) => V::Fail(e),
        (Ok(()), Err(e)) => V::Fail(e),
        (Ok(()), Ok(())) => V::Ok,
    }
}

fn has_past_end_unmapped(refs: &Refs, h: &sam::Header) -> impl Fn(&RecordBuf) -> bool {
    let lens: Vec<usize> = h
        .reference_sequences()
        .keys()
        .map(|n| refs.iter().find(|(m, _)| m.as_bytes() == &n[..]).map(|x| x.1.len()).unwrap_or(0))
        .collect();
    move |r: &RecordBuf| {
        r.flags().is_unmapped()
            && match (r.reference_sequence_id(), r.alignment_start()) {
                (Some(id), Some(p)) => usize::from(p) + r.sequence().len().max(1) - 1 > lens[id],
                _ => false,
            }
    }
}

/// The oracle with the cause of a failure derived from the input by counterfactuals: a failure is
/// attributed to an input class only if the same stream *without* that class behaves differently.
fn classify(o: &Opts, refs: &Refs, h: &sam::Header, recs: &[RecordBuf]) -> V {
    let v = plain(o, refs, h, recs);
    let (tag0, detail0) = match &v {
        V::Fail((t, d)) => (t.clone(), d.clone()),
        V::Skip(msg) => return justify_skip(o, refs, h, recs, msg),
        V::Ok => return v,
    };
    let (tag0, detail0) = (&tag0, &detail0);
    if tag0 == "cram-fqzcomp-raw-size" || tag0 == "cram-version-3.0-file-has-3.1-codec-block" || tag0 == "cram-intra-slice-mate-fields-recomputed" {
        return v;
    }
    // 1. block codecs: neutralise one codec class after the other (cumulatively) until the verdict
    //    changes; the class whose removal changed it is the cause
    let mut o_cur = o.clone();
    if o.enc != "all:none" && o.enc != "default" {
        let classes = ["fqzcomp", "name-tokenizer", "aac", "ransnx16", "rans4x8-o1", "rans4x8-o0", "plain"];
        let mut spec = o.enc.clone();
        for class in classes {
            let spec2 = neutralise(&spec, class);
            if spec2 == spec {
                continue;
            }
            let o2 = Opts { enc: spec2.clone(), ..o.clone() };
            let v2 = plain(&o2, refs, h, recs);
            if v2.key() != v.key() {
                if class == "plain" {
                    return V::Fail((format!("codec-dependent-{tag0}"), detail0.clone()));
                }
                let o_blame = Opts { enc: spec.clone(), ..o.clone() };
                if let Some(f) = blame_codec(&o_blame, class, refs, h, recs) {
                    return V::Fail(f);
                }
                return V::Fail((format!("cram-block-codec-{class}"), format!("removing the {class} encoders changes the verdict; {detail0}")));
            }
            spec = spec2;
            o_cur = o2;
        }
    }
    // 2. record classes, *repaired in place* cumulatively (the slice layout is kept: removing a
    //    record would move every later record to another slice and change unrelated behaviour)
    let lens: Vec<usize> = h
        .reference_sequences()
        .keys()
        .map(|n| refs.iter().find(|(m, _)| m.as_bytes() == &n[..]).map(|x| x.1.len()).unwrap_or(0))
        .collect();
    let past_end = has_past_end_unmapped(refs, h);
    let fill_quals = |r: &mut RecordBuf| {
        let n = r.sequence().len();
        *r.quality_scores_mut() = QualityScores::from(vec![40u8; n]);
    };
    type Pred<'a> = Box<dyn Fn(&RecordBuf) -> bool + 'a>;
    type Repair<'a> = Box<dyn Fn(usize, &mut RecordBuf) + 'a>;
    let classes: Vec<(&str, Pred, Repair)> = vec![
        (
            "cram-mapped-read-missing-qualities-panic",
            Box::new(|r: &RecordBuf| is_mapped_missing_quals(r) && tag0 == "write-panic"),
            Box::new(|_, r: &mut RecordBuf| fill_quals(r)),
        ),
        (
            "cram-mapped-read-missing-bases-panic",
            Box::new(|r: &RecordBuf| is_mapped_missing_bases(r) && tag0 == "write-panic"),
            Box::new(|_, r: &mut RecordBuf| {
                let n: usize = r.cigar().as_ref().iter().filter(|op| op.kind().consumes_read()).map(|op| op.len()).sum();
                *r.sequence_mut() = Sequence::from(vec![b'N'; n]);
                fill_quals(r);
            }),
        ),
        (
            "cram-placed-unmapped-read-past-reference-end-panic",
            Box::new(|r: &RecordBuf| past_end(r) && tag0 == "write-panic"),
            Box::new(|_, r: &mut RecordBuf| {
                // shorten the read so that it ends at the last reference base
                let id = r.reference_sequence_id().unwrap();
                let p = usize::from(r.alignment_start().unwrap());
                let keep = (lens[id] + 1).saturating_sub(p).max(1);
                let seq: Vec<u8> = r.sequence().as_ref().iter().copied().take(keep).collect();
                let q: Vec<u8> = r.quality_scores().as_ref().iter().copied().take(keep).collect();
                *r.sequence_mut() = Sequence::from(seq);
                *r.quality_scores_mut() = QualityScores::from(q);
            }),
        ),
        (
            "cram-placed-record-without-bases-span-underflow",
            Box::new(|r: &RecordBuf| {
                (tag0 == "write-panic" || tag0 == "walk-slice-context")
                    && r.reference_sequence_id().is_some()
                    && r.alignment_start().is_some()
                    && r.sequence().is_empty()
                    && ref_span_of(r) == 0
            }),
            Box::new(|_, r: &mut RecordBuf| {
                *r.sequence_mut() = Sequence::from(vec![b'N']);
                fill_quals(r);
            }),
        ),
        ("cram-missing-qualities-stream-desync", Box::new(is_missing_quals), Box::new(|_, r: &mut RecordBuf| fill_quals(r))),
        (
            "cram-missing-name-sentinel",
            Box::new(|r: &RecordBuf| r.name().is_none()),
            Box::new(|i, r: &mut RecordBuf| *r.name_mut() = Some(format!("nv.unnamed.{i}").into())),
        ),
        (
            "cram-empty-sequence-external-block-dropped",
            Box::new(|r: &RecordBuf| r.sequence().is_empty()),
            Box::new(|_, r: &mut RecordBuf| {
                if r.flags().is_unmapped() {
                    *r.sequence_mut() = Sequence::from(vec![b'N']);
                    fill_quals(r);
                }
            }),
        ),
    ];
    let mut cur: Vec<RecordBuf> = recs.to_vec();
    let mut vcur_key = plain(&o_cur, refs, h, &cur).key();
    for (tag, pred, repair) in &classes {
        if !cur.iter().any(|r| pred(r)) {
            continue;
        }
        let mut next = cur.clone();
        for (i, r) in next.iter_mut().enumerate() {
            if pred(r) {
                repair(i, r);
            }
        }
        let vn = plain(&o_cur, refs, h, &next);
        if vn.key() != vcur_key {
            return V::Fail((tag.to_string(), detail0.clone()));
        }
        cur = next;
        vcur_key = vn.key();
    }
    drop(classes);
    v
}

/// A writer error means "not accepted" (skip) only if the input gives a reason for it: a mapped
/// record whose SEQ is `*` although its CIGAR consumes bases (rejected with InvalidInput since
/// /repo 9757af4), or a block codec that refuses a payload (rANS 4x8 order 1 on < 4 bytes).  The
/// same stream with those records given bases and without compression must be accepted; a writer
/// that still rejects it rejects a well-formed stream, which is a failure of the property.
fn justify_skip(o: &Opts, refs: &Refs, h: &sam::Header, recs: &[RecordBuf], msg: &str) -> V {
    let o2 = Opts { enc: "all:none".into(), ..o.clone() };
    // (since /repo 0049c20 a mapped record with SEQ `*` is accepted: it is no reason to refuse a stream)
    let recs2 = recs.to_vec();
    match plain(&o2, refs, h, &recs2) {
        V::Skip(m2) => V::Fail(("write-rejected-well-formed-stream".into(), format!("{msg}; still rejected without compression: {m2}"))),
        _ => V::Skip(msg.to_string()),
    }
}

/// content id -> the encoder assigned by `spec` (mirrors BlockContentEncoderMap lookups)
fn effective_encoder(spec: &str, ctype: u8, cid: i32) -> String {
    if spec == "default" {
        return "gz6".into();
    }
    let mut core = "gz6".to_string();
    let mut def = "gz6".to_string();
    let mut ds: HashMap<i32, String> = (1..=30).map(|i| (i, "gz6".to_string())).collect();
    let mut tags: HashMap<i32, String> = HashMap::new();
    for item in spec.split('+') {
        let (k, v) = item.split_once(':').unwrap();
        if k == "all" {
            core = v.into();
            def = v.into();
            for i in 1..=28 {
                ds.insert(i, v.into());
            }
        } else if k == "core" {
            core = v.into();
        } else if k == "def" {
            def = v.into();
        } else if let Some(t) = k.strip_prefix("t.") {
            let t = t.as_bytes();
            tags.insert(((t[0] as i32) << 16) | ((t[1] as i32) << 8) | t[2] as i32, v.into());
        } else {
            let i = DS.iter().position(|(n, _)| *n == k).unwrap() as i32 + 1;
            ds.insert(i, v.into());
        }
    }
    if ctype == 5 {
        core
    } else if (1..=30).contains(&cid) {
        ds[&cid].clone()
    } else if let Some(e) = tags.get(&cid) {
        e.clone()
    } else {
        def
    }
}

fn codec_class(enc: &str) -> &'static str {
    match enc {
        "r0" => "rans4x8-o0",
        "r1" => "rans4x8-o1",
        "tok" => "name-tokenizer",
        "fqz" => "fqzcomp",
        e if e.starts_with('n') && e != "none" => "ransnx16",
        e if e.starts_with('a') => "aac",
        _ => "plain",
    }
}

/// encode + decode one payload directly through noodles_cram::verif
fn codec_roundtrip(enc: &str, p: &[u8], lens: &[usize]) -> Result<(), String> {
    let r = nv::guarded(AssertUnwindSafe(|| -> std::io::Result<Option<Vec<u8>>> {
        Ok(Some(match codec_class(enc) {
            "rans4x8-o0" => cram::verif::rans_4x8_decode(&cram::verif::rans_4x8_encode(rans_4x8::Order::Zero, p)?)?,
            "rans4x8-o1" => cram::verif::rans_4x8_decode(&cram::verif::rans_4x8_encode(rans_4x8::Order::One, p)?)?,
            "name-tokenizer" => cram::verif::name_tokenizer_decode(&cram::verif::name_tokenizer_encode(p)?)?,
            "fqzcomp" => cram::verif::fqzcomp_decode(&cram::verif::fqzcomp_encode(lens, p)?)?,
            "ransnx16" => {
                let f = rans_nx16::Flags::from_bits_truncate(enc[1..].parse().unwrap());
                cram::verif::rans_nx16_decode(&cram::verif::rans_nx16_encode(f, p)?, p.len())?
            }
            "aac" => {
                let f = aac::Flags::from_bits_truncate(enc[1..].parse().unwrap());
                cram::verif::aac_decode(&cram::verif::aac_encode(f, p)?, p.len())?
            }
            _ => return Ok(None),
        }))
    }));
    match r {
        Outcome::Done(Ok(None)) => Ok(()),
        Outcome::Done(Ok(Some(d))) if d == p => Ok(()),
        Outcome::Done(Ok(Some(d))) => Err(format!("decode(encode(x)) != x ({} -> {} bytes)", p.len(), d.len())),
        Outcome::Done(Err(e)) => Err(format!("error {:?}: {e}", e.kind())),
        Outcome::Panicked(m) => Err(format!("panic: {m}")),
    }
}

/// Finds a block payload (of the uncompressed rendition of the same stream) that its assigned
/// codec does not round-trip when driven directly.
/// every encoder of `class` in the spec replaced by `none`
fn neutralise(spec: &str, class: &str) -> String {
    spec.split('+')
        .map(|item| {
            let (k, v) = item.split_once(':').unwrap();
            let is = if class == "plain" { v != "none" } else { codec_class(v) == class };
            if is { format!("{k}:none") } else { item.to_string() }
        })
        .collect::<Vec<_>>()
        .join("+")
}

fn blame_codec(o: &Opts, class: &str, refs: &Refs, h: &sam::Header, recs: &[RecordBuf]) -> Option<Fail> {
    let o2 = Opts { enc: "all:none".into(), ..o.clone() };
    let file = match nv::guarded(AssertUnwindSafe(|| write_cram(&o2, refs, h, recs))) {
        Outcome::Done(Ok(f)) => f,
        _ => return None,
    };
    let w = walk::walk_file(&file).ok()?;
    let mut rec_i = 0usize;
    for c in w.containers.iter().skip(1) {
        let n = c.n_records.max(0) as usize;
        let lens: Vec<usize> = recs.get(rec_i..rec_i + n)?.iter().map(|r| r.sequence().len()).collect();
        rec_i += n;
        for b in &c.blocks {
            if b.ctype != 4 && b.ctype != 5 {
                continue;
            }
            let enc = effective_encoder(&o.enc, b.ctype, b.cid);
            if codec_class(&enc) != class || (enc == "fqz" && b.cid != 28) {
                continue;
            }
            let p = &file[b.data.0..b.data.1];
            if enc == "fqz" && p.len() != lens.iter().sum::<usize>() {
                // ReadBase features put their quality score in the QS series too: the payload is
                // not the concatenation of the per-record arrays fqzcomp is told about
                return Some((
                    "cram-fqzcomp-readbase-qualities-in-qs".into(),
                    format!(
                        "QS payload of {} bytes for records whose read lengths sum to {} (fqzcomp::encode(lens, src) needs them equal)",
                        p.len(),
                        lens.iter().sum::<usize>()
                    ),
                ));
            }
            if let Err(e) = codec_roundtrip(&enc, p, &lens) {
                return Some((
                    format!("cram-block-codec-{}", codec_class(&enc)),
                    format!(
                        "encoder {enc} on the {}-byte payload of block type {} content id {} ({}): {e}",
                        p.len(),
                        b.ctype,
                        b.cid,
                        hex(&p[..p.len().min(48)])
                    ),
                ));
            }
        }
    }
    None
}

fn rt_content(o: &Opts, refs: &Refs, h: &sam::Header, recs: &[RecordBuf], file: &[u8]) -> Result<(), Fail> {
    let (h2, back) = match nv::guarded(AssertUnwindSafe(|| read_cram(refs, file))) {
        Outcome::Done(Ok(x)) => x,
        Outcome::Done(Err(e)) => return fail("read-failed", format!("reader error {:?}: {e}", e.kind())),
        Outcome::Panicked(m) => return fail("read-panic", format!("reader panic: {m}")),
    };
    if h2.reference_sequences().len() != h.reference_sequences().len() {
        return fail("rt-header", "reference sequence dictionary changed");
    }
    if back.len() != recs.len() {
        return fail("rt-record-count", format!("wrote {} read {}", recs.len(), back.len()));
    }
    let ctx = Ctx { o, recs };
    for (i, (e, a)) in recs.iter().zip(&back).enumerate() {
        let el = sam_line(h, e).map_err(|x| ("harness-sam-render".to_string(), x.to_string()))?;
        let al = match sam_line(&h2, a) {
            Ok(l) => l,
            Err(x) => {
                return fail(
                    "rt-unrenderable",
                    format!("record {i}: {x}: name {:?} flags {:?} cigar {:?}", a.name(), a.flags(), a.cigar()),
                );
            }
        };
        let mut d = diff_record(o, &el, &al);
        if e.flags().is_unmapped() {
            // CRAM stores no mapping quality for unmapped records
            d.retain(|&k| k != 4);
        }
        if d.is_empty() {
            continue;
        }
        let names: Vec<&str> = d.iter().map(|&k| if k < 11 { FIELD_NAMES[k] } else { "tags" }).collect();
        let detail = format!("record {i} differs in {}: wrote [{}] read [{}]", names.join(","), el.join(" "), al.join(" "));
        let mate_cols = [F_FLAG, F_RNEXT, F_PNEXT, F_TLEN];
        // known class: an in-slice chain that is not a plain pair (both mapped, one reference, the
        // first record in file order leftmost, no supplementary member)
        let ch = ctx.chain(i);
        let plain_pair = ch.len() == 2 && {
            let (x, y) = (&recs[ch[0]], &recs[ch[1]]);
            !x.flags().is_unmapped()
                && !y.flags().is_unmapped()
                && !x.flags().is_supplementary()
                && !y.flags().is_supplementary()
                && x.reference_sequence_id().is_some()
                && x.reference_sequence_id() == y.reference_sequence_id()
                && (x.alignment_start() < y.alignment_start()
                    || (x.alignment_start() == y.alignment_start() && x.template_length() >= 0))
                && x.mate_alignment_start() == y.alignment_start()
                && y.mate_alignment_start() == x.alignment_start()
                && x.mate_reference_sequence_id() == y.reference_sequence_id()
                && y.mate_reference_sequence_id() == x.reference_sequence_id()
        };
        // class: a record that is not flagged unmapped, has bases and no CIGAR is stored as one
        // soft clip (/repo fe42e80, a591b36) and reads back with CIGAR <len>S, everything else equal
        if d == [F_CIGAR] && !e.flags().is_unmapped() && el[F_CIGAR] == "*" && el[F_SEQ] != "*" && al[F_CIGAR] == format!("{}S", e.sequence().len()) {
            return fail("cram-missing-cigar-with-bases-reads-back-as-soft-clip", detail);
        }
        if d.iter().all(|k| mate_cols.contains(k)) && ch.len() >= 2 && !plain_pair {
            return fail("cram-intra-slice-mate-fields-recomputed", detail);
        }
        return fail(&format!("rt-{}", names[0]), detail);
    }
    Ok(())
}

// ------------------------------------------------------------------------------------------------
// feat (L2)

fn parse_cigar(s: &str) -> Vec<Op> {
    let mut ops = Vec::new();
    if s == "*" || s == "_" {
        return ops;
    }
    let mut n = 0usize;
    for ch in s.chars() {
        if let Some(d) = ch.to_digit(10) {
            n = n * 10 + d as usize;
        } else {
            let k = match ch {
                'M' => Kind::Match,
                'I' => Kind::Insertion,
                'D' => Kind::Deletion,
                'N' => Kind::Skip,
                'S' => Kind::SoftClip,
                'H' => Kind::HardClip,
                'P' => Kind::Pad,
                '=' => Kind::SequenceMatch,
                'X' => Kind::SequenceMismatch,
                _ => panic!("cigar op {ch}"),
            };
            ops.push(Op::new(k, n));
            n = 0;
        }
    }
    ops
}

fn kind_char(k: Kind) -> char {
    match k {
        Kind::Match => 'M',
        Kind::Insertion => 'I',
        Kind::Deletion => 'D',
        Kind::Skip => 'N',
        Kind::SoftClip => 'S',
        Kind::HardClip => 'H',
        Kind::Pad => 'P',
        Kind::SequenceMatch => '=',
        Kind::SequenceMismatch => 'X',
    }
}

fn run_feat(c: &Case) -> Obs {
    let refb = c.b(0);
    let start = c.u(1) as usize;
    let ops = parse_cigar(&c.args[2]);
    let seq = c.b(3);
    let qual = c.b(4);
    let refs: Refs = vec![("r".into(), refb.clone())];
    let h = sam::Header::builder()
        .add_reference_sequence(
            "r",
            sam::header::record::value::Map::<sam::header::record::value::map::ReferenceSequence>::new(
                std::num::NonZeroUsize::new(refb.len().max(1)).unwrap(),
            ),
        )
        .build();
    let rec = RecordBuf::builder()
        .set_name("q")
        .set_flags(Flags::empty())
        .set_reference_sequence_id(0)
        .set_alignment_start(Position::new(start).expect("start >= 1"))
        .set_cigar(ops.iter().copied().collect::<Cigar>())
        .set_sequence(Sequence::from(seq.clone()))
        .set_quality_scores(QualityScores::from(qual.clone()))
        .build();
    let o = Opts { names: true, deltas: true, rps: 10, enc: "all:none".into() };
    let recs = vec![rec];
    let res = nv::guarded(AssertUnwindSafe(|| -> std::io::Result<String> {
        let file = write_cram(&o, &refs, &h, &recs)?;
        let (_, back) = read_cram(&refs, &file)?;
        let r = &back[0];
        let cig: String = r.cigar().as_ref().iter().map(|op| format!("{}{}", op.len(), kind_char(op.kind()))).collect();
        Ok(format!("{} {}", if cig.is_empty() { "_".into() } else { cig }, hex(r.sequence().as_ref())))
    }));
    let obs = match res {
        Outcome::Done(Ok(s)) => s,
        Outcome::Done(Err(e)) => format!("Err:{}", nv::errkind(&e)),
        Outcome::Panicked(_) => "Panic".into(),
    };
    // L3 on the same case: when the read is well formed the read-back CIGAR/bases must equal the input
    let read_len: usize = ops.iter().filter(|op| op.kind().consumes_read()).map(|op| op.len()).sum();
    let ref_len: usize = ops.iter().filter(|op| op.kind().consumes_reference()).map(|op| op.len()).sum();
    let well_formed = read_len == seq.len()
        && !seq.is_empty()
        && start + ref_len <= refb.len() + 1
        && ops.iter().all(|op| op.len() > 0)
        && (qual.is_empty() || qual.len() == seq.len());
    let verdict = if well_formed {
        let cig_in: String = ops.iter().map(|op| format!("{}{}", op.len(), kind_char(op.kind()))).collect();
        let want_c = norm_cigar(&cig_in);
        match obs.split_once(' ') {
            Some((cg, sq)) if cg == want_c && unhex(sq).eq_ignore_ascii_case(&seq) => Ok(()),
            _ => {
                // a NUL byte among the bases of a soft clip, or of an insertion of two or more bases:
                // those bases travel in a NUL-terminated byte array series (SC / IN)
                let mut p = 0usize;
                let mut nul = false;
                for op in &ops {
                    if op.kind().consumes_read() {
                        let e = (p + op.len()).min(seq.len());
                        let arr = op.kind() == Kind::SoftClip || (op.kind() == Kind::Insertion && op.len() >= 2);
                        if arr && p < e && seq[p..e].contains(&0) {
                            nul = true;
                        }
                        p += op.len();
                    }
                }
                if nul && obs == "Err:InvalidInput" {
                    // /repo refuses the value (fix 10): nothing is written, nothing is lost
                    return Obs::ok(obs, false);
                }
                fail(
                    if nul { "cram-clip-or-insertion-base-nul-byte-cuts-feature" } else { "feat-roundtrip" },
                    format!("cigar {cig_in} seq {} -> {obs}", hex(&seq)),
                )
            }
        }
    } else {
        Ok(())
    };
    Obs::ok(obs, well_formed).with_verdict(verdict)
}

// ------------------------------------------------------------------------------------------------
// cont (L2 for the container bookkeeping)

fn describe_blocks(c: &ContainerInfo) -> String {
    // slices are separated by '/', the compression header block comes first
    let mut s = String::new();
    for (i, b) in c.blocks.iter().enumerate() {
        if i > 0 {
            s.push(if b.ctype == 2 { '/' } else { ',' });
        }
        s.push_str(&format!("{}:{}:{}:{}", b.ctype, b.cid, b.csize, b.rsize));
    }
    s
}

fn cont_obs(c: &ContainerInfo) -> String {
    format!(
        "len={} blocks={} landmarks={}",
        c.length,
        c.n_blocks,
        c.landmarks.iter().map(|x| x.to_string()).collect::<Vec<_>>().join(",")
    )
}

/// canonical order for the model: within a slice the external blocks are sorted by content id
/// (the writer emits them in HashMap order, which differs between processes)
fn sorted_container(c: &ContainerInfo) -> ContainerInfo {
    let mut c = c.clone();
    let mut i = 0;
    while i < c.blocks.len() {
        if c.blocks[i].ctype == 4 {
            let mut j = i;
            while j < c.blocks.len() && c.blocks[j].ctype == 4 {
                j += 1;
            }
            c.blocks[i..j].sort_by_key(|b| b.cid);
            i = j;
        } else {
            i += 1;
        }
    }
    c
}

fn run_cont(c: &Case) -> Obs {
    // args: index, blocks (for the model), then the rt spec
    let idx = c.u(0) as usize;
    let o = parse_opts(&c.args[2]);
    let refs = parse_refs(&c.args[3]);
    let text = c.b(4);
    let res = nv::guarded(AssertUnwindSafe(|| -> Result<String, String> {
        let (h, recs) = parse_sam(&text).map_err(|e| e.to_string())?;
        let file = write_cram(&o, &refs, &h, &recs).map_err(|e| e.to_string())?;
        let w = walk::walk_file(&file)?;
        let ci = w.containers.get(idx).ok_or("no such container")?;
        let sc = sorted_container(ci);
        if describe_blocks(&sc) != c.args[1] {
            return Err(format!("block descriptors changed: {}", describe_blocks(&sc)));
        }
        Ok(cont_obs(ci))
    }));
    match res {
        Outcome::Done(Ok(s)) => Obs::ok(s, true),
        Outcome::Done(Err(e)) => Obs::fail("Err", "cont-regenerate", e),
        Outcome::Panicked(m) => Obs::fail("Panic", "cont-regenerate", m),
    }
}

// ------------------------------------------------------------------------------------------------
// generation

#[path = "../shared/c07_gen.rs"]
mod cgen;

#[path = "../shared/c07_mates.rs"]
mod mates;

#[path = "../shared/c07_shdr.rs"]
mod shdr;

#[path = "../shared/c07_big.rs"]
mod big;

#[path = "../shared/c07_file.rs"]
mod cfile;

#[path = "../shared/c07_mdist.rs"]
mod c07_mdist;

#[path = "../shared/c07_sblk.rs"]
mod sblk;

fn generate(rng: &mut Rng, tier: &str, w: &mut CaseWriter) {
    cgen::generate(rng, tier, w);
    let n_mates = if tier == "thorough" { 15000 } else { 700 };
    for _ in 0..n_mates {
        mates::push_mates(rng, w);
    }
    let n_shdr = if tier == "thorough" { 12000 } else { 600 };
    for _ in 0..n_shdr {
        shdr::push_shdr(rng, w);
    }
    big::push_big(rng, tier, w);
    let n_file = if tier == "thorough" { 10000 } else { 500 };
    for _ in 0..n_file {
        cfile::push_file(rng, w);
    }
    let n_mdist = if tier == "thorough" { 10000 } else { 500 };
    for _ in 0..n_mdist {
        c07_mdist::push_mdist(rng, w);
    }
}

fn run(c: &Case) -> Obs {
    match c.kind.as_str() {
        "rt" => run_rt(c),
        "feat" => run_feat(c),
        "cont" => run_cont(c),
        "mates" => mates::run_mates(c),
        "shdr" => shdr::run_shdr(c),
        "big" => big::run_big(c),
        "file" => cfile::run_file(c),
        "mdist" => c07_mdist::run_mdist(c),
        "sblk" => sblk::run_sblk(c),
        k => Obs::fail("-", "harness-unknown-kind", k),
    }
}

fn main() {
    nv::main_with(generate, run)
}

