//! C02: BGZF virtual positions name bytes — tell / seek / gzi are mutually consistent.
//!
//! Modelled kinds (obs compared with the extracted Coq model NV.Bgzf.{Vpos,Gzi,ReaderOps}):
//!   hist rd|ix <frames> <gzi> <ops>   a history of reader calls over a file assembled from the
//!                                     frame specs; obs = per op `<result>@<virtual position>`
//!   vp   c1 u1 c2 u2                  VirtualPosition::try_from, compressed/uncompressed, Ord
//!   gzi  <entries> <pos>              gzi::Index::query (sorted AND hostile indexes; model =
//!                                     GziBs.gzi_query_bs, the exact binary search of core::slice)
//!   pp   <bits>                       slice::partition_point on a boolean slice (`_` = empty)
//!   hidx rd|ix <frames> <gzi> <ops>   as hist, over a HOSTILE gzi index of the file (model run_bs;
//!                                     the verdict only demands the absence of panics)
//!   hread <filehex> <n,n,...>         a fresh Reader over damaged bytes, read calls (< 65536-byte
//!                                     buffers) that go on after errors; obs = per call
//!                                     `<count|Err>@<position told>`; model = SeekBytes.hread_run
//!   hseek <frames|_> <filehex> <ops> <c>:<u>   a valid history, then ONE seek to an arbitrary
//!                                     virtual position; obs = `<seek result>@<position told>`;
//!                                     model = NV.Bgzf.SeekBytes.hseek_run (byte-level seek with
//!                                     C01's frame parser, CRC-32 and inflater)
//!   wtm  <level> <finish> <ops> <n> <tbl>  writer history as in wtell; obs = per told position
//!                                     `<c>:<u>=<seek result>><bytes read to the end with an n-byte
//!                                     buffer by a fresh Reader sought there>`, compared with
//!                                     NV.Bgzf.WriterTell.wtell_run (C01's writer model + sink_file +
//!                                     the reader model); <tbl> = `isize:digest:cdata_len` per data
//!                                     frame of the real output = the DEFLATE size oracle of the model
//!   hrs  <filehex> <ops>              a fresh Reader over damaged / nested bytes, `r<n>` reads and
//!                                     `k<c>:<u>` seeks that go on after errors, failed seeks and seeks
//!                                     onto bytes that merely parse as a frame; obs = per call
//!                                     `<count|position sought|Err>@<position told>`; model = SeekBytes.hrs_run
//!   hshifts <filehex> <ops1> <mid> <ops2>  the SHIFT theorem with further SEEKS in the continuation
//!                                     (c02_seek_to_told_position_shift_ops): as hshift, ops2 = reads and
//!                                     seeks; model = SeekBytesShiftOps.hshiftops_run
//!   hshift <filehex> <ops1> <mid> <ns>  the SHIFT theorem (c02_seek_to_told_position_shift): reader A
//!                                     (fresh) runs <ops1> (`r<n>` / `k<c>:<u>`), tells v, then reads
//!                                     <ns>; reader B (fresh, same bytes) runs <mid> (anything, also
//!                                     failing calls), seeks to v, then reads <ns>.  obs = `<rows of
//!                                     ops1> | <v> | <A's rows> | <seek result>@<told> | <B's rows>`;
//!                                     model = SeekBytesShift.hshift_run.  Property side (on the REAL
//!                                     rows and the REAL bytes delivered): ops1 error-free and seek Ok
//!                                     => B's rows and data == A's; in-block offset > 0 => seek Ok and
//!                                     tells v
//!   hreloc <filehex> <mid> <c>:<u> <ns>  the RELOCATION form (c02_seek_then_reads_relocated): reader B
//!                                     (fresh) runs <mid>, seeks to (c,u), reads <ns>; reader C is a
//!                                     fresh Reader over the bytes from c on, seeks to (0,u), reads
//!                                     <ns>.  obs = `<B's seek>@<told> | <B's rows> | <C's seek>@<told>
//!                                     | <C's rows> | <C's told moved by c> | <C's rows moved by c>`;
//!                                     model = SeekBytesReloc.hreloc_run.  Property side (REAL rows and
//!                                     bytes): B's seek Ok => C's seek Ok, B's told position and rows
//!                                     == C's moved by c, same bytes delivered
//!   wfs  <level> <finish> <ops> <n> <faults> <tbl>  writer history (ops as wtm plus `t` = try_finish)
//!                                     over nv::adversary::FaultySink with the fault script <faults>
//!                                     (`F` full, `S<k>` short, `I` interrupted, `E<code>` failure of
//!                                     kind FAULT_KINDS[code], one event per inner write call); the
//!                                     calls go on after an Err.  obs = per call
//!                                     `<result>@<position told>#<inner.len()>`, then
//!                                     `|<ending> <position()> <inner.len()>|`, then - when the ending
//!                                     returned Ok and the file splits into frames - per told position
//!                                     the wtm row (`?>?` when it lies inside a frame); model =
//!                                     NV.Bgzf.WriterTellSink.fwtell_run over C14's NV.Sinks.Sink
//! Implementation-only oracles (obs `-`):
//!   hist mt ...                       the same histories over MultithreadedReader
//!   wtell <level> <finish> <ops>      Writer::virtual_position() sampled between write/flush
//!                                     calls, each sample sought to in the finished file
//!
//! frame spec   `<method>:<len>:<a>:<m>:<csize>` joined by `,` (`_` = no frames);
//!              data byte i = (a + i*m) mod 251; method `w<L>` = bgzf::io::Writer at level L
//!              (write_all + flush), `h<L>` = hand-framed around a raw DEFLATE stream of flate2 at
//!              level L, `e` = the 28-byte EOF marker.  csize is the frame's size in the file.
//! gzi          `c:u` pairs joined by `,` (`_` = empty index)
//! ops          `r<n>` read, `x<n>` read_exact, `s<n>` std default read_exact, `f` fill_buf,
//!              `c<n>` consume, `k<c>:<u>` seek(virtual position), `u<off>` seek by uncompressed
//!              offset through the index, `a<n>` read to the end with an n-byte buffer (read until a
//!              call returns 0 bytes)
//!
//! The verdict column is the property evaluated against a flat `Vec<u8>` reference with a window
//! (see `Flat`): bytes returned by every call, the flat offset denoted by virtual_position() after
//! every call, monotonicity without seeks, and fresh-reader probes (seek to a reported position,
//! read to the end).

use std::{
    io::{self, BufRead, Cursor, Read, SeekFrom, Write},
    panic::AssertUnwindSafe,
};

use noodles_bgzf::{self as bgzf, VirtualPosition as VP, gzi};
use nv::{Case, CaseWriter, Obs, Outcome, Rng, errkind, guarded, hex};

const MASK: u64 = (1 << 62) - 1;
fn mix(h: u64, v: u64) -> u64 {
    h.wrapping_mul(1_000_003).wrapping_add(v).wrapping_add(1) & MASK
}

const SENTINEL: u8 = 0xaa;
const MAX_ISIZE: usize = 65536;

// -------------------------------------------------------------------------------------------
// frames

#[derive(Clone, Debug)]
struct FSpec {
    method: String,
    len: usize,
    a: u64,
    m: u64,
    csize: usize,
}

fn pattern(len: usize, a: u64, m: u64) -> Vec<u8> {
    (0..len as u64).map(|i| ((a + i * m) % 251) as u8).collect()
}

const EOF_MARKER: [u8; 28] = [
    0x1f, 0x8b, 0x08, 0x04, 0x00, 0x00, 0x00, 0x00, 0x00, 0xff, 0x06, 0x00, 0x42, 0x43, 0x02, 0x00, 0x1b, 0x00,
    0x03, 0x00, 0x00, 0x00, 0x00, 0x00, 0x00, 0x00, 0x00, 0x00,
];

fn hand_frame(data: &[u8], level: u32) -> Vec<u8> {
    let mut enc = flate2::write::DeflateEncoder::new(Vec::new(), flate2::Compression::new(level));
    enc.write_all(data).unwrap();
    let cdata = enc.finish().unwrap();
    let mut crc = flate2::Crc::new();
    crc.update(data);
    let total = 18 + cdata.len() + 8;
    assert!(total <= 65536, "hand frame too large: {total}");
    let mut f = vec![0x1f, 0x8b, 0x08, 0x04, 0, 0, 0, 0, 0x00, 0xff, 0x06, 0x00, 0x42, 0x43, 0x02, 0x00];
    f.extend_from_slice(&((total - 1) as u16).to_le_bytes());
    f.extend_from_slice(&cdata);
    f.extend_from_slice(&crc.sum().to_le_bytes());
    f.extend_from_slice(&(data.len() as u32).to_le_bytes());
    f
}

fn writer_frame(data: &[u8], level: u8) -> Vec<u8> {
    let lvl = bgzf::io::writer::CompressionLevel::new(level).unwrap();
    let mut w = bgzf::io::writer::Builder::default()
        .set_compression_level(lvl)
        .build_from_writer(Vec::new());
    w.write_all(data).unwrap();
    w.flush().unwrap();
    w.into_inner()
}

fn build_frame(method: &str, data: &[u8]) -> Vec<u8> {
    match method.as_bytes()[0] {
        b'e' => EOF_MARKER.to_vec(),
        b'h' => hand_frame(data, method[1..].parse().unwrap()),
        b'w' => writer_frame(data, method[1..].parse().unwrap()),
        _ => panic!("method {method}"),
    }
}

fn fmt_frames(fs: &[FSpec]) -> String {
    if fs.is_empty() {
        return "_".into();
    }
    fs.iter()
        .map(|f| format!("{}:{}:{}:{}:{}", f.method, f.len, f.a, f.m, f.csize))
        .collect::<Vec<_>>()
        .join(",")
}

fn parse_frames(s: &str) -> Vec<FSpec> {
    if s == "_" {
        return vec![];
    }
    s.split(',')
        .map(|p| {
            let q: Vec<&str> = p.split(':').collect();
            FSpec {
                method: q[0].into(),
                len: q[1].parse().unwrap(),
                a: q[2].parse().unwrap(),
                m: q[3].parse().unwrap(),
                csize: q[4].parse().unwrap(),
            }
        })
        .collect()
}

/// The assembled file and its frame table.
struct Layout {
    bytes: Vec<u8>,
    d: Vec<u8>,
    /// per frame: (compressed offset, flat start, data length)
    tbl: Vec<(u64, usize, usize)>,
    file_len: u64,
}

fn assemble(fs: &[FSpec]) -> Layout {
    let (mut bytes, mut d, mut tbl) = (Vec::new(), Vec::new(), Vec::new());
    for f in fs {
        let data = pattern(f.len, f.a, f.m);
        let fr = build_frame(&f.method, &data);
        assert_eq!(fr.len(), f.csize, "frame size differs from the case's csize");
        // independent framing check: BSIZE + 1 and ISIZE as stored in the frame
        assert_eq!(u16::from_le_bytes([fr[16], fr[17]]) as usize + 1, fr.len());
        assert_eq!(u32::from_le_bytes(fr[fr.len() - 4..].try_into().unwrap()) as usize, f.len);
        tbl.push((bytes.len() as u64, d.len(), f.len));
        bytes.extend_from_slice(&fr);
        d.extend_from_slice(&data);
    }
    let file_len = bytes.len() as u64;
    Layout { bytes, d, tbl, file_len }
}

impl Layout {
    /// flat offset named by (c, u), if it is a byte-boundary position of this file
    fn denote(&self, c: u64, u: u16) -> Option<usize> {
        if c == self.file_len {
            return (u == 0).then_some(self.d.len());
        }
        let k = self.tbl.binary_search_by_key(&c, |t| t.0).ok()?;
        (usize::from(u) <= self.tbl[k].2).then(|| self.tbl[k].1 + usize::from(u))
    }
    fn trailing_empty(&self) -> bool {
        self.tbl.last().is_none_or(|t| t.2 == 0)
    }
    fn full_index(&self) -> Vec<(u64, u64)> {
        self.tbl.iter().skip(1).map(|t| (t.0, t.1 as u64)).collect()
    }
}

// -------------------------------------------------------------------------------------------
// ops

#[derive(Clone, Copy, Debug, PartialEq)]
enum Op {
    Read(usize),
    Exact(usize),
    ExactStd(usize),
    Fill,
    Consume(usize),
    Seek(u64, u16),
    SeekU(u64),
    /// read to the end: `read` with an n-byte buffer until a call returns 0
    ReadAll(usize),
}

/// cap on what one read-to-end may collect (a reader that keeps returning data is a failure)
const READ_ALL_CAP: usize = 1 << 25;

fn fmt_ops(ops: &[Op]) -> String {
    if ops.is_empty() {
        return "_".into();
    }
    ops.iter()
        .map(|o| match *o {
            Op::Read(n) => format!("r{n}"),
            Op::Exact(n) => format!("x{n}"),
            Op::ExactStd(n) => format!("s{n}"),
            Op::Fill => "f".into(),
            Op::Consume(n) => format!("c{n}"),
            Op::Seek(c, u) => format!("k{c}:{u}"),
            Op::SeekU(p) => format!("u{p}"),
            Op::ReadAll(n) => format!("a{n}"),
        })
        .collect::<Vec<_>>()
        .join(",")
}

fn parse_ops(s: &str) -> Vec<Op> {
    if s == "_" {
        return vec![];
    }
    s.split(',')
        .map(|p| {
            let (h, t) = p.split_at(1);
            match h {
                "r" => Op::Read(t.parse().unwrap()),
                "x" => Op::Exact(t.parse().unwrap()),
                "s" => Op::ExactStd(t.parse().unwrap()),
                "f" => Op::Fill,
                "c" => Op::Consume(t.parse().unwrap()),
                "k" => {
                    let (c, u) = t.split_once(':').unwrap();
                    Op::Seek(c.parse().unwrap(), u.parse().unwrap())
                }
                "u" => Op::SeekU(t.parse().unwrap()),
                "a" => Op::ReadAll(t.parse().unwrap()),
                _ => panic!("op {p}"),
            }
        })
        .collect()
}

fn fmt_index(ix: &[(u64, u64)]) -> String {
    if ix.is_empty() {
        return "_".into();
    }
    ix.iter().map(|(c, u)| format!("{c}:{u}")).collect::<Vec<_>>().join(",")
}

fn parse_index(s: &str) -> Vec<(u64, u64)> {
    if s == "_" {
        return vec![];
    }
    s.split(',')
        .map(|p| {
            let (c, u) = p.split_once(':').unwrap();
            (c.parse().unwrap(), u.parse().unwrap())
        })
        .collect()
}

// -------------------------------------------------------------------------------------------
// the flat reference (a Vec<u8>, an offset, a window) plus which frame is buffered — the latter
// only to name the two input classes on which the originally pinned reader failed (repaired in
// /repo since; a recurrence is reported as a new failure under these tags)

#[derive(Clone, Copy, Debug, PartialEq)]
enum Known {
    /// seek to the end-of-file position while the buffered block is not an empty block ending there
    SeekEofStaleBlock,
    /// read with a buffer >= 64 KiB at end of stream when the last block read holds data
    DirectReadAtEofStaleLen,
}

impl Known {
    fn tag(self) -> &'static str {
        match self {
            Known::SeekEofStaleBlock => "seek-eof-stale-block",
            Known::DirectReadAtEofStaleLen => "direct-read-at-eof-stale-len",
        }
    }
}

#[derive(Clone)]
struct Flat<'a> {
    l: &'a Layout,
    off: usize,
    win: usize,
    next: usize,
    loaded: Option<usize>,
    /// set when the history has entered a known-defect class (the reference no longer predicts)
    tainted: Option<Known>,
    /// whether large reads take the direct path (Reader, IndexedReader) or not (Multithreaded)
    direct: bool,
}

#[derive(Debug, PartialEq)]
enum Exp {
    Bytes(Vec<u8>),
    Eof, // read_exact: UnexpectedEof
    Unit,
    Pos(u64),
    InvalidData,
}

impl<'a> Flat<'a> {
    fn new(l: &'a Layout, direct: bool) -> Self {
        Flat { l, off: 0, win: 0, next: 0, loaded: None, tainted: None, direct }
    }
    fn taint(&mut self, k: Known) {
        if self.tainted.is_none() {
            self.tainted = Some(k);
        }
    }
    fn load(&mut self) {
        let n = self.l.tbl.len();
        if self.next >= n {
            return;
        }
        let k = (self.next..n).find(|&k| self.l.tbl[k].2 > 0).unwrap_or(n - 1);
        self.loaded = Some(k);
        self.next = k + 1;
        self.win = self.l.tbl[k].2;
        debug_assert!(self.win == 0 || self.l.tbl[k].1 == self.off);
    }
    fn read(&mut self, n: usize) -> Vec<u8> {
        if self.win == 0 {
            if self.direct
                && n >= MAX_ISIZE
                && self.next >= self.l.tbl.len()
                && self.loaded.is_some_and(|k| self.l.tbl[k].2 > 0)
            {
                self.taint(Known::DirectReadAtEofStaleLen);
            }
            self.load();
        }
        let k = n.min(self.win);
        let out = self.l.d[self.off..self.off + k].to_vec();
        self.off += k;
        self.win -= k;
        out
    }
    fn exact_loop(&mut self, n: usize) -> Exp {
        let start = self.off;
        let mut rem = n;
        while rem > 0 {
            let got = self.read(rem).len();
            if got == 0 {
                assert_eq!(self.off, self.l.d.len());
                return Exp::Eof;
            }
            rem -= got;
        }
        Exp::Bytes(self.l.d[start..start + n].to_vec())
    }
    fn step(&mut self, op: Op, index: &[(u64, u64)]) -> Exp {
        match op {
            Op::Read(n) => Exp::Bytes(self.read(n)),
            Op::Fill => {
                if self.win == 0 {
                    self.load();
                }
                Exp::Bytes(self.l.d[self.off..self.off + self.win].to_vec())
            }
            Op::Consume(n) => {
                let k = n.min(self.win);
                self.off += k;
                self.win -= k;
                Exp::Unit
            }
            Op::Exact(n) if n <= self.win => {
                let out = self.l.d[self.off..self.off + n].to_vec();
                self.off += n;
                self.win -= n;
                Exp::Bytes(out)
            }
            Op::Exact(n) | Op::ExactStd(n) => {
                let enough = self.off + n <= self.l.d.len();
                let e = self.exact_loop(n);
                assert_eq!(enough, matches!(e, Exp::Bytes(_)), "flat closed form");
                e
            }
            Op::ReadAll(n) => {
                let start = self.off;
                let mut out = Vec::new();
                loop {
                    let b = self.read(n);
                    if b.is_empty() {
                        break;
                    }
                    out.extend_from_slice(&b);
                }
                if n > 0 {
                    // closed form: everything from the current offset on
                    assert!(out == self.l.d[start..] && self.off == self.l.d.len(), "flat read-to-end closed form");
                }
                Exp::Bytes(out)
            }
            Op::Seek(c, u) => {
                self.seek(c, u);
                Exp::Pos(u64::from(VP::try_from((c, u)).unwrap()))
            }
            Op::SeekU(p) => {
                // the block containing p according to the index
                let i = index.iter().take_while(|e| e.1 <= p).count();
                let (c, s) = if i == 0 { (0, 0) } else { index[i - 1] };
                let d = p - s;
                if d >= 65536 {
                    return Exp::InvalidData;
                }
                self.seek(c, d as u16);
                assert!(self.tainted.is_some() || self.off as u64 == p, "flat seek by offset");
                Exp::Pos(p)
            }
        }
    }
    fn seek(&mut self, c: u64, u: u16) {
        let u = usize::from(u);
        if c >= self.l.file_len {
            let harmless = match self.loaded {
                Some(k) => self.l.tbl[k].2 == 0 && k + 1 == self.l.tbl.len(),
                None => self.l.d.is_empty(),
            };
            if !harmless {
                self.taint(Known::SeekEofStaleBlock);
            }
            self.next = self.l.tbl.len();
            self.off = self.l.d.len();
            self.win = 0;
            return;
        }
        let k = self.l.tbl.binary_search_by_key(&c, |t| t.0).expect("valid seek target");
        self.next = k;
        self.off = self.l.tbl[k].1;
        self.win = 0;
        self.load();
        // a frame was loaded: every piece of reader state has been re-established
        self.tainted = None;
        assert!(u <= self.win, "valid seek target");
        self.off += u;
        self.win -= u;
    }
}

// -------------------------------------------------------------------------------------------
// the three readers behind one interface

trait R3 {
    fn read(&mut self, buf: &mut [u8]) -> io::Result<usize>;
    fn read_exact(&mut self, buf: &mut [u8]) -> io::Result<()>;
    fn fill(&mut self) -> io::Result<Vec<u8>>;
    fn consume(&mut self, n: usize);
    fn seek_vp(&mut self, vp: VP) -> io::Result<VP>;
    fn seek_u(&mut self, ix: &gzi::Index, p: u64) -> io::Result<u64>;
    fn vpos(&self) -> VP;
}

type Src = Cursor<Vec<u8>>;

impl R3 for bgzf::io::Reader<Src> {
    fn read(&mut self, buf: &mut [u8]) -> io::Result<usize> {
        Read::read(self, buf)
    }
    fn read_exact(&mut self, buf: &mut [u8]) -> io::Result<()> {
        Read::read_exact(self, buf)
    }
    fn fill(&mut self) -> io::Result<Vec<u8>> {
        self.fill_buf().map(|s| s.to_vec())
    }
    fn consume(&mut self, n: usize) {
        BufRead::consume(self, n)
    }
    fn seek_vp(&mut self, vp: VP) -> io::Result<VP> {
        self.seek(vp)
    }
    fn seek_u(&mut self, ix: &gzi::Index, p: u64) -> io::Result<u64> {
        self.seek_by_uncompressed_position(ix, p)
    }
    fn vpos(&self) -> VP {
        self.virtual_position()
    }
}

impl R3 for bgzf::io::IndexedReader<Src> {
    fn read(&mut self, buf: &mut [u8]) -> io::Result<usize> {
        Read::read(self, buf)
    }
    fn read_exact(&mut self, buf: &mut [u8]) -> io::Result<()> {
        Read::read_exact(self, buf)
    }
    fn fill(&mut self) -> io::Result<Vec<u8>> {
        self.fill_buf().map(|s| s.to_vec())
    }
    fn consume(&mut self, n: usize) {
        BufRead::consume(self, n)
    }
    fn seek_vp(&mut self, _vp: VP) -> io::Result<VP> {
        panic!("IndexedReader has no seek by virtual position")
    }
    fn seek_u(&mut self, _ix: &gzi::Index, p: u64) -> io::Result<u64> {
        io::Seek::seek(self, SeekFrom::Start(p))
    }
    fn vpos(&self) -> VP {
        self.virtual_position()
    }
}

impl R3 for bgzf::io::MultithreadedReader<Src> {
    fn read(&mut self, buf: &mut [u8]) -> io::Result<usize> {
        Read::read(self, buf)
    }
    fn read_exact(&mut self, buf: &mut [u8]) -> io::Result<()> {
        Read::read_exact(self, buf)
    }
    fn fill(&mut self) -> io::Result<Vec<u8>> {
        self.fill_buf().map(|s| s.to_vec())
    }
    fn consume(&mut self, n: usize) {
        BufRead::consume(self, n)
    }
    fn seek_vp(&mut self, vp: VP) -> io::Result<VP> {
        bgzf::io::Seek::seek_to_virtual_position(self, vp)
    }
    fn seek_u(&mut self, ix: &gzi::Index, p: u64) -> io::Result<u64> {
        bgzf::io::Seek::seek_with_index(self, ix, SeekFrom::Start(p))
    }
    fn vpos(&self) -> VP {
        self.virtual_position()
    }
}

fn make_reader(kind: &str, bytes: &[u8], index: &[(u64, u64)]) -> Box<dyn R3> {
    let src = Cursor::new(bytes.to_vec());
    match kind {
        "rd" => Box::new(bgzf::io::Reader::new(src)),
        "ix" => Box::new(bgzf::io::IndexedReader::new(src, gzi::Index::from(index.to_vec()))),
        "mt" => Box::new(bgzf::io::MultithreadedReader::new(src)),
        _ => panic!("reader kind {kind}"),
    }
}

/// What one call returned, canonically.
#[derive(Debug, PartialEq)]
enum Got {
    Bytes(Vec<u8>),
    Unit,
    Pos(u64),
    Err(String),
    Panic,
}

fn canon_bytes(b: &[u8]) -> String {
    if b.len() <= 16 {
        hex(b)
    } else {
        let h = b.iter().fold(0u64, |h, &x| mix(h, u64::from(x)));
        format!("#{}:{}", b.len(), h)
    }
}

impl Got {
    fn canon(&self) -> String {
        match self {
            Got::Bytes(b) => canon_bytes(b),
            Got::Unit => ".".into(),
            Got::Pos(p) => p.to_string(),
            Got::Err(k) => format!("Err:{k}"),
            Got::Panic => "Panic".into(),
        }
    }
}

fn apply(r: &mut dyn R3, op: Op, ix: &gzi::Index) -> Got {
    let res = guarded(AssertUnwindSafe(|| -> io::Result<Got> {
        Ok(match op {
            Op::Read(n) => {
                let mut buf = vec![SENTINEL; n];
                let amt = r.read(&mut buf)?;
                buf.truncate(amt);
                Got::Bytes(buf)
            }
            Op::Exact(n) | Op::ExactStd(n) => {
                let mut buf = vec![SENTINEL; n];
                r.read_exact(&mut buf)?;
                Got::Bytes(buf)
            }
            Op::Fill => Got::Bytes(r.fill()?),
            Op::ReadAll(n) => {
                let mut buf = vec![SENTINEL; n];
                let mut out = Vec::new();
                loop {
                    let amt = r.read(&mut buf)?;
                    if amt == 0 {
                        break;
                    }
                    out.extend_from_slice(&buf[..amt]);
                    if out.len() > READ_ALL_CAP {
                        return Err(io::Error::other("read-to-end does not terminate"));
                    }
                }
                Got::Bytes(out)
            }
            Op::Consume(n) => {
                r.consume(n);
                Got::Unit
            }
            Op::Seek(c, u) => Got::Pos(u64::from(r.seek_vp(VP::try_from((c, u)).unwrap())?)),
            Op::SeekU(p) => Got::Pos(r.seek_u(ix, p)?),
        })
    }));
    match res {
        Outcome::Done(Ok(g)) => g,
        Outcome::Done(Err(e)) => Got::Err(errkind(&e)),
        Outcome::Panicked(_) => Got::Panic,
    }
}

fn vpos_of(r: &dyn R3) -> Option<VP> {
    match guarded(AssertUnwindSafe(|| r.vpos())) {
        Outcome::Done(v) => Some(v),
        Outcome::Panicked(_) => None,
    }
}

/// read to the end with a 70000-byte buffer (so that the direct path is used), bounded
fn bounded_read_to_end(r: &mut dyn R3, limit: usize, bufsize: usize) -> Result<Vec<u8>, String> {
    let mut out = Vec::new();
    let mut buf = vec![SENTINEL; bufsize];
    loop {
        match guarded(AssertUnwindSafe(|| r.read(&mut buf))) {
            Outcome::Done(Ok(0)) => return Ok(out),
            Outcome::Done(Ok(n)) => out.extend_from_slice(&buf[..n]),
            Outcome::Done(Err(e)) => return Err(format!("Err:{}", errkind(&e))),
            Outcome::Panicked(m) => return Err(format!("Panic:{m}")),
        }
        if out.len() > limit {
            return Err("does-not-terminate".into());
        }
    }
}

// -------------------------------------------------------------------------------------------
// running a history

fn run_hist(c: &Case) -> Obs {
    let kind = c.args[0].as_str();
    let fs = parse_frames(&c.args[1]);
    let index = parse_index(&c.args[2]);
    let ops = parse_ops(&c.args[3]);
    let l = assemble(&fs);
    let gz = gzi::Index::from(index.clone());
    let mut r = make_reader(kind, &l.bytes, &index);
    let mut flat = Flat::new(&l, kind != "mt");
    let mut obs: Vec<String> = Vec::new();
    let mut verdict: Option<(String, String)> = None;
    let mut known_seen: Option<Known> = None;
    let mut prev_vp: Option<u64> = None;
    let mut probes: Vec<(VP, usize)> = Vec::new();
    let fail = |v: &mut Option<(String, String)>, tag: &str, detail: String| {
        if v.is_none() {
            *v = Some((tag.to_string(), detail));
        }
    };
    for (j, &op) in ops.iter().enumerate() {
        let got = apply(r.as_mut(), op, &gz);
        let vp = vpos_of(r.as_ref());
        obs.push(format!(
            "{}@{}",
            got.canon(),
            vp.map_or("Panic".to_string(), |v| format!("{}:{}", v.compressed(), v.uncompressed()))
        ));
        let stop = got == Got::Panic || vp.is_none();
        // ---- the property on this step
        let exp = flat.step(op, &index);
        if let Some(k) = flat.tainted {
            known_seen.get_or_insert(k);
        }
        let where_ = || format!("op#{j} {op:?} flat_off={} ", flat.off);
        let matches = match (&exp, &got) {
            (Exp::Bytes(a), Got::Bytes(b)) => a == b,
            (Exp::Eof, Got::Err(k)) => k == "UnexpectedEof",
            (Exp::Unit, Got::Unit) => true,
            (Exp::Pos(a), Got::Pos(b)) => a == b,
            (Exp::InvalidData, Got::Err(k)) => k == "InvalidData",
            _ => false,
        };
        let mut bad: Option<(&str, String)> = None;
        if !matches {
            let tag = match op {
                Op::Read(_) => "read-bytes-differ-from-flat",
                Op::Exact(_) | Op::ExactStd(_) => "read-exact-differs-from-flat",
                Op::Fill => "fill-buf-differs-from-flat",
                Op::ReadAll(_) => "read-to-end-differs-from-flat",
                Op::Consume(_) => "consume",
                Op::Seek(..) => "seek-result",
                Op::SeekU(_) => "gzi-seek-result",
            };
            let show = |g: &Got| g.canon();
            let e = match &exp {
                Exp::Bytes(b) => canon_bytes(b),
                o => format!("{o:?}"),
            };
            bad = Some((tag, format!("{}got={} expected={}", where_(), show(&got), e)));
        } else if let Some(v) = vp {
            match l.denote(v.compressed(), v.uncompressed()) {
                Some(o) if o == flat.off => {}
                d => {
                    bad = Some((
                        "virtual-position-does-not-denote-flat-offset",
                        format!("{}vpos={}:{} denotes {:?}", where_(), v.compressed(), v.uncompressed(), d),
                    ))
                }
            }
            if bad.is_none() && !matches!(op, Op::Seek(..) | Op::SeekU(_)) {
                if let Some(p) = prev_vp {
                    if u64::from(v) < p {
                        bad = Some(("tell-decreased-without-seek", format!("{}{} -> {}", where_(), p, u64::from(v))));
                    }
                }
            }
        } else {
            bad = Some(("virtual-position-panicked", where_()));
        }
        prev_vp = vp.map(u64::from);
        if let Some((tag, detail)) = bad {
            // a history inside a known class is reported under that class's tag
            match flat.tainted {
                Some(k) => fail(&mut verdict, k.tag(), format!("[{tag}] {detail}")),
                None => fail(&mut verdict, tag, detail),
            }
        } else {
            if let Some(v) = vp {
                probes.push((v, flat.off));
            }
        }
        if stop || verdict.is_some() {
            // after the first divergence the reference no longer tracks the reader
            if stop {
                break;
            }
            // keep recording observations for the model comparison
            for &op2 in &ops[j + 1..] {
                let got = apply(r.as_mut(), op2, &gz);
                let vp = vpos_of(r.as_ref());
                obs.push(format!(
                    "{}@{}",
                    got.canon(),
                    vp.map_or("Panic".to_string(), |v| format!("{}:{}", v.compressed(), v.uncompressed()))
                ));
                if got == Got::Panic || vp.is_none() {
                    break;
                }
            }
            break;
        }
    }
    // ---- probes: a reported position, sought to by a fresh reader of each kind, yields D[off..]
    if verdict.is_none() && !probes.is_empty() {
        let h = c.args[3].bytes().fold(7u64, |h, b| mix(h, u64::from(b)));
        let picks = [0usize, probes.len() - 1, (h % probes.len() as u64) as usize, ((h >> 20) % probes.len() as u64) as usize];
        'p: for (t, &pi) in picks.iter().enumerate() {
            let (v, off) = probes[pi];
            for pk in ["rd", "mt"] {
                if pk == "mt" && t != 2 {
                    continue;
                }
                let mut fr = make_reader(pk, &l.bytes, &index);
                let tail = match guarded(AssertUnwindSafe(|| fr.seek_vp(v))) {
                    // alternate 64 KiB+ reads (direct path) and small reads
                    Outcome::Done(Ok(_)) => bounded_read_to_end(
                        fr.as_mut(),
                        l.d.len() + 1,
                        if t % 2 == 0 { 70000 } else { 4096 },
                    ),
                    Outcome::Done(Err(e)) => Err(format!("seek Err:{}", errkind(&e))),
                    Outcome::Panicked(m) => Err(format!("seek Panic:{m}")),
                };
                let known_probe = false;
                match tail {
                    Ok(t) if t == l.d[off..] => {}
                    other => {
                        let detail = format!(
                            "fresh {pk} reader seek({}:{}) then read to end: {} (expected {} bytes from flat offset {off})",
                            v.compressed(),
                            v.uncompressed(),
                            match &other {
                                Ok(t) => format!("{} bytes {}", t.len(), canon_bytes(t)),
                                Err(e) => e.clone(),
                            },
                            l.d.len() - off
                        );
                        if known_probe {
                            fail(&mut verdict, Known::DirectReadAtEofStaleLen.tag(), format!("[probe] {detail}"));
                        } else {
                            fail(&mut verdict, "seek-to-reported-position-then-read", detail);
                        }
                        break 'p;
                    }
                }
            }
        }
    }
    let nontrivial = l.d.len() > 1 && ops.len() >= 2;
    let o = if kind == "mt" { "-".to_string() } else if obs.is_empty() { "_".to_string() } else { obs.join(" ") };
    let _ = known_seen;
    Obs::ok(o, nontrivial).with_verdict(match verdict {
        None => Ok(()),
        Some(v) => Err(v),
    })
}

// -------------------------------------------------------------------------------------------
// writer side: positions told by the writer name the bytes written next

/// the (isize, digest of the data, cdata length) table of the data frames of a BGZF file whose
/// uncompressed stream is d
fn frame_table(bytes: &[u8], d: &[u8]) -> Vec<(usize, u64, usize)> {
    let (mut i, mut o, mut t) = (0usize, 0usize, Vec::new());
    while i + 18 <= bytes.len() {
        let bsize = u16::from_le_bytes([bytes[i + 16], bytes[i + 17]]) as usize + 1;
        let isize = u32::from_le_bytes(bytes[i + bsize - 4..i + bsize].try_into().unwrap()) as usize;
        if isize > 0 {
            let h = d[o..o + isize].iter().fold(0u64, |h, &x| mix(h, u64::from(x)));
            t.push((isize, h, bsize - 26));
        }
        i += bsize;
        o += isize;
    }
    assert!(i == bytes.len() && o == d.len(), "frame table walk");
    t
}

/// runs a writer script on the real writer: (file bytes, accepted data, told positions with the
/// flat index each one precedes)
fn writer_script(level: u8, finish: &str, script: &str) -> (Vec<u8>, Vec<u8>, Vec<(VP, usize)>) {
    let lvl = bgzf::io::writer::CompressionLevel::new(level).unwrap();
    let mut w = bgzf::io::writer::Builder::default()
        .set_compression_level(lvl)
        .build_from_writer(Vec::new());
    let mut d: Vec<u8> = Vec::new();
    let mut samples: Vec<(VP, usize)> = vec![(w.virtual_position(), 0)];
    for p in script.split(',').filter(|p| *p != "_") {
        if p == "f" {
            w.flush().unwrap();
        } else {
            let q: Vec<u64> = p[1..].split(':').map(|x| x.parse().unwrap()).collect();
            let data = pattern(q[0] as usize, q[1], q[2]);
            if p.starts_with('W') {
                w.write_all(&data).unwrap();
                d.extend_from_slice(&data);
            } else {
                let amt = w.write(&data).unwrap();
                d.extend_from_slice(&data[..amt]);
            }
        }
        samples.push((w.virtual_position(), d.len()));
    }
    let bytes = match finish {
        "finish" => w.finish().unwrap(),
        _ => {
            w.flush().unwrap();
            w.into_inner() // no EOF marker
        }
    };
    (bytes, d, samples)
}

/// the modelled observation of a writer history: every told position, sought to by a fresh
/// Reader in the finished file, then read to the end with an n-byte buffer
fn wtm_obs(bytes: &[u8], samples: &[(VP, usize)], n: usize) -> String {
    let mut parts = Vec::new();
    for &(v, _) in samples {
        let mut r = bgzf::io::Reader::new(Cursor::new(bytes.to_vec()));
        let sk = match guarded(AssertUnwindSafe(|| r.seek(v))) {
            Outcome::Done(Ok(x)) => format!("{}:{}", x.compressed(), x.uncompressed()),
            Outcome::Done(Err(e)) => format!("Err:{}", errkind(&e)),
            Outcome::Panicked(_) => "Panic".into(),
        };
        let rd = match bounded_read_to_end(&mut r, READ_ALL_CAP, n) {
            Ok(t) => canon_bytes(&t),
            Err(e) if e.starts_with("Panic") => "Panic".to_string(),
            Err(e) => e,
        };
        parts.push(format!("{}:{}={}>{}", v.compressed(), v.uncompressed(), sk, rd));
    }
    parts.join(" ")
}

fn run_wtell(c: &Case) -> Obs {
    let modelled = c.kind == "wtm";
    let level = c.u(0) as u8;
    let finish = c.args[1].as_str();
    let (bytes, d, samples) = writer_script(level, finish, &c.args[2]);
    let obs_s = if modelled { wtm_obs(&bytes, &samples, c.u(3) as usize) } else { "-".to_string() };
    let mut prev = 0u64;
    for (i, &(v, off)) in samples.iter().enumerate() {
        if u64::from(v) < prev {
            return Obs::fail(obs_s, "writer-tell-decreased", format!("sample {i}"));
        }
        prev = u64::from(v);
        for pk in ["rd", "mt"] {
            if pk == "mt" && i % 5 != 0 {
                continue;
            }
            let mut r = make_reader(pk, &bytes, &[]);
            let tail = match guarded(AssertUnwindSafe(|| r.seek_vp(v))) {
                Outcome::Done(Ok(_)) => {
                    let mut out = Vec::new();
                    let mut buf = vec![0u8; if i % 2 == 0 { 70000 } else { 4096 }];
                    loop {
                        match guarded(AssertUnwindSafe(|| r.read(&mut buf))) {
                            Outcome::Done(Ok(0)) => break Ok(out),
                            Outcome::Done(Ok(n)) => out.extend_from_slice(&buf[..n]),
                            Outcome::Done(Err(e)) => break Err(format!("Err:{}", errkind(&e))),
                            Outcome::Panicked(m) => break Err(format!("Panic:{m}")),
                        }
                        if out.len() > d.len() {
                            break Err("does-not-terminate".into());
                        }
                    }
                }
                Outcome::Done(Err(e)) => Err(format!("seek Err:{}", errkind(&e))),
                Outcome::Panicked(m) => Err(format!("seek Panic:{m}")),
            };
            match tail {
                Ok(t) if t == d[off..] => {}
                other => {
                    return Obs::fail(
                        obs_s,
                        "writer-told-position-does-not-name-next-byte",
                        format!(
                            "sample {i} vpos={}:{} flat={off} {pk}: {}",
                            v.compressed(),
                            v.uncompressed(),
                            match other {
                                Ok(t) => format!("{} bytes {}", t.len(), canon_bytes(&t)),
                                Err(e) => e,
                            }
                        ),
                    );
                }
            }
        }
    }
    Obs::ok(obs_s, samples.len() > 2 && d.len() > 1)
}

// -------------------------------------------------------------------------------------------
// small modelled kinds

fn run_vp(c: &Case) -> Obs {
    let (c1, u1, c2, u2) = (c.u(0), c.u(1) as u16, c.u(2), c.u(3) as u16);
    let a = VP::try_from((c1, u1)).ok();
    let b = VP::try_from((c2, u2)).ok();
    let a2 = VP::new(c1, u1);
    let show = |v: Option<VP>| v.map_or("None".to_string(), |v| u64::from(v).to_string());
    let cmp = match (a, b) {
        (Some(x), Some(y)) => format!("{}", x.cmp(&y) as i8),
        _ => "x".into(),
    };
    let un = a.map_or("x".to_string(), |v| format!("{}:{}", v.compressed(), v.uncompressed()));
    // From<u64> on an arbitrary word
    let word = c.u(4);
    let fw = VP::from(word);
    let obs = format!("{} {} {} {} {}:{}", show(a), show(b), cmp, un, fw.compressed(), fw.uncompressed());
    let mut verdict = Ok(());
    if a != a2 {
        verdict = Err(("vpos-new-vs-try-from".to_string(), format!("{c1} {u1}")));
    }
    if let Some(v) = a {
        if (v.compressed(), v.uncompressed()) != (c1, u1) {
            verdict = Err(("vpos-pack-unpack".to_string(), format!("{c1} {u1}")));
        }
        if let Some(y) = b {
            if v.cmp(&y) != (c1, u1).cmp(&(c2, u2)) {
                verdict = Err(("vpos-order".to_string(), format!("{c1}:{u1} vs {c2}:{u2}")));
            }
        }
    } else if c1 < (1 << 48) {
        verdict = Err(("vpos-rejected".to_string(), format!("{c1}")));
    }
    Obs::ok(obs, true).with_verdict(verdict)
}

fn run_gzi(c: &Case) -> Obs {
    let index = parse_index(&c.args[0]);
    let p = c.u(1);
    let gz = gzi::Index::from(index.clone());
    let obs = match guarded(AssertUnwindSafe(|| gz.query(p))) {
        Outcome::Done(Ok(v)) => format!("{}:{}", v.compressed(), v.uncompressed()),
        Outcome::Done(Err(e)) => format!("Err:{}", errkind(&e)),
        Outcome::Panicked(_) => "Panic".into(),
    };
    let sorted = index.windows(2).all(|w| w[0].1 <= w[1].1);
    let verdict = if sorted {
        // oracle: the last entry at or before p (or the file start), offset relative to it
        let i = index.iter().rposition(|e| e.1 <= p);
        let (bc, bu) = i.map_or((0, 0), |i| index[i]);
        let exp = if p - bu >= 65536 || bc >= (1 << 48) {
            "Err:InvalidData".to_string()
        } else {
            format!("{}:{}", bc, p - bu)
        };
        if obs == exp { Ok(()) } else { Err(("gzi-query".to_string(), format!("pos={p} got={obs} expected={exp}"))) }
    } else {
        // hostile (unsorted) index: nothing is promised about WHICH entry is selected, but the
        // query must not panic, and an Ok answer is relative to some entry at or before p
        match guarded(AssertUnwindSafe(|| gz.query(p))) {
            Outcome::Panicked(m) => Err(("gzi-query-hostile-index-panic".to_string(), format!("pos={p} {m}"))),
            Outcome::Done(Err(_)) => Ok(()),
            Outcome::Done(Ok(v)) => {
                let (c0, d) = (v.compressed(), u64::from(v.uncompressed()));
                let fits = |e: &(u64, u64)| e.0 == c0 && e.1 <= p && p - e.1 == d;
                if index.iter().any(fits) || fits(&(0, 0)) {
                    Ok(())
                } else {
                    Err(("gzi-query-hostile-index-foreign-entry".to_string(), format!("pos={p} got={obs}")))
                }
            }
        }
    };
    Obs::ok(obs, !index.is_empty()).with_verdict(verdict)
}

/// `slice::partition_point` itself (what Index::query calls) on an arbitrary boolean slice
fn run_pp(c: &Case) -> Obs {
    let v: Vec<bool> = if c.args[0] == "_" { vec![] } else { c.args[0].bytes().map(|b| b == b'1').collect() };
    let obs = match guarded(AssertUnwindSafe(|| v.partition_point(|&b| b))) {
        Outcome::Done(i) => i.to_string(),
        Outcome::Panicked(_) => "Panic".into(),
    };
    // oracle: a valid index, and the prefix length on partitioned slices
    let i: usize = obs.parse().unwrap_or(usize::MAX);
    let k = v.iter().take_while(|&&b| b).count();
    let partitioned = v[k..].iter().all(|&b| !b);
    let verdict = if i > v.len() {
        Err(("partition-point-out-of-range".to_string(), obs.clone()))
    } else if partitioned && i != k {
        Err(("partition-point-on-partitioned-slice".to_string(), format!("got={i} expected={k}")))
    } else {
        Ok(())
    };
    Obs::ok(obs, v.len() > 1).with_verdict(verdict)
}

/// A history over a HOSTILE gzi index (unsorted, duplicated, shifted, foreign entries): the
/// observations are compared with the model (run_bs: exact binary search + clamping seek); the
/// property promises nothing here except the absence of panics.
fn run_hidx(c: &Case) -> Obs {
    let kind = c.args[0].as_str();
    let fs = parse_frames(&c.args[1]);
    let index = parse_index(&c.args[2]);
    let ops = parse_ops(&c.args[3]);
    let l = assemble(&fs);
    let gz = gzi::Index::from(index.clone());
    let mut r = make_reader(kind, &l.bytes, &index);
    let mut obs: Vec<String> = Vec::new();
    let mut verdict = Ok(());
    for (j, &op) in ops.iter().enumerate() {
        let got = apply(r.as_mut(), op, &gz);
        let vp = vpos_of(r.as_ref());
        obs.push(format!(
            "{}@{}",
            got.canon(),
            vp.map_or("Panic".to_string(), |v| format!("{}:{}", v.compressed(), v.uncompressed()))
        ));
        if got == Got::Panic || vp.is_none() {
            verdict = Err(("hostile-gzi-index-panic".to_string(), format!("op#{j} {op:?}")));
            break;
        }
    }
    let o = if obs.is_empty() { "_".to_string() } else { obs.join(" ") };
    Obs::ok(o, !index.is_empty() && ops.len() >= 2).with_verdict(verdict)
}

/// One seek to an ARBITRARY virtual position (block offset anywhere in or beyond the bytes of the
/// file, any in-block offset) after a valid history: obs = `<seek result>@<position told after>`,
/// compared with NV.Bgzf.SeekBytes.hseek_run (frame-level model for the history, then the
/// byte-level seek with C01's frame parser, CRC and inflater).
fn run_hseek(c: &Case) -> Obs {
    let fs = parse_frames(&c.args[0]);
    let bytes = nv::unhex(&c.args[1]);
    let ops = parse_ops(&c.args[2]);
    let (tc, tu) = c.args[3].split_once(':').unwrap();
    let (tc, tu): (u64, u16) = (tc.parse().unwrap(), tu.parse().unwrap());
    let l = if fs.is_empty() { None } else { Some(assemble(&fs)) };
    if let Some(l) = &l {
        assert_eq!(l.bytes, bytes, "hseek: the bytes are not the file of the frame specs");
    }
    let gz = gzi::Index::from(l.as_ref().map_or(vec![], |l| l.full_index()));
    let mut r = make_reader("rd", &bytes, &[]);
    for &op in &ops {
        let _ = apply(r.as_mut(), op, &gz);
    }
    let got = apply(r.as_mut(), Op::Seek(tc, tu), &gz);
    let vp = vpos_of(r.as_ref());
    let obs = format!(
        "{}@{}",
        got.canon(),
        vp.map_or("Panic".to_string(), |v| format!("{}:{}", v.compressed(), v.uncompressed()))
    );
    // the property side: never a panic; on a well-formed file a position that denotes a byte is
    // accepted and told back (modulo the end-of-block convention), a block offset at a frame
    // boundary or at/after the end of the file is accepted whatever the in-block offset is
    let mut verdict = Ok(());
    if got == Got::Panic || vp.is_none() {
        verdict = Err(("hostile-seek-panic".to_string(), format!("seek({tc}:{tu}) {obs}")));
    } else if let Some(l) = &l {
        let boundary = l.tbl.iter().any(|t| t.0 == tc) || tc >= l.file_len;
        if boundary && !matches!(got, Got::Pos(_)) {
            verdict = Err(("seek-to-frame-boundary-rejected".to_string(), format!("seek({tc}:{tu}) {obs}")));
        }
        if let (Some(o), Some(v)) = (l.denote(tc, tu), vp) {
            if l.denote(v.compressed(), v.uncompressed()) != Some(o) {
                verdict = Err(("seek-to-denoting-position-tells-another".to_string(), format!("seek({tc}:{tu}) {obs}")));
            }
        }
    }
    Obs::ok(obs, bytes.len() > 28).with_verdict(verdict)
}

/// A fresh Reader over arbitrary (damaged) bytes and a sequence of `read` calls with buffers of
/// fewer than 65536 bytes that goes on after errors: obs = per call `<count or Err>@<position told>`,
/// compared with NV.Bgzf.SeekBytes.hread_run.  Property side: no panic, and a failed call never
/// moves the told position backwards (the failed block is not the current block).
fn run_hread(c: &Case) -> Obs {
    let bytes = nv::unhex(&c.args[0]);
    let ns: Vec<usize> = if c.args[1] == "_" { vec![] } else { c.args[1].split(',').map(|x| x.parse().unwrap()).collect() };
    let mut r = bgzf::io::Reader::new(Cursor::new(bytes.clone()));
    let mut obs = Vec::new();
    let mut verdict = Ok(());
    let mut delivered: Vec<u8> = Vec::new();
    for (j, &n) in ns.iter().enumerate() {
        let before = u64::from(r.virtual_position());
        let mut buf = vec![SENTINEL; n];
        let got = guarded(AssertUnwindSafe(|| Read::read(&mut r, &mut buf)));
        let vp = match guarded(AssertUnwindSafe(|| r.virtual_position())) {
            Outcome::Done(v) => Some(v),
            Outcome::Panicked(_) => None,
        };
        let g = match &got {
            Outcome::Done(Ok(k)) => {
                delivered.extend_from_slice(&buf[..*k]);
                k.to_string()
            }
            Outcome::Done(Err(e)) => format!("Err:{}", errkind(e)),
            Outcome::Panicked(_) => "Panic".into(),
        };
        obs.push(format!("{g}@{}", vp.map_or("Panic".to_string(), |v| format!("{}:{}", v.compressed(), v.uncompressed()))));
        if matches!(got, Outcome::Panicked(_)) || vp.is_none() {
            verdict = Err(("damaged-file-read-panic".to_string(), format!("read#{j}({n})")));
            break;
        }
        if let (Outcome::Done(Err(_)), Some(v)) = (&got, vp) {
            if u64::from(v) < before && verdict.is_ok() {
                verdict = Err((
                    "failed-block-stays-current".to_string(),
                    format!("read#{j}({n}) failed and the told position went from {before} back to {}", u64::from(v)),
                ));
            }
        }
    }
    let o = if obs.is_empty() { "_".to_string() } else { obs.join(" ") };
    Obs::ok(o, bytes.len() > 28 && ns.len() >= 2).with_verdict(verdict)
}


/// A fresh Reader over arbitrary (damaged / nested) bytes and a history of `read` (buffers of
/// fewer than 65536 bytes) and `seek` calls that goes on after errors, after failed seeks and after
/// seeks onto bytes inside a frame that parse as a frame: obs = per call
/// `<count | position sought | Err>@<position told>`, compared with NV.Bgzf.SeekBytes.hrs_run.
/// Property side: no panic; as long as no seek has failed, a failing read never moves the told
/// position backwards (a failed seek leaves the previous block and the new stream position).
fn run_hrs(c: &Case) -> Obs {
    let bytes = nv::unhex(&c.args[0]);
    let ops: Vec<&str> = if c.args[1] == "_" { vec![] } else { c.args[1].split(',').collect() };
    let mut r = bgzf::io::Reader::new(Cursor::new(bytes.clone()));
    let mut obs = Vec::new();
    let mut verdict = Ok(());
    let mut nseek = 0;
    let mut failed_seek = false;
    for (j, op) in ops.iter().enumerate() {
        let before = u64::from(r.virtual_position());
        let is_seek = op.starts_with('k');
        let g = if is_seek {
            nseek += 1;
            let (tc, tu) = op[1..].split_once(':').unwrap();
            let (tc, tu): (u64, u16) = (tc.parse().unwrap(), tu.parse().unwrap());
            match VP::try_from((tc, tu)) {
                Err(_) => "Err:InvalidInput".to_string(),
                Ok(v) => match guarded(AssertUnwindSafe(|| r.seek(v))) {
                    Outcome::Done(Ok(x)) => u64::from(x).to_string(),
                    Outcome::Done(Err(e)) => format!("Err:{}", errkind(&e)),
                    Outcome::Panicked(_) => "Panic".into(),
                },
            }
        } else {
            let n: usize = op[1..].parse().unwrap();
            let mut buf = vec![SENTINEL; n];
            match guarded(AssertUnwindSafe(|| Read::read(&mut r, &mut buf))) {
                Outcome::Done(Ok(k)) => k.to_string(),
                Outcome::Done(Err(e)) => format!("Err:{}", errkind(&e)),
                Outcome::Panicked(_) => "Panic".into(),
            }
        };
        let vp = match guarded(AssertUnwindSafe(|| r.virtual_position())) {
            Outcome::Done(v) => Some(v),
            Outcome::Panicked(_) => None,
        };
        obs.push(format!("{g}@{}", vp.map_or("Panic".to_string(), |v| format!("{}:{}", v.compressed(), v.uncompressed()))));
        if g == "Panic" || vp.is_none() {
            verdict = Err(("damaged-file-history-panic".to_string(), format!("op#{j} {op}")));
            break;
        }
        if is_seek && g.starts_with("Err") {
            // a failed seek leaves Reader::position at the block offset sought and the previous
            // block in place (c02_failed_seek_state): positions told later are relative to that
            // offset, the rule below is about reads of a reader whose seeks succeeded
            failed_seek = true;
        }
        if let (true, false, false, Some(v)) = (g.starts_with("Err"), is_seek, failed_seek, vp) {
            if u64::from(v) < before && verdict.is_ok() {
                verdict = Err((
                    "failed-block-stays-current".to_string(),
                    format!("op#{j} {op} failed and the told position went from {before} back to {}", u64::from(v)),
                ));
            }
        }
    }
    let o = if obs.is_empty() { "_".to_string() } else { obs.join(" ") };
    Obs::ok(o, bytes.len() > 28 && ops.len() >= 3 && nseek >= 1).with_verdict(verdict)
}


/// one call of a read / seek history: (what the call returned, the position told after it, the
/// bytes a read delivered)
fn hs_step(r: &mut bgzf::io::Reader<Cursor<Vec<u8>>>, op: &str) -> (String, Option<VP>, Vec<u8>) {
    let mut data = Vec::new();
    let g = if op.starts_with('k') {
        let (tc, tu) = op[1..].split_once(':').unwrap();
        let (tc, tu): (u64, u16) = (tc.parse().unwrap(), tu.parse().unwrap());
        match VP::try_from((tc, tu)) {
            Err(_) => "Err:InvalidInput".to_string(),
            Ok(v) => match guarded(AssertUnwindSafe(|| r.seek(v))) {
                Outcome::Done(Ok(x)) => u64::from(x).to_string(),
                Outcome::Done(Err(e)) => format!("Err:{}", errkind(&e)),
                Outcome::Panicked(_) => "Panic".into(),
            },
        }
    } else {
        let n: usize = op[1..].parse().unwrap();
        let mut buf = vec![SENTINEL; n];
        match guarded(AssertUnwindSafe(|| Read::read(r, &mut buf))) {
            Outcome::Done(Ok(k)) => {
                data.extend_from_slice(&buf[..k.min(n)]);
                k.to_string()
            }
            Outcome::Done(Err(e)) => format!("Err:{}", errkind(&e)),
            Outcome::Panicked(_) => "Panic".into(),
        }
    };
    let vp = match guarded(AssertUnwindSafe(|| r.virtual_position())) {
        Outcome::Done(v) => Some(v),
        Outcome::Panicked(_) => None,
    };
    (g, vp, data)
}

fn hs_row(g: &str, vp: Option<VP>) -> String {
    format!("{g}@{}", vp.map_or("Panic".to_string(), |v| format!("{}:{}", v.compressed(), v.uncompressed())))
}

/// The shift theorem after a successful seek, on two real readers over the same bytes (see the
/// header comment, kind hshift); compared with NV.Bgzf.SeekBytesShift.hshift_run.
fn run_hshift(c: &Case) -> Obs {
    let bytes = nv::unhex(&c.args[0]);
    let split = |s: &str| -> Vec<String> { if s == "_" { vec![] } else { s.split(',').map(str::to_string).collect() } };
    let (ops1, mid, ns) = (split(&c.args[1]), split(&c.args[2]), split(&c.args[3]));
    let join = |v: &[String]| if v.is_empty() { "_".to_string() } else { v.join(" ") };
    let mut verdict = Ok(());
    let mut panic = false;
    // reader A
    let mut a = bgzf::io::Reader::new(Cursor::new(bytes.clone()));
    let mut rows1 = Vec::new();
    let mut all_ok = true;
    for op in &ops1 {
        let (g, vp, _) = hs_step(&mut a, op);
        all_ok &= !g.starts_with("Err");
        panic |= g == "Panic" || vp.is_none();
        rows1.push(hs_row(&g, vp));
    }
    let told = match guarded(AssertUnwindSafe(|| a.virtual_position())) {
        Outcome::Done(v) => v,
        Outcome::Panicked(_) => return Obs::fail("-", "damaged-file-history-panic", "tell after ops1"),
    };
    let (mut rows_a, mut data_a) = (Vec::new(), Vec::new());
    for n in &ns {
        let (g, vp, d) = hs_step(&mut a, &format!("r{n}"));
        panic |= g == "Panic" || vp.is_none();
        rows_a.push(hs_row(&g, vp));
        data_a.push(d);
    }
    // reader B
    let mut b = bgzf::io::Reader::new(Cursor::new(bytes.clone()));
    for op in &mid {
        let (g, vp, _) = hs_step(&mut b, op);
        panic |= g == "Panic" || vp.is_none();
    }
    let (sg, svp, _) = hs_step(&mut b, &format!("k{}:{}", told.compressed(), told.uncompressed()));
    panic |= sg == "Panic" || svp.is_none();
    let (mut rows_b, mut data_b) = (Vec::new(), Vec::new());
    for n in &ns {
        let (g, vp, d) = hs_step(&mut b, &format!("r{n}"));
        panic |= g == "Panic" || vp.is_none();
        rows_b.push(hs_row(&g, vp));
        data_b.push(d);
    }
    let seek_ok = !sg.starts_with("Err") && sg != "Panic";
    if panic {
        verdict = Err(("damaged-file-history-panic".to_string(), "hshift".to_string()));
    } else if all_ok && seek_ok && rows_a != rows_b {
        verdict = Err(("seek-to-told-position-not-shift".to_string(), format!("A: {} B: {}", join(&rows_a), join(&rows_b))));
    } else if all_ok && seek_ok && data_a != data_b {
        verdict = Err(("seek-to-told-position-other-data".to_string(), format!("told {}:{}", told.compressed(), told.uncompressed())));
    } else if all_ok && told.uncompressed() > 0 && !(seek_ok && svp == Some(told)) {
        verdict = Err(("seek-to-told-position-inside-block-fails".to_string(), format!("told {}:{} seek {}", told.compressed(), told.uncompressed(), hs_row(&sg, svp))));
    }
    let o = format!(
        "{} | {}:{} | {} | {} | {}",
        join(&rows1),
        told.compressed(),
        told.uncompressed(),
        join(&rows_a),
        hs_row(&sg, svp),
        join(&rows_b)
    );
    Obs::ok(o, all_ok && seek_ok && !ops1.is_empty() && ns.len() >= 2).with_verdict(verdict)
}

/// The shift theorem after a successful seek with FURTHER SEEKS in the continuation, on two real
/// readers over the same bytes (kind hshifts: like hshift, but the continuation is a history of
/// reads and seeks); compared with NV.Bgzf.SeekBytesShiftOps.hshiftops_run.  Asserted on the real
/// rows (theorem c02_hshiftops_run_shift): when ops1 had no error and the seek succeeded, and the
/// told position is inside a block or the continuation does not start with a failing seek, the
/// rows (and the data) of the two readers are equal; with no premise, the first call returns the
/// same in both (c02_seek_to_told_position_first_call).
fn run_hshifts(c: &Case) -> Obs {
    let bytes = nv::unhex(&c.args[0]);
    let split = |s: &str| -> Vec<String> { if s == "_" { vec![] } else { s.split(',').map(str::to_string).collect() } };
    let (ops1, mid, ops2) = (split(&c.args[1]), split(&c.args[2]), split(&c.args[3]));
    let join = |v: &[String]| if v.is_empty() { "_".to_string() } else { v.join(" ") };
    let mut verdict = Ok(());
    let mut panic = false;
    // reader A
    let mut a = bgzf::io::Reader::new(Cursor::new(bytes.clone()));
    let mut rows1 = Vec::new();
    let mut all_ok = true;
    for op in &ops1 {
        let (g, vp, _) = hs_step(&mut a, op);
        all_ok &= !g.starts_with("Err");
        panic |= g == "Panic" || vp.is_none();
        rows1.push(hs_row(&g, vp));
    }
    let told = match guarded(AssertUnwindSafe(|| a.virtual_position())) {
        Outcome::Done(v) => v,
        Outcome::Panicked(_) => return Obs::fail("-", "damaged-file-history-panic", "tell after ops1"),
    };
    let (mut rows_a, mut data_a, mut res_a) = (Vec::new(), Vec::new(), Vec::new());
    for op in &ops2 {
        let (g, vp, d) = hs_step(&mut a, op);
        panic |= g == "Panic" || vp.is_none();
        rows_a.push(hs_row(&g, vp));
        res_a.push(g);
        data_a.push(d);
    }
    // reader B
    let mut b = bgzf::io::Reader::new(Cursor::new(bytes.clone()));
    for op in &mid {
        let (g, vp, _) = hs_step(&mut b, op);
        panic |= g == "Panic" || vp.is_none();
    }
    let (sg, svp, _) = hs_step(&mut b, &format!("k{}:{}", told.compressed(), told.uncompressed()));
    panic |= sg == "Panic" || svp.is_none();
    let (mut rows_b, mut data_b, mut res_b) = (Vec::new(), Vec::new(), Vec::new());
    for op in &ops2 {
        let (g, vp, d) = hs_step(&mut b, op);
        panic |= g == "Panic" || vp.is_none();
        rows_b.push(hs_row(&g, vp));
        res_b.push(g);
        data_b.push(d);
    }
    let seek_ok = !sg.starts_with("Err") && sg != "Panic";
    let first_fails = ops2.first().is_some_and(|o| o.starts_with('k')) && res_a.first().is_some_and(|g| g.starts_with("Err"));
    let premise = told.uncompressed() > 0 || !first_fails;
    let nseek2 = ops2.iter().filter(|o| o.starts_with('k')).count();
    if panic {
        verdict = Err(("damaged-file-history-panic".to_string(), "hshifts".to_string()));
    } else if all_ok && seek_ok && premise && rows_a != rows_b {
        verdict = Err(("seek-to-told-position-not-shift".to_string(), format!("A: {} B: {}", join(&rows_a), join(&rows_b))));
    } else if all_ok && seek_ok && premise && data_a != data_b {
        verdict = Err(("seek-to-told-position-other-data".to_string(), format!("told {}:{}", told.compressed(), told.uncompressed())));
    } else if all_ok && seek_ok && res_a.first() != res_b.first() {
        verdict = Err(("seek-to-told-position-first-call-differs".to_string(), format!("A: {} B: {}", join(&rows_a), join(&rows_b))));
    }
    let o = format!(
        "{} | {}:{} | {} | {} | {}",
        join(&rows1),
        told.compressed(),
        told.uncompressed(),
        join(&rows_a),
        hs_row(&sg, svp),
        join(&rows_b)
    );
    Obs::ok(o, all_ok && seek_ok && premise && nseek2 >= 1 && ops2.len() >= 2).with_verdict(verdict)
}

/// The relocation form of the shift theorem on two real readers (see the header comment, kind
/// hreloc); compared with NV.Bgzf.SeekBytesReloc.hreloc_run.
fn run_hreloc(c: &Case) -> Obs {
    let bytes = nv::unhex(&c.args[0]);
    let split = |s: &str| -> Vec<String> { if s == "_" { vec![] } else { s.split(',').map(str::to_string).collect() } };
    let (mid, ns) = (split(&c.args[1]), split(&c.args[3]));
    let (tc, tu) = c.args[2].split_once(':').unwrap();
    let (tc, tu): (u64, u16) = (tc.parse().unwrap(), tu.parse().unwrap());
    let join = |v: &[String]| if v.is_empty() { "_".to_string() } else { v.join(" ") };
    let mut panic = false;
    let moved = |vp: Option<VP>| -> Option<VP> { vp.and_then(|v| VP::try_from((v.compressed() + tc, v.uncompressed())).ok()) };
    // reader B
    let mut b = bgzf::io::Reader::new(Cursor::new(bytes.clone()));
    for op in &mid {
        let (g, vp, _) = hs_step(&mut b, op);
        panic |= g == "Panic" || vp.is_none();
    }
    let (sg_b, svp_b, _) = hs_step(&mut b, &format!("k{tc}:{tu}"));
    panic |= sg_b == "Panic" || svp_b.is_none();
    let (mut rows_b, mut data_b) = (Vec::new(), Vec::new());
    for n in &ns {
        let (g, vp, d) = hs_step(&mut b, &format!("r{n}"));
        panic |= g == "Panic" || vp.is_none();
        rows_b.push(hs_row(&g, vp));
        data_b.push(d);
    }
    // reader C over the bytes from tc on
    let suffix: Vec<u8> = if (tc as usize) < bytes.len() { bytes[tc as usize..].to_vec() } else { Vec::new() };
    let mut r = bgzf::io::Reader::new(Cursor::new(suffix));
    let (sg_c, svp_c, _) = hs_step(&mut r, &format!("k0:{tu}"));
    panic |= sg_c == "Panic" || svp_c.is_none();
    let (mut rows_c, mut rows_m, mut data_c) = (Vec::new(), Vec::new(), Vec::new());
    for n in &ns {
        let (g, vp, d) = hs_step(&mut r, &format!("r{n}"));
        panic |= g == "Panic" || vp.is_none();
        rows_c.push(hs_row(&g, vp));
        rows_m.push(hs_row(&g, moved(vp)));
        data_c.push(d);
    }
    let seek_ok = !sg_b.starts_with("Err") && sg_b != "Panic";
    let mut verdict = Ok(());
    if panic {
        verdict = Err(("damaged-file-history-panic".to_string(), "hreloc".to_string()));
    } else if seek_ok && (sg_c.starts_with("Err") || svp_b != moved(svp_c) || rows_b != rows_m) {
        verdict = Err(("seek-not-relocatable".to_string(), format!("B: {} {} C: {} {}", hs_row(&sg_b, svp_b), join(&rows_b), hs_row(&sg_c, svp_c), join(&rows_c))));
    } else if seek_ok && data_b != data_c {
        verdict = Err(("seek-relocated-other-data".to_string(), format!("target {tc}:{tu}")));
    }
    let o = format!(
        "{} | {} | {} | {} | {} | {}",
        hs_row(&sg_b, svp_b),
        join(&rows_b),
        hs_row(&sg_c, svp_c),
        join(&rows_c),
        moved(svp_c).map_or("Panic".to_string(), |v| format!("{}:{}", v.compressed(), v.uncompressed())),
        join(&rows_m)
    );
    Obs::ok(o, seek_ok && tc > 0 && ns.len() >= 2).with_verdict(verdict)
}

// -------------------------------------------------------------------------------------------
// writer over a FAILING destination (kind wfs, modelled: NV.Bgzf.WriterTellSink.fwtell_run)

const FAULT_KINDS: [io::ErrorKind; 8] = [
    io::ErrorKind::Interrupted,
    io::ErrorKind::WriteZero,
    io::ErrorKind::InvalidInput,
    io::ErrorKind::Other,
    io::ErrorKind::BrokenPipe,
    io::ErrorKind::WouldBlock,
    io::ErrorKind::TimedOut,
    io::ErrorKind::PermissionDenied,
];

fn parse_faults(s: &str) -> Vec<nv::adversary::Fault> {
    use nv::adversary::Fault;
    s.split(',')
        .filter(|p| *p != "_" && !p.is_empty())
        .map(|p| match p.as_bytes()[0] {
            b'F' => Fault::Full,
            b'S' => Fault::Short(p[1..].parse().unwrap()),
            b'I' => Fault::Interrupted,
            b'E' => Fault::Fail(FAULT_KINDS[p[1..].parse::<usize>().unwrap()]),
            _ => panic!("fault event"),
        })
        .collect()
}

/// what the inner writer is asked to write, piece by piece (one piece = one write_all of
/// writer/frame.rs): used ONLY to pick up the compressed data of every frame the writer tries to
/// emit (12th piece), i.e. the DEFLATE size oracle of the model
#[derive(Default)]
struct Tap {
    pending: usize,
    piece: usize,
    in_eof: bool,
    cdatas: Vec<Vec<u8>>,
}

struct TapSink {
    inner: nv::adversary::FaultySink,
    tap: std::sync::Arc<std::sync::Mutex<Tap>>,
}

impl Write for TapSink {
    fn write(&mut self, buf: &[u8]) -> io::Result<usize> {
        let mut t = self.tap.lock().unwrap();
        let fresh = t.pending == 0;
        if fresh {
            if t.piece == 0 {
                t.in_eof = buf.len() == 28;
            }
            if !t.in_eof && t.piece == 11 && t.cdatas.last().map(|c| c.as_slice()) != Some(buf) {
                t.cdatas.push(buf.to_vec());
            }
        }
        let r = self.inner.write(buf);
        match &r {
            Ok(n) => {
                t.pending = if fresh { buf.len() - n } else { t.pending - n };
                if t.pending == 0 {
                    t.piece = if t.in_eof || t.piece == 13 { 0 } else { t.piece + 1 };
                }
            }
            Err(e) if e.kind() == io::ErrorKind::Interrupted => {}
            Err(_) => {
                t.pending = 0;
                t.piece = 0;
            }
        }
        r
    }
    fn flush(&mut self) -> io::Result<()> {
        self.inner.flush()
    }
}

struct FsRun {
    calls: Vec<(String, String, usize)>, // result, position told after the call, inner.len() after it
    failed_tf_before: Vec<bool>,         // per told position: a try_finish call failed earlier
    told: Vec<Option<VP>>,
    end: String,
    pos: u64,
    bytes: Vec<u8>,
    table: Vec<(usize, u64, usize)>,
    panicked: bool,
}

fn inflate_raw(c: &[u8]) -> Vec<u8> {
    let mut d = Vec::new();
    let _ = flate2::read::DeflateDecoder::new(c).read_to_end(&mut d);
    d
}

fn faulty_script(level: u8, finish: &str, script: &str, faults: &str) -> FsRun {
    let sink = nv::adversary::FaultySink::new(parse_faults(faults));
    let tap = std::sync::Arc::new(std::sync::Mutex::new(Tap::default()));
    let lvl = bgzf::io::writer::CompressionLevel::new(level).unwrap();
    let mut w = bgzf::io::writer::Builder::default()
        .set_compression_level(lvl)
        .build_from_writer(TapSink { inner: sink.clone(), tap: tap.clone() });
    let tell = |w: &bgzf::io::Writer<TapSink>| match guarded(AssertUnwindSafe(|| w.virtual_position())) {
        Outcome::Done(v) => Some(v),
        Outcome::Panicked(_) => None,
    };
    let show_vp = |v: Option<VP>| v.map_or("Panic".to_string(), |v| format!("{}:{}", v.compressed(), v.uncompressed()));
    let mut run = FsRun {
        calls: Vec::new(),
        failed_tf_before: vec![false],
        told: vec![tell(&w)],
        end: String::new(),
        pos: 0,
        bytes: Vec::new(),
        table: Vec::new(),
        panicked: false,
    };
    let mut failed_tf = false;
    for p in script.split(',').filter(|p| *p != "_") {
        let res: Outcome<io::Result<Option<usize>>> = if p == "f" {
            guarded(AssertUnwindSafe(|| w.flush().map(|_| None)))
        } else if p == "t" {
            guarded(AssertUnwindSafe(|| w.try_finish().map(|_| None)))
        } else {
            let q: Vec<u64> = p[1..].split(':').map(|x| x.parse().unwrap()).collect();
            let data = pattern(q[0] as usize, q[1], q[2]);
            if p.starts_with('W') {
                guarded(AssertUnwindSafe(|| w.write_all(&data).map(|_| None)))
            } else {
                guarded(AssertUnwindSafe(|| w.write(&data).map(Some)))
            }
        };
        let r = match res {
            Outcome::Done(Ok(Some(a))) => format!("Ok:{a}"),
            Outcome::Done(Ok(None)) => "Ok".to_string(),
            Outcome::Done(Err(e)) => {
                if p == "t" {
                    failed_tf = true;
                }
                format!("Err:{}", errkind(&e))
            }
            Outcome::Panicked(_) => {
                run.panicked = true;
                "Panic".to_string()
            }
        };
        if run.panicked {
            run.calls.push((r, "Panic".into(), sink.bytes().len()));
            break;
        }
        let v = tell(&w);
        run.calls.push((r, show_vp(v), sink.bytes().len()));
        run.told.push(v);
        run.failed_tf_before.push(failed_tf);
    }
    if run.panicked {
        run.end = "Panic".into();
        run.pos = w.position();
        std::mem::forget(w);
    } else if finish == "finish" {
        // finish(self): on Err the writer is dropped inside (Drop runs try_finish once more)
        let before = w.position();
        let tapc = tap.clone();
        let _ = tapc;
        // position() is not observable after finish(self); take it from a try_finish-equivalent:
        // finish = try_finish + take, so run try_finish, read position, then finish (a no-op
        // when the first succeeded; on Err it is the Drop path's second try_finish)
        let r1 = guarded(AssertUnwindSafe(|| w.try_finish()));
        match r1 {
            Outcome::Done(Ok(())) => {
                run.pos = w.position();
                run.end = match guarded(AssertUnwindSafe(|| w.finish().map(|_| ()))) {
                    Outcome::Done(Ok(())) => "Ok".into(),
                    Outcome::Done(Err(e)) => format!("second:Err:{}", errkind(&e)),
                    Outcome::Panicked(_) => "Panic".into(),
                };
            }
            Outcome::Done(Err(e)) => {
                run.end = format!("Err:{}", errkind(&e));
                let _ = guarded(AssertUnwindSafe(|| w.try_finish())); // what Drop does
                run.pos = w.position();
                let _ = w.into_inner();
            }
            Outcome::Panicked(_) => {
                run.end = "Panic".into();
                run.pos = before;
                std::mem::forget(w);
            }
        }
    } else {
        run.end = match guarded(AssertUnwindSafe(|| w.flush())) {
            Outcome::Done(Ok(())) => "Ok".into(),
            Outcome::Done(Err(e)) => format!("Err:{}", errkind(&e)),
            Outcome::Panicked(_) => "Panic".into(),
        };
        run.pos = w.position();
        let _ = w.into_inner();
    }
    run.bytes = sink.bytes();
    for c in tap.lock().unwrap().cdatas.iter() {
        let d = inflate_raw(c);
        let h = d.iter().fold(0u64, |h, &x| mix(h, u64::from(x)));
        let e = (d.len(), h, c.len());
        if !run.table.contains(&e) {
            run.table.push(e);
        }
    }
    run
}

/// BSIZE walk of the sink, exactly as WriterTellSink.frames_sane does it: the (offset, size) of the
/// frames, if they take up all of the bytes and every ISIZE is <= 65536
fn walk_frames(bytes: &[u8]) -> Option<Vec<(usize, usize)>> {
    let (mut i, mut t) = (0usize, Vec::new());
    loop {
        let rem = bytes.len() - i;
        if rem < 18 {
            break;
        }
        let bs = u16::from_le_bytes([bytes[i + 16], bytes[i + 17]]) as usize + 1;
        if bs < 26 || rem < bs {
            break;
        }
        if u32::from_le_bytes(bytes[i + bs - 4..i + bs].try_into().unwrap()) > 65536 {
            return None;
        }
        t.push((i, bs));
        i += bs;
    }
    if i == bytes.len() { Some(t) } else { None }
}

fn run_wfs(c: &Case) -> Obs {
    let level = c.u(0) as u8;
    let finish = c.args[1].as_str();
    let n = c.u(3) as usize;
    let run = faulty_script(level, finish, &c.args[2], &c.args[4]);
    let mut parts: Vec<String> = run.calls.iter().map(|(r, v, l)| format!("{r}@{v}#{l}")).collect();
    parts.push(format!("|{} {} {}|", run.end, run.pos, run.bytes.len()));
    let frames = if run.end == "Ok" { walk_frames(&run.bytes) } else { None };
    let mut verdict: Result<(), (String, String)> = Ok(());
    let mut fail = |tag: &str, d: String| {
        if verdict.is_ok() {
            verdict = Err((tag.to_string(), d));
        }
    };
    if run.panicked || run.end == "Panic" {
        fail("writer-panics-over-failing-sink", c.args[4].clone());
    }
    match &frames {
        None => parts.push("-".into()),
        Some(fr) => {
            // the whole uncompressed stream of the file left behind
            let whole = {
                let mut r = bgzf::io::Reader::new(Cursor::new(run.bytes.clone()));
                bounded_read_to_end(&mut r, READ_ALL_CAP, 65536)
            };
            let any_failed_tf = run.failed_tf_before.last().copied().unwrap_or(false);
            if run.pos != run.bytes.len() as u64 && whole.is_ok() {
                fail(
                    if any_failed_tf { "failed-try-finish-advances-position" } else { "writer-position-differs-from-file-length" },
                    format!("position()={} file={} bytes, every frame complete", run.pos, run.bytes.len()),
                );
            }
            let mut prev_tail = usize::MAX;
            for (i, v) in run.told.iter().enumerate() {
                let Some(v) = *v else {
                    parts.push("Panic=?>?".into());
                    continue;
                };
                let cc = v.compressed() as usize;
                let inside = fr.iter().any(|&(o, s)| o < cc && cc < o + s);
                let tag = if run.failed_tf_before[i] { "failed-try-finish-advances-position" } else { "writer-told-position-does-not-name-next-byte-failing-sink" };
                if inside {
                    parts.push(format!("{}:{}=?>?", v.compressed(), v.uncompressed()));
                    fail(tag, format!("sample {i} {}:{} lies inside a frame of the file left behind", v.compressed(), v.uncompressed()));
                    continue;
                }
                let mut r = bgzf::io::Reader::new(Cursor::new(run.bytes.clone()));
                let sk = match guarded(AssertUnwindSafe(|| r.seek(v))) {
                    Outcome::Done(Ok(x)) => format!("{}:{}", x.compressed(), x.uncompressed()),
                    Outcome::Done(Err(e)) => format!("Err:{}", errkind(&e)),
                    Outcome::Panicked(_) => "Panic".into(),
                };
                let rd = bounded_read_to_end(&mut r, READ_ALL_CAP, n);
                // the property on the implementation: what is read from a told position is a
                // suffix of the whole stream, and the suffixes never grow along the history
                match (&rd, &whole) {
                    (Ok(t), Ok(wh)) => {
                        if !wh.ends_with(t) || t.len() > prev_tail {
                            fail(tag, format!("sample {i} {}:{} reads {} bytes, previous sample {}", v.compressed(), v.uncompressed(), t.len(), prev_tail));
                        }
                        if cc > run.bytes.len() {
                            fail(tag, format!("sample {i} {}:{} beyond the file ({} bytes)", v.compressed(), v.uncompressed(), run.bytes.len()));
                        }
                        prev_tail = t.len();
                    }
                    _ => fail(tag, format!("sample {i}: read after seek {:?}", rd.as_ref().err())),
                }
                let rd = match rd {
                    Ok(t) => canon_bytes(&t),
                    Err(e) if e.starts_with("Panic") => "Panic".to_string(),
                    Err(e) => e,
                };
                parts.push(format!("{}:{}={}>{}", v.compressed(), v.uncompressed(), sk, rd));
            }
        }
    }
    let nontrivial = run.calls.iter().any(|(r, _, _)| r.starts_with("Err")) && run.calls.len() >= 2;
    Obs::ok(parts.join(" "), nontrivial).with_verdict(verdict)
}

fn run(c: &Case) -> Obs {
    match c.kind.as_str() {
        "wfs" => run_wfs(c),
        "hrs" => run_hrs(c),
        "hshift" => run_hshift(c),
        "hshifts" => run_hshifts(c),
        "hreloc" => run_hreloc(c),
        "hist" => run_hist(c),
        "wtell" | "wtm" => run_wtell(c),
        "vp" => run_vp(c),
        "gzi" => run_gzi(c),
        "pp" => run_pp(c),
        "hidx" => run_hidx(c),
        "hseek" => run_hseek(c),
        "hread" => run_hread(c),
        k => Obs::fail("-", "harness-unknown-kind", k),
    }
}

// -------------------------------------------------------------------------------------------
// generation

fn gen_frame(rng: &mut Rng, big_ok: bool) -> FSpec {
    let a = rng.below(251);
    let m = rng.range(1, 250);
    let class = rng.below(if big_ok { 14 } else { 9 });
    let (method, len): (String, usize) = match class {
        0 => ("h0".into(), 0),
        1 => ("e".into(), 0),
        2 => (format!("w{}", rng.below(10)), 1),
        3 => (format!("h{}", rng.below(10)), 1),
        4 => (format!("w{}", rng.below(10)), 7),
        5 => (format!("w{}", rng.below(10)), rng.range(2, 40) as usize),
        6 => (format!("h{}", rng.below(10)), rng.range(2, 40) as usize),
        7 => (format!("w{}", rng.below(10)), rng.range(100, 3000) as usize),
        8 => ("w0".into(), rng.range(1, 300) as usize),
        9 => (format!("w{}", rng.range(1, 9)), *rng.pick(&[65279usize, 65280, 65281, 65494, 65495])),
        10 => ("w0".into(), *rng.pick(&[65280usize, 65495])),
        11 => (format!("h{}", rng.range(1, 9)), 65536),
        12 => (format!("h{}", rng.range(1, 9)), *rng.pick(&[65535usize, 65536, 65496])),
        _ => ("h0".into(), *rng.pick(&[60000usize, 65500])),
    };
    let data = pattern(len, a, m);
    let csize = build_frame(&method, &data).len();
    FSpec { method, len, a, m, csize }
}

fn gen_layout(rng: &mut Rng) -> Vec<FSpec> {
    let n = match rng.below(10) {
        0 => rng.below(2),
        1..=5 => rng.range(1, 4),
        _ => rng.range(3, 6),
    } as usize;
    let big_budget = rng.below(3) as usize + usize::from(rng.chance(1, 3)); // at most 3 large frames
    let mut big = 0;
    let mut fs = Vec::new();
    for _ in 0..n {
        let f = gen_frame(rng, big < big_budget);
        if f.len > 40000 {
            big += 1;
        }
        fs.push(f);
    }
    // ending: EOF marker / hand-made empty frame / nothing
    match rng.below(10) {
        0..=4 => fs.push(FSpec { method: "e".into(), len: 0, a: 0, m: 1, csize: 28 }),
        5 => {
            let csize = build_frame("h6", &[]).len();
            fs.push(FSpec { method: "h6".into(), len: 0, a: 0, m: 1, csize })
        }
        _ => {}
    }
    fs
}

fn gen_size(rng: &mut Rng, l: &Layout, win: usize) -> usize {
    let lens: Vec<usize> = l.tbl.iter().map(|t| t.2).collect();
    match rng.below(12) {
        0 => 0,
        1 => 1,
        2 => rng.range(2, 9) as usize,
        3 => win,
        4 => win + 1,
        5 => win.saturating_sub(1),
        6 => *rng.pick(&[65535usize, 65536, 65537, 70000]),
        7 => lens.get(rng.below(lens.len().max(1) as u64) as usize).copied().unwrap_or(3) + rng.below(3) as usize,
        8 => rng.below(l.d.len() as u64 + 2) as usize,
        9 => *rng.pick(&[131072usize, 140000, 65536]),
        _ => rng.range(1, 300) as usize,
    }
}

/// buffer size of a read-to-end: at most ~24 iterations over the data (the extracted model pays
/// O(block) per read call), 0 stays 0
fn all_size(l: &Layout, n: usize) -> usize {
    if n == 0 { 0 } else { n.max(l.d.len() / 24 + 1) }
}

fn gen_seek_target(rng: &mut Rng, l: &Layout) -> (u64, u16) {
    if l.tbl.is_empty() || rng.chance(1, 14) {
        return (l.file_len, 0);
    }
    let (c, _, len) = *rng.pick(&l.tbl);
    let maxu = len.min(65535);
    let u = match rng.below(7) {
        0 | 1 => 0,
        2 => maxu,
        3 => maxu.saturating_sub(1),
        4 => 1.min(maxu),
        _ => rng.below(maxu as u64 + 1) as usize,
    };
    (c, u as u16)
}

fn gen_offset(rng: &mut Rng, l: &Layout) -> u64 {
    let total = l.d.len() as u64;
    match rng.below(6) {
        0 => total,
        1 => 0,
        2 | 3 if !l.tbl.is_empty() => {
            let t = rng.pick(&l.tbl);
            let b = (t.1 + if rng.chance(1, 2) { t.2 } else { 0 }) as i64 + rng.range(0, 2) as i64 - 1;
            b.clamp(0, total as i64) as u64
        }
        _ => rng.below(total + 1),
    }
}

fn gen_ops(rng: &mut Rng, kind: &str, l: &Layout, index: &[(u64, u64)], nops: usize) -> Vec<Op> {
    let mut flat = Flat::new(l, kind != "mt");
    let mut ops = Vec::new();
    // the two formerly defective classes (seek to end of file over a buffered block, 64 KiB
    // reads at the end of a marker-less file) are ordinary valid histories since the repair
    let allow_known = true;
    let _ = rng.chance(1, 8);
    let mut tries = 0;
    while ops.len() < nops && tries < nops * 6 {
        tries += 1;
        let op = match rng.below(22) {
            20 | 21 => {
                let n = match rng.below(6) {
                    0 => 1,
                    1 => *rng.pick(&[65535usize, 65536, 70000]),
                    2 => 4096,
                    3 => gen_size(rng, l, flat.win),
                    _ => rng.range(1, 300) as usize,
                };
                Op::ReadAll(all_size(l, n))
            }
            0..=4 => Op::Read(gen_size(rng, l, flat.win)),
            5..=7 => {
                let n = gen_size(rng, l, flat.win);
                if kind == "ix" || rng.chance(1, 6) { Op::ExactStd(n) } else { Op::Exact(n) }
            }
            8..=10 => Op::Fill,
            11..=13 => Op::Consume(match rng.below(5) {
                0 => 0,
                1 => flat.win,
                2 => flat.win + 1 + rng.below(70000) as usize,
                _ => rng.below(flat.win as u64 + 2) as usize,
            }),
            14..=17 if kind != "ix" => {
                let (c, u) = gen_seek_target(rng, l);
                Op::Seek(c, u)
            }
            _ => Op::SeekU(gen_offset(rng, l)),
        };
        // IndexedReader's read_exact is the std default one
        let op = match (kind, op) {
            ("ix", Op::Exact(n)) => Op::ExactStd(n),
            ("mt", Op::ExactStd(n)) => Op::Exact(n),
            (_, o) => o,
        };
        let mut trial = flat.clone();
        let before = trial.tainted;
        trial.step(op, index);
        if trial.tainted.is_some() && before.is_none() && !allow_known {
            continue;
        }
        flat = trial;
        ops.push(op);
    }
    ops
}

fn gen_index(rng: &mut Rng, l: &Layout) -> Vec<(u64, u64)> {
    let mut ix = l.full_index();
    if rng.chance(1, 4) {
        // without the entries of trailing empty frames (e.g. the EOF marker)
        while ix.last().is_some_and(|e| e.1 as usize == l.d.len()) && l.tbl.last().is_some_and(|t| t.2 == 0) {
            let c = ix.last().unwrap().0;
            let k = l.tbl.binary_search_by_key(&c, |t| t.0).unwrap();
            if l.tbl[k].2 == 0 && l.tbl[k..].iter().all(|t| t.2 == 0) {
                ix.pop();
            } else {
                break;
            }
        }
    }
    ix
}

fn push_hist(w: &mut CaseWriter, kind: &str, fs: &[FSpec], ix: &[(u64, u64)], ops: &[Op]) {
    w.push("hist", vec![kind.into(), fmt_frames(fs), fmt_index(ix), fmt_ops(ops)]);
}

fn fixed(method: &str, len: usize, a: u64, m: u64) -> FSpec {
    let csize = build_frame(method, &pattern(len, a, m)).len();
    FSpec { method: method.into(), len, a, m, csize }
}

fn generate(rng: &mut Rng, tier: &str, w: &mut CaseWriter) {
    let thorough = tier == "thorough";
    // ---- hand-written boundary histories (always)
    let hello = fixed("w6", 5, 104, 3);
    let eof = fixed("e", 0, 0, 1);
    let b7 = fixed("w6", 7, 1, 1);
    let empty = fixed("h0", 0, 0, 1);
    let full = fixed("h6", 65536, 9, 7);
    {
        // F1: read a block, seek to the end-of-file position, read again
        let fs = vec![hello.clone(), eof.clone()];
        let l = assemble(&fs);
        let ix = l.full_index();
        push_hist(w, "rd", &fs, &ix, &[Op::Read(5), Op::Seek(l.file_len, 0), Op::Read(5), Op::Read(5)]);
        push_hist(w, "mt", &fs, &ix, &[Op::Read(5), Op::Seek(l.file_len, 0), Op::Read(5), Op::Read(5)]);
        // harmless form: everything read (EOF marker buffered), then seek to EOF
        push_hist(w, "rd", &fs, &ix, &[Op::Read(9), Op::Read(9), Op::Seek(l.file_len, 0), Op::Read(5)]);
        // fresh reader, seek to EOF: bytes fine, position reported is that of the stale initial block
        push_hist(w, "rd", &fs, &ix, &[Op::Seek(l.file_len, 0), Op::Read(5)]);
        // no EOF marker: the position told at the end, sought to, re-exposes the last block
        let fs2 = vec![b7.clone(), hello.clone()];
        let l2 = assemble(&fs2);
        push_hist(w, "rd", &fs2, &l2.full_index(), &[Op::Exact(12), Op::Seek(l2.file_len, 0), Op::Fill, Op::Read(3)]);
        // direct read at end of a marker-less file
        push_hist(w, "rd", &fs2, &l2.full_index(), &[Op::Read(70000), Op::Read(70000), Op::Read(70000), Op::Read(10)]);
        push_hist(w, "ix", &fs2, &l2.full_index(), &[Op::ExactStd(12), Op::Read(65536), Op::ExactStd(65536)]);
        // full 64 KiB block last, no marker: read_exact(65536) at EOF "succeeds"
        let fs3 = vec![full.clone()];
        let l3 = assemble(&fs3);
        push_hist(w, "rd", &fs3, &l3.full_index(), &[Op::Read(65536), Op::Exact(65536), Op::Read(1)]);
        // empty frames mid-file, both boundary forms, gzi at boundaries
        let fs4 = vec![b7.clone(), empty.clone(), eof.clone(), hello.clone(), full.clone(), eof.clone()];
        let l4 = assemble(&fs4);
        let ix4 = l4.full_index();
        let t = &l4.tbl;
        push_hist(
            w,
            "rd",
            &fs4,
            &ix4,
            &[
                Op::Seek(t[0].0, 7),
                Op::Consume(3),
                Op::Fill,
                Op::Seek(t[1].0, 0),
                Op::Consume(3),
                Op::Read(70000),
                Op::Read(70000),
                Op::SeekU(7),
                Op::Exact(6),
                Op::SeekU(12),
                Op::Fill,
                Op::SeekU(12 + 65536),
                Op::Read(1),
                Op::Seek(t[4].0, 65535),
                Op::Exact(1),
                Op::Exact(1),
            ],
        );
        push_hist(w, "ix", &fs4, &ix4, &[Op::SeekU(6), Op::ExactStd(3), Op::SeekU(11), Op::Read(70000), Op::Read(70000), Op::SeekU(0), Op::ExactStd(65548)]);
        push_hist(w, "mt", &fs4, &ix4, &[Op::Seek(t[3].0, 5), Op::Read(3), Op::SeekU(7), Op::Exact(6), Op::Seek(t[5].0, 0), Op::Read(1)]);
        // reads one byte short of the direct-path threshold in front of a full block
        let fs5 = vec![full.clone(), eof.clone()];
        let l5 = assemble(&fs5);
        push_hist(w, "rd", &fs5, &l5.full_index(), &[Op::Read(65535), Op::Read(65535), Op::Read(1), Op::Read(65535)]);
        let fs6 = vec![b7.clone(), full.clone(), hello.clone(), eof.clone()];
        let l6 = assemble(&fs6);
        push_hist(
            w,
            "rd",
            &fs6,
            &l6.full_index(),
            &[Op::Read(65535), Op::Read(65535), Op::Consume(70000), Op::Read(65536), Op::SeekU(7 + 65536), Op::Fill, Op::SeekU(7), Op::Exact(65537)],
        );
        // read to the end after seeks to every boundary form, small and direct-path buffers
        push_hist(
            w,
            "rd",
            &fs4,
            &ix4,
            &[
                Op::Seek(t[0].0, 3),
                Op::ReadAll(4099),
                Op::Seek(t[1].0, 0),
                Op::ReadAll(70000),
                Op::ReadAll(1),
                Op::Seek(t[4].0, 65535),
                Op::ReadAll(65536),
                Op::Seek(t[5].0, 0),
                Op::ReadAll(3),
                Op::Seek(l4.file_len, 0),
                Op::ReadAll(0),
                Op::ReadAll(9),
                Op::SeekU(12),
                Op::ReadAll(0),
                Op::ReadAll(65535),
            ],
        );
        push_hist(w, "ix", &fs4, &ix4, &[Op::SeekU(6), Op::ReadAll(5000), Op::SeekU(12 + 65536), Op::ReadAll(70000), Op::SeekU(0), Op::ReadAll(65536)]);
        push_hist(w, "mt", &fs4, &ix4, &[Op::Seek(t[3].0, 5), Op::ReadAll(3000), Op::SeekU(7), Op::ReadAll(70000)]);
        push_hist(w, "rd", &fs2, &l2.full_index(), &[Op::ReadAll(1), Op::Seek(l2.tbl[0].0, 6), Op::ReadAll(3), Op::Seek(l2.tbl[1].0, 5), Op::ReadAll(3)]);
        push_hist(w, "rd", &fs2, &l2.full_index(), &[Op::Seek(l2.tbl[1].0, 2), Op::ReadAll(70000), Op::ReadAll(70000), Op::Seek(0, 7), Op::ReadAll(2)]);
        // empty file / marker only
        push_hist(w, "rd", &[], &[], &[Op::ReadAll(3), Op::ReadAll(70000)]);
        push_hist(w, "rd", &[], &[], &[Op::Read(3), Op::Seek(0, 0), Op::Fill, Op::Exact(0), Op::Exact(1)]);
        push_hist(w, "rd", &[eof.clone()], &[], &[Op::Read(3), Op::Seek(0, 0), Op::Fill, Op::SeekU(0), Op::Read(70000)]);
    }
    // ---- random histories
    let n_hist = if thorough { 10_000 } else { 420 };
    for i in 0..n_hist {
        let fs = gen_layout(rng);
        let l = assemble(&fs);
        let ix = gen_index(rng, &l);
        let kind = match i % 10 {
            0..=5 => "rd",
            6 | 7 => "ix",
            _ => "mt",
        };
        let nops = rng.range(2, 40) as usize;
        let mut ops = gen_ops(rng, kind, &l, &ix, nops);
        if i % 3 == 0 {
            // end with: seek to a byte boundary, read to the end (c02_seek_then_read_to_end)
            if kind == "ix" {
                ops.push(Op::SeekU(gen_offset(rng, &l)));
            } else {
                let (c, u) = gen_seek_target(rng, &l);
                ops.push(Op::Seek(c, u));
            }
            ops.push(Op::ReadAll(all_size(&l, *rng.pick(&[1usize, 7, 4096, 65535, 65536, 70000]))));
            if rng.chance(1, 2) {
                ops.push(Op::Read(*rng.pick(&[1usize, 70000])));
            }
        }
        push_hist(w, kind, &fs, &ix, &ops);
    }
    // ---- writer histories
    let n_w = if thorough { 1500 } else { 80 };
    for _ in 0..n_w {
        let level = rng.below(10);
        let finish = if rng.chance(2, 3) { "finish" } else { "noeof" };
        let k = rng.range(1, 10);
        let mut ops = Vec::new();
        let mut total = 0usize;
        for _ in 0..k {
            if rng.chance(1, 3) {
                ops.push("f".to_string());
            } else {
                let n = match rng.below(8) {
                    0 => 0,
                    1 => 1,
                    2 => *rng.pick(&[65494usize, 65495, 65496, 65536]),
                    3 => rng.range(60000, 140000) as usize,
                    _ => rng.range(1, 2000) as usize,
                };
                if total + n > 400_000 {
                    continue;
                }
                total += n;
                let wr = if rng.chance(1, 4) { 'w' } else { 'W' };
                ops.push(format!("{wr}{}:{}:{}", n, rng.below(251), rng.range(1, 250)));
            }
        }
        let ops = if ops.is_empty() { "_".to_string() } else { ops.join(",") };
        w.push("wtell", vec![level.to_string(), finish.into(), ops]);
    }
    // ---- writer histories compared with the model (bounded data: the extracted model computes
    // CRC-32 and the reader model's block copies in Coq-extracted code)
    let n_wm = if thorough { 400 } else { 36 };
    for i in 0..n_wm {
        let level = rng.below(10);
        let finish = if rng.chance(2, 3) { "finish" } else { "noeof" };
        let k = rng.range(1, 8);
        let big_ok = i % 4 == 0;
        let mut ops = Vec::new();
        let mut total = 0usize;
        for _ in 0..k {
            if rng.chance(1, 3) {
                ops.push("f".to_string());
            } else {
                let n = match rng.below(10) {
                    0 => 0,
                    1 => 1,
                    2 if big_ok => *rng.pick(&[65494usize, 65495, 65496, 65536]),
                    3 if big_ok => rng.range(60000, 132000) as usize,
                    _ => rng.range(1, 1500) as usize,
                };
                if total + n > 135_000 {
                    continue;
                }
                total += n;
                let wr = if rng.chance(1, 4) { 'w' } else { 'W' };
                ops.push(format!("{wr}{}:{}:{}", n, rng.below(251), rng.range(1, 250)));
            }
        }
        let ops = if ops.is_empty() { "_".to_string() } else { ops.join(",") };
        let (bytes, d, _) = writer_script(level as u8, finish, &ops);
        let tbl = frame_table(&bytes, &d);
        let tbl = if tbl.is_empty() {
            "_".to_string()
        } else {
            tbl.iter().map(|(i, h, c)| format!("{i}:{h}:{c}")).collect::<Vec<_>>().join(",")
        };
        let n = (*rng.pick(&[1usize, 7, 4096, 65535, 65536, 70000])).max(d.len() / 16 + 1);
        w.push("wtm", vec![level.to_string(), finish.into(), ops, n.to_string(), tbl]);
    }
    // ---- writer histories over a FAILING destination, compared with the model (kind wfs)
    let n_fs = if thorough { 1500 } else { 90 };
    for i in 0..n_fs {
        let level = if i % 3 == 0 { 0 } else { rng.below(10) };
        let finish = if rng.chance(2, 3) { "finish" } else { "noeof" };
        let k = rng.range(1, 7);
        let big_ok = i % 6 == 0;
        let mut ops = Vec::new();
        let mut total = 0usize;
        for _ in 0..k {
            match rng.below(6) {
                0 => ops.push("f".to_string()),
                1 => ops.push("t".to_string()),
                _ => {
                    let n = match rng.below(10) {
                        0 => 0,
                        1 => 1,
                        2 if big_ok => *rng.pick(&[65494usize, 65495, 65496, 65536]),
                        3 if big_ok => rng.range(60000, 100000) as usize,
                        _ => rng.range(1, 1500) as usize,
                    };
                    if total + n > 100_000 {
                        continue;
                    }
                    total += n;
                    let wr = if rng.chance(1, 3) { 'w' } else { 'W' };
                    ops.push(format!("{wr}{}:{}:{}", n, rng.below(251), rng.range(1, 250)));
                }
            }
        }
        let ops = if ops.is_empty() { "_".to_string() } else { ops.join(",") };
        // the inner write calls of a fault-free run: 14 per data frame, 1 per EOF block
        let dry = faulty_script(level as u8, finish, &ops, "_");
        let mut starts = vec![0usize];
        for (_, sz) in walk_frames(&dry.bytes).unwrap_or_default() {
            let l = *starts.last().unwrap();
            starts.push(l + if sz == 28 { 1 } else { 14 });
        }
        let ncalls = *starts.last().unwrap();
        let code = |rng: &mut Rng| if rng.chance(1, 8) { rng.below(3) } else { rng.range(3, 7) };
        let mut ev: Vec<String> = Vec::new();
        match i % 5 {
            0 | 1 => {
                // failures that accept nothing of the frame: at the first inner write of a frame / EOF block
                let a = *rng.pick(&starts);
                ev = vec!["F".to_string(); a];
                ev.push(format!("E{}", code(rng)));
                if rng.chance(1, 2) {
                    let b = *rng.pick(&starts);
                    if b > a {
                        // the retry re-emits the frame from its first piece: one more call
                        ev.extend(vec!["F".to_string(); b - a]);
                        ev.push(format!("E{}", code(rng)));
                    }
                }
            }
            2 => {
                // a failure in the middle of a frame (a partial frame stays in the file)
                let a = *rng.pick(&starts) + rng.range(1, 13) as usize;
                ev = vec!["F".to_string(); a.saturating_sub(1)];
                ev.push(format!("S{}", rng.pick(&[1u64, 2, 10, 28, 70000])));
                ev.push(format!("E{}", code(rng)));
            }
            3 => {
                // a slow destination (one byte / a few bytes per call, Interrupted now and then) + one failure
                let l = ncalls * 3 + 20;
                let at = rng.below(l as u64) as usize;
                for j in 0..l.min(400) {
                    ev.push(if j == at {
                        format!("E{}", code(rng))
                    } else if rng.chance(1, 6) {
                        "I".to_string()
                    } else {
                        format!("S{}", rng.pick(&[1u64, 1, 2, 3, 17, 28]))
                    });
                }
            }
            _ => {
                for _ in 0..ncalls + 12 {
                    ev.push(match rng.below(100) {
                        0..=84 => "F".to_string(),
                        85..=90 => format!("S{}", rng.pick(&[1u64, 2, 3, 10, 28, 100, 70000])),
                        91..=94 => "I".to_string(),
                        _ => format!("E{}", code(rng)),
                    });
                }
            }
        }
        let faults = if ev.is_empty() { "_".to_string() } else { ev.join(",") };
        let run = faulty_script(level as u8, finish, &ops, &faults);
        let tbl = if run.table.is_empty() {
            "_".to_string()
        } else {
            run.table.iter().map(|(i, h, c)| format!("{i}:{h}:{c}")).collect::<Vec<_>>().join(",")
        };
        let n = (*rng.pick(&[1usize, 7, 4096, 65535, 65536, 70000])).max(total / 16 + 1);
        w.push("wfs", vec![level.to_string(), finish.into(), ops, n.to_string(), faults, tbl]);
    }
    // ---- pack/unpack/order: boundary block offsets x in-block offsets
    let cs = [0u64, 1, 2, 65535, 65536, (1 << 32) - 1, 1 << 32, (1 << 47) + 12345, (1 << 48) - 2, (1 << 48) - 1, 1 << 48, (1 << 48) + 1, u64::MAX >> 1, u64::MAX];
    let us = [0u64, 1, 2, 255, 256, 32767, 32768, 65534, 65535];
    let n_vp = if thorough { 20_000 } else { 600 };
    for i in 0..n_vp {
        let pickc = |rng: &mut Rng| if rng.chance(2, 3) { *rng.pick(&cs) } else { rng.next() >> rng.below(64) };
        let picku = |rng: &mut Rng| if rng.chance(1, 2) { *rng.pick(&us) } else { rng.below(65536) };
        let c1 = pickc(rng);
        let u1 = picku(rng);
        let (c2, u2) = match i % 4 {
            0 => (c1, picku(rng)),
            1 => (c1.wrapping_add(1), picku(rng)),
            2 => (c1, u1),
            _ => (pickc(rng), picku(rng)),
        };
        let word = if rng.chance(1, 4) { u64::MAX - rng.below(3) } else { rng.next() >> rng.below(64) };
        w.push("vp", vec![c1.to_string(), u1.to_string(), c2.to_string(), u2.to_string(), word.to_string()]);
    }
    // ---- gzi queries on sorted indexes (with repeated uncompressed offsets = empty blocks)
    let n_gzi = if thorough { 6000 } else { 300 };
    for _ in 0..n_gzi {
        let k = rng.below(7) as usize;
        let (mut c, mut u) = (0u64, 0u64);
        let mut ix = Vec::new();
        for _ in 0..k {
            c += rng.range(26, 70000);
            u += *rng.pick(&[0u64, 0, 1, 7, 65280, 65535, 65536]);
            if rng.chance(1, 40) {
                c += 1 << 48;
            }
            ix.push((c, u));
        }
        let p = match rng.below(5) {
            0 => ix.get(rng.below(k.max(1) as u64) as usize).map_or(0, |e| e.1),
            1 => ix.get(rng.below(k.max(1) as u64) as usize).map_or(1, |e| e.1 + 1),
            2 => ix.get(rng.below(k.max(1) as u64) as usize).map_or(0, |e| e.1.saturating_sub(1)),
            3 => u + *rng.pick(&[0u64, 1, 65535, 65536, 65537]),
            _ => rng.below(u + 70000),
        };
        w.push("gzi", vec![fmt_index(&ix), p.to_string()]);
    }
    // ---- gzi queries on HOSTILE indexes: unsorted, duplicated, reversed, rotated, huge values
    let n_hg = if thorough { 12_000 } else { 500 };
    for _ in 0..n_hg {
        let ix = gen_hostile_index(rng);
        let k = ix.len();
        let p = match rng.below(6) {
            0 => ix.get(rng.below(k.max(1) as u64) as usize).map_or(0, |e| e.1),
            1 => ix.get(rng.below(k.max(1) as u64) as usize).map_or(1, |e| e.1.saturating_add(1)),
            2 => ix.get(rng.below(k.max(1) as u64) as usize).map_or(0, |e| e.1.saturating_sub(1)),
            3 => ix.iter().map(|e| e.1).max().unwrap_or(0).saturating_add(*rng.pick(&[0u64, 1, 65535, 65536])),
            4 => *rng.pick(&[0u64, 1, u64::MAX, u64::MAX - 1, 1 << 63]),
            _ => rng.below(ix.iter().map(|e| e.1).max().unwrap_or(0).saturating_add(70000).max(1)),
        };
        w.push("gzi", vec![fmt_index(&ix), p.to_string()]);
    }
    // ---- slice::partition_point on every boolean slice up to a length (exhaustive), then random
    let max_len = if thorough { 14 } else { 10 };
    w.push("pp", vec!["_".into()]);
    for len in 1..=max_len {
        for bits in 0u32..(1 << len) {
            let s: String = (0..len).map(|i| if bits >> i & 1 == 1 { '1' } else { '0' }).collect();
            w.push("pp", vec![s]);
        }
    }
    for _ in 0..(if thorough { 4000 } else { 200 }) {
        let len = rng.range(max_len as u64 + 1, 300) as usize;
        let cut = rng.below(len as u64 + 1) as usize;
        let noise = rng.below(4);
        let s: String = (0..len)
            .map(|i| {
                let b = i < cut;
                if noise > 0 && rng.chance(noise, 12) { if b { '0' } else { '1' } } else if b { '1' } else { '0' }
            })
            .collect();
        w.push("pp", vec![s]);
    }
    // ---- histories over hostile indexes of real files (entries permuted / duplicated / dropped /
    //      shifted in their uncompressed offset / pointing beyond the end of the file)
    let n_hidx = if thorough { 2500 } else { 120 };
    for i in 0..n_hidx {
        let mut fs = gen_layout(rng);
        // keep these files small: the point is the index, not the data
        fs.retain(|f| f.len <= 3000);
        let l = assemble(&fs);
        let mut ix = l.full_index();
        if ix.is_empty() {
            ix.push((l.file_len, l.d.len() as u64));
        }
        for _ in 0..rng.range(1, 4) {
            let k = ix.len();
            match rng.below(7) {
                0 => ix.reverse(),
                1 => {
                    let (a, b) = (rng.below(k as u64) as usize, rng.below(k as u64) as usize);
                    ix.swap(a, b);
                }
                2 => {
                    let e = ix[rng.below(k as u64) as usize];
                    ix.insert(rng.below(k as u64 + 1) as usize, e);
                }
                3 => {
                    let j = rng.below(k as u64) as usize;
                    let d = rng.range(1, 70000);
                    ix[j].1 = if rng.chance(1, 2) { ix[j].1.saturating_sub(d) } else { ix[j].1 + d };
                }
                4 => {
                    // an entry beyond the end of the file / a block offset that does not fit 48 bits
                    let c = if rng.chance(1, 3) { (1 << 48) + rng.below(9) } else { l.file_len + rng.below(100) };
                    ix.insert(rng.below(k as u64 + 1) as usize, (c, rng.below(l.d.len() as u64 + 2)));
                }
                5 if k > 1 => {
                    ix.remove(rng.below(k as u64) as usize);
                }
                _ => ix.rotate_left(1),
            }
        }
        let kind = if i % 3 == 2 { "ix" } else { "rd" };
        let nops = rng.range(2, 14) as usize;
        let mut ops = Vec::new();
        for _ in 0..nops {
            let total = l.d.len() as u64;
            ops.push(match rng.below(9) {
                0..=3 => Op::SeekU(match rng.below(4) {
                    0 => ix[rng.below(ix.len() as u64) as usize].1,
                    1 => ix[rng.below(ix.len() as u64) as usize].1 + rng.range(1, 70000),
                    2 => rng.below(total + 2),
                    _ => rng.below(total + 140000),
                }),
                4 => Op::Fill,
                5 => Op::Consume(rng.below(50) as usize),
                6 => if kind == "ix" { Op::ExactStd(rng.below(40) as usize) } else { Op::Exact(rng.below(40) as usize) },
                7 => Op::ReadAll(all_size(&l, rng.range(1, 5000) as usize)),
                _ => Op::Read(gen_size(rng, &l, 7)),
            });
        }
        w.push("hidx", vec![kind.into(), fmt_frames(&fs), fmt_index(&ix), fmt_ops(&ops)]);
    }
    // ---- seeks to arbitrary (hostile) virtual positions
    let n_hs = if thorough { 4000 } else { 260 };
    for i in 0..n_hs {
        if i % 4 != 3 {
            // (A) a well-formed small file, a valid history, then a seek anywhere
            let mut fs = gen_layout(rng);
            fs.retain(|f| f.len <= 600);
            let l = assemble(&fs);
            let nops = rng.below(5) as usize;
            let ops = gen_ops(rng, "rd", &l, &l.full_index(), nops);
            let (c, u) = if l.tbl.is_empty() {
                (rng.below(40), rng.below(3) as u16)
            } else {
                let t = *rng.pick(&l.tbl);
                let fr_len = l.tbl.iter().map(|x| x.0).find(|&x| x > t.0).unwrap_or(l.file_len) - t.0;
                let c = match rng.below(10) {
                    0 => t.0,
                    1 => t.0 + *rng.pick(&[1u64, 2, 10, 16, 17, 18, 19, 23]),
                    2 => t.0 + rng.below(fr_len),
                    3 => t.0 + fr_len - *rng.pick(&[1u64, 4, 8, 9, 17, 18]).min(&fr_len),
                    4 => l.file_len.saturating_sub(rng.range(1, 30)),
                    5 => l.file_len + rng.below(30),
                    6 => *rng.pick(&[(1u64 << 48) - 1, 1 << 47, 1 << 32, 65536]),
                    7 => l.file_len,
                    _ => rng.below(l.file_len + 1),
                };
                let u = match rng.below(6) {
                    0 => 0,
                    1 => t.2.min(65535) as u64,
                    2 => (t.2 as u64 + 1).min(65535),
                    3 => 65535,
                    4 => rng.below(65536),
                    _ => rng.below(t.2 as u64 + 2).min(65535),
                };
                (c, u as u16)
            };
            w.push("hseek", vec![fmt_frames(&fs), hex(&l.bytes), fmt_ops(&ops), format!("{c}:{u}")]);
        } else {
            // (B) arbitrary bytes, fresh reader: damaged frames, truncation, stray tails, a BGZF
            //     file stored inside a frame (a mid-frame offset that parses)
            let d1 = pattern(rng.range(1, 200) as usize, rng.below(251), rng.range(1, 250));
            let d2 = pattern(rng.range(0, 80) as usize, rng.below(251), rng.range(1, 250));
            let f1 = if rng.chance(1, 2) { writer_frame(&d1, rng.below(10) as u8) } else { hand_frame(&d1, rng.below(10) as u32) };
            let f2 = hand_frame(&d2, rng.below(10) as u32);
            let mut bytes = Vec::new();
            let mut c = 0u64;
            match rng.below(8) {
                0 => {
                    // nested: [frame(stored: f1 ++ f2)] ; target = where f1 / f2 starts inside
                    let mut inner = f1.clone();
                    inner.extend_from_slice(&f2);
                    bytes = hand_frame(&inner, 0);
                    bytes.extend_from_slice(&EOF_MARKER);
                    c = 18 + 5 + if rng.chance(1, 2) { 0 } else { f1.len() as u64 };
                }
                k => {
                    bytes.extend_from_slice(&f1);
                    let at2 = bytes.len();
                    bytes.extend_from_slice(&f2);
                    if rng.chance(1, 2) {
                        bytes.extend_from_slice(&EOF_MARKER);
                    }
                    let (start, flen) = if rng.chance(1, 2) { (0, f1.len()) } else { (at2, f2.len()) };
                    c = start as u64;
                    match k {
                        1 => bytes[start + rng.below(16) as usize] ^= 1 << rng.below(8), // header
                        2 => {
                            // BSIZE: too small / too large / off by one
                            let b = *rng.pick(&[0u16, 24, 25, (flen - 2) as u16, flen as u16, 65535]);
                            bytes[start + 16..start + 18].copy_from_slice(&b.to_le_bytes());
                        }
                        3 => bytes[start + 18 + rng.below((flen - 26).max(1) as u64) as usize] ^= 1 << rng.below(8), // cdata
                        4 => bytes[start + flen - 8 + rng.below(4) as usize] ^= 1 << rng.below(8), // crc
                        5 => {
                            // isize: other value, also > 65536
                            let v = *rng.pick(&[0u32, 1, 65536, 65537, u32::MAX, d1.len() as u32 + 1]);
                            bytes[start + flen - 4..start + flen].copy_from_slice(&v.to_le_bytes());
                        }
                        6 => {
                            let cut = rng.range(1, 40).min(bytes.len() as u64 - 1) as usize;
                            bytes.truncate(bytes.len() - cut);
                        }
                        _ => bytes.extend_from_slice(&pattern(rng.range(1, 30) as usize, 31, 108)), // stray tail
                    }
                    if rng.chance(1, 4) {
                        c = rng.below(bytes.len() as u64 + 20);
                    }
                }
            }
            let u = *rng.pick(&[0u16, 1, 5, 65535]);
            w.push("hseek", vec!["_".into(), hex(&bytes), "_".into(), format!("{c}:{u}")]);
        }
    }
    // ---- reads that go on after errors over damaged files (fix da5f8c7)
    {
        // the scenario of the fix: "noodles" block, "bgzf" block with one CRC bit flipped, EOF
        let mut bytes = writer_frame(b"noodles", 6);
        let at = bytes.len();
        bytes.extend_from_slice(&writer_frame(b"bgzf", 6));
        let l2 = bytes.len();
        bytes[l2 - 8] ^= 1;
        bytes.extend_from_slice(&EOF_MARKER);
        let _ = at;
        w.push("hread", vec![hex(&bytes), "7,4,4,4".into()]);
        w.push("hread", vec![hex(&bytes), "3,100,4,4".into()]);
    }
    // ---- histories over a BGZF file stored (level 0) inside a frame: seeks onto the inner frames
    // (mid-frame offsets of the outer file that parse as frames), reads after them, seeks back
    let n_nest = if thorough { 1200 } else { 80 };
    for _ in 0..n_nest {
        let d1 = pattern(rng.range(1, 200) as usize, rng.below(251), rng.range(1, 250));
        let d2 = pattern(rng.range(0, 80) as usize, rng.below(251), rng.range(1, 250));
        let f1 = if rng.chance(1, 2) { writer_frame(&d1, rng.below(10) as u8) } else { hand_frame(&d1, rng.below(10) as u32) };
        let f2 = hand_frame(&d2, rng.below(10) as u32);
        let mut inner = f1.clone();
        inner.extend_from_slice(&f2);
        if rng.chance(1, 2) {
            inner.extend_from_slice(&EOF_MARKER);
        }
        let lead = if rng.chance(1, 2) { writer_frame(&pattern(rng.range(1, 60) as usize, 7, 3), 6) } else { Vec::new() };
        let mut bytes = lead.clone();
        let outer = hand_frame(&inner, 0);
        bytes.extend_from_slice(&outer);
        if rng.chance(2, 3) {
            bytes.extend_from_slice(&EOF_MARKER);
        }
        let base = lead.len() as u64 + 18 + 5;
        let targets = [base, base + f1.len() as u64, base + (f1.len() + f2.len()) as u64, 0, lead.len() as u64, (lead.len() + outer.len()) as u64, base + 1, base - 1];
        let hops: Vec<String> = (0..rng.range(3, 11))
            .map(|_| {
                if rng.chance(2, 5) {
                    let c = if rng.chance(5, 6) { *rng.pick(&targets) } else { rng.below(bytes.len() as u64 + 10) };
                    format!("k{}:{}", c, rng.pick(&[0u16, 0, 1, 5, 41, 300, 65535]))
                } else {
                    format!("r{}", rng.pick(&[1usize, 3, 7, 100, 4096, 65535]))
                }
            })
            .collect();
        w.push("hrs", vec![hex(&bytes), hops.join(",")]);
    }
    let n_hr = if thorough { 4000 } else { 240 };
    for _ in 0..n_hr {
        let nf = rng.range(1, 4) as usize;
        let mut frames: Vec<Vec<u8>> = Vec::new();
        for _ in 0..nf {
            let d = pattern(*rng.pick(&[0usize, 1, 5, 40, 300]) + rng.below(3) as usize * usize::from(rng.chance(1, 2)), rng.below(251), rng.range(1, 250));
            frames.push(if rng.chance(1, 2) { writer_frame(&d, rng.below(10) as u8) } else { hand_frame(&d, rng.below(10) as u32) });
        }
        if rng.chance(2, 3) {
            frames.push(EOF_MARKER.to_vec());
        }
        for _ in 0..rng.range(1, 2) {
            let k = rng.below(frames.len() as u64) as usize;
            let flen = frames[k].len();
            if flen < 28 {
                continue;
            }
            let fr = &mut frames[k];
            match rng.below(8) {
                0 => fr[rng.below(16) as usize] ^= 1 << rng.below(8),
                1 => {
                    let b = *rng.pick(&[0u16, 24, 25, (flen - 2) as u16, flen as u16, 65535]);
                    fr[16..18].copy_from_slice(&b.to_le_bytes());
                }
                2 | 3 => fr[18 + rng.below((flen - 26).max(1) as u64) as usize] ^= 1 << rng.below(8),
                4 | 5 => fr[flen - 8 + rng.below(4) as usize] ^= 1 << rng.below(8),
                6 => {
                    let cur = u32::from_le_bytes(fr[flen - 4..].try_into().unwrap());
                    let v = *rng.pick(&[0u32, 1, 65536, 65537, u32::MAX, cur.wrapping_add(1), cur.saturating_sub(1)]);
                    fr[flen - 4..].copy_from_slice(&v.to_le_bytes());
                }
                _ => {
                    let cut = rng.range(1, 30).min(flen as u64 - 1) as usize;
                    fr.truncate(flen - cut);
                }
            }
        }
        let mut bytes: Vec<u8> = frames.concat();
        if rng.chance(1, 8) {
            bytes.extend_from_slice(&pattern(rng.range(1, 30) as usize, 31, 108));
        }
        let ns: Vec<String> = (0..rng.range(3, 10)).map(|_| rng.pick(&[1usize, 3, 7, 100, 4096, 65535]).to_string()).collect();
        w.push("hread", vec![hex(&bytes), ns.join(",")]);
        // the same bytes under a history of reads AND seeks (kind hrs): targets = the frame starts
        // before the damage, +-small, anywhere, near / beyond the end
        let mut bounds = vec![0usize];
        for f in &frames {
            bounds.push(bounds.last().unwrap() + f.len());
        }
        let hops: Vec<String> = (0..rng.range(3, 10))
            .map(|_| {
                if rng.chance(2, 5) {
                    let c = match rng.below(6) {
                        0 | 1 | 2 => *rng.pick(&bounds) as u64,
                        3 => (*rng.pick(&bounds) as u64 + rng.below(20)).saturating_sub(rng.below(20)),
                        4 => rng.below(bytes.len() as u64 + 30),
                        _ => (bytes.len() as u64 + rng.below(40)).saturating_sub(30),
                    };
                    format!("k{}:{}", c, rng.pick(&[0u16, 0, 1, 5, 41, 300, 65535]))
                } else {
                    format!("r{}", rng.pick(&[1usize, 3, 7, 100, 4096, 65535]))
                }
            })
            .collect();
        w.push("hrs", vec![hex(&bytes), hops.join(",")]);
    }
    // the shift theorem (kind hshift): mostly well-formed files (data frames of both encoders,
    // empty frames anywhere, EOF marker or not, trailing garbage shorter than a header), some
    // with one damaged frame (then a seek to a block end can fail although reading got there);
    // reader A reads (65535 always ends at a block end) and seeks to frame starts; reader B does
    // anything before it seeks to the position A told
    let n_hs = if thorough { 3000 } else { 220 };
    for _ in 0..n_hs {
        let nf = rng.range(1, 5) as usize;
        let mut frames: Vec<Vec<u8>> = Vec::new();
        for _ in 0..nf {
            let d = pattern(*rng.pick(&[0usize, 1, 5, 40, 300, 300]) + rng.below(3) as usize, rng.below(251), rng.range(1, 250));
            frames.push(if rng.chance(1, 2) { writer_frame(&d, rng.below(10) as u8) } else { hand_frame(&d, rng.below(10) as u32) });
            if rng.chance(1, 6) {
                frames.push(EOF_MARKER.to_vec());
            }
        }
        if rng.chance(2, 3) {
            frames.push(EOF_MARKER.to_vec());
        }
        let mut bounds = vec![0usize];
        for f in &frames {
            bounds.push(bounds.last().unwrap() + f.len());
        }
        if rng.chance(1, 5) {
            let k = rng.below(frames.len() as u64) as usize;
            let flen = frames[k].len();
            let fr = &mut frames[k];
            match if flen >= 28 { rng.below(3) } else { 3 } {
                3 => {}
                0 => fr[18 + rng.below((flen - 26).max(1) as u64) as usize] ^= 1 << rng.below(8),
                1 => fr[flen - 8 + rng.below(4) as usize] ^= 1 << rng.below(8),
                _ => fr[rng.below(16) as usize] ^= 1 << rng.below(8),
            }
        }
        let mut bytes: Vec<u8> = frames.concat();
        if rng.chance(1, 6) {
            bytes.extend_from_slice(&pattern(rng.range(1, 17) as usize, 31, 108));
        }
        let sizes = [0usize, 1, 3, 7, 41, 100, 299, 300, 4096, 65535];
        let ops1: Vec<String> = (0..rng.range(0, 6))
            .map(|_| {
                if rng.chance(1, 6) {
                    format!("k{}:{}", *rng.pick(&bounds), rng.pick(&[0u16, 0, 1, 5, 41]))
                } else if rng.chance(1, 2) {
                    format!("r{}", rng.pick(&[1usize, 3, 7, 41]))
                } else {
                    format!("r{}", rng.pick(&sizes))
                }
            })
            .collect();
        let mid: Vec<String> = (0..rng.range(0, 5))
            .map(|_| {
                if rng.chance(2, 5) {
                    let c = match rng.below(4) {
                        0 | 1 => *rng.pick(&bounds) as u64,
                        2 => rng.below(bytes.len() as u64 + 30),
                        _ => (*rng.pick(&bounds) as u64 + rng.below(20)).saturating_sub(rng.below(20)),
                    };
                    format!("k{}:{}", c, rng.pick(&[0u16, 0, 1, 5, 41, 300, 65535]))
                } else {
                    format!("r{}", rng.pick(&sizes))
                }
            })
            .collect();
        let ns: Vec<String> = (0..rng.range(2, 6)).map(|_| rng.pick(&sizes).to_string()).collect();
        let j = |v: &[String]| if v.is_empty() { "_".to_string() } else { v.join(",") };
        w.push("hshift", vec![hex(&bytes), j(&ops1), j(&mid), j(&ns)]);
        // the same with FURTHER SEEKS in the continuation (kind hshifts): reads, seeks to frame
        // starts / block ends (most succeed), into damaged frames or anywhere (fail); sometimes the
        // continuation STARTS with a seek (a failing one is the case the theorem excludes)
        let n2 = rng.range(2, 7);
        let ops2: Vec<String> = (0..n2)
            .map(|i| {
                if rng.chance(2, 5) || (i == 0 && rng.chance(1, 3)) {
                    let c = match rng.below(6) {
                        0 => rng.below(bytes.len() as u64 + 30),
                        1 => (*rng.pick(&bounds) as u64 + rng.below(20)).saturating_sub(rng.below(20)),
                        _ => *rng.pick(&bounds) as u64,
                    };
                    format!("k{}:{}", c, rng.pick(&[0u16, 0, 0, 1, 5, 41, 300, 65535]))
                } else {
                    format!("r{}", rng.pick(&sizes))
                }
            })
            .collect();
        w.push("hshifts", vec![hex(&bytes), j(&ops1), j(&mid), j(&ops2)]);
        // the relocation form (kind hreloc) on the same bytes: targets = frame starts (most), +-20,
        // anywhere, beyond the end; any in-block offset
        let c = match rng.below(8) {
            0 => rng.below(bytes.len() as u64 + 30),
            1 => (*rng.pick(&bounds) as u64 + rng.below(20)).saturating_sub(rng.below(20)),
            _ => *rng.pick(&bounds) as u64,
        };
        let u = *rng.pick(&[0u16, 0, 1, 5, 41, 300, 65535]);
        w.push("hreloc", vec![hex(&bytes), j(&mid), format!("{c}:{u}"), j(&ns)]);
    }
}

/// an index that need not be sorted by uncompressed offset
fn gen_hostile_index(rng: &mut Rng) -> Vec<(u64, u64)> {
    let k = rng.range(1, 12) as usize;
    let mut ix: Vec<(u64, u64)> = Vec::new();
    let (mut c, mut u) = (0u64, 0u64);
    for _ in 0..k {
        c += rng.range(26, 70000);
        u += *rng.pick(&[0u64, 0, 1, 7, 300, 65535, 65536]);
        ix.push((c, u));
    }
    for _ in 0..rng.range(1, 4) {
        let k = ix.len();
        match rng.below(8) {
            0 => ix.reverse(),
            1 | 2 => {
                let (a, b) = (rng.below(k as u64) as usize, rng.below(k as u64) as usize);
                ix.swap(a, b);
            }
            3 => {
                let e = ix[rng.below(k as u64) as usize];
                ix.insert(rng.below(k as u64 + 1) as usize, e);
            }
            4 => {
                let j = rng.below(k as u64) as usize;
                ix[j].1 = *rng.pick(&[0u64, 1, u64::MAX, u64::MAX - 1, 1 << 63, 65536]);
            }
            5 => {
                let j = rng.below(k as u64) as usize;
                ix[j].0 = *rng.pick(&[0u64, (1 << 48) - 1, 1 << 48, u64::MAX]);
            }
            6 => ix.rotate_left(1),
            _ => {
                // fully random small values with repetitions
                for e in ix.iter_mut() {
                    e.1 = rng.below(6) * 100;
                }
            }
        }
    }
    ix
}

fn main() {
    // serial: MultithreadedReader inflates on the global rayon pool, so cases must not occupy it
    nv::main_serial(generate, run)
}
