//! C03: multithreaded BGZF I/O equals single-threaded I/O under every schedule.
//!
//! The completion order of the rayon compress / inflate tasks is forced through the
//! `noodles_bgzf::verif_gate` hook: a controller releases the gated tasks in the order given by the
//! case (`rel`), waiting for each task to reach the gate first; the same release order is run
//! through the extracted Coq model (NV.Io.Sched.drive).  The pool size is the size of the
//! process-global rayon pool, so `run` re-executes this binary once per pool size (C03_POOL=k).
//!
//! Modelled kinds (obs compared with the model):
//!   w   P level fail ops rel seed dk    MultithreadedWriter under release order `rel`
//!   wst level fail ops seed dk          single-threaded Writer alone (ties the model's ST writer)
//!   r   P frames rel seed level corrupt MultithreadedReader read block by block to the end
//!   rh  P frames gzi ops segs policy seed  op history (read, read_exact, fill_buf/consume, read to the
//!                                       end, seek, seek_with_index, get_mut, finish) over
//!                                       MultithreadedReader; the gate controller releases gated
//!                                       inflate tasks one at a time by `policy` whenever no new task
//!                                       has arrived for a while; obs = per op `<result>@<vpos>`,
//!                                       compared with NV.Bgzf.MtReaderOps run under the schedule `segs`
//!   rhst frames gzi ops                 the same history on the single-threaded Reader (C02's model)
//!   rhv / rhstv                         rh / rhst compared with the ERROR model on the embedded all-good
//!                                       file (NV.Bgzf.MtReaderBridge: one reader model)
//!   wapi P level script ops seed dk frames plan
//!                                       MultithreadedWriter at API-call level over a scripted sink under a
//!                                       synchronisation plan; obs = result of every call | inner calls |
//!                                       sink bytes, compared with NV.Sinks.MtApp.mta_model
//!   wbr  (same args, script Full^j,Fail) last result | inner calls | sink bytes compared with C03's own
//!                                       writer model through NV.Bgzf.MtWriterBridge.emb_sink
//! Implementation-only oracles:
//!   rs  P seed nblocks level            random read/read_exact/seek op sequences, MT vs ST, delayed inflate tasks
//!   rfd P seed level                    frame-level error, then seek, then finish: the error must not vanish
//!   rce P seed                          P+5 corrupt blocks, the caller keeps reading: every read must return
//!   wcfg P path ops seed dk             MultithreadedWriter built along every construction path (new, with_worker_count,
//!                                       Builder setter chains in any order, repeated) == ST Writer at the last level set
//!   rcfg P path frames seed level dk    MultithreadedReader::new / with_worker_count read to the end == ST Reader

use std::{
    collections::{HashSet, VecDeque},
    io::{self, BufRead, Cursor, Read, Write},
    panic::AssertUnwindSafe,
    sync::{Arc, Barrier, Condvar, Mutex, mpsc},
    thread,
    time::{Duration, Instant},
};

use noodles_bgzf as bgzf;
use bgzf::{
    VirtualPosition,
    io::{Seek as _, writer::CompressionLevel},
    verif_gate::{self, Kind},
};
use nv::{
    Case, CaseWriter, Obs, Outcome, Rng,
    adversary::{Fault, FaultySink},
};

#[path = "../shared/c03_hist.rs"]
mod c03_hist;
use c03_hist as hist;

const MAX_BUF: usize = 65495;
const EOF_BLOCK: [u8; 28] = [
    0x1f, 0x8b, 0x08, 0x04, 0x00, 0x00, 0x00, 0x00, 0x00, 0xff, 0x06, 0x00, 0x42, 0x43, 0x02, 0x00, 0x1b, 0x00, 0x03,
    0x00, 0x00, 0x00, 0x00, 0x00, 0x00, 0x00, 0x00, 0x00,
];

// -------------------------------------------------------------------------------------------
// ops and staging (generator side: only used to know how many blocks a case has)

#[derive(Clone, Copy, Debug)]
enum Op {
    W(usize),
    F,
}

fn fmt_ops(ops: &[Op]) -> String {
    if ops.is_empty() {
        return "_".into();
    }
    ops.iter()
        .map(|o| match o {
            Op::W(n) => format!("W{n}"),
            Op::F => "F".into(),
        })
        .collect::<Vec<_>>()
        .join(",")
}

fn parse_ops(s: &str) -> Vec<Op> {
    if s == "_" {
        return vec![];
    }
    s.split(',')
        .map(|t| if t == "F" { Op::F } else { Op::W(t[1..].parse().unwrap()) })
        .collect()
}

fn count_blocks(ops: &[Op]) -> usize {
    let (mut buf, mut n) = (0usize, 0usize);
    for o in ops {
        match *o {
            Op::W(mut k) => {
                while k > 0 {
                    let amt = (MAX_BUF - buf).min(k);
                    buf += amt;
                    k -= amt;
                    if buf == MAX_BUF {
                        n += 1;
                        buf = 0;
                    }
                }
            }
            Op::F => {
                if buf > 0 {
                    n += 1;
                    buf = 0;
                }
            }
        }
    }
    if buf > 0 {
        n += 1;
    }
    n
}

fn total_bytes(ops: &[Op]) -> usize {
    ops.iter().map(|o| if let Op::W(n) = o { *n } else { 0 }).sum()
}

fn gen_data(seed: u64, n: usize, kind: u64) -> Vec<u8> {
    let mut rng = Rng::new(seed);
    match kind {
        0 => rng.bytes(n),
        // compressible but block-unique
        _ => (0..n).map(|_| b"ACGTN\n"[(rng.next() % 6) as usize]).collect(),
    }
}

// -------------------------------------------------------------------------------------------
// feasible release orders: the same greedy semantics as NV.Io.Sched.drive

struct Sim {
    n: usize,
    next: usize,
    chan: VecDeque<usize>,
    hold: Option<usize>,
    pending: VecDeque<usize>,
    running: Vec<usize>,
    done: Vec<bool>,
    consumed: usize,
    pool: usize,
    reader: bool,
}

impl Sim {
    fn new(n: usize, pool: usize, reader: bool) -> Self {
        Sim {
            n,
            next: 0,
            chan: VecDeque::new(),
            hold: None,
            pending: VecDeque::new(),
            running: vec![],
            done: vec![false; n],
            consumed: 0,
            pool,
            reader,
        }
    }
    fn can_submit(&self) -> bool {
        if self.reader {
            self.chan.len() + (self.hold.is_some() as usize) < self.pool + 2
        } else {
            self.chan.len() < self.pool
        }
    }
    fn settle(&mut self) {
        loop {
            if let Some(t) = self.hold {
                if self.done[t] {
                    self.hold = None;
                    self.consumed += 1;
                    continue;
                }
            }
            if self.hold.is_none() && !self.chan.is_empty() {
                self.hold = self.chan.pop_front();
                continue;
            }
            if self.next < self.n && self.can_submit() {
                self.chan.push_back(self.next);
                self.pending.push_back(self.next);
                self.next += 1;
                continue;
            }
            if !self.pending.is_empty() && self.running.len() < self.pool {
                let t = self.pending.pop_front().unwrap();
                self.running.push(t);
                continue;
            }
            break;
        }
    }
}

/// policy: 0 submission order, 1 newest first (reverse inside the window), 2 random,
/// 3 oldest last (hold the head ticket as long as the pool allows), 4 alternate oldest/newest
fn gen_rel(rng: &mut Rng, n: usize, pool: usize, reader: bool, policy: u64) -> Vec<usize> {
    let mut sim = Sim::new(n, pool, reader);
    let mut rel = Vec::with_capacity(n);
    let mut flip = false;
    while rel.len() < n {
        sim.settle();
        assert!(!sim.running.is_empty(), "sim stuck");
        sim.running.sort_unstable();
        let k = sim.running.len();
        let i = match policy {
            0 => 0,
            1 => k - 1,
            2 => rng.below(k as u64) as usize,
            3 => {
                if k == 1 {
                    0
                } else {
                    1 + rng.below(k as u64 - 1) as usize
                }
            }
            _ => {
                flip = !flip;
                if flip { k - 1 } else { 0 }
            }
        };
        let t = sim.running.remove(i);
        sim.done[t] = true;
        rel.push(t);
    }
    rel
}

fn fmt_rel(rel: &[usize]) -> String {
    if rel.is_empty() {
        return "_".into();
    }
    rel.iter().map(|t| t.to_string()).collect::<Vec<_>>().join(",")
}

fn parse_rel(s: &str) -> Vec<u64> {
    if s == "_" {
        return vec![];
    }
    s.split(',').map(|t| t.parse().unwrap()).collect()
}

// -------------------------------------------------------------------------------------------
// the gate

#[derive(Default)]
struct CtlSt {
    arrived: HashSet<u64>,
    released: HashSet<u64>,
    open_all: bool,
    app_done: bool,
    gate_timeouts: usize,
}

struct Ctl {
    st: Mutex<CtlSt>,
    cv: Condvar,
    kind: Kind,
    /// Some(seed): no controller; every task just sleeps a pseudo-random time derived from its number
    sleep_seed: Option<u64>,
}

impl Ctl {
    fn new(kind: Kind, sleep_seed: Option<u64>) -> Arc<Self> {
        Arc::new(Ctl {
            st: Mutex::new(CtlSt::default()),
            cv: Condvar::new(),
            kind,
            sleep_seed,
        })
    }
    fn install(self: &Arc<Self>) {
        let me = self.clone();
        verif_gate::set(Some(Arc::new(move |k, s| me.gate(k, s))));
    }
    fn gate(&self, kind: Kind, seq: u64) {
        if kind != self.kind {
            return;
        }
        if let Some(seed) = self.sleep_seed {
            // later tasks tend to finish first; some finish at once
            let h = Rng::new(seed ^ seq.wrapping_mul(0x9E37)).next();
            let us = match h % 4 {
                0 => 0,
                1 => 1500u64.saturating_sub(seq * 100),
                2 => 200 + (h >> 8) % 800,
                _ => 2500,
            };
            thread::sleep(Duration::from_micros(us));
            return;
        }
        let mut st = self.st.lock().unwrap();
        st.arrived.insert(seq);
        self.cv.notify_all();
        let deadline = Instant::now() + Duration::from_secs(6);
        loop {
            if st.open_all || st.released.contains(&seq) {
                break;
            }
            let now = Instant::now();
            if now >= deadline {
                st.gate_timeouts += 1;
                break;
            }
            st = self.cv.wait_timeout(st, deadline - now).unwrap().0;
        }
    }
    fn open_all(&self) {
        let mut st = self.st.lock().unwrap();
        st.open_all = true;
        self.cv.notify_all();
    }
    fn app_done(&self) {
        let mut st = self.st.lock().unwrap();
        st.app_done = true;
        self.cv.notify_all();
    }
    /// release the tasks in order; Err = a task of the order never reached the gate
    fn control(&self, rel: &[u64], delay: Duration) -> Result<(), String> {
        for &t in rel {
            let mut st = self.st.lock().unwrap();
            let deadline = Instant::now() + Duration::from_secs(3);
            loop {
                if st.app_done {
                    st.open_all = true;
                    self.cv.notify_all();
                    return Ok(());
                }
                if st.arrived.contains(&t) {
                    break;
                }
                let now = Instant::now();
                if now >= deadline {
                    st.open_all = true;
                    self.cv.notify_all();
                    return Err(format!("task {t} never reached the gate (arrived: {} tasks)", st.arrived.len()));
                }
                st = self.cv.wait_timeout(st, deadline - now).unwrap().0;
            }
            st.released.insert(t);
            self.cv.notify_all();
            drop(st);
            // give the released task time to finish before the next one is let go
            thread::sleep(delay);
        }
        Ok(())
    }
}

impl Ctl {
    /// Online controller: whenever no new task has reached the gate for `quiet`, release one of
    /// the waiting tasks chosen by `policy` (0 oldest, 1 newest, 2 random, 3 any but the oldest,
    /// 4 alternating newest/oldest).  Returns the number of releases that were not the oldest.
    fn control_policy(&self, policy: u64, seed: u64, quiet: Duration) -> usize {
        let mut rng = Rng::new(seed);
        let mut flip = false;
        let mut reordered = 0;
        let mut st = self.st.lock().unwrap();
        loop {
            if st.app_done {
                st.open_all = true;
                self.cv.notify_all();
                return reordered;
            }
            let n0 = st.arrived.len();
            st = self.cv.wait_timeout(st, quiet).unwrap().0;
            if st.app_done || st.arrived.len() != n0 {
                continue;
            }
            let mut cand: Vec<u64> = st.arrived.difference(&st.released).copied().collect();
            if cand.is_empty() {
                continue;
            }
            cand.sort_unstable();
            let k = cand.len();
            let i = match policy {
                0 => 0,
                1 => k - 1,
                2 => rng.below(k as u64) as usize,
                3 => {
                    if k == 1 {
                        0
                    } else {
                        1 + rng.below(k as u64 - 1) as usize
                    }
                }
                _ => {
                    flip = !flip;
                    if flip { k - 1 } else { 0 }
                }
            };
            if i > 0 {
                reordered += 1;
            }
            st.released.insert(cand[i]);
            self.cv.notify_all();
        }
    }
}

/// Wait until every task spawned so far on the global pool has finished: external spawns are
/// injected FIFO, so when all pool threads sit in our barrier tasks nothing older is left.
fn quiesce() {
    let n = rayon::current_num_threads();
    let b = Arc::new(Barrier::new(n + 1));
    for _ in 0..n {
        let b = b.clone();
        rayon::spawn(move || {
            b.wait();
        });
    }
    b.wait();
}

fn end_case(ctl: &Arc<Ctl>) {
    ctl.open_all();
    quiesce();
    verif_gate::set(None);
}

const LIMIT: (Duration, Duration) = (Duration::from_secs(10), Duration::from_secs(8));

enum Watched<T> {
    Done(T),
    Panicked(String),
    /// did not return within the limit; bool = returned after all gates were opened
    Hung(bool),
}

fn watched<T: Send + 'static>(
    ctl: &Arc<Ctl>,
    rel: Option<(&[u64], Duration)>,
    limit: (Duration, Duration),
    f: impl FnOnce() -> T + Send + 'static,
) -> (Watched<T>, Result<(), String>) {
    let (tx, rx) = mpsc::channel();
    let c2 = ctl.clone();
    thread::spawn(move || {
        let r = nv::guarded(AssertUnwindSafe(f));
        c2.app_done();
        let _ = tx.send(r);
    });
    let ctl_res = match rel {
        Some((rel, delay)) => ctl.control(rel, delay),
        None => Ok(()),
    };
    let w = match rx.recv_timeout(limit.0) {
        Ok(Outcome::Done(v)) => Watched::Done(v),
        Ok(Outcome::Panicked(m)) => Watched::Panicked(m),
        Err(_) => {
            ctl.open_all();
            match rx.recv_timeout(limit.1) {
                Ok(_) => Watched::Hung(true),
                Err(_) => Watched::Hung(false),
            }
        }
    };
    (w, ctl_res)
}

/// like `watched`, the gate being driven by `Ctl::control_policy`
fn watched_policy<T: Send + 'static>(
    ctl: &Arc<Ctl>,
    policy: u64,
    seed: u64,
    quiet: Duration,
    limit: (Duration, Duration),
    f: impl FnOnce() -> T + Send + 'static,
) -> (Watched<T>, usize) {
    let (tx, rx) = mpsc::channel();
    let c2 = ctl.clone();
    thread::spawn(move || {
        let r = nv::guarded(AssertUnwindSafe(f));
        c2.app_done();
        let _ = tx.send(r);
    });
    let c3 = ctl.clone();
    let controller = thread::spawn(move || c3.control_policy(policy, seed, quiet));
    let w = match rx.recv_timeout(limit.0) {
        Ok(Outcome::Done(v)) => Watched::Done(v),
        Ok(Outcome::Panicked(m)) => Watched::Panicked(m),
        Err(_) => {
            ctl.open_all();
            match rx.recv_timeout(limit.1) {
                Ok(_) => Watched::Hung(true),
                Err(_) => Watched::Hung(false),
            }
        }
    };
    // the controller leaves its loop when the application is done (or was given up on)
    ctl.app_done();
    let reordered = controller.join().unwrap_or(0);
    (w, reordered)
}

// -------------------------------------------------------------------------------------------
// frames

/// (start, size) of every complete frame, and the offset where the incomplete tail starts
fn split_frames(bytes: &[u8]) -> (Vec<(usize, usize)>, usize) {
    let mut v = vec![];
    let mut p = 0;
    while p + 18 <= bytes.len() {
        let size = u16::from_le_bytes([bytes[p + 16], bytes[p + 17]]) as usize + 1;
        if size < 26 || p + size > bytes.len() {
            break;
        }
        v.push((p, size));
        p += size;
    }
    (v, p)
}

fn inflate_frame(frame: &[u8]) -> Option<Vec<u8>> {
    let n = frame.len();
    let isize = u32::from_le_bytes(frame[n - 4..].try_into().unwrap()) as usize;
    let crc = u32::from_le_bytes(frame[n - 8..n - 4].try_into().unwrap());
    let mut out = Vec::with_capacity(isize);
    flate2::read::DeflateDecoder::new(&frame[18..n - 8]).read_to_end(&mut out).ok()?;
    let mut c = flate2::Crc::new();
    c.update(&out);
    (out.len() == isize && c.sum() == crc).then_some(out)
}

fn level_of(l: u64) -> CompressionLevel {
    CompressionLevel::new(l as u8).expect("level")
}

const FAIL_KINDS: [io::ErrorKind; 3] = [io::ErrorKind::Other, io::ErrorKind::BrokenPipe, io::ErrorKind::PermissionDenied];

fn fault_script(fail: Option<usize>) -> Vec<Fault> {
    match fail {
        None => vec![],
        Some(k) => {
            let mut s = vec![Fault::Full; k];
            s.push(Fault::Fail(FAIL_KINDS[k % 3]));
            s
        }
    }
}

// -------------------------------------------------------------------------------------------
// writer

/// result of driving a writer: the first error (op index, kind) if any, and whether finish handed the sink back
struct WRun {
    err: Option<(usize, String)>,
    sink_back: bool,
}

fn drive_st_writer(ops: &[Op], data: &[u8], level: u64, sink: FaultySink) -> WRun {
    let mut w = bgzf::io::writer::Builder::default()
        .set_compression_level(level_of(level))
        .build_from_writer(sink);
    let mut off = 0;
    for (i, o) in ops.iter().enumerate() {
        let r = match *o {
            Op::W(n) => {
                let r = w.write_all(&data[off..off + n]);
                off += n;
                r
            }
            Op::F => w.flush(),
        };
        if let Err(e) = r {
            // the caller stops here; do not let Drop write more
            std::mem::forget(w);
            return WRun {
                err: Some((i, nv::errkind(&e))),
                sink_back: false,
            };
        }
    }
    // try_finish + forget: Writer::drop would retry try_finish after an error and write again
    match w.try_finish() {
        Ok(()) => {
            let _ = w.into_inner();
            WRun { err: None, sink_back: true }
        }
        Err(e) => {
            std::mem::forget(w);
            WRun {
                err: Some((ops.len(), nv::errkind(&e))),
                sink_back: false,
            }
        }
    }
}

fn drive_mt_writer(ops: &[Op], data: &[u8], level: u64, sink: FaultySink) -> WRun {
    let mut w = bgzf::io::multithreaded_writer::Builder::default()
        .set_compression_level(level_of(level))
        .build_from_writer(sink);
    let mut off = 0;
    for (i, o) in ops.iter().enumerate() {
        let r = match *o {
            Op::W(n) => {
                let r = w.write_all(&data[off..off + n]);
                off += n;
                r
            }
            Op::F => w.flush(),
        };
        if let Err(e) = r {
            return WRun {
                err: Some((i, nv::errkind(&e))),
                sink_back: false,
            };
        }
    }
    match w.finish() {
        Ok(_) => WRun { err: None, sink_back: true },
        Err(e) => WRun {
            err: Some((ops.len(), nv::errkind(&e))),
            sink_back: false,
        },
    }
}

/// canonical observation of a sink: complete data blocks as offset:len into `data`, EOF marker
/// written?, number of sink write calls, error returned?
fn sink_obs(bytes: &[u8], calls: usize, err: bool, data: &[u8]) -> (String, Vec<Vec<u8>>) {
    let (frames, _) = split_frames(bytes);
    let mut parts = vec![];
    let mut payloads = vec![];
    let mut eof = false;
    let mut off = 0usize;
    for &(p, sz) in &frames {
        match inflate_frame(&bytes[p..p + sz]) {
            Some(pl) if pl.is_empty() => {
                eof = true;
                payloads.push(pl);
            }
            Some(pl) => {
                // where does this payload sit in the stream?  in-order position first, then anywhere
                let l = pl.len();
                if off + l <= data.len() && data[off..off + l] == pl[..] {
                    parts.push(format!("{off}:{l}"));
                } else if let Some(q) = (l <= data.len())
                    .then(|| (0..data.len() - l + 1).find(|&q| data[q..q + l] == pl[..]))
                    .flatten()
                {
                    parts.push(format!("{q}:{l}"));
                } else {
                    parts.push(format!("?:{l}"));
                }
                off += l;
                payloads.push(pl);
            }
            None => parts.push("bad".into()),
        }
    }
    let blocks = if parts.is_empty() { "_".to_string() } else { parts.join(",") };
    (
        format!("{blocks}|eof={}|calls={calls}|err={}", eof as u8, err as u8),
        payloads,
    )
}

fn check_pool(p: u64) -> Result<(), Obs> {
    if rayon::current_num_threads() as u64 != p {
        return Err(Obs::fail(
            "-",
            "harness-pool-size",
            format!("global pool has {} threads, case wants {p}", rayon::current_num_threads()),
        ));
    }
    Ok(())
}

fn run_w(c: &Case) -> Obs {
    let (p, level) = (c.u(0), c.u(1));
    if let Err(o) = check_pool(p) {
        return o;
    }
    let fail: Option<usize> = if c.args[2] == "-" { None } else { Some(c.args[2].parse().unwrap()) };
    let ops = parse_ops(&c.args[3]);
    let rel = parse_rel(&c.args[4]);
    let data = Arc::new(gen_data(c.u(5), total_bytes(&ops), c.u(6)));
    let nblocks = count_blocks(&ops);
    let ctx = format!("P={p} level={level} fail={:?} blocks={nblocks} rel={}", fail, c.args[4]);

    // single-threaded reference
    let st_sink = FaultySink::new(fault_script(fail));
    let st = match nv::guarded(AssertUnwindSafe(|| drive_st_writer(&ops, &data, level, st_sink.clone()))) {
        Outcome::Done(r) => r,
        Outcome::Panicked(m) => return Obs::fail("-", "stw-panic", format!("{ctx} {m}")),
    };
    let st_bytes = st_sink.bytes();

    // multithreaded under the forced order
    let ctl = Ctl::new(Kind::Deflate, None);
    ctl.install();
    let mt_sink = FaultySink::new(fault_script(fail));
    let delay = Duration::from_micros(if ops.iter().any(|o| matches!(o, Op::W(n) if *n > 8192)) { 2500 } else { 400 });
    let (ops2, data2, sink2) = (ops.clone(), data.clone(), mt_sink.clone());
    let (w, ctl_res) = watched(&ctl, Some((&rel, delay)), LIMIT, move || drive_mt_writer(&ops2, &data2, level, sink2));
    let timeouts = ctl.st.lock().unwrap().gate_timeouts;
    end_case(&ctl);

    let mt = match w {
        Watched::Done(r) => r,
        Watched::Panicked(m) => return Obs::fail("Panic", "mtw-panic", format!("{ctx} {m}")),
        Watched::Hung(after_open) => {
            return Obs::fail(
                "Hang",
                if after_open { "mtw-hang-until-gates-opened" } else { "mtw-finish-hang" },
                format!("{ctx} controller={ctl_res:?}"),
            );
        }
    };
    let mt_bytes = mt_sink.bytes();
    let (obs, mt_payloads) = sink_obs(&mt_bytes, mt_sink.calls(), mt.err.is_some(), &data);
    let nontrivial = nblocks >= 3 && rel.windows(2).any(|w| w[0] > w[1]);
    let o = Obs::ok(obs, nontrivial);

    // --- the property
    if let Err(e) = ctl_res {
        return o.with_verdict(Err(("mtw-schedule-not-realised".into(), format!("{ctx} {e}"))));
    }
    if timeouts > 0 {
        return o.with_verdict(Err(("mtw-gate-timeout".into(), format!("{ctx} {timeouts} tasks waited 6 s at the gate"))));
    }
    let total_calls = 14 * nblocks + 1;
    let fault_hit = fail.is_some_and(|k| k < total_calls);
    if mt_bytes != st_bytes {
        let (_, st_payloads) = sink_obs(&st_bytes, 0, false, &data);
        let first = mt_payloads.iter().zip(&st_payloads).position(|(a, b)| a != b);
        return o.with_verdict(Err((
            if fault_hit { "mtw-faulty-sink-bytes-differ-from-st" } else { "mtw-output-differs-from-st" }.into(),
            format!(
                "{ctx} mt={}B/{}frames st={}B/{}frames first_differing_block={first:?}",
                mt_bytes.len(),
                mt_payloads.len(),
                st_bytes.len(),
                st_payloads.len()
            ),
        )));
    }
    if fault_hit {
        match (&mt.err, &st.err) {
            (None, _) => {
                return o.with_verdict(Err((
                    "mtw-sink-error-dropped".into(),
                    format!("{ctx} sink failed at call {} but write/flush/finish all returned Ok", fail.unwrap()),
                )));
            }
            (Some((_, k)), Some((_, k2))) if k != k2 => {
                return o.with_verdict(Err(("mtw-sink-error-kind-changed".into(), format!("{ctx} mt={k} st={k2}"))));
            }
            _ => {}
        }
    } else {
        if let Some((i, k)) = &mt.err {
            return o.with_verdict(Err(("mtw-error-without-fault".into(), format!("{ctx} op {i} returned {k}"))));
        }
        if !mt.sink_back {
            return o.with_verdict(Err(("mtw-finish-no-sink".into(), ctx)));
        }
        if st.err.is_some() {
            return o.with_verdict(Err(("stw-error-without-fault".into(), ctx)));
        }
    }
    o
}

// -------------------------------------------------------------------------------------------
// wapi: the writer at API-call level -- which call of write_all / flush / finish returns the
// sink's error.  The gate holds every compress task (so the writer thread cannot write) except at
// the synchronisation points of the plan: plan[i] = 1: after op i has returned, open the gate and
// wait until the writer thread has written every block submitted so far or has exited, then close
// it again; the gate is opened for good before finish().  Compared with NV.Sinks.MtApp.mta_model
// (through NV.Bgzf.MtWriterApi.c03_writer_api_obs) run under the same plan.

struct PlanGate {
    open: Mutex<bool>,
    cv: Condvar,
    timeouts: Mutex<usize>,
}
impl PlanGate {
    fn set(&self, open: bool) {
        *self.open.lock().unwrap() = open;
        self.cv.notify_all();
    }
    fn pass(&self) {
        let mut g = self.open.lock().unwrap();
        let deadline = Instant::now() + Duration::from_secs(8);
        while !*g {
            let now = Instant::now();
            if now >= deadline {
                *self.timeouts.lock().unwrap() += 1;
                break;
            }
            g = self.cv.wait_timeout(g, deadline - now).unwrap().0;
        }
    }
}

/// tells when the writer thread has dropped the sink (= its closure returned with an error)
struct DropSink {
    inner: FaultySink,
    dropped: Arc<std::sync::atomic::AtomicBool>,
}
impl Write for DropSink {
    fn write(&mut self, buf: &[u8]) -> io::Result<usize> {
        self.inner.write(buf)
    }
    fn flush(&mut self) -> io::Result<()> {
        self.inner.flush()
    }
}
impl Drop for DropSink {
    fn drop(&mut self) {
        self.dropped.store(true, std::sync::atomic::Ordering::SeqCst);
    }
}

const API_KINDS: [(u64, io::ErrorKind); 3] =
    [(2, io::ErrorKind::Other), (3, io::ErrorKind::BrokenPipe), (4, io::ErrorKind::PermissionDenied)];

fn fmt_script(s: &[Fault]) -> String {
    if s.is_empty() {
        return "_".into();
    }
    s.iter()
        .map(|f| match f {
            Fault::Full => "F".to_string(),
            Fault::Short(k) => format!("S{k}"),
            Fault::Interrupted => "I".into(),
            Fault::Fail(k) => format!("E{}", API_KINDS.iter().find(|(_, x)| x == k).map_or(2, |(c, _)| *c)),
        })
        .collect::<Vec<_>>()
        .join(",")
}

fn parse_script(s: &str) -> Vec<Fault> {
    if s == "_" {
        return vec![];
    }
    s.split(',')
        .map(|t| match &t[..1] {
            "F" => Fault::Full,
            "I" => Fault::Interrupted,
            "S" => Fault::Short(t[1..].parse().unwrap()),
            _ => {
                let c: u64 = t[1..].parse().unwrap();
                Fault::Fail(API_KINDS.iter().find(|(x, _)| *x == c).map_or(io::ErrorKind::Other, |(_, k)| *k))
            }
        })
        .collect()
}

/// number of blocks submitted once op i has returned
fn blocks_after(ops: &[Op]) -> Vec<usize> {
    (1..=ops.len()).map(|i| count_blocks_no_finish(&ops[..i])).collect()
}

fn count_blocks_no_finish(ops: &[Op]) -> usize {
    let (mut buf, mut n) = (0usize, 0usize);
    for o in ops {
        match *o {
            Op::W(k) => {
                buf += k;
                n += buf / MAX_BUF;
                buf %= MAX_BUF;
            }
            Op::F => {
                if buf > 0 {
                    n += 1;
                    buf = 0;
                }
            }
        }
    }
    n
}

struct ApiRun {
    results: Vec<String>,
    sync_timeouts: usize,
}

fn drive_api(ops: &[Op], data: &[u8], level: u64, sink: FaultySink, plan: &[bool], frame_lens: &[usize], gate: &PlanGate) -> ApiRun {
    let dropped = Arc::new(std::sync::atomic::AtomicBool::new(false));
    let ds = DropSink {
        inner: sink.clone(),
        dropped: dropped.clone(),
    };
    let after = blocks_after(ops);
    let mut prefix = vec![0usize];
    for l in frame_lens {
        prefix.push(prefix.last().unwrap() + l);
    }
    let mut results = vec![];
    let mut sync_timeouts = 0;
    let mut w = bgzf::io::multithreaded_writer::Builder::default()
        .set_compression_level(level_of(level))
        .build_from_writer(ds);
    let mut off = 0;
    for (i, o) in ops.iter().enumerate() {
        let r = match *o {
            Op::W(n) => {
                let r = w.write_all(&data[off..off + n]);
                off += n;
                r
            }
            Op::F => w.flush(),
        };
        match r {
            Ok(()) => results.push("Ok".to_string()),
            Err(e) => {
                results.push(format!("Err:{}", nv::errkind(&e)));
                gate.set(true);
                return ApiRun { results, sync_timeouts };
            }
        }
        if plan.get(i).copied().unwrap_or(false) {
            gate.set(true);
            let want = prefix[after[i].min(prefix.len() - 1)];
            let deadline = Instant::now() + Duration::from_secs(5);
            loop {
                if dropped.load(std::sync::atomic::Ordering::SeqCst) {
                    // the receiver goes away with the thread's closure: give it a moment
                    thread::sleep(Duration::from_millis(2));
                    break;
                }
                if sink.bytes().len() >= want {
                    break;
                }
                if Instant::now() >= deadline {
                    sync_timeouts += 1;
                    break;
                }
                thread::sleep(Duration::from_micros(100));
            }
            gate.set(false);
        }
    }
    gate.set(true);
    match w.finish() {
        Ok(_) => results.push("Ok".to_string()),
        Err(e) => results.push(format!("Err:{}", nv::errkind(&e))),
    }
    ApiRun { results, sync_timeouts }
}

fn run_wapi(c: &Case) -> Obs {
    let (p, level) = (c.u(0), c.u(1));
    if let Err(o) = check_pool(p) {
        return o;
    }
    let script = parse_script(&c.args[2]);
    let ops = parse_ops(&c.args[3]);
    let data = Arc::new(gen_data(c.u(4), total_bytes(&ops), c.u(5)));
    let frame_lens: Vec<usize> = if c.args[6] == "_" { vec![] } else { c.args[6].split(',').map(|f| f.len() / 2).collect() };
    let plan: Vec<bool> = if c.args[7] == "_" { vec![] } else { c.args[7].bytes().map(|b| b == b'1').collect() };
    let ctx = format!("P={p} level={level} script={} ops={} plan={}", c.args[2], c.args[3], c.args[7]);

    // single-threaded reference on a sink that never fails
    let st_sink = FaultySink::new(vec![]);
    if let Outcome::Panicked(m) = nv::guarded(AssertUnwindSafe(|| drive_st_writer(&ops, &data, level, st_sink.clone()))) {
        return Obs::fail("-", "stw-panic", format!("{ctx} {m}"));
    }
    let st_bytes = st_sink.bytes();

    let gate = Arc::new(PlanGate {
        open: Mutex::new(false),
        cv: Condvar::new(),
        timeouts: Mutex::new(0),
    });
    {
        let g = gate.clone();
        verif_gate::set(Some(Arc::new(move |k, _s| {
            if k == Kind::Deflate {
                g.pass();
            }
        })));
    }
    let sink = FaultySink::new(script.clone());
    let (tx, rx) = mpsc::channel();
    {
        let (ops2, data2, sink2, plan2, gate2, fl2) = (ops.clone(), data.clone(), sink.clone(), plan.clone(), gate.clone(), frame_lens.clone());
        thread::spawn(move || {
            let r = nv::guarded(AssertUnwindSafe(|| drive_api(&ops2, &data2, level, sink2, &plan2, &fl2, &gate2)));
            let _ = tx.send(r);
        });
    }
    let w = rx.recv_timeout(Duration::from_secs(20));
    gate.set(true);
    let hung = w.is_err();
    let w = match w {
        Ok(x) => Some(x),
        Err(_) => rx.recv_timeout(Duration::from_secs(8)).ok(),
    };
    quiesce();
    verif_gate::set(None);
    let run = match w {
        Some(Outcome::Done(r)) if !hung => r,
        Some(Outcome::Panicked(m)) => return Obs::fail("Panic", "mtw-api-panic", format!("{ctx} {m}")),
        _ => return Obs::fail("Hang", "mtw-api-hang", ctx),
    };
    let bytes = sink.bytes();
    // kind wbr: the same life, compared with C03's OWN writer model pushed through the embedding
    // into C14's sink (NV.Bgzf.MtWriterBridge): only the last result is schedule-independent
    let shown = if c.kind == "wbr" {
        run.results.last().cloned().unwrap_or_else(|| "_".to_string())
    } else if run.results.is_empty() {
        "_".to_string()
    } else {
        run.results.join(",")
    };
    let obs = format!("{shown}|calls={}|bytes={}", sink.calls(), hist::canon_bytes(&bytes));
    let nblocks = count_blocks(&ops);
    let o = Obs::ok(obs, !script.is_empty() && nblocks >= 2);
    if run.sync_timeouts > 0 || *gate.timeouts.lock().unwrap() > 0 {
        return o.with_verdict(Err(("mtw-api-writer-thread-stalled".into(), ctx)));
    }
    // the property at API level: every call before the last returned Ok (the caller stops at the
    // first Err); a consumed failure is returned by the last call made, with its kind; the sink
    // holds a prefix of the single-threaded file, the whole file iff finish() returned Ok
    let injected = sink.failures();
    let last_err = run.results.last().is_some_and(|r| r.starts_with("Err:"));
    let real_fail = script.iter().take(sink.calls()).find_map(|f| match f {
        Fault::Fail(k) if *k != io::ErrorKind::Interrupted => Some(format!("Err:{k:?}")),
        _ => None,
    });
    if let Some(k) = &real_fail {
        if injected > 0 && run.results.last() != Some(k) {
            return o.with_verdict(Err((
                if last_err { "mtw-api-sink-error-kind-changed" } else { "mtw-api-sink-error-dropped" }.into(),
                format!("{ctx} results={}", run.results.join(",")),
            )));
        }
    } else if last_err {
        return o.with_verdict(Err(("mtw-api-error-without-fault".into(), format!("{ctx} results={}", run.results.join(",")))));
    }
    if !st_bytes.starts_with(&bytes) {
        return o.with_verdict(Err(("mtw-api-sink-not-a-prefix-of-st".into(), ctx)));
    }
    if !last_err && (bytes != st_bytes || run.results.len() != ops.len() + 1) {
        return o.with_verdict(Err(("mtw-api-output-differs-from-st".into(), ctx)));
    }
    o
}

fn gen_wapi(rng: &mut Rng, w: &mut CaseWriter, n: u64) {
    for i in 0..n {
        let p = *rng.pick(&[2u64, 3, 4, 6, 8]);
        let level = *rng.pick(&[1u64, 6]);
        let nops = rng.range(1, 6);
        let big = i % 5 == 2;
        let mut ops = vec![];
        for _ in 0..nops {
            ops.push(if rng.chance(1, 4) {
                Op::F
            } else if big && rng.chance(1, 2) {
                Op::W(*rng.pick(&[MAX_BUF - 1, MAX_BUF, MAX_BUF + 1, 2 * MAX_BUF]))
            } else {
                Op::W(rng.below(80) as usize)
            });
        }
        let seed = rng.next() >> 8;
        let data = gen_data(seed, total_bytes(&ops), 1);
        // the frames of the fault-free life (the model does not compress)
        let ff = FaultySink::new(vec![]);
        let _ = drive_mt_writer(&ops, &data, level, ff.clone());
        let bytes = ff.bytes();
        let (frames, _) = split_frames(&bytes);
        if frames.is_empty() {
            continue;
        }
        let data_frames: Vec<String> = frames[..frames.len() - 1].iter().map(|&(s, l)| nv::hex(&bytes[s..s + l])).collect();
        let ncalls = 14 * data_frames.len() + 1;
        let mut script: Vec<Fault> = match i % 6 {
            0 => vec![],
            1 | 2 => vec![Fault::Full; rng.below(14.min(ncalls as u64)) as usize],
            _ => vec![Fault::Full; rng.below(ncalls as u64 + 2) as usize],
        };
        if i % 6 != 0 {
            if i % 4 == 3 {
                // short writes and interruptions before the failure: write_all retries
                for f in script.iter_mut() {
                    match rng.below(5) {
                        0 => *f = Fault::Short(1 + rng.below(3) as usize),
                        1 => *f = Fault::Interrupted,
                        _ => {}
                    }
                }
            }
            script.push(Fault::Fail(API_KINDS[(i % 3) as usize].1));
        }
        let after = blocks_after(&ops);
        for style in 0..3 {
            let mut plan = vec![];
            let mut synced = 0usize;
            for j in 0..ops.len() {
                let next = if j + 1 < ops.len() { after[j + 1] } else { after[j] };
                let want = match style {
                    0 => false,
                    1 => true,
                    _ => rng.chance(1, 2),
                };
                // never more than P blocks submitted while the gate is closed: send() would block
                let sync = want || next - synced > p as usize;
                if sync {
                    synced = after[j];
                }
                plan.push(sync);
            }
            let pure = script.iter().all(|f| matches!(f, Fault::Full | Fault::Fail(_)));
            w.push(
                if pure && style == 2 { "wbr" } else { "wapi" },
                vec![
                    p.to_string(),
                    level.to_string(),
                    fmt_script(&script),
                    fmt_ops(&ops),
                    seed.to_string(),
                    "1".into(),
                    if data_frames.is_empty() { "_".into() } else { data_frames.join(",") },
                    if plan.is_empty() { "_".into() } else { plan.iter().map(|b| if *b { '1' } else { '0' }).collect() },
                ],
            );
        }
    }
}

fn run_wst(c: &Case) -> Obs {
    let level = c.u(0);
    let fail: Option<usize> = if c.args[1] == "-" { None } else { Some(c.args[1].parse().unwrap()) };
    let ops = parse_ops(&c.args[2]);
    let data = gen_data(c.u(3), total_bytes(&ops), c.u(4));
    let sink = FaultySink::new(fault_script(fail));
    let st = match nv::guarded(AssertUnwindSafe(|| drive_st_writer(&ops, &data, level, sink.clone()))) {
        Outcome::Done(r) => r,
        Outcome::Panicked(m) => return Obs::fail("Panic", "stw-panic", m),
    };
    let (obs, payloads) = sink_obs(&sink.bytes(), sink.calls(), st.err.is_some(), &data);
    let o = Obs::ok(obs, count_blocks(&ops) >= 2);
    if fail.is_none() {
        let cat: Vec<u8> = payloads.concat();
        if cat != data {
            return o.with_verdict(Err(("stw-roundtrip-differs".into(), format!("ops={}", c.args[2]))));
        }
    }
    o
}

// -------------------------------------------------------------------------------------------
// reader

/// build a BGZF file with the given uncompressed block lengths (0 = an empty block) + EOF marker
fn build_file(lens: &[usize], seed: u64, level: u64, dk: u64) -> (Vec<u8>, Vec<u8>) {
    let total: usize = lens.iter().sum();
    let data = gen_data(seed, total, dk);
    let mut file = Vec::new();
    let mut off = 0;
    for &l in lens {
        if l == 0 {
            file.extend_from_slice(&EOF_BLOCK);
        } else {
            let mut w = bgzf::io::writer::Builder::default()
                .set_compression_level(level_of(level))
                .build_from_writer(Vec::new());
            w.write_all(&data[off..off + l]).unwrap();
            w.flush().unwrap();
            let v = w.into_inner();
            file.extend_from_slice(&v);
            off += l;
        }
    }
    file.extend_from_slice(&EOF_BLOCK);
    (file, data)
}

/// corruption: "-" | "<frame>:<what>" with what = c (CRC byte), p (payload byte), m (magic),
/// s (ISIZE made smaller), z (BSIZE := 10, frame-level), t (file truncated inside the frame body, frame-level)
fn corrupt(file: &mut Vec<u8>, frames: &[(usize, usize)], spec: &str, salt: u64) {
    if spec == "-" {
        return;
    }
    let (i, what) = spec.split_once(':').unwrap();
    let (p, sz) = frames[i.parse::<usize>().unwrap()];
    match what {
        "c" => file[p + sz - 8 + (salt % 4) as usize] ^= 1 << (salt % 8),
        // BFINAL of the first DEFLATE block (a flip elsewhere may land in padding bits)
        "p" => file[p + 18] ^= 1,
        "m" => file[p + (salt % 4) as usize] ^= 0x10,
        "s" => {
            let isz = u32::from_le_bytes(file[p + sz - 4..p + sz].try_into().unwrap());
            file[p + sz - 4..p + sz].copy_from_slice(&(isz - 1).to_le_bytes());
        }
        "z" => {
            file[p + 16] = 10;
            file[p + 17] = 0;
        }
        "t" => file.truncate(p + 18 + (salt as usize % (sz - 18))),
        _ => panic!("corruption"),
    }
}

/// block-by-block consumption through fill_buf/consume: (frame start, len) per delivery
struct RRun {
    got: Vec<(u64, usize)>,
    bytes: Vec<u8>,
    end_cpos: u64,
    end_upos: u16,
    read_err: Option<String>,
}

fn consume_blocks<R: bgzf::io::BufRead>(r: &mut R) -> RRun {
    let mut run = RRun {
        got: vec![],
        bytes: vec![],
        end_cpos: 0,
        end_upos: 0,
        read_err: None,
    };
    loop {
        let n = match r.fill_buf() {
            Ok(src) => {
                run.bytes.extend_from_slice(src);
                src.len()
            }
            Err(e) => {
                run.read_err = Some(nv::errkind(&e));
                break;
            }
        };
        if n == 0 {
            break;
        }
        let vp = r.virtual_position();
        run.got.push((vp.compressed(), n));
        r.consume(n);
    }
    let vp = r.virtual_position();
    run.end_cpos = vp.compressed();
    run.end_upos = vp.uncompressed();
    run
}

fn parse_frames_spec(s: &str) -> Vec<(usize, usize, char)> {
    if s == "_" {
        return vec![];
    }
    s.split(',')
        .map(|t| {
            let v: Vec<&str> = t.split(':').collect();
            (v[0].parse().unwrap(), v[1].parse().unwrap(), v[2].chars().next().unwrap())
        })
        .collect()
}

fn run_r(c: &Case) -> Obs {
    let p = c.u(0);
    if let Err(o) = check_pool(p) {
        return o;
    }
    let spec = parse_frames_spec(&c.args[1]);
    let rel = parse_rel(&c.args[2]);
    let (seed, level, dk) = (c.u(3), c.u(4), c.u(6));
    let cspec = c.args[5].clone();
    // all frames but the trailing EOF marker are in the spec's lens
    let lens: Vec<usize> = spec[..spec.len() - 1].iter().map(|f| f.1).collect();
    let (mut file, data) = build_file(&lens, seed, level, dk);
    let (frames, _) = split_frames(&file);
    if frames.len() != spec.len() || frames.iter().zip(&spec).any(|(f, s)| f.1 != s.0) {
        return Obs::fail("-", "harness-stale-case", "frame sizes differ from the case's spec (compressor changed?)");
    }
    corrupt(&mut file, &frames, &cspec, seed);
    let ctx = format!("P={p} frames={} corrupt={cspec} rel={}", spec.len(), c.args[2]);
    let starts: Vec<u64> = frames.iter().map(|f| f.0 as u64).collect();

    // single-threaded reference
    let st = {
        let mut r = bgzf::io::Reader::new(Cursor::new(file.clone()));
        match nv::guarded(AssertUnwindSafe(|| consume_blocks(&mut r))) {
            Outcome::Done(x) => x,
            Outcome::Panicked(m) => return Obs::fail("-", "str-panic", format!("{ctx} {m}")),
        }
    };

    let ctl = Ctl::new(Kind::Inflate, None);
    ctl.install();
    let file2 = file.clone();
    let (w, ctl_res) = watched(&ctl, Some((&rel, Duration::from_micros(400))), LIMIT, move || {
        let mut r = bgzf::io::MultithreadedReader::new(Cursor::new(file2));
        let run = consume_blocks(&mut r);
        let fin = r.finish().map(|_| ()).map_err(|e| nv::errkind(&e));
        (run, fin)
    });
    let timeouts = ctl.st.lock().unwrap().gate_timeouts;
    end_case(&ctl);
    let (mt, fin) = match w {
        Watched::Done(x) => x,
        Watched::Panicked(m) => return Obs::fail("Panic", "mtr-panic", format!("{ctx} {m}")),
        Watched::Hung(a) => {
            return Obs::fail(
                "Hang",
                if a { "mtr-hang-until-gates-opened" } else { "mtr-hang" },
                format!("{ctx} controller={ctl_res:?}"),
            );
        }
    };
    let idx_of = |cpos: u64| starts.iter().position(|&s| s == cpos).map_or("?".to_string(), |i| i.to_string());
    let got = if mt.got.is_empty() {
        "_".to_string()
    } else {
        mt.got.iter().map(|(cp, n)| format!("{}:{n}", idx_of(*cp))).collect::<Vec<_>>().join(",")
    };
    let rerr = mt.read_err.is_some();
    let ferr = !rerr && fin.is_err();
    let obs = format!("{got}|cpos={}|rerr={}|ferr={}", mt.end_cpos, rerr as u8, ferr as u8);
    let nontrivial = spec.len() >= 3 && rel.windows(2).any(|w| w[0] > w[1]);
    let o = Obs::ok(obs, nontrivial);

    if let Err(e) = ctl_res {
        return o.with_verdict(Err(("mtr-schedule-not-realised".into(), format!("{ctx} {e}"))));
    }
    if timeouts > 0 {
        return o.with_verdict(Err(("mtr-gate-timeout".into(), ctx)));
    }
    if mt.end_upos != 0 {
        return o.with_verdict(Err(("mtr-end-uoffset-nonzero".into(), ctx)));
    }
    // same deliveries and positions as the single-threaded reader
    if mt.got != st.got || mt.bytes != st.bytes {
        let first = mt.got.iter().zip(&st.got).position(|(a, b)| a != b);
        return o.with_verdict(Err((
            "mtr-blocks-differ-from-st".into(),
            format!("{ctx} mt={} deliveries st={} first_diff={first:?}", mt.got.len(), st.got.len()),
        )));
    }
    if cspec == "-" {
        if mt.bytes != data {
            return o.with_verdict(Err(("mtr-data-differs".into(), ctx)));
        }
        if rerr || fin.is_err() || st.read_err.is_some() {
            return o.with_verdict(Err(("mtr-error-on-valid-file".into(), format!("{ctx} read={:?} finish={fin:?}", mt.read_err))));
        }
        if (mt.end_cpos, mt.end_upos) != (st.end_cpos, st.end_upos) {
            return o.with_verdict(Err(("mtr-end-position-differs".into(), format!("{ctx} mt={} st={}", mt.end_cpos, st.end_cpos))));
        }
    } else {
        // a corrupt block or frame: an error from a later call, never silence ...
        if !rerr && fin.is_ok() {
            return o.with_verdict(Err((
                "mtr-corrupt-block-no-error".into(),
                format!("{ctx} st_read={:?}: read returned Ok to the end and finish returned Ok", st.read_err),
            )));
        }
        if st.read_err.is_none() {
            return o.with_verdict(Err(("str-corrupt-block-no-error".into(), ctx)));
        }
        // ... and, like the single-threaded reader, from the read that reaches it (frame-level
        // errors included since the repair of mtr-frame-error-discarded-by-pause)
        if mt.read_err != st.read_err {
            return o.with_verdict(Err((
                "mtr-block-error-differs-from-st".into(),
                format!("{ctx} mt={:?} st={:?}", mt.read_err, st.read_err),
            )));
        }
        if !data.starts_with(&mt.bytes) {
            return o.with_verdict(Err(("mtr-wrong-data-before-error".into(), ctx)));
        }
    }
    o
}

/// random read / read_exact / seek sequences, MT (inflate tasks delayed pseudo-randomly) vs ST
fn run_rs(c: &Case) -> Obs {
    let (p, seed, nblocks, level) = (c.u(0), c.u(1), c.u(2) as usize, c.u(3));
    if let Err(o) = check_pool(p) {
        return o;
    }
    let mut rng = Rng::new(seed);
    let lens: Vec<usize> = (0..nblocks)
        .map(|_| match rng.below(8) {
            0 => 0,
            1 => 1,
            2 => 65280,
            3 => rng.range(60000, 65536) as usize,
            _ => rng.range(1, 3000) as usize,
        })
        .collect();
    let (file, _data) = build_file(&lens, seed, level, rng.below(2));
    let (frames, _) = split_frames(&file);
    // op script
    #[derive(Clone, Debug)]
    enum ROp {
        Read(usize),
        Exact(usize),
        Seek(u64, u16),
        ToEnd,
    }
    let nops = rng.range(4, 14);
    let mut ops = vec![];
    for _ in 0..nops {
        ops.push(match rng.below(10) {
            0..=3 => ROp::Read(*rng.pick(&[1usize, 7, 100, 4096, 65536, 70000, 200000])),
            4 | 5 => ROp::Exact(*rng.pick(&[1usize, 13, 500, 66000])),
            6..=8 => {
                let i = rng.below(frames.len() as u64) as usize;
                let l = if i < lens.len() { lens[i] } else { 0 };
                let up = if l == 0 {
                    0
                } else {
                    match rng.below(3) {
                        0 => 0,
                        1 => l - 1,
                        _ => rng.below(l as u64) as usize,
                    }
                };
                if rng.chance(1, 12) {
                    ROp::Seek(file.len() as u64, 0)
                } else {
                    ROp::Seek(frames[i].0 as u64, up as u16)
                }
            }
            _ => ROp::ToEnd,
        });
    }
    ops.push(ROp::ToEnd);
    fn exec<R: io::Read + bgzf::io::Read + bgzf::io::Seek>(r: &mut R, ops: &[ROp]) -> Vec<String> {
        let mut out = vec![];
        for o in ops {
            let res = nv::guarded(AssertUnwindSafe(|| match o {
                ROp::Read(n) => {
                    let mut b = vec![0u8; *n];
                    match r.read(&mut b) {
                        Ok(k) if k > 0 && b[..k].iter().all(|&x| x == 0) => format!("ok {k} untouched-buffer"),
                        Ok(k) => format!("ok {k} {:x}", digest(&b[..k])),
                        Err(e) => format!("Err:{}", nv::errkind(&e)),
                    }
                }
                ROp::Exact(n) => {
                    let mut b = vec![0u8; *n];
                    match r.read_exact(&mut b) {
                        Ok(()) => format!("ok {:x}", digest(&b)),
                        Err(e) => format!("Err:{}", nv::errkind(&e)),
                    }
                }
                ROp::Seek(cp, up) => match r.seek_to_virtual_position(VirtualPosition::try_from((*cp, *up)).unwrap()) {
                    Ok(v) => format!("ok {}", u64::from(v)),
                    Err(e) => format!("Err:{}", nv::errkind(&e)),
                },
                ROp::ToEnd => {
                    let mut b = vec![];
                    match r.read_to_end(&mut b) {
                        Ok(k) => format!("ok {k} {:x}", digest(&b)),
                        Err(e) => format!("Err:{}", nv::errkind(&e)),
                    }
                }
            }));
            let s = match res {
                Outcome::Done(s) => s,
                Outcome::Panicked(_) => "Panic".to_string(),
            };
            let vp = match nv::guarded(AssertUnwindSafe(|| u64::from(bgzf::io::Read::virtual_position(r)))) {
                Outcome::Done(v) => v.to_string(),
                Outcome::Panicked(_) => "Panic".into(),
            };
            let stop = s == "Panic";
            out.push(format!("{o:?} -> {s} @{vp}"));
            if stop {
                break;
            }
        }
        out
    }
    let st = {
        let mut r = bgzf::io::Reader::new(Cursor::new(file.clone()));
        exec(&mut r, &ops)
    };
    let ctl = Ctl::new(Kind::Inflate, Some(seed));
    ctl.install();
    let (file2, ops2) = (file.clone(), ops.clone());
    let (w, _) = watched(&ctl, None, LIMIT, move || {
        let mut r = bgzf::io::MultithreadedReader::new(Cursor::new(file2));
        let out = exec(&mut r, &ops2);
        let fin = r.finish().map(|_| ()).map_err(|e| nv::errkind(&e));
        (out, fin)
    });
    end_case(&ctl);
    let ctx = format!("P={p} seed={seed} blocks={nblocks}");
    let (mt, fin) = match w {
        Watched::Done(x) => x,
        Watched::Panicked(m) => return Obs::fail("-", "mtr-panic", format!("{ctx} {m}")),
        Watched::Hung(_) => return Obs::fail("-", "mtr-hang", ctx),
    };
    let nseeks = ops.iter().filter(|o| matches!(o, ROp::Seek(..))).count();
    let o = Obs::ok("-", nblocks >= 3 && nseeks >= 1);
    if let Some(i) = (0..mt.len().max(st.len())).find(|&i| mt.get(i) != st.get(i)) {
        // known cause on the single-threaded side: Reader::read with a >= 64 KiB buffer takes the
        // read_block_into_buf path; at end of input no frame is read and it returns the *previous*
        // block's length without writing to the buffer (reachable when the last thing read was not
        // an empty block, e.g. after a seek to the end of the file).  The MT reader returns 0.
        let st_stale = matches!(ops.get(i), Some(ROp::Read(n)) if *n >= 65536)
            && st.get(i).is_some_and(|s| s.contains("untouched-buffer"))
            && mt.get(i).is_some_and(|s| s.contains("-> ok 0 "));
        // second known cause, same family (candidate F1): after a seek to the end-of-file virtual
        // position both readers keep the previous block as current and re-deliver it; the
        // single-threaded reader's block buffer holds garbage when that block had been decoded
        // straight into the caller's >= 64 KiB buffer (read_block_into_buf), the MT reader's holds
        // the block's real bytes.  Derived from the input: the last seek before the first
        // differing op targets the end of the file and a >= 64 KiB read preceded it.
        let last_seek = ops[..i.min(ops.len())].iter().rposition(|o| matches!(o, ROp::Seek(..)));
        let after_eof_seek = last_seek.is_some_and(|j| {
            matches!(ops[j], ROp::Seek(cp, 0) if cp == file.len() as u64)
                && ops[..j].iter().any(|o| matches!(o, ROp::Read(n) if *n >= 65536))
        });
        return o.with_verdict(Err((
            if st_stale {
                "str-read-into-buf-at-eof-returns-stale-length"
            } else if after_eof_seek {
                "str-stale-block-garbage-after-seek-to-eof"
            } else {
                "mtr-ops-differ-from-st"
            }
            .into(),
            format!("{ctx} op#{i} mt=[{}] st=[{}] lens={lens:?} history={:?}", mt.get(i).map_or("-", |s| s), st.get(i).map_or("-", |s| s), &st[..i.min(st.len())]),
        )));
    }
    if let Err(k) = fin {
        return o.with_verdict(Err(("mtr-finish-error-on-valid-file".into(), format!("{ctx} {k}"))));
    }
    o
}

fn digest(b: &[u8]) -> u64 {
    b.iter().fold(0xcbf29ce484222325u64, |h, &x| (h ^ x as u64).wrapping_mul(0x100000001b3))
}

/// frame-level error (file truncated inside the last data frame), read to the end, seek back to
/// the start, finish: some call must report the error
fn run_rfd(c: &Case) -> Obs {
    let (p, seed, level) = (c.u(0), c.u(1), c.u(2));
    if let Err(o) = check_pool(p) {
        return o;
    }
    let n = p as usize + 8;
    let lens: Vec<usize> = (0..n).map(|i| 20 + i).collect();
    let (mut file, _) = build_file(&lens, seed, level, 0);
    let (frames, _) = split_frames(&file);
    let (lp, lsz) = frames[n - 1];
    file.truncate(lp + lsz - 5);
    let ctl = Ctl::new(Kind::Inflate, Some(seed));
    ctl.install();
    let (w, _) = watched(&ctl, None, LIMIT, move || {
        let mut r = bgzf::io::MultithreadedReader::new(Cursor::new(file));
        let mut b = vec![];
        let r1 = r.read_to_end(&mut b).map_err(|e| nv::errkind(&e));
        let r2 = r
            .seek_to_virtual_position(VirtualPosition::from(0))
            .map(|_| ())
            .map_err(|e| nv::errkind(&e));
        let mut one = [0u8; 1];
        let r3 = r.read(&mut one).map_err(|e| nv::errkind(&e));
        let fin = r.finish().map(|_| ()).map_err(|e| nv::errkind(&e));
        (r1, r2, r3, fin)
    });
    end_case(&ctl);
    let ctx = format!("P={p} frames={n}");
    match w {
        Watched::Done((r1, r2, r3, fin)) => {
            let o = Obs::ok("-", true);
            if r1.is_ok() && r2.is_ok() && r3.is_ok() && fin.is_ok() {
                o.with_verdict(Err((
                    "mtr-frame-error-discarded-by-pause".into(),
                    format!("{ctx} truncated last frame: read_to_end={r1:?} seek={r2:?} read={r3:?} finish={fin:?}"),
                )))
            } else {
                o
            }
        }
        Watched::Panicked(m) => Obs::fail("-", "mtr-panic", format!("{ctx} {m}")),
        Watched::Hung(_) => Obs::fail("-", "mtr-hang", ctx),
    }
}

/// every block of the file is corrupt (CRC) and the caller keeps reading after each error: every
/// read must return (an error), never block forever
fn run_rce(c: &Case) -> Obs {
    let (p, seed) = (c.u(0), c.u(1));
    if let Err(o) = check_pool(p) {
        return o;
    }
    let n = p as usize + 5; // more corrupt blocks than the reader has buffers (P + 2)
    let lens: Vec<usize> = (0..n).map(|i| 50 + i).collect();
    let (mut file, _) = build_file(&lens, seed, 6, 1);
    let (frames, _) = split_frames(&file);
    for &(fp, sz) in &frames[..n] {
        file[fp + sz - 8] ^= 1;
    }
    let ctl = Ctl::new(Kind::Inflate, Some(seed));
    ctl.install();
    let progress = Arc::new(Mutex::new(0usize));
    let pr2 = progress.clone();
    let (w, _) = watched(&ctl, None, (Duration::from_millis(2500), Duration::from_millis(300)), move || {
        let mut r = bgzf::io::MultithreadedReader::new(Cursor::new(file));
        let mut b = [0u8; 16];
        let mut errs = 0;
        for _ in 0..(2 * n) {
            match r.read(&mut b) {
                Ok(0) => break,
                Ok(_) => {}
                Err(_) => errs += 1,
            }
            *pr2.lock().unwrap() = errs;
        }
        errs
    });
    end_case(&ctl);
    let ctx = format!("P={p} corrupt_blocks={n} buffers={}", p + 2);
    match w {
        Watched::Done(errs) => {
            let o = Obs::ok("-", true);
            if errs != n {
                o.with_verdict(Err(("mtr-corrupt-blocks-not-all-reported".into(), format!("{ctx} errors={errs}"))))
            } else {
                o
            }
        }
        Watched::Panicked(m) => Obs::fail("-", "mtr-panic", format!("{ctx} {m}")),
        Watched::Hung(_) => {
            let seen = *progress.lock().unwrap();
            // the known cause: each Err ticket drops its Buffer, so after P+2 errors no buffer is
            // left to recycle and read() blocks forever
            let tag = if seen == p as usize + 2 { "mtr-read-hangs-after-buffer-count-corrupt-blocks" } else { "mtr-hang" };
            Obs::fail("-", tag, format!("{ctx} read() did not return after {seen} reported errors"))
        }
    }
}

// -------------------------------------------------------------------------------------------
// op histories over the multithreaded reader (modelled: NV.Bgzf.MtReaderOps)

/// every get_mut is directly followed by a seek to a virtual position, and nothing follows finish:
/// the histories on which MultithreadedReader must agree with Reader op by op
fn hist_guarded(ops: &[hist::Op]) -> bool {
    ops.iter().enumerate().all(|(i, o)| match o {
        hist::Op::GetMut => matches!(ops.get(i + 1), Some(hist::Op::Seek(..))),
        hist::Op::Finish => i + 1 == ops.len(),
        _ => true,
    })
}

fn run_rh(c: &Case) -> Obs {
    let p = c.u(0);
    if let Err(o) = check_pool(p) {
        return o;
    }
    let fs = hist::parse_frames(&c.args[1]);
    let index = hist::parse_index(&c.args[2]);
    let ops = hist::parse_ops(&c.args[3]);
    let (policy, seed) = (c.u(5), c.u(6));
    let l = match hist::assemble(&fs) {
        Ok(l) => l,
        Err(e) => return Obs::fail("-", "harness-stale-case", e),
    };
    let ctx = format!("P={p} frames={} ops={} policy={policy}", fs.len(), c.args[3]);

    // single-threaded reference on the ops both readers have
    let st_ops: Vec<hist::Op> = ops
        .iter()
        .copied()
        .filter(|o| !matches!(o, hist::Op::GetMut | hist::Op::Finish))
        .collect();
    let st = {
        let gz = bgzf::gzi::Index::from(index.clone());
        let mut r = bgzf::io::Reader::new(Cursor::new(l.bytes.clone()));
        hist::exec(&mut r, &st_ops, &gz)
    };

    let ctl = Ctl::new(Kind::Inflate, None);
    ctl.install();
    let (bytes2, ops2, index2) = (l.bytes.clone(), ops.clone(), index.clone());
    let (w, reordered) = watched_policy(&ctl, policy, seed, Duration::from_micros(500), LIMIT, move || {
        let gz = bgzf::gzi::Index::from(index2);
        let mut r = bgzf::io::MultithreadedReader::new(Cursor::new(bytes2));
        hist::exec(&mut r, &ops2, &gz)
        // dropping the reader finishes it
    });
    let timeouts = ctl.st.lock().unwrap().gate_timeouts;
    end_case(&ctl);
    let mt = match w {
        Watched::Done(x) => x,
        Watched::Panicked(m) => return Obs::fail("Panic", "mtr-panic", format!("{ctx} {m}")),
        Watched::Hung(a) => {
            return Obs::fail(
                "Hang",
                if a { "mtr-history-hang-until-gates-opened" } else { "mtr-history-hang" },
                ctx,
            );
        }
    };
    let nseeks = ops.iter().filter(|o| matches!(o, hist::Op::Seek(..) | hist::Op::SeekU(_) | hist::Op::GetMut)).count();
    let _ = reordered;
    let o = Obs::ok(if mt.is_empty() { "_".to_string() } else { mt.join(" ") }, fs.len() >= 3 && nseeks >= 1);
    if timeouts > 0 {
        return o.with_verdict(Err(("mtr-gate-timeout".into(), ctx)));
    }
    // the property: op by op the results and virtual positions of the single-threaded reader
    if hist_guarded(&ops) {
        let mt_common: Vec<&String> = ops
            .iter()
            .zip(&mt)
            .filter(|(o, _)| !matches!(o, hist::Op::GetMut | hist::Op::Finish))
            .map(|(_, s)| s)
            .collect();
        let mut n = mt_common.len().max(st.len());
        // files with a block that fails AFTER parse_block has initialised the block (CRC, inflate,
        // ISIZE mismatch): a seek that runs into it fails in both readers, but the multithreaded
        // reader still has the block that was current before the seek (its own buffer) while the
        // single-threaded reader has inflated into its only buffer; what follows a failed seek is
        // not compared
        let late = fs.iter().any(|f| matches!(hist::bad_of(&f.method), Some(b) if "cps".contains(&b[..1])));
        if late {
            if let Some(j) = st_ops
                .iter()
                .zip(&st)
                .position(|(o, s)| matches!(o, hist::Op::Seek(..) | hist::Op::SeekU(_)) && s.starts_with("Err:"))
            {
                // the result of the failing seek itself is compared, the position after it is not
                if mt_common.get(j).map(|s| s.split('@').next()) == st.get(j).map(|s| s.split('@').next()) {
                    n = j;
                }
            }
        }
        if let Some(i) = (0..n).find(|&i| mt_common.get(i).copied() != st.get(i)) {
            // known cause on the single-threaded side: after a late failure the half-initialised
            // block (new size and length, cursor 0, unverified bytes) stays current
            let st_err_before = late && st.iter().take(i + 1).any(|s| s.starts_with("Err:InvalidData"));
            return o.with_verdict(Err((
                if st_err_before { "str-failed-block-stays-current-after-inflate-error" } else { "mtr-history-differs-from-st" }.into(),
                format!(
                    "{ctx} common-op#{i} mt=[{}] st=[{}]",
                    mt_common.get(i).map_or("-", |s| s.as_str()),
                    st.get(i).map_or("-", |s| s.as_str())
                ),
            )));
        }
        // (errors both readers report alike -- UnexpectedEof of read_exact, InvalidData of a gzi
        // query outside the index -- are results, not failures)
        if let Some(bad) = mt.iter().find(|s| s.contains("Panic")) {
            return o.with_verdict(Err(("mtr-history-panic-on-valid-file".into(), format!("{ctx} {bad}"))));
        }
        // a corrupt block or frame the history reads across surfaces as an error from a call
        if fs.iter().any(|f| hist::bad_of(&f.method).is_some())
            && st.iter().any(|s| s.starts_with("Err:InvalidData") || s.starts_with("Err:UnexpectedEof"))
            && !mt.iter().any(|s| s.starts_with("Err:"))
        {
            return o.with_verdict(Err(("mtr-history-corrupt-block-no-error".into(), ctx)));
        }
    }
    o
}

fn run_rhst(c: &Case) -> Obs {
    let fs = hist::parse_frames(&c.args[0]);
    let index = hist::parse_index(&c.args[1]);
    let ops = hist::parse_ops(&c.args[2]);
    let l = match hist::assemble(&fs) {
        Ok(l) => l,
        Err(e) => return Obs::fail("-", "harness-stale-case", e),
    };
    let gz = bgzf::gzi::Index::from(index);
    let mut r = bgzf::io::Reader::new(Cursor::new(l.bytes.clone()));
    let st = hist::exec(&mut r, &ops, &gz);
    Obs::ok(if st.is_empty() { "_".to_string() } else { st.join(" ") }, fs.len() >= 3)
}

/// a random well-formed file: data frames (writer-made or hand-framed), empty frames anywhere,
/// usually the EOF marker at the end
fn gen_hist_file(rng: &mut Rng) -> Vec<hist::FSpec> {
    let nb = rng.range(1, 11) as usize;
    let mut fs = vec![];
    for _ in 0..nb {
        let (method, len) = match rng.below(12) {
            0 => ("e".to_string(), 0usize),
            1 => ("h6".to_string(), 0),
            2 => (format!("w{}", rng.pick(&[0u64, 1, 6])), 1),
            3 => ("w1".to_string(), 65280),
            4 => ("h6".to_string(), 65536),
            5 => ("h1".to_string(), rng.range(60000, 65536) as usize),
            _ => (format!("{}{}", rng.pick(&["w", "h"]), rng.pick(&[1u64, 6])), rng.range(1, 3000) as usize),
        };
        let (a, m) = (rng.below(251), rng.range(1, 250));
        let csize = hist::build_frame(&method, &hist::pattern(len, a, m)).len();
        fs.push(hist::FSpec { method, len, a, m, csize });
    }
    if rng.chance(5, 6) {
        fs.push(hist::FSpec { method: "e".into(), len: 0, a: 0, m: 1, csize: 28 });
    }
    fs
}

fn gen_hist_ops(rng: &mut Rng, l: &hist::Layout, with_inner: bool) -> Vec<hist::Op> {
    use hist::Op;
    let file_len = l.bytes.len() as u64;
    let seek = |rng: &mut Rng| -> Op {
        if rng.chance(1, 10) {
            return Op::Seek(file_len, 0);
        }
        let (c, _, len) = l.tbl[rng.below(l.tbl.len() as u64) as usize];
        let u = if len == 0 {
            0
        } else {
            match rng.below(4) {
                0 => 0,
                1 => len - 1,
                2 => len.min(65535),
                _ => rng.below(len as u64) as usize,
            }
        };
        Op::Seek(c, u.min(65535) as u16)
    };
    let nops = rng.range(3, 12);
    let mut ops = vec![];
    for _ in 0..nops {
        match rng.below(16) {
            0..=3 => ops.push(Op::Read(*rng.pick(&[1usize, 7, 100, 4096, 65536, 70000]))),
            4 => ops.push(Op::Exact(*rng.pick(&[1usize, 13, 500, 66000]))),
            5 => ops.push(Op::ExactStd(*rng.pick(&[1usize, 13, 500, 66000]))),
            6 => ops.push(Op::Fill),
            7 => ops.push(Op::Consume(*rng.pick(&[0usize, 1, 50, 70000]))),
            8..=10 => ops.push(seek(rng)),
            11 => ops.push(Op::SeekU(rng.below(l.total as u64 + 2))),
            12 => ops.push(Op::ReadAll(*rng.pick(&[1000usize, 65536, 70000]))),
            13 | 14 if with_inner => {
                ops.push(Op::GetMut);
                if rng.chance(3, 4) {
                    ops.push(seek(rng));
                }
            }
            _ => ops.push(Op::Read(rng.range(1, 300) as usize)),
        }
    }
    if with_inner && rng.chance(1, 2) {
        ops.push(Op::Finish);
        if rng.chance(1, 4) {
            ops.push(Op::Read(1));
        }
    }
    ops
}

/// arbitrary schedule segments for the model: per pull a list of action numbers
/// (0 Submit, 1 Start, 2 Take, 3 Emit, 4+t Complete t); disabled actions are no-ops
fn gen_segs(rng: &mut Rng) -> String {
    let n = rng.range(0, 10);
    if n == 0 {
        return "_".into();
    }
    (0..n)
        .map(|_| {
            let k = rng.range(0, 14);
            if k == 0 {
                "-".to_string()
            } else {
                (0..k)
                    .map(|_| match rng.below(6) {
                        0 | 1 => rng.below(4).to_string(),
                        2 => "0".to_string(),
                        3 => "1".to_string(),
                        _ => (4 + rng.below(8)).to_string(),
                    })
                    .collect::<Vec<_>>()
                    .join(".")
            }
        })
        .collect::<Vec<_>>()
        .join(";")
}

/// a well-formed file with one or two frames broken (see hist::bad_of); `late_known` = every
/// late failure is a CRC flip (the bytes the failed inflate leaves in the block are the data)
fn gen_bad_file(rng: &mut Rng) -> (Vec<hist::FSpec>, bool) {
    let mut fs = gen_hist_file(rng);
    let mut late_known = true;
    let nbad = if rng.chance(1, 3) { 2 } else { 1 };
    for _ in 0..nbad {
        if rng.chance(1, 4) {
            // frame-level: the last frame (drop an EOF marker at the end first, half of the time)
            if fs.len() > 1 && fs.last().is_some_and(|f| f.method == "e") && rng.chance(1, 2) {
                fs.pop();
            }
            let f = fs.last_mut().unwrap();
            if hist::bad_of(&f.method).is_some() {
                continue;
            }
            let what = if rng.chance(1, 2) {
                "z".to_string()
            } else {
                format!("t{}", rng.range(18, f.csize as u64 - 1))
            };
            f.method = format!("{}!{what}", f.method);
        } else {
            let j = rng.below(fs.len() as u64) as usize;
            if hist::bad_of(&fs[j].method).is_some() {
                continue;
            }
            let mut what = *rng.pick(&["c", "c", "p", "s", "m", "i", "c", "m"]);
            if what == "s" && fs[j].len == 0 {
                what = "c";
            }
            if what == "p" || what == "s" {
                // must be a corruption the reader detects
                let data = hist::pattern(fs[j].len, fs[j].a, fs[j].m);
                let fr = hist::build_frame(&format!("{}!{what}", fs[j].method), &data);
                let mut r = bgzf::io::Reader::new(Cursor::new(fr));
                let mut b = [0u8; 1];
                if r.read(&mut b).is_ok() {
                    what = "c";
                }
            }
            if what == "p" || what == "s" {
                late_known = false;
            }
            fs[j].method = format!("{}!{what}", fs[j].method);
        }
    }
    for f in fs.iter_mut() {
        f.csize = hist::build_frame(&f.method, &hist::pattern(f.len, f.a, f.m)).len();
    }
    (fs, late_known)
}

/// op histories over files with corrupt blocks / a broken last frame: rhe (MultithreadedReader vs
/// NV.Bgzf.MtReaderErr) and rhste (Reader vs the single-threaded model of the same file)
fn gen_rhe(rng: &mut Rng, w: &mut CaseWriter, n: u64) {
    for i in 0..n {
        let p = pool_for(rng, i + 1);
        let (fs, late_known) = gen_bad_file(rng);
        if !fs.iter().any(|f| hist::bad_of(&f.method).is_some()) {
            continue;
        }
        let l = hist::assemble(&fs).expect("fresh frames");
        let mut ops = gen_hist_ops(rng, &l, i % 3 == 1);
        // keep reading after the error
        for _ in 0..rng.range(1, 4) {
            ops.insert(
                rng.below(ops.len() as u64 + 1) as usize,
                *rng.pick(&[hist::Op::Read(100), hist::Op::Fill, hist::Op::ReadAll(70000), hist::Op::Read(65536), hist::Op::Exact(5)]),
            );
        }
        if let Some(z) = ops.iter().position(|o| *o == hist::Op::Finish) {
            ops.truncate(z + 1);
        }
        let full = l.full_index();
        let index = if rng.chance(1, 4) { vec![] } else { full };
        let policy = [1u64, 2, 3, 4, 1, 0][(i % 6) as usize];
        w.push(
            "rhe",
            vec![
                p.to_string(),
                hist::fmt_frames(&fs),
                hist::fmt_index(&index),
                hist::fmt_ops(&ops),
                gen_segs(rng),
                policy.to_string(),
                rng.next().to_string(),
            ],
        );
        if late_known && i % 2 == 0 {
            let st_ops: Vec<hist::Op> = ops
                .iter()
                .copied()
                .filter(|o| !matches!(o, hist::Op::GetMut | hist::Op::Finish))
                .collect();
            w.push("rhste", vec![hist::fmt_frames(&fs), hist::fmt_index(&index), hist::fmt_ops(&st_ops)]);
        }
    }
}

fn gen_rh(rng: &mut Rng, w: &mut CaseWriter, n: u64) {
    for i in 0..n {
        let p = pool_for(rng, i + 4);
        let fs = gen_hist_file(rng);
        let l = hist::assemble(&fs).expect("fresh frames");
        let ops = gen_hist_ops(rng, &l, i % 3 != 0);
        let full = l.full_index();
        let index = match rng.below(4) {
            0 => vec![],
            1 => full[..rng.below(full.len() as u64 + 1) as usize].to_vec(),
            _ => full,
        };
        let policy = [1u64, 2, 3, 4, 1, 0][(i % 6) as usize];
        // every other well-formed history is compared with the ERROR model run on the embedded
        // all-good file (kind rhv: NV.Bgzf.MtReaderBridge), the others with the op-level model
        w.push(
            if i % 2 == 1 { "rhv" } else { "rh" },
            vec![
                p.to_string(),
                hist::fmt_frames(&fs),
                hist::fmt_index(&index),
                hist::fmt_ops(&ops),
                gen_segs(rng),
                policy.to_string(),
                rng.next().to_string(),
            ],
        );
        if i % 4 == 0 {
            let st_ops: Vec<hist::Op> = ops
                .iter()
                .copied()
                .filter(|o| !matches!(o, hist::Op::GetMut | hist::Op::Finish))
                .collect();
            w.push(
                if i % 8 == 4 { "rhstv" } else { "rhst" },
                vec![hist::fmt_frames(&fs), hist::fmt_index(&index), hist::fmt_ops(&st_ops)],
            );
        }
    }
}

// -------------------------------------------------------------------------------------------
// generation

// -------------------------------------------------------------------------------------------
// wcfg / rcfg: every CONSTRUCTION PATH of the multithreaded writer / reader (implementation-only
// oracle).  The property speaks of "the same compression level": whatever way the level reaches
// the writer -- MultithreadedWriter::new, the deprecated with_worker_count, or a Builder chain with
// the setters in ANY order and repeated (set_compression_level before / after / between
// set_worker_count) -- the effective level is the LAST one set (the default if none was set), and
// the output equals byte for byte the single-threaded Writer's at that level.  No gate: the
// schedule is whatever the pool does (the scheduled kinds cover the orders).
//   wcfg P path ops seed dk     path = new | wwc:<n> | b[:tok,tok..] with tok = L<level> | W<n>
//   rcfg P path frames seed level dk   path = new | wwc:<n>

#[allow(deprecated)]
fn build_mt_writer_by_path(path: &str, sink: FaultySink) -> bgzf::io::MultithreadedWriter<FaultySink> {
    use std::num::NonZero;
    if path == "new" {
        return bgzf::io::MultithreadedWriter::new(sink);
    }
    if let Some(n) = path.strip_prefix("wwc:") {
        let n: usize = n.parse().expect("wwc");
        return bgzf::io::MultithreadedWriter::with_worker_count(NonZero::new(n).expect("nonzero"), sink);
    }
    let mut b = bgzf::io::multithreaded_writer::Builder::default();
    for tok in cfg_tokens(path) {
        let v: u64 = tok[1..].parse().expect("cfg token");
        b = match tok.as_bytes()[0] {
            b'L' => b.set_compression_level(level_of(v)),
            b'W' => b.set_worker_count(NonZero::new(v as usize).expect("nonzero")),
            _ => panic!("cfg token {tok}"),
        };
    }
    b.build_from_writer(sink)
}

fn cfg_tokens(path: &str) -> Vec<&str> {
    match path.strip_prefix("b:") {
        Some(t) => t.split(',').collect(),
        None => vec![],
    }
}

/// the level the path asks for: the last level set; None = the default
fn cfg_level(path: &str) -> Option<u64> {
    cfg_tokens(path).iter().rev().find(|t| t.starts_with('L')).map(|t| t[1..].parse().expect("level"))
}

fn drive_ops<W: Write>(w: &mut W, ops: &[Op], data: &[u8]) -> io::Result<()> {
    let mut off = 0;
    for o in ops {
        match *o {
            Op::W(n) => {
                w.write_all(&data[off..off + n])?;
                off += n;
            }
            Op::F => w.flush()?,
        }
    }
    Ok(())
}

fn run_wcfg(c: &Case) -> Obs {
    let p = c.u(0);
    if let Err(o) = check_pool(p) {
        return o;
    }
    let path = c.args[1].clone();
    let ops = parse_ops(&c.args[2]);
    let data = Arc::new(gen_data(c.u(3), total_bytes(&ops), c.u(4)));
    let want = cfg_level(&path);
    let ctx = format!("P={p} path={path} level={} ops={}", want.map_or("default".to_string(), |l| l.to_string()), c.args[2]);
    verif_gate::set(None);

    // single-threaded references: every construction path of Writer that yields that level
    let mut st_refs: Vec<(&str, Vec<u8>)> = vec![];
    let st_paths: &[&str] = if want.is_none() { &["new", "builder-default"] } else { &["builder-level"] };
    for &sp in st_paths {
        let sink = FaultySink::new(vec![]);
        let (s2, ops2, data2) = (sink.clone(), ops.clone(), data.clone());
        let r = nv::guarded(AssertUnwindSafe(move || {
            let mut w = match (sp, want) {
                ("new", _) => bgzf::io::Writer::new(s2),
                (_, None) => bgzf::io::writer::Builder::default().build_from_writer(s2),
                (_, Some(l)) => bgzf::io::writer::Builder::default()
                    .set_compression_level(level_of(l))
                    .build_from_writer(s2),
            };
            let r = drive_ops(&mut w, &ops2, &data2).and_then(|()| w.try_finish());
            let _ = w.into_inner();
            r
        }));
        match r {
            Outcome::Done(Ok(())) => st_refs.push((sp, sink.bytes())),
            Outcome::Done(Err(e)) => return Obs::fail("-", "stw-error-without-fault", format!("{ctx} st-path={sp} {}", nv::errkind(&e))),
            Outcome::Panicked(m) => return Obs::fail("-", "stw-panic", format!("{ctx} st-path={sp} {m}")),
        }
    }
    if st_refs.len() == 2 && st_refs[0].1 != st_refs[1].1 {
        return Obs::fail("-", "stw-construction-paths-disagree", format!("{ctx} Writer::new vs writer::Builder::default()"));
    }
    let st_bytes = &st_refs[0].1;

    // multithreaded, built along the path
    let mt_sink = FaultySink::new(vec![]);
    let (s2, ops2, data2, path2) = (mt_sink.clone(), ops.clone(), data.clone(), path.clone());
    let (tx, rx) = mpsc::channel();
    thread::spawn(move || {
        let r = nv::guarded(AssertUnwindSafe(move || {
            let mut w = build_mt_writer_by_path(&path2, s2);
            drive_ops(&mut w, &ops2, &data2).and_then(|()| w.finish().map(|_| ()))
        }));
        let _ = tx.send(r);
    });
    let r = rx.recv_timeout(LIMIT.0);
    quiesce();
    let nblocks = count_blocks(&ops);
    let nontrivial = nblocks >= 2 && cfg_tokens(&path).len() >= 2;
    let o = Obs::ok("-", nontrivial);
    match r {
        Err(_) => return Obs::fail("-", "mtw-cfg-hang", &ctx),
        Ok(Outcome::Panicked(m)) => return Obs::fail("-", "mtw-cfg-panic", format!("{ctx} {m}")),
        Ok(Outcome::Done(Err(e))) => {
            return o.with_verdict(Err(("mtw-error-without-fault".into(), format!("{ctx} {}", nv::errkind(&e)))));
        }
        Ok(Outcome::Done(Ok(()))) => {}
    }
    let mt_bytes = mt_sink.bytes();
    if &mt_bytes != st_bytes {
        // which class of path: what comes after the last level setter?
        let toks = cfg_tokens(&path);
        let tag = if path == "new" || path.starts_with("wwc:") {
            "mtw-constructor-output-differs-from-st"
        } else if want.is_none() {
            "mtw-builder-default-level-output-differs-from-st"
        } else if toks.last().is_some_and(|t| t.starts_with('W')) {
            "mtw-builder-level-lost-after-later-setter"
        } else if toks.iter().filter(|t| t.starts_with('L')).count() > 1 {
            "mtw-builder-repeated-level-not-last-wins"
        } else {
            "mtw-builder-level-output-differs-from-st"
        };
        // does the output carry the data at all, and which level does it look like?
        let (_, mt_payloads) = sink_obs(&mt_bytes, 0, false, &data);
        let same_data = mt_payloads.concat() == data[..];
        let looks_like: Vec<String> = (0..=9u64)
            .filter(|&l| {
                let mut w = bgzf::io::writer::Builder::default()
                    .set_compression_level(level_of(l))
                    .build_from_writer(Vec::new());
                drive_ops(&mut w, &ops, &data).is_ok() && w.finish().is_ok_and(|v| v == mt_bytes)
            })
            .map(|l| l.to_string())
            .collect();
        return o.with_verdict(Err((
            tag.into(),
            format!(
                "{ctx} mt={}B st={}B data_round_trips={same_data} mt_equals_st_at_levels=[{}]",
                mt_bytes.len(),
                st_bytes.len(),
                looks_like.join(",")
            ),
        )));
    }
    o
}

#[allow(deprecated)]
fn run_rcfg(c: &Case) -> Obs {
    use std::num::NonZero;
    let p = c.u(0);
    if let Err(o) = check_pool(p) {
        return o;
    }
    let path = c.args[1].clone();
    let lens: Vec<usize> = c.args[2].split(',').map(|x| x.parse().expect("len")).collect();
    let (file, data) = build_file(&lens, c.u(3), c.u(4), c.u(5));
    let ctx = format!("P={p} path={path} frames={}", c.args[2]);
    verif_gate::set(None);

    let mut st_out = vec![];
    let st_res = {
        let f = file.clone();
        nv::guarded(AssertUnwindSafe(|| {
            let mut r = bgzf::io::reader::Builder::default().build_from_reader(Cursor::new(f));
            let mut v = vec![];
            let res = r.read_to_end(&mut v).map_err(|e| nv::errkind(&e));
            (res, v, u64::from(r.virtual_position()))
        }))
    };
    let st = match st_res {
        Outcome::Done(x) => x,
        Outcome::Panicked(m) => return Obs::fail("-", "str-panic", format!("{ctx} {m}")),
    };
    st_out.extend_from_slice(&st.1);

    let (f2, path2) = (file.clone(), path.clone());
    let (tx, rx) = mpsc::channel();
    thread::spawn(move || {
        let r = nv::guarded(AssertUnwindSafe(move || {
            let mut r = match path2.strip_prefix("wwc:") {
                Some(n) => bgzf::io::MultithreadedReader::with_worker_count(
                    NonZero::new(n.parse::<usize>().expect("wwc")).expect("nonzero"),
                    Cursor::new(f2),
                ),
                None => bgzf::io::MultithreadedReader::new(Cursor::new(f2)),
            };
            let mut v = vec![];
            let res = r.read_to_end(&mut v).map_err(|e| nv::errkind(&e));
            let vp = u64::from(r.virtual_position());
            let fin = r.finish().map(|_| ()).map_err(|e| nv::errkind(&e));
            (res, v, vp, fin)
        }));
        let _ = tx.send(r);
    });
    let r = rx.recv_timeout(LIMIT.0);
    quiesce();
    let o = Obs::ok("-", lens.len() >= 3);
    let mt = match r {
        Err(_) => return Obs::fail("-", "mtr-cfg-hang", &ctx),
        Ok(Outcome::Panicked(m)) => return Obs::fail("-", "mtr-cfg-panic", format!("{ctx} {m}")),
        Ok(Outcome::Done(x)) => x,
    };
    let class = if path == "new" { "new" } else { "with-worker-count" };
    if mt.0 != st.0 || mt.1 != st_out || st_out != data {
        return o.with_verdict(Err((
            format!("mtr-{class}-data-differs-from-st"),
            format!("{ctx} mt={:?}/{}B st={:?}/{}B data={}B", mt.0, mt.1.len(), st.0, st_out.len(), data.len()),
        )));
    }
    if mt.2 != st.2 {
        return o.with_verdict(Err((format!("mtr-{class}-position-differs-from-st"), format!("{ctx} mt={} st={}", mt.2, st.2))));
    }
    if let Err(k) = mt.3 {
        return o.with_verdict(Err((format!("mtr-{class}-finish-error"), format!("{ctx} {k}"))));
    }
    o
}

fn gen_cfg(rng: &mut Rng, w: &mut CaseWriter, n: u64) {
    const LEVELS: [u64; 6] = [0, 1, 3, 6, 8, 9];
    for i in 0..n {
        let p = [2u64, 4][(i % 2) as usize];
        let path = match i % 8 {
            // the two orders of one level and one worker count, the non-default levels first
            0 => format!("b:L{},W{}", [0u64, 1, 9, 3][((i / 8) % 4) as usize], rng.range(1, 8)),
            1 => format!("b:W{},L{}", rng.range(1, 8), [0u64, 1, 9, 3][((i / 8) % 4) as usize]),
            2 => "new".to_string(),
            3 => format!("wwc:{}", rng.range(1, 8)),
            4 => match (i / 8) % 3 {
                0 => "b".to_string(),
                1 => format!("b:W{}", rng.range(1, 8)),
                _ => format!("b:L{}", rng.pick(&LEVELS)),
            },
            // random chains of 2..5 setters, repeats allowed
            _ => {
                let k = rng.range(2, 5);
                let toks: Vec<String> = (0..k)
                    .map(|_| if rng.chance(1, 2) { format!("L{}", rng.pick(&LEVELS)) } else { format!("W{}", rng.range(1, 8)) })
                    .collect();
                format!("b:{}", toks.join(","))
            }
        };
        // enough compressible data for the levels to differ: a few blocks, one of them large
        let mut ops = gen_ops(rng, false);
        ops.push(Op::W(rng.range(20000, 70000) as usize));
        if rng.chance(1, 2) {
            ops.push(Op::F);
            ops.push(Op::W(rng.range(1, 3000) as usize));
        }
        w.push("wcfg", vec![p.to_string(), path, fmt_ops(&ops), rng.next().to_string(), "1".into()]);
    }
    for i in 0..(n / 4).max(4) {
        let p = [2u64, 4][(i % 2) as usize];
        let path = if i % 2 == 0 { "new".to_string() } else { format!("wwc:{}", rng.range(1, 8)) };
        let k = rng.range(1, 6);
        let lens: Vec<String> = (0..k)
            .map(|_| match rng.below(5) {
                0 => 0,
                1 => 65280,
                _ => rng.range(1, 5000),
            })
            .map(|l| l.to_string())
            .collect();
        w.push(
            "rcfg",
            vec![p.to_string(), path, lens.join(","), rng.next().to_string(), rng.pick(&[1u64, 6]).to_string(), "1".into()],
        );
    }
}

fn gen_ops(rng: &mut Rng, big: bool) -> Vec<Op> {
    let n = rng.range(2, 9);
    let mut ops = vec![];
    for _ in 0..n {
        let sz = if big && rng.chance(1, 4) {
            *rng.pick(&[MAX_BUF - 1, MAX_BUF, MAX_BUF + 1, 2 * MAX_BUF, 70000, 140000])
        } else {
            match rng.below(6) {
                0 => 0,
                1 => 1,
                _ => rng.range(1, 3000) as usize,
            }
        };
        ops.push(Op::W(sz));
        if rng.chance(3, 4) {
            ops.push(Op::F);
        }
        if rng.chance(1, 10) {
            ops.push(Op::F); // flush of an empty buffer
        }
    }
    ops
}

fn pool_for(rng: &mut Rng, i: u64) -> u64 {
    // boundary-dense: 1, 2, 3 often; all of 1..16 eventually
    match i % 6 {
        0 => 1,
        1 => 2,
        2 => 3,
        3 => 4,
        _ => rng.range(1, 16),
    }
}

fn generate(rng: &mut Rng, tier: &str, w: &mut CaseWriter) {
    let thorough = tier == "thorough";
    let scale = if thorough { 20 } else { 1 };

    // writer, no fault
    for i in 0..(60 * scale) {
        let p = pool_for(rng, i);
        let ops = gen_ops(rng, i % 5 == 0);
        let n = count_blocks(&ops);
        let policy = [1, 2, 3, 1, 4, 2, 0][(i % 7) as usize];
        let rel = gen_rel(rng, n, p as usize, false, policy);
        let level = *rng.pick(&[0u64, 1, 6, 6, 9]);
        w.push(
            "w",
            vec![
                p.to_string(),
                level.to_string(),
                "-".into(),
                fmt_ops(&ops),
                fmt_rel(&rel),
                rng.next().to_string(),
                rng.below(2).to_string(),
            ],
        );
    }
    // writer, staging boundary: the buffer reaches MAX_BUF-1 / MAX_BUF / MAX_BUF+1 with and without a
    // following write or flush
    for i in 0..(12 * scale) {
        let p = pool_for(rng, i + 2);
        let a = rng.range(0, 3000) as usize;
        let d = [0usize, 1, 2, 3][(i % 4) as usize]; // target MAX_BUF-1+d-1 ...
        let target = MAX_BUF + d - 2; // MAX_BUF-2 .. MAX_BUF+1
        let mut ops = vec![];
        if a > 0 {
            ops.push(Op::W(a));
        }
        ops.push(Op::W(target - a));
        match i % 3 {
            0 => ops.push(Op::W(rng.range(1, 50) as usize)),
            1 => {
                ops.push(Op::F);
                ops.push(Op::W(rng.range(1, 50) as usize));
            }
            _ => {
                ops.push(Op::W(1));
                ops.push(Op::W(1));
                ops.push(Op::F);
                ops.push(Op::W(MAX_BUF));
                ops.push(Op::W(3));
            }
        }
        let n = count_blocks(&ops);
        let rel = gen_rel(rng, n, p as usize, false, [1, 2][(i % 2) as usize]);
        w.push(
            "w",
            vec![
                p.to_string(),
                rng.pick(&[0u64, 6]).to_string(),
                "-".into(),
                fmt_ops(&ops),
                fmt_rel(&rel),
                rng.next().to_string(),
                "1".into(),
            ],
        );
    }
    // writer, faulty sink: every interesting call position
    for i in 0..(40 * scale) {
        let p = pool_for(rng, i + 3);
        let ops = gen_ops(rng, i % 9 == 0);
        let n = count_blocks(&ops);
        let total = 14 * n + 1;
        let k = match i % 6 {
            0 => 0,
            1 => total - 1,                                 // the EOF marker write
            2 => 14 * rng.below(n.max(1) as u64) as usize,  // first call of a frame
            3 => 14 * rng.below(n.max(1) as u64) as usize + 13, // last call of a frame
            4 => total + rng.below(3) as usize,             // never reached
            _ => rng.below(total as u64) as usize,
        };
        let policy = [1, 2, 3, 4][(i % 4) as usize];
        let rel = gen_rel(rng, n, p as usize, false, policy);
        w.push(
            "w",
            vec![
                p.to_string(),
                "6".into(),
                k.to_string(),
                fmt_ops(&ops),
                fmt_rel(&rel),
                rng.next().to_string(),
                "1".into(),
            ],
        );
    }
    // exhaustive: all feasible release orders of 4 blocks (quick) / 5 and 6 blocks (thorough), writer
    {
        let sweeps: &[(usize, &[usize])] = if thorough { &[(5, &[2, 3, 4, 5]), (6, &[2, 3, 4, 6])] } else { &[(4, &[3])] };
        for &(nb, pools) in sweeps {
            for &p in pools {
                let ops: Vec<Op> = (0..nb).flat_map(|i| [Op::W(10 + i), Op::F]).collect();
                let mut perm: Vec<usize> = (0..nb).collect();
                let mut all = vec![];
                permute(&mut perm, 0, &mut all);
                for rel in all {
                    if feasible(&rel, p, false) {
                        w.push(
                            "w",
                            vec![p.to_string(), "6".into(), "-".into(), fmt_ops(&ops), fmt_rel(&rel), "7".into(), "0".into()],
                        );
                    }
                }
            }
        }
    }
    // exhaustive: all feasible inflate orders of 4 frames (quick) / 5 and 6 frames (thorough), reader
    // (the last frame is the EOF marker)
    {
        let sweeps: &[(usize, &[usize])] = if thorough { &[(5, &[2, 3, 4, 5]), (6, &[2, 3, 4, 6])] } else { &[(4, &[2])] };
        for &(nf, pools) in sweeps {
            let lens: Vec<usize> = (0..nf - 1).map(|i| if i == 2 { 0 } else { 40 + i }).collect();
            let (file, _) = build_file(&lens, 11, 6, 1);
            let (frames, _) = split_frames(&file);
            let spec: Vec<String> = frames
                .iter()
                .enumerate()
                .map(|(j, f)| format!("{}:{}:g", f.1, if j < lens.len() { lens[j] } else { 0 }))
                .collect();
            for &p in pools {
                let mut perm: Vec<usize> = (0..nf).collect();
                let mut all = vec![];
                permute(&mut perm, 0, &mut all);
                for rel in all {
                    if feasible(&rel, p, true) {
                        w.push(
                            "r",
                            vec![p.to_string(), spec.join(","), fmt_rel(&rel), "11".into(), "6".into(), "-".into(), "1".into()],
                        );
                    }
                }
            }
        }
    }
    // single-threaded writer alone
    for i in 0..(15 * scale) {
        let ops = gen_ops(rng, i % 3 == 0);
        let n = count_blocks(&ops);
        let fail = if i % 3 == 1 { rng.below(14 * n as u64 + 2).to_string() } else { "-".into() };
        w.push(
            "wst",
            vec!["6".into(), fail, fmt_ops(&ops), rng.next().to_string(), rng.below(2).to_string()],
        );
    }
    // reader, block by block, forced inflate order, optional corruption
    for i in 0..(50 * scale) {
        let p = pool_for(rng, i + 1);
        let nb = rng.range(1, 12) as usize;
        let lens: Vec<usize> = (0..nb)
            .map(|_| match rng.below(10) {
                0 => 0,
                1 => 1,
                2 => 65280,
                _ => rng.range(1, 2000) as usize,
            })
            .collect();
        let (seed, level, dk) = (rng.next(), *rng.pick(&[0u64, 6]), rng.below(2));
        let (file, _) = build_file(&lens, seed, level, dk);
        let (frames, _) = split_frames(&file);
        let cspec = if i % 2 == 0 {
            "-".to_string()
        } else {
            // corrupt a data frame
            let cands: Vec<usize> = (0..nb).filter(|&j| lens[j] > 0).collect();
            if cands.is_empty() {
                "-".to_string()
            } else {
                let j = *rng.pick(&cands);
                let what = *rng.pick(&["c", "p", "m", "s", "z", "t", "c", "p"]);
                // the corruption must be one the single-threaded reader detects, else use the CRC
                let mut f2 = file.clone();
                corrupt(&mut f2, &frames, &format!("{j}:{what}"), seed);
                let mut r = bgzf::io::Reader::new(Cursor::new(f2));
                if consume_blocks(&mut r).read_err.is_some() {
                    format!("{j}:{what}")
                } else {
                    format!("{j}:c")
                }
            }
        };
        // a frame-level error is answered by the reader thread itself (no inflate task) and
        // nothing after it is submitted
        let nsub = match cspec.split_once(':') {
            Some((cj, "z" | "t")) => cj.parse::<usize>().unwrap(),
            _ => frames.len(),
        };
        let spec: Vec<String> = frames
            .iter()
            .enumerate()
            .map(|(j, f)| {
                let l = if j < nb { lens[j] } else { 0 };
                let st = match cspec.split_once(':') {
                    Some((cj, what)) if cj.parse::<usize>().unwrap() == j => {
                        if what == "z" || what == "t" { 'f' } else { 'b' }
                    }
                    _ => 'g',
                };
                format!("{}:{l}:{st}", f.1)
            })
            .collect();
        let policy = [1, 2, 3, 4, 2][(i % 5) as usize];
        let rel = gen_rel(rng, nsub, p as usize, true, policy);
        w.push(
            "r",
            vec![
                p.to_string(),
                spec.join(","),
                fmt_rel(&rel),
                seed.to_string(),
                level.to_string(),
                cspec,
                dk.to_string(),
            ],
        );
    }
    // reader with seeks (implementation only)
    for i in 0..(30 * scale) {
        let p = pool_for(rng, i + 2);
        w.push(
            "rs",
            vec![p.to_string(), rng.next().to_string(), rng.range(1, 14).to_string(), "6".into()],
        );
    }
    // reader op histories against the model NV.Bgzf.MtReaderOps
    gen_rh(rng, w, 40 * scale);
    gen_rhe(rng, w, 40 * scale);
    for p in [1u64, 2, 4] {
        w.push("rfd", vec![p.to_string(), rng.next().to_string(), "6".into()]);
    }
    for p in [1u64, 3] {
        w.push("rce", vec![p.to_string(), rng.next().to_string()]);
    }
    // the writer at API-call level against NV.Sinks.MtApp (last: the earlier kinds keep their cases)
    gen_wapi(rng, w, 10 * scale);
    // construction paths (builder setter orders, constructors) -- after wapi for the same reason
    gen_cfg(rng, w, 24 * scale);
}

fn permute(p: &mut Vec<usize>, k: usize, out: &mut Vec<Vec<usize>>) {
    if k == p.len() {
        out.push(p.clone());
        return;
    }
    for i in k..p.len() {
        p.swap(k, i);
        permute(p, k + 1, out);
        p.swap(k, i);
    }
}

fn feasible(rel: &[usize], pool: usize, reader: bool) -> bool {
    let mut sim = Sim::new(rel.len(), pool, reader);
    for &t in rel {
        sim.settle();
        match sim.running.iter().position(|&x| x == t) {
            Some(i) => {
                sim.running.remove(i);
                sim.done[t] = true;
            }
            None => return false,
        }
    }
    true
}

// -------------------------------------------------------------------------------------------

fn run(c: &Case) -> Obs {
    match c.kind.as_str() {
        "w" => run_w(c),
        "wst" => run_wst(c),
        "wapi" | "wbr" => run_wapi(c),
        "r" => run_r(c),
        "rs" => run_rs(c),
        "rh" | "rhv" | "rhe" => run_rh(c),
        "rhst" | "rhstv" | "rhste" => run_rhst(c),
        "rfd" => run_rfd(c),
        "rce" => run_rce(c),
        "wcfg" => run_wcfg(c),
        "rcfg" => run_rcfg(c),
        k => Obs::fail("-", "harness-unknown-kind", k),
    }
}

fn case_pool(c: &Case) -> u64 {
    match c.kind.as_str() {
        "w" | "wapi" | "wbr" | "r" | "rs" | "rh" | "rhv" | "rhe" | "rfd" | "rce" | "wcfg" | "rcfg" => c.u(0),
        _ => 4,
    }
}

/// `run` in the parent: one child process per pool size (the rayon global pool is sized once per process)
fn parent_run(cases_path: &str, out_path: &str) {
    let cases = nv::read_cases(cases_path);
    let mut pools: Vec<u64> = cases.iter().map(case_pool).collect();
    pools.sort_unstable();
    pools.dedup();
    let exe = std::env::current_exe().expect("current_exe");
    let mut results: std::collections::HashMap<String, String> = Default::default();
    // a few children at a time: the schedules are forced by the gate, not by timing, but the
    // watchdogs are wall-clock
    for group in pools.chunks(4) {
        let mut kids = vec![];
        for &p in group {
            let cf = format!("{out_path}.p{p}.cases");
            let of = format!("{out_path}.p{p}.out");
            let mut f = io::BufWriter::new(std::fs::File::create(&cf).expect("create"));
            for c in cases.iter().filter(|c| case_pool(c) == p) {
                writeln!(f, "{}", c.line()).unwrap();
            }
            drop(f);
            let child = std::process::Command::new(&exe)
                .args(["run", &cf, &of])
                .env("C03_POOL", p.to_string())
                .spawn()
                .expect("spawn child");
            kids.push((child, cf, of));
        }
        for (mut child, cf, of) in kids {
            let st = child.wait().expect("wait");
            if let Ok(f) = std::fs::File::open(&of) {
                for l in io::BufReader::new(f).lines().map_while(Result::ok) {
                    if let Some((id, _)) = l.split_once('\t') {
                        results.insert(id.to_string(), l.clone());
                    }
                }
            }
            if !st.success() {
                eprintln!("c03: child for {cf} exited with {st}");
            }
            let _ = std::fs::remove_file(&cf);
            let _ = std::fs::remove_file(&of);
        }
    }
    let mut w = io::BufWriter::new(std::fs::File::create(out_path).expect("create out"));
    for c in &cases {
        match results.get(&c.id) {
            Some(l) => writeln!(w, "{l}").unwrap(),
            None => writeln!(w, "{}\t-\tfail harness-child-died pool={}\t1", c.id, case_pool(c)).unwrap(),
        }
    }
}

fn main() {
    let args: Vec<String> = std::env::args().collect();
    if args.get(1).map(|s| s.as_str()) == Some("run") {
        match std::env::var("C03_POOL") {
            Ok(p) => {
                let p: usize = p.parse().expect("C03_POOL");
                rayon::ThreadPoolBuilder::new().num_threads(p).build_global().expect("global pool");
            }
            Err(_) => {
                parent_run(&args[2], &args[3]);
                return;
            }
        }
    }
    nv::main_serial(generate, run);
}
