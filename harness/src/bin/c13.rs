//! C13: a truncated file yields a prefix of the original records, then EOF or an error.
//!
//! Modelled kinds (obs compared with the extracted Coq model, one token per cut, space separated):
//!   bamraw hex cuts           uncompressed BAM record stream (no header) read by bam::io::Reader::from
//!                             -> "<n>:<stop>" per cut   (n records returned, then Eof | Err:<Kind>)
//!   bcfraw hex cuts           uncompressed BCF record stream read by bcf::io::Reader::from
//!   bgzf   hex cuts           BGZF file read through BufRead -> "<l1>+<l2>..:<stop>" (chunk lengths)
//!   bamz   hex hdr table cuts BGZF-compressed BAM: record reader on top of the BGZF reader;
//!                             hdr = uncompressed offset of the first record; table = per block
//!                             "<frame length>:<data hex>" (inflate as a table) -> "H" | "<n>:<stop>"
//!   bcfeager hex cuts hdr     the same BCF record stream behind its header `hdr`, read by record_bufs
//!                             (the eager reader, io/reader/record_buf.rs); cuts are relative to the stream
//!   bcfz   hex hdr table cuts BGZF-compressed BCF read by bcf::io::Reader::new + record_bufs
//!   bai    hex cuts           BAI index -> "Err" | "Ok:<canonical index>"
//!   cramc  hex hdrtab cuts    CRAM file read at the container level (read_header, then read_container
//!                             until it returns 0); hdrtab = one digit per number j of header-container
//!                             body bytes present (0 accepted, 1 UnexpectedEof, 2 InvalidData: what the
//!                             real header-body decoder says) -> "<H|h>:<len/nrec/nlandmarks+..|_>:<stop>"
//!   gzi    hex cuts           gzi index (also with bytes behind it) -> "Err:<ErrorKind>" | "Ok:<c>-<u>,.."
//!   textz  fmt hex hdr table rejected cuts   bgzipped VCF / SAM text (fmt = vcf | sam) read through
//!                             record_bufs; hdr = length of the header text; rejected = the partial lines
//!                             the real record parser refuses, "<line hex>:<1|2>;.." (1 UnexpectedEof, 2
//!                             InvalidData); cuts start where the whole header is delivered -> "H" | "<n>:<stop>"
//!   csi | tbi | fai | crai  hex cuts     the UNCOMPRESSED payload of a CSI / tabix index, the text of a
//!                             fai, the text inside a crai's gzip member: the first k bytes, wrapped
//!                             in an intact container (BGZF / none / gzip), read by the real reader
//!                             -> "Err" | "Ok:<canonical index>" (format in shared/c13_index.rs)
//!   csiz | tbiz  hex table cuts          a CSI / tabix FILE (BGZF, the written file or the payload
//!                             recompressed with block breaks anywhere), cut as a file -> the same
//!   bamhf raw cuts hdr | bcfhf raw linetab nlines cuts hdr      raw BAM / BCF stream INCLUDING its header
//!   bamhz file table cuts hdr | bcfhz file table linetab nlines cuts hdr   the same, BGZF-compressed
//!                             -> "E:Err:<kind>" (read_header fails) | "<header text hex|H|=>:<n>:<stop>";
//!                             linetab = header lines / line prefixes the real VCF header parser refuses
//!   samth text rejected cuts hdr | vcfth text linetab nlines rejected cuts hdr   plain SAM / VCF text incl.
//!   samthz file table rejected cuts hdr | vcfthz file table linetab nlines rejected cuts hdr   its header
//!                             -> "E:Err:<kind>" | "<checksum of the header text|H>:<n>:<stop>"
//!   cramb  prefix header body landmarks cuts   one CRAM data container, its body cut to j bytes (header
//!                             rewritten with length j + fresh CRC32), read by compression_header / slices /
//!                             decode_blocks -> "<ok|Err:k>/<external block counts|_>/<Eof|Err:k>"
//!   craigz file               a .crai FILE (one gzip member: written by crai::io::Writer, or hand-assembled
//!                             around a crai text with FEXTRA / FNAME / FCOMMENT / FHCRC fields, stored / fixed /
//!                             dynamic DEFLATE blocks, optionally bytes behind the member), read by
//!                             crai::io::Reader at EVERY cut -> "X<1|0>" (flate2 consumes the whole file: it is
//!                             exactly one member) then per cut "E:<ErrorKind>" | "Ok:<canonical index>"
//! `cuts` is `all` (every offset 0..=len) or a comma list.  These kinds also carry the L3 verdict.
//!
//! Implementation-only oracle:
//!   atwin fmt seed p q        the ASYNC twin of the reader of fmt (bgzf bam bcf cram cramc vcfgz samgz vcf sam
//!                             fastq fasta csi tabix bai gzi fai crai) against the blocking reader at every cut:
//!                             no panic / hang, the same header, items and outcome kind as the blocking reader
//!   hdrcut fmt seed n         raw (uncompressed) BAM / BCF stream with n records, cut at every offset
//!                             up to the end of its header: the header read must fail below the
//!                             header's end
//!   file fmt seed p q         build a file of format fmt from the seed with noodles' writers, cut it
//!                             (every offset when <= 4 KiB; block/container boundaries +-2, +17..19 and
//!                             random offsets otherwise), read every prefix with the normal reader.
//!                             fmt: bgzf bam bcf cram vcfgz samgz bai csi tabix gzi fai crai

use std::{
    io::{BufRead, Read},
    panic::AssertUnwindSafe,
    sync::{Arc, mpsc},
    thread,
    time::Duration,
};

use noodles_bam as bam;
use noodles_bcf as bcf;
use noodles_bgzf as bgzf;
use noodles_cram as cram;
use noodles_csi::{self as csi, BinningIndex, binning_index::ReferenceSequence as _};
use noodles_fasta as fasta;
use noodles_sam as sam;
use noodles_tabix as tabix;
use noodles_vcf as vcf;
use nv::{Case, CaseWriter, Obs, Outcome, Rng, hex};

#[path = "../shared/c13_files.rs"]
mod files;
#[path = "../shared/c13_index.rs"]
mod index;

const WATCHDOG: Duration = Duration::from_secs(20);

// ---------------------------------------------------------------------------------------------
// outcomes

#[derive(Clone, Debug, PartialEq)]
enum Stop {
    Eof,
    Err(String),
    Panic(String),
    /// the reader kept returning data far beyond everything the file can hold (it never
    /// reports the end of input)
    Runaway,
}

impl Stop {
    fn text(&self) -> String {
        match self {
            Stop::Eof => "Eof".into(),
            Stop::Err(k) => format!("Err:{k}"),
            Stop::Panic(_) => "Panic".into(),
            Stop::Runaway => "Runaway".into(),
        }
    }
    fn is_err(&self) -> bool {
        matches!(self, Stop::Err(_))
    }
}

#[derive(Clone, Debug)]
struct ReadOut {
    /// the header (if the format has one) could be read
    hdr: bool,
    items: Vec<String>,
    stop: Stop,
}

/// marker of an item whose field accessors fail (the Debug rendering of a lazy record walks every
/// accessor; `format!` would turn an accessor error into a panic of the harness itself)
const UNRENDERABLE: &str = "\u{1}unrenderable:";

/// canonical text of a returned item, through its accessors, never panicking: an accessor error or
/// a panic inside an accessor gives an UNRENDERABLE item.  Whether that matters is decided by the
/// oracle: on a record noodles itself wrote it is a finding (`<fmt>-written-record-accessor-error`),
/// on a hand-made malformed stream the content of items is not judged at all.
fn render<T: std::fmt::Debug>(x: &T) -> String {
    use std::fmt::Write as _;
    let mut s = String::new();
    match nv::guarded(AssertUnwindSafe(|| write!(s, "{x:?}"))) {
        Outcome::Done(Ok(())) => s,
        Outcome::Done(Err(_)) => format!("{UNRENDERABLE}accessor error"),
        Outcome::Panicked(m) => format!("{UNRENDERABLE}accessor panic: {m}"),
    }
}

/// run `f`, which pushes the items it reads into the vector and returns how it stopped
fn collect(f: impl FnOnce(&mut bool, &mut Vec<String>) -> std::io::Result<()>) -> ReadOut {
    let mut hdr = false;
    let mut items = Vec::new();
    let r = nv::guarded(AssertUnwindSafe(|| f(&mut hdr, &mut items)));
    let stop = match r {
        Outcome::Done(Ok(())) => Stop::Eof,
        Outcome::Done(Err(e)) => Stop::Err(nv::errkind(&e)),
        Outcome::Panicked(m) => Stop::Panic(m),
    };
    ReadOut { hdr, items, stop }
}

/// apply `f` to every prefix `file[..k]`, k in cuts, on a worker thread; `None` = no answer
/// within the watchdog time (a hang), after which the sweep is abandoned
fn sweep<T: Send + 'static>(
    file: &Arc<Vec<u8>>,
    cuts: &[usize],
    f: impl Fn(&[u8]) -> T + Send + 'static,
) -> Vec<(usize, Option<T>)> {
    let (tx, rx) = mpsc::channel();
    let file2 = Arc::clone(file);
    let cuts2 = cuts.to_vec();
    thread::spawn(move || {
        for k in cuts2 {
            let r = f(&file2[..k]);
            if tx.send(r).is_err() {
                break;
            }
        }
    });
    let mut out = Vec::with_capacity(cuts.len());
    for &k in cuts {
        match rx.recv_timeout(WATCHDOG) {
            Ok(r) => out.push((k, Some(r))),
            Err(_) => {
                out.push((k, None));
                break;
            }
        }
    }
    out
}

// ---------------------------------------------------------------------------------------------
// readers (the normal public readers, driven to the end)

fn read_bam_raw(bytes: &[u8]) -> ReadOut {
    collect(|hdr, items| {
        *hdr = true;
        let mut r = bam::io::Reader::from(bytes);
        let mut rec = bam::Record::default();
        loop {
            if r.read_record(&mut rec)? == 0 {
                return Ok(());
            }
            items.push(render(&rec));
        }
    })
}

fn read_bcf_raw(bytes: &[u8]) -> ReadOut {
    collect(|hdr, items| {
        *hdr = true;
        let mut r = bcf::io::Reader::from(bytes);
        let mut rec = bcf::Record::default();
        loop {
            if r.read_record(&mut rec)? == 0 {
                return Ok(());
            }
            items.push(render(&rec));
        }
    })
}

fn read_bam(bytes: &[u8]) -> ReadOut {
    collect(|hdr, items| {
        let mut r = bam::io::Reader::new(bytes);
        let h = r.read_header()?;
        *hdr = true;
        for rec in r.record_bufs(&h) {
            items.push(render(&rec?));
        }
        Ok(())
    })
}

/// the same file through the lazy-record API
fn read_bam_lazy(bytes: &[u8]) -> ReadOut {
    collect(|hdr, items| {
        let mut r = bam::io::Reader::new(bytes);
        let h = r.read_header()?;
        *hdr = true;
        for rec in r.records() {
            let rec = rec?;
            let buf = sam::alignment::RecordBuf::try_from_alignment_record(&h, &rec)?;
            items.push(render(&buf));
        }
        Ok(())
    })
}

fn read_bcf(bytes: &[u8]) -> ReadOut {
    collect(|hdr, items| {
        let mut r = bcf::io::Reader::new(bytes);
        let h = r.read_header()?;
        *hdr = true;
        for rec in r.record_bufs(&h) {
            items.push(render(&rec?));
        }
        Ok(())
    })
}

fn read_cram(bytes: &[u8]) -> ReadOut {
    collect(|hdr, items| {
        let mut r = cram::io::Reader::new(bytes);
        let h = r.read_header()?;
        *hdr = true;
        for rec in r.records(&h) {
            items.push(render(&rec?));
        }
        Ok(())
    })
}

fn read_vcfgz(bytes: &[u8]) -> ReadOut {
    collect(|hdr, items| {
        let mut r = vcf::io::Reader::new(bgzf::io::Reader::new(bytes));
        let h = r.read_header()?;
        *hdr = true;
        for rec in r.record_bufs(&h) {
            items.push(render(&rec?));
        }
        Ok(())
    })
}

fn read_samgz(bytes: &[u8]) -> ReadOut {
    collect(|hdr, items| {
        let mut r = sam::io::Reader::new(bgzf::io::Reader::new(bytes));
        let h = r.read_header()?;
        *hdr = true;
        for rec in r.record_bufs(&h) {
            items.push(render(&rec?));
        }
        Ok(())
    })
}

/// BGZF through BufRead: one item per non-empty chunk handed out by fill_buf
fn read_bgzf_chunks(bytes: &[u8]) -> (Vec<Vec<u8>>, Stop) {
    let mut chunks: Vec<Vec<u8>> = Vec::new();
    let r = nv::guarded(AssertUnwindSafe(|| -> std::io::Result<()> {
        let mut r = bgzf::io::Reader::new(bytes);
        loop {
            let buf = r.fill_buf()?;
            if buf.is_empty() {
                return Ok(());
            }
            let n = buf.len();
            chunks.push(buf.to_vec());
            r.consume(n);
        }
    }));
    let stop = match r {
        Outcome::Done(Ok(())) => Stop::Eof,
        Outcome::Done(Err(e)) => Stop::Err(nv::errkind(&e)),
        Outcome::Panicked(m) => Stop::Panic(m),
    };
    (chunks, stop)
}

/// BGZF through Read: `mode` 0 = read_to_end, 1 = read() into a 64 KiB + 1 buffer (the
/// decode-into-caller-buffer path), 2 = read_exact of 7 bytes at a time
fn read_bgzf_bytes(bytes: &[u8], mode: u8) -> (Vec<u8>, Stop) {
    let mut data: Vec<u8> = Vec::new();
    // far more than the generated files hold (their payload compresses about 3:1)
    let limit = bytes.len() * 20 + 300_000;
    let mut runaway = false;
    let r = nv::guarded(AssertUnwindSafe(|| -> std::io::Result<()> {
        let mut r = bgzf::io::Reader::new(bytes);
        match mode {
            0 => {
                (&mut r).take(limit as u64 + 1).read_to_end(&mut data)?;
                if data.len() > limit {
                    runaway = true;
                    data.truncate(300_000);
                }
                Ok(())
            }
            1 => {
                let mut buf = vec![0u8; 65537];
                loop {
                    let n = r.read(&mut buf)?;
                    if n == 0 {
                        return Ok(());
                    }
                    data.extend_from_slice(&buf[..n]);
                    if data.len() > limit {
                        runaway = true;
                        data.truncate(300_000);
                        return Ok(());
                    }
                }
            }
            _ => {
                let mut buf = [0u8; 7];
                loop {
                    // a clean end must be told apart from a short final piece: peek first
                    if r.fill_buf()?.is_empty() {
                        return Ok(());
                    }
                    r.read_exact(&mut buf)?;
                    data.extend_from_slice(&buf);
                }
            }
        }
    }));
    let stop = match r {
        Outcome::Done(Ok(())) if runaway => Stop::Runaway,
        Outcome::Done(Ok(())) => Stop::Eof,
        Outcome::Done(Err(e)) => Stop::Err(nv::errkind(&e)),
        Outcome::Panicked(m) => Stop::Panic(m),
    };
    (data, stop)
}

// ---------------------------------------------------------------------------------------------
// cut selection

fn parse_cuts(s: &str, len: usize) -> Vec<usize> {
    if s == "all" {
        (0..=len).collect()
    } else if s == "_" {
        vec![]
    } else {
        s.split(',').map(|x| x.parse().unwrap()).collect()
    }
}

fn fmt_cuts(c: &[usize]) -> String {
    c.iter().map(|x| x.to_string()).collect::<Vec<_>>().join(",")
}

/// every offset when the file is small; otherwise the structural boundaries +-2, the offsets
/// 17..19 into each unit (end of a BGZF block header) and `nrand` random offsets
fn choose_cuts(rng: &mut Rng, len: usize, bounds: &[usize], nrand: usize) -> Vec<usize> {
    if len <= 4096 {
        return (0..=len).collect();
    }
    let mut v: Vec<usize> = vec![0, 1, 2, 3, 4, len];
    for &b in bounds {
        for d in [-2i64, -1, 0, 1, 2, 3, 4, 5, 8, 12, 17, 18, 19, 25, 26, 27] {
            let x = b as i64 + d;
            if x >= 0 && x as usize <= len {
                v.push(x as usize);
            }
        }
    }
    for _ in 0..nrand {
        v.push(rng.below(len as u64 + 1) as usize);
    }
    v.sort_unstable();
    v.dedup();
    v
}

// ---------------------------------------------------------------------------------------------
// the record-stream oracle

struct RecordSpec<'a> {
    fmt: &'a str,
    /// items of the intact file
    orig: &'a [String],
    /// for text formats: would a clean end of the *decompressed* stream at this cut fall strictly
    /// inside a line? (then a reader that accepts a final line without newline returns a
    /// truncated last record)
    text: bool,
}

type Fail = (String, String);

/// prefix / no fabrication / no panic, common to all record formats
fn check_prefix(spec: &RecordSpec, k: usize, out: &ReadOut) -> Result<(), Fail> {
    let fmt = spec.fmt;
    if let Stop::Panic(m) = &out.stop {
        return Err((format!("panic-{fmt}"), format!("cut {k}: {m}")));
    }
    // (check_prefix is only applied to files noodles' own writers produced)
    if let Some(i) = spec.orig.iter().position(|it| it.starts_with(UNRENDERABLE)) {
        return Err((format!("{fmt}-written-record-accessor-error"), format!("intact file: item {i}: {}", &spec.orig[i][UNRENDERABLE.len()..])));
    }
    if let Some(i) = out.items.iter().position(|it| it.starts_with(UNRENDERABLE)) {
        return Err((format!("{fmt}-written-record-accessor-error"), format!("cut {k}: item {i}: {}", &out.items[i][UNRENDERABLE.len()..])));
    }
    if out.items.len() > spec.orig.len() {
        let tag = if spec.text && out.items.len() == spec.orig.len() + 1 {
            format!("text-truncated-final-line-accepted-{fmt}")
        } else {
            format!("{fmt}-truncation-fabricated-record")
        };
        return Err((tag, format!("cut {k}: {} items returned, {} written", out.items.len(), spec.orig.len())));
    }
    for (i, it) in out.items.iter().enumerate() {
        if *it != spec.orig[i] {
            // class: a text reader handed a stream that ends inside a line parses the truncated
            // line as the last record
            let last = i + 1 == out.items.len();
            let tag = if spec.text && last && out.stop == Stop::Eof {
                format!("text-truncated-final-line-accepted-{fmt}")
            } else {
                format!("{fmt}-truncation-altered-record")
            };
            return Err((tag, format!("cut {k}: item {i} differs from the written one")));
        }
    }
    if !out.hdr && !out.stop.is_err() {
        return Err((format!("{fmt}-truncated-header-clean-eof"), format!("cut {k}: header not read but no error")));
    }
    Ok(())
}

fn first_fail(fails: Vec<Fail>) -> Result<(), Fail> {
    // One verdict per case: the first failing cut whose class is not one of the classes that
    // were recorded as findings of the pinned tree -- still known, or since repaired -- so that
    // such a class never hides a new one in the same file; else the first failing cut.  This
    // list only orders the report: whether a tag is tolerated is decided by bin/check from
    // known_findings.json (a repaired class that recurs is a new failure).  The detail lists
    // every class with its count.
    const RECORDED: [&str; 6] = [
        "bgzf-large-read-never-ends-without-eof-marker",
        "bcf-recordbuf-cut-inside-l-shared-clean-eof",
        "cram-truncated-eof-container-body-clean-eof",
        "text-truncated-final-line-accepted-fai",
        "text-truncated-final-line-accepted-",
        "text-truncated-header-line-accepted-",
    ];
    if fails.is_empty() {
        return Ok(());
    }
    let mut counts: Vec<(String, usize)> = Vec::new();
    for (t, _) in &fails {
        match counts.iter_mut().find(|(x, _)| x == t) {
            Some(e) => e.1 += 1,
            None => counts.push((t.clone(), 1)),
        }
    }
    let summary: Vec<String> = counts.iter().map(|(t, n)| format!("{t} x{n}")).collect();
    let pick = fails
        .iter()
        .position(|(t, _)| !RECORDED.iter().any(|r| t.starts_with(r)))
        .unwrap_or(0);
    let (tag, detail) = fails.into_iter().nth(pick).unwrap();
    Err((tag, format!("{detail} [all failing cuts: {}]", summary.join(", "))))
}

fn hang(fmt: &str, k: usize) -> Fail {
    (format!("hang-{fmt}"), format!("cut {k}: no answer within {}s", WATCHDOG.as_secs()))
}

// ---------------------------------------------------------------------------------------------
// modelled kinds

/// uncompressed record streams: boundaries = record end offsets (relative to the stream)
fn run_raw(kind: &str, c: &Case) -> Obs {
    let stream = Arc::new(c.b(0));
    let cuts = parse_cuts(&c.args[1], stream.len());
    let reader: fn(&[u8]) -> ReadOut = if kind == "bamraw" { read_bam_raw } else { read_bcf_raw };
    let fmt = if kind == "bamraw" { "bam" } else { "bcf" };
    let intact = reader(&stream);
    // boundaries from the length prefixes of the intact stream
    let mut bounds = vec![0usize];
    {
        let s = &stream[..];
        let mut at = 0usize;
        while at + 4 <= s.len() {
            let a = u32::from_le_bytes(s[at..at + 4].try_into().unwrap()) as usize;
            let n = if kind == "bamraw" {
                4 + a
            } else if at + 8 <= s.len() {
                8 + a + u32::from_le_bytes(s[at + 4..at + 8].try_into().unwrap()) as usize
            } else {
                break;
            };
            if a == 0 || at + n > s.len() {
                break;
            }
            at += n;
            bounds.push(at);
        }
    }
    // hand-made (deliberately malformed) streams carry the literal `malformed` as third argument:
    // for them only the model comparison and "no panic / no hang" apply, item contents are n/a
    let handmade = c.args.get(2).map(|a| a == "malformed").unwrap_or(false);
    let wellformed = !handmade && intact.stop == Stop::Eof && intact.items.len() + 1 == bounds.len() && *bounds.last().unwrap() == stream.len();
    let res = sweep(&stream, &cuts, reader);
    let mut toks = Vec::new();
    let mut fails = Vec::new();
    let (mut some_items, mut some_err) = (false, false);
    let spec = RecordSpec { fmt, orig: &intact.items, text: false };
    for (k, r) in res {
        let Some(out) = r else {
            toks.push("Hang".to_string());
            fails.push(hang(fmt, k));
            break;
        };
        toks.push(format!("{}:{}", out.items.len(), out.stop.text()));
        if !wellformed {
            // malformed stream: only the model comparison and "no panic" apply
            if let Stop::Panic(m) = &out.stop {
                fails.push((format!("panic-{fmt}"), format!("cut {k}: {m}")));
            }
            continue;
        }
        some_items |= !out.items.is_empty();
        some_err |= out.stop.is_err();
        if let Err(f) = check_prefix(&spec, k, &out) {
            fails.push(f);
            continue;
        }
        // the sharper clause: a stream that ends inside a record is an error
        let whole = bounds.iter().filter(|&&b| b <= k && b > 0).count();
        if bounds.contains(&k) {
            if out.stop != Stop::Eof || out.items.len() != whole {
                fails.push((format!("{fmt}-cut-at-record-boundary-not-eof"), format!("cut {k}: {} items then {}", out.items.len(), out.stop.text())));
            }
        } else {
            if out.stop == Stop::Eof {
                fails.push((format!("{fmt}-truncated-mid-record-clean-eof"), format!("cut {k}: stream ends inside record {whole} but the reader reports a clean end")));
            } else if out.items.len() != whole {
                fails.push((format!("{fmt}-truncation-lost-record"), format!("cut {k}: {} of {whole} complete records returned", out.items.len())));
            }
        }
    }
    // the eager (RecordBuf) readers on the same stream behind its header: L3 only
    if wellformed && c.args.len() > 2 {
        let hdr = c.b(2);
        let mut full = hdr.clone();
        full.extend_from_slice(&stream);
        let full = Arc::new(full);
        let eager: fn(&[u8]) -> ReadOut = if kind == "bamraw" { read_bam_raw_eager } else { read_bcf_raw_eager };
        let cuts2: Vec<usize> = cuts.iter().map(|k| k + hdr.len()).collect();
        let orig = eager(&full);
        let spec = RecordSpec { fmt, orig: &orig.items, text: false };
        if !(orig.hdr && orig.stop == Stop::Eof && orig.items.len() + 1 == bounds.len()) {
            fails.push((format!("{fmt}-intact-file-unreadable"), format!("eager path: {} items then {}", orig.items.len(), orig.stop.text())));
        } else {
            for (k2, r) in sweep(&full, &cuts2, eager) {
                let k = k2 - hdr.len();
                let Some(out) = r else {
                    fails.push(hang(fmt, k));
                    break;
                };
                if let Err(f) = check_prefix(&spec, k, &out) {
                    fails.push(f);
                    continue;
                }
                let whole = bounds.iter().filter(|&&b| b <= k && b > 0).count();
                let last = *bounds.iter().filter(|&&b| b <= k).max().unwrap();
                if !bounds.contains(&k) && out.stop == Stop::Eof {
                    fails.push((mid_record_tag(fmt, "recordbuf", k - last), format!("cut {k} (eager reader): stream ends {} bytes into record {whole} but the reader reports a clean end", k - last)));
                } else if out.items.len() != whole {
                    fails.push((format!("{fmt}-truncation-lost-record"), format!("cut {k} (eager reader): {} of {whole} complete records returned", out.items.len())));
                }
            }
        }
    }
    Obs { obs: toks.join(" "), verdict: "ok".into(), nontrivial: wellformed && some_items && some_err }.with_verdict(first_fail(fails))
}

/// tag of "the stream ends `into` bytes inside a record and the reader reports a clean end":
/// the BCF RecordBuf reader (io/reader/record_buf.rs) maps UnexpectedEof on the l_shared field to
/// end of input, so 1..3 bytes of a next record are silently dropped -- a class of its own
fn mid_record_tag(fmt: &str, path: &str, into: usize) -> String {
    if fmt == "bcf" && path == "recordbuf" && (1..=3).contains(&into) {
        "bcf-recordbuf-cut-inside-l-shared-clean-eof".to_string()
    } else {
        format!("{fmt}-truncated-mid-record-clean-eof")
    }
}

fn read_bam_raw_eager(bytes: &[u8]) -> ReadOut {
    collect(|hdr, items| {
        let mut r = bam::io::Reader::from(bytes);
        let h = r.read_header()?;
        *hdr = true;
        for rec in r.record_bufs(&h) {
            items.push(render(&rec?));
        }
        Ok(())
    })
}

fn read_bcf_raw_eager(bytes: &[u8]) -> ReadOut {
    collect(|hdr, items| {
        let mut r = bcf::io::Reader::from(bytes);
        let h = r.read_header()?;
        *hdr = true;
        for rec in r.record_bufs(&h) {
            items.push(render(&rec?));
        }
        Ok(())
    })
}

fn read_bcf_lazy(bytes: &[u8]) -> ReadOut {
    collect(|hdr, items| {
        let mut r = bcf::io::Reader::new(bytes);
        let h = r.read_header()?;
        *hdr = true;
        for rec in r.records() {
            let rec = rec?;
            let buf = vcf::variant::RecordBuf::try_from_variant_record(&h, &rec)?;
            items.push(render(&buf));
        }
        Ok(())
    })
}

fn run_bgzf(c: &Case) -> Obs {
    let file = Arc::new(c.b(0));
    let cuts = parse_cuts(&c.args[1], file.len());
    let (orig, ostop) = bgzf_stream(&file);
    let bounds = files::bgzf_boundaries(&file);
    let wellformed = ostop == Stop::Eof && *bounds.last().unwrap() == file.len();
    let res = sweep(&file, &cuts, |p| {
        let (chunks, s) = read_bgzf_chunks(p);
        let others: Vec<(Vec<u8>, Stop)> = (0..3).map(|m| read_bgzf_bytes(p, m)).collect();
        (chunks, s, others)
    });
    let mut toks = Vec::new();
    let mut fails = Vec::new();
    let (mut some_items, mut some_err) = (false, false);
    let mut via_read_to_end = 0usize;
    for (k, r) in res {
        let Some((chunks, stop, others)) = r else {
            toks.push("Hang".to_string());
            fails.push(hang("bgzf", k));
            break;
        };
        let lens: Vec<String> = chunks.iter().map(|c| c.len().to_string()).collect();
        toks.push(format!("{}:{}", if lens.is_empty() { "_".to_string() } else { lens.join("+") }, stop.text()));
        let data: Vec<u8> = chunks.concat();
        let mut all = vec![("bufread", data, stop.clone())];
        for (i, (d, s)) in others.into_iter().enumerate() {
            all.push((["read_to_end", "read64k", "read_exact7"][i], d, s));
        }
        // class of the cut: the prefix consists of whole blocks plus at most 17 bytes of the next
        // header (so the block layer reports a clean end), the last whole block holds data, and
        // there is no EOF marker block behind it
        let last_b = bounds.iter().rposition(|&b| b <= k).unwrap_or(0);
        let ends_after_data_block = wellformed
            && last_b >= 1
            && k - bounds[last_b] < 18
            && u32::from_le_bytes(file[bounds[last_b] - 4..bounds[last_b]].try_into().unwrap()) > 0;
        for (api, d, s) in &all {
            if let Stop::Panic(m) = s {
                fails.push(("panic-bgzf".to_string(), format!("cut {k} via {api}: {m}")));
            } else if wellformed && (*s == Stop::Runaway || !orig.starts_with(d)) {
                let tag = if ends_after_data_block && (*api == "read_to_end" || *api == "read64k") && d.starts_with(&all[0].1) {
                    // Read::read with a buffer of >= 64 KiB at the end of a stream whose last block
                    // is not empty returns that block's length again and again without touching the
                    // buffer: the end of input is never reported and the caller sees made-up bytes
                    "bgzf-large-read-never-ends-without-eof-marker"
                } else {
                    "bgzf-truncation-altered-data"
                };
                fails.push((format!("{tag}"), format!("cut {k} via {api}: {} bytes returned then {} ; original stream has {} bytes", if *s == Stop::Runaway { "over a million".to_string() } else { d.len().to_string() }, s.text(), orig.len())));
                if *api == "read_to_end" { via_read_to_end += 1; }
            }
        }
        if wellformed {
            // all access paths agree on how the stream ends; read_exact7 may stop up to 6 bytes short
            let (d0, s0) = (&all[0].1, &all[0].2);
            for (api, d, s) in &all[1..3] {
                if *s != Stop::Runaway && orig.starts_with(d) && (d != d0 || s != s0) {
                    fails.push(("bgzf-truncation-api-disagreement".to_string(), format!("cut {k}: bufread gives {} bytes then {}, {api} gives {} bytes then {}", d0.len(), s0.text(), d.len(), s.text())));
                }
            }
            some_items |= !d0.is_empty();
            some_err |= s0.is_err();
        }
    }
    Obs { obs: toks.join(" "), verdict: "ok".into(), nontrivial: wellformed && some_items && some_err }.with_verdict(first_fail(fails).map_err(|(t, d)| (t, format!("{d} [cuts failing through read_to_end: {via_read_to_end}]"))))
}

/// decompressed stream of a BGZF prefix as the BGZF reader delivers it
fn bgzf_stream(p: &[u8]) -> (Vec<u8>, Stop) {
    let (chunks, s) = read_bgzf_chunks(p);
    (chunks.concat(), s)
}

/// BAM/BCF over BGZF: prefix property + the sharper clause evaluated on the stream the record
/// reader receives (the decompressed bytes the BGZF layer delivers before it reports its end)
fn check_compressed_records(
    fmt: &str,
    file: &Arc<Vec<u8>>,
    cuts: &[usize],
    hdr_len: usize,
    rec_ends: &[usize],
    reader: fn(&[u8]) -> ReadOut,
    path: &str,
    toks: &mut Vec<String>,
) -> (Vec<Fail>, bool) {
    let path = path.to_string();
    let intact = reader(file);
    let mut fails = Vec::new();
    if !(intact.hdr && intact.stop == Stop::Eof && intact.items.len() == rec_ends.len()) {
        fails.push((format!("{fmt}-intact-file-unreadable"), format!("{} items then {}", intact.items.len(), intact.stop.text())));
        return (fails, false);
    }
    let spec = RecordSpec { fmt, orig: &intact.items, text: false };
    let res = sweep(file, cuts, move |p| (reader(p), bgzf_stream(p)));
    let (mut some_items, mut some_err) = (false, false);
    for (k, r) in res {
        let Some((out, (stream, bstop))) = r else {
            toks.push("Hang".to_string());
            fails.push(hang(fmt, k));
            break;
        };
        toks.push(if out.hdr { format!("{}:{}", out.items.len(), out.stop.text()) } else { "H".to_string() });
        some_items |= !out.items.is_empty();
        some_err |= out.stop.is_err();
        if let Err(f) = check_prefix(&spec, k, &out) {
            fails.push(f);
            continue;
        }
        let n = stream.len();
        let whole = rec_ends.iter().filter(|&&e| e <= n).count();
        let at_boundary = n == hdr_len || rec_ends.contains(&n);
        if out.hdr && out.items.len() != whole && !matches!(out.stop, Stop::Err(_)) {
            fails.push((format!("{fmt}-truncation-lost-record"), format!("cut {k}: {} of {whole} complete records returned, then {}", out.items.len(), out.stop.text())));
        }
        // (a stream that ends inside the *header* while the header reader still succeeds -- the BCF
        // header text is read through io::Take, so a missing NUL terminator is tolerated -- and
        // that then yields no record and a clean end satisfies the statement: a prefix of the
        // records, then end of input; the sharper clause is about a stream ending inside a record)
        if out.hdr && bstop == Stop::Eof && !at_boundary && out.stop == Stop::Eof && (n >= hdr_len || !out.items.is_empty()) {
            let last = rec_ends.iter().copied().filter(|&e| e <= n).max().unwrap_or(hdr_len);
            let tag = if n < hdr_len { format!("{fmt}-truncated-header-clean-eof") } else { mid_record_tag(fmt, &path, n - last) };
            fails.push((tag, format!("cut {k} ({path} reader): the decompressed stream ends at {n}, {} bytes into a record, but the reader reports a clean end after {} records", n - last.min(n), out.items.len())));
        }
        if out.hdr && bstop == Stop::Eof && at_boundary && (out.stop != Stop::Eof || out.items.len() != whole) {
            fails.push((format!("{fmt}-cut-at-record-boundary-not-eof"), format!("cut {k}: {} items then {}", out.items.len(), out.stop.text())));
        }
        // (a BGZF-layer error that surfaces exactly at a record boundary and is turned into a clean
        // end by the record reader is "end of input" in the words of the property: not checked)
    }
    (fails, some_items && some_err)
}

fn run_bamz(c: &Case) -> Obs {
    let bcf = c.kind == "bcfz";
    let file = Arc::new(c.b(0));
    let hdr = c.u(1) as usize;
    let cuts = parse_cuts(&c.args[3], file.len());
    // record ends from the decompressed intact stream
    let (stream, _) = bgzf_stream(&file);
    let mut ends = Vec::new();
    let mut at = hdr;
    while at + if bcf { 8 } else { 4 } <= stream.len() {
        let a = u32::from_le_bytes(stream[at..at + 4].try_into().unwrap()) as usize;
        at += if bcf { 8 + a + u32::from_le_bytes(stream[at + 4..at + 8].try_into().unwrap()) as usize } else { 4 + a };
        ends.push(at);
    }
    let mut toks = Vec::new();
    let (fails, nt) = if bcf {
        check_compressed_records("bcf", &file, &cuts, hdr, &ends, read_bcf, "recordbuf", &mut toks)
    } else {
        check_compressed_records("bam", &file, &cuts, hdr, &ends, read_bam, "recordbuf", &mut toks)
    };
    Obs { obs: toks.join(" "), verdict: "ok".into(), nontrivial: nt }.with_verdict(first_fail(fails))
}

fn canon_bai(ix: &bam::bai::Index) -> String {
    let mut s = String::new();
    for (i, r) in ix.reference_sequences().iter().enumerate() {
        if i > 0 {
            s.push('/');
        }
        let bins: Vec<String> = r
            .bins()
            .iter()
            .map(|(id, b)| {
                let cs: Vec<String> = b.chunks().iter().map(|c| format!("{}-{}", u64::from(c.start()), u64::from(c.end()))).collect();
                format!("{id}={}", cs.join(","))
            })
            .collect();
        s.push_str(&bins.join(";"));
        match r.metadata() {
            Some(m) => s.push_str(&format!(
                "|m={},{},{},{}",
                u64::from(m.start_position()),
                u64::from(m.end_position()),
                m.mapped_record_count(),
                m.unmapped_record_count()
            )),
            None => s.push_str("|m=-"),
        }
        let iv: Vec<String> = r.index().iter().map(|v| u64::from(*v).to_string()).collect();
        s.push_str(&format!("|iv={}", iv.join(",")));
    }
    match ix.unplaced_unmapped_record_count() {
        Some(n) => s.push_str(&format!("#{n}")),
        None => s.push_str("#-"),
    }
    format!("{}:{s}", ix.reference_sequences().len())
}

/// binning indexes: Ok(index) is allowed only when it equals the written index, or the written
/// index without its optional trailing count
fn check_index_cut(fmt: &str, k: usize, got: &Result<(String, Option<u64>), Stop>, orig: &(String, Option<u64>), full: bool) -> Result<(), Fail> {
    match got {
        Err(Stop::Panic(m)) => Err((format!("panic-{fmt}"), format!("cut {k}: {m}"))),
        Err(_) => {
            if full {
                Err((format!("{fmt}-intact-file-unreadable"), format!("cut {k}")))
            } else {
                Ok(())
            }
        }
        Ok((body, n)) => {
            if *body != orig.0 {
                Err(("index-truncation-accepted".to_string(), format!("{fmt} cut {k}: a different index is returned without error")))
            } else if *n != orig.1 && n.is_some() {
                Err(("index-truncation-altered-count".to_string(), format!("{fmt} cut {k}: unplaced count {n:?}, written {:?}", orig.1)))
            } else {
                Ok(())
            }
        }
    }
}

fn read_bai(p: &[u8]) -> Result<bam::bai::Index, Stop> {
    match nv::guarded(|| bam::bai::io::Reader::new(p).read_index()) {
        Outcome::Done(Ok(i)) => Ok(i),
        Outcome::Done(Err(e)) => Err(Stop::Err(nv::errkind(&e))),
        Outcome::Panicked(m) => Err(Stop::Panic(m)),
    }
}

fn split_canon(s: String) -> (String, Option<u64>) {
    let (a, b) = s.rsplit_once('#').unwrap();
    (a.to_string(), b.parse().ok())
}

fn run_bai(c: &Case) -> Obs {
    run_bai_k(c, false)
}

/// `kinds`: the observation carries the io::ErrorKind of every refused cut (kind `baik`, compared
/// with NV.Trunc.ProgCut.read_bai_k = C12's read program p_bai run on the prefix)
fn run_bai_k(c: &Case, kinds: bool) -> Obs {
    let file = Arc::new(c.b(0));
    let cuts = parse_cuts(&c.args[1], file.len());
    let intact = read_bai(&file).map(|i| canon_bai(&i));
    let res = sweep(&file, &cuts, |p| read_bai(p).map(|i| canon_bai(&i)));
    let mut toks = Vec::new();
    let mut fails = Vec::new();
    let mut n_err = 0;
    for (k, r) in res {
        let Some(r) = r else {
            toks.push("Hang".to_string());
            fails.push(hang("bai", k));
            break;
        };
        toks.push(match &r {
            Ok(s) => format!("Ok:{s}"),
            Err(Stop::Panic(_)) => "Panic".to_string(),
            Err(s) if kinds => s.text(),
            Err(_) => "Err".to_string(),
        });
        n_err += r.is_err() as usize;
        if kinds && intact.is_ok() {
            // proved (bai_prefix_kind): a prefix of accepted bytes is refused with UnexpectedEof only
            if let Err(Stop::Err(kd)) = &r {
                if kd != "UnexpectedEof" {
                    fails.push(("bai-cut-error-kind-not-eof".to_string(), format!("cut {k}: {kd}")));
                }
            }
        }
        if let Ok(orig) = &intact {
            let orig = split_canon(orig.clone());
            if let Err(f) = check_index_cut("bai", k, &r.map(split_canon), &orig, k == file.len()) {
                fails.push(f);
            }
        } else if let Err(Stop::Panic(m)) = &r {
            fails.push(("panic-bai".to_string(), format!("cut {k}: {m}")));
        }
    }
    Obs { obs: toks.join(" "), verdict: "ok".into(), nontrivial: (intact.is_ok() || kinds) && n_err > 4 }.with_verdict(first_fail(fails))
}

// ---------------------------------------------------------------------------------------------
// CRAM at the container level

/// (header read, per container (length, record count, landmark count), stop)
fn read_cram_containers(p: &[u8]) -> (bool, Vec<(usize, usize, usize)>, Stop) {
    let mut hdr = false;
    let mut cs = Vec::new();
    let r = nv::guarded(AssertUnwindSafe(|| -> std::io::Result<()> {
        let mut r = cram::io::Reader::new(p);
        r.read_header()?;
        hdr = true;
        let mut c = cram::io::reader::Container::default();
        loop {
            let n = r.read_container(&mut c)?;
            if n == 0 {
                return Ok(());
            }
            cs.push((n, c.header().record_count(), c.header().landmarks().len()));
        }
    }));
    let stop = match r {
        Outcome::Done(Ok(())) => Stop::Eof,
        Outcome::Done(Err(e)) => Stop::Err(nv::errkind(&e)),
        Outcome::Panicked(m) => Stop::Panic(m),
    };
    (hdr, cs, stop)
}

/// length of the header container's header and the declared length of its body (walking the
/// ITF8/LTF8 fields by their first byte)
fn cram_header_container_layout(file: &[u8]) -> (usize, usize) {
    let at0 = 26;
    let len = i32::from_le_bytes(file[at0..at0 + 4].try_into().unwrap()) as usize;
    let mut at = at0 + 4;
    let itf8 = |b: u8| -> usize { if b < 0x80 { 1 } else if b < 0xc0 { 2 } else if b < 0xe0 { 3 } else if b < 0xf0 { 4 } else { 5 } };
    let ltf8 = |b: u8| -> usize { (b.leading_ones() as usize) + 1 };
    for i in 0..7 {
        at += if i == 4 || i == 5 { ltf8(file[at]) } else { itf8(file[at]) };
    }
    // landmark count (small) and the landmarks
    let n = file[at] as usize;
    assert!(n < 0x80);
    at += 1;
    for _ in 0..n {
        at += itf8(file[at]);
    }
    at += 4; // CRC32
    (at - at0, len)
}

/// what the real decoder of the header container's body reports when only j bytes of it exist
fn cram_hdr_body_table(file: &[u8]) -> String {
    let (hch, len) = cram_header_container_layout(file);
    (0..len)
        .map(|j| {
            let p = &file[26..26 + hch + j];
            match nv::guarded(|| cram::io::Reader::new(p).read_file_header().map(|_| ())) {
                Outcome::Done(Ok(())) => '0',
                Outcome::Done(Err(e)) if e.kind() == std::io::ErrorKind::UnexpectedEof => '1',
                Outcome::Done(Err(e)) if e.kind() == std::io::ErrorKind::InvalidData => '2',
                _ => '9',
            }
        })
        .collect()
}

fn run_cramc(c: &Case) -> Obs {
    let file = Arc::new(c.b(0));
    let cuts = parse_cuts(&c.args[2], file.len());
    let (ih, ics, istop) = read_cram_containers(&file);
    let intact_ok = ih && istop == Stop::Eof;
    // container start offsets of the intact file
    let bounds = cram_boundaries(&file);
    let res = sweep(&file, &cuts, |p| read_cram_containers(p));
    let mut toks = Vec::new();
    let mut fails = Vec::new();
    let (mut some_items, mut some_err) = (false, false);
    for (k, r) in res {
        let Some((h, cs, stop)) = r else {
            toks.push("Hang".to_string());
            fails.push(hang("cram", k));
            break;
        };
        let items: Vec<String> = cs.iter().map(|(l, n, m)| format!("{l}/{n}/{m}")).collect();
        toks.push(format!("{}:{}:{}", if h { "H" } else { "h" }, if items.is_empty() { "_".to_string() } else { items.join("+") }, stop.text()));
        if let Stop::Panic(m) = &stop {
            fails.push(("panic-cram".to_string(), format!("cut {k}: {m}")));
            continue;
        }
        if !intact_ok {
            continue;
        }
        some_items |= !cs.is_empty();
        some_err |= stop.is_err();
        if !(cs.len() <= ics.len() && cs[..] == ics[..cs.len()]) {
            fails.push(("cram-truncation-altered-container".to_string(), format!("cut {k}: the {} containers returned are not a prefix of the {} written", cs.len(), ics.len())));
        } else if k < file.len() && stop == Stop::Eof {
            let tag = if k + 15 >= file.len() && cs.len() == ics.len() { "cram-truncated-eof-container-body-clean-eof" } else { "cram-truncated-container-clean-eof" };
            fails.push((tag.to_string(), format!("cut {k} of {}: clean end after {} containers", file.len(), cs.len())));
        } else if k == file.len() && (stop != Stop::Eof || cs.len() != ics.len()) {
            fails.push(("cram-intact-file-unreadable".to_string(), format!("cut {k}")));
        } else if h {
            // exactly the containers lying wholly inside the cut (bounds: 0, 26, start of each
            // container behind the header container ..., end of the EOF container)
            let whole = bounds.iter().skip(3).filter(|&&b| b <= k).count().min(ics.len());
            if cs.len() != whole {
                fails.push(("cram-truncation-lost-container".to_string(), format!("cut {k}: {} of {whole} complete containers returned", cs.len())));
            }
        }
    }
    if !intact_ok {
        fails.push(("cram-intact-file-unreadable".to_string(), format!("{} containers then {}", ics.len(), istop.text())));
    }
    Obs { obs: toks.join(" "), verdict: "ok".into(), nontrivial: intact_ok && some_items && some_err }.with_verdict(first_fail(fails))
}

/// the eager BCF reader on header ++ stream[..k]: "<n>:<stop>" per cut (cuts relative to the stream)
fn run_bcf_eager(c: &Case) -> Obs {
    let stream = c.b(0);
    let cuts = parse_cuts(&c.args[1], stream.len());
    let hdr = c.b(2);
    let mut full = hdr.clone();
    full.extend_from_slice(&stream);
    let full = Arc::new(full);
    let cuts2: Vec<usize> = cuts.iter().map(|k| k + hdr.len()).collect();
    let intact = read_bcf_raw_eager(&full);
    let lazy_intact = read_bcf_raw(&stream);
    let wellformed = intact.hdr && intact.stop == Stop::Eof && lazy_intact.stop == Stop::Eof && intact.items.len() == lazy_intact.items.len();
    let mut toks = Vec::new();
    let mut fails = Vec::new();
    let (mut some_items, mut some_err) = (false, false);
    let h = hdr.len();
    for (k2, r) in sweep(&full, &cuts2, move |p| (read_bcf_raw_eager(p), read_bcf_raw(&p[h..]))) {
        let k = k2 - hdr.len();
        let Some((out, lazy)) = r else {
            toks.push("Hang".to_string());
            fails.push(hang("bcf", k));
            break;
        };
        toks.push(if out.hdr { format!("{}:{}", out.items.len(), out.stop.text()) } else { "H".to_string() });
        if let Stop::Panic(m) = &out.stop {
            fails.push(("panic-bcf".to_string(), format!("cut {k} (eager reader): {m}")));
            continue;
        }
        some_items |= !out.items.is_empty();
        some_err |= out.stop.is_err();
        // the two paths frame the stream in the same way
        if wellformed && (out.items.len() != lazy.items.len() || out.stop != lazy.stop) {
            fails.push(("bcf-eager-lazy-framing-disagreement".to_string(), format!("cut {k}: record_bufs gives {} records then {}, records gives {} then {}", out.items.len(), out.stop.text(), lazy.items.len(), lazy.stop.text())));
        }
    }
    if !wellformed {
        fails.push(("bcf-intact-file-unreadable".to_string(), format!("eager path: {} items then {}", intact.items.len(), intact.stop.text())));
    }
    Obs { obs: toks.join(" "), verdict: "ok".into(), nontrivial: wellformed && some_items && some_err }.with_verdict(first_fail(fails))
}

/// the partial lines (final line without line feed, as the text reader sees it when the BGZF layer
/// reports a clean end inside a line) that the real record parser refuses, over all cuts
fn text_rejected_table(fmt: &str, file: &[u8], text: &[u8], hdr: usize, cuts: &[usize]) -> String {
    let mut seen: Vec<Vec<u8>> = Vec::new();
    let mut parts = Vec::new();
    for &k in cuts {
        let (stream, stop) = bgzf_stream(&file[..k]);
        if stop != Stop::Eof || stream.len() <= hdr || stream.len() >= text.len() || *stream.last().unwrap() == b'\n' {
            continue;
        }
        let start = stream.iter().rposition(|&b| b == b'\n').map(|i| i + 1).unwrap_or(0).max(hdr);
        let partial = stream[start..].to_vec();
        if seen.contains(&partial) {
            continue;
        }
        seen.push(partial.clone());
        let mut plain = text[..hdr].to_vec();
        plain.extend_from_slice(&partial);
        let out = if fmt == "vcf" {
            collect(|hdr, items| {
                let mut r = vcf::io::Reader::new(&plain[..]);
                let h = r.read_header()?;
                *hdr = true;
                for rec in r.record_bufs(&h) {
                    items.push(render(&rec?));
                }
                Ok(())
            })
        } else {
            collect(|hdr, items| {
                let mut r = sam::io::Reader::new(&plain[..]);
                let h = r.read_header()?;
                *hdr = true;
                for rec in r.record_bufs(&h) {
                    items.push(render(&rec?));
                }
                Ok(())
            })
        };
        match out.stop {
            Stop::Err(ref kd) if kd == "UnexpectedEof" => parts.push(format!("{}:1", hex(&partial))),
            Stop::Err(_) => parts.push(format!("{}:2", hex(&partial))),
            _ => {}
        }
    }
    if parts.is_empty() { "_".to_string() } else { parts.join(";") }
}

fn run_textz(c: &Case) -> Obs {
    let fmt = if c.args[0] == "vcf" { "vcfgz" } else { "samgz" };
    let file = Arc::new(c.b(1));
    let cuts = parse_cuts(&c.args[5], file.len());
    let reader: fn(&[u8]) -> ReadOut = if fmt == "vcfgz" { read_vcfgz } else { read_samgz };
    let intact = reader(&file);
    let (full_stream, fstop) = bgzf_stream(&file);
    let wellformed = intact.hdr && intact.stop == Stop::Eof && fstop == Stop::Eof;
    let total_lines = full_stream.iter().filter(|&&b| b == b'\n').count();
    let hdr_lines = total_lines.saturating_sub(intact.items.len());
    let mut toks = Vec::new();
    let mut fails = Vec::new();
    let (mut some_items, mut some_err) = (false, false);
    for (k, r) in sweep(&file, &cuts, move |p| (reader(p), bgzf_stream(p))) {
        let Some((out, (stream, bstop))) = r else {
            toks.push("Hang".to_string());
            fails.push(hang(fmt, k));
            break;
        };
        toks.push(if out.hdr { format!("{}:{}", out.items.len(), out.stop.text()) } else { "H".to_string() });
        if !wellformed {
            continue;
        }
        some_items |= !out.items.is_empty();
        some_err |= out.stop.is_err();
        let mid_line = bstop == Stop::Eof && stream.len() < full_stream.len() && !stream.is_empty() && *stream.last().unwrap() != b'\n';
        let spec = RecordSpec { fmt, orig: &intact.items, text: mid_line };
        if let Err(f) = check_prefix(&spec, k, &out) {
            fails.push(f);
            continue;
        }
        if out.hdr && out.stop == Stop::Eof {
            let lines = stream.iter().filter(|&&b| b == b'\n').count();
            if lines >= hdr_lines && out.items.len() < lines - hdr_lines {
                fails.push((format!("{fmt}-truncation-lost-record"), format!("cut {k}: {} of {} complete lines returned", out.items.len(), lines - hdr_lines)));
            }
        }
    }
    if !wellformed {
        fails.push((format!("{fmt}-intact-file-unreadable"), format!("{} items then {}", intact.items.len(), intact.stop.text())));
    }
    Obs { obs: toks.join(" "), verdict: "ok".into(), nontrivial: wellformed && some_items && some_err }.with_verdict(first_fail(fails))
}

fn run_gzi(c: &Case) -> Obs {
    let file = Arc::new(c.b(0));
    let cuts = parse_cuts(&c.args[1], file.len());
    let rd = |p: &[u8]| -> Result<String, Stop> {
        match nv::guarded(|| bgzf::gzi::io::Reader::new(p).read_index()) {
            Outcome::Done(Ok(i)) => Ok(i.as_ref().iter().map(|(a, b)| format!("{a}-{b}")).collect::<Vec<_>>().join(",")),
            Outcome::Done(Err(e)) => Err(Stop::Err(nv::errkind(&e))),
            Outcome::Panicked(m) => Err(Stop::Panic(m)),
        }
    };
    let intact = rd(&file);
    let mut toks = Vec::new();
    let mut fails = Vec::new();
    let mut n_err = 0;
    for (k, r) in sweep(&file, &cuts, rd) {
        let Some(r) = r else {
            toks.push("Hang".to_string());
            fails.push(hang("gzi", k));
            break;
        };
        toks.push(match &r {
            Ok(s) => format!("Ok:{s}"),
            Err(Stop::Panic(_)) => "Panic".to_string(),
            Err(s) => s.text(),
        });
        n_err += r.is_err() as usize;
        match (&r, &intact) {
            (Err(Stop::Panic(m)), _) => fails.push(("panic-gzi".to_string(), format!("cut {k}: {m}"))),
            (Ok(_), Ok(_)) if k < file.len() => fails.push(("index-truncation-accepted".to_string(), format!("gzi cut {k} of {}: an index is returned without error", file.len()))),
            (Ok(a), Ok(b)) if a != b => fails.push(("index-truncation-accepted".to_string(), format!("gzi cut {k}: a different index is returned"))),
            (Err(_), Ok(_)) if k == file.len() => fails.push(("gzi-intact-file-unreadable".to_string(), format!("cut {k}"))),
            _ => {}
        }
    }
    Obs { obs: toks.join(" "), verdict: "ok".into(), nontrivial: intact.is_ok() && n_err > 0 }.with_verdict(first_fail(fails))
}

// ---------------------------------------------------------------------------------------------
// CSI / tabix / fai / crai: every cut of the payload, and of the BGZF file

fn split_items(s: &str) -> Vec<&str> {
    if s == "_" { vec![] } else { s.split(';').collect() }
}

/// the L3 oracle for one cut of an index: `orig` = canonical text of the intact index
fn check_idx_cut(kind: &str, k: usize, full: bool, mid_line: bool, got: &index::R, orig: &str) -> Result<(), Fail> {
    let s = match got {
        index::R::Panic(m) => return Err((format!("panic-{kind}"), format!("cut {k}: {m}"))),
        index::R::Err => {
            return if full { Err((format!("{kind}-intact-file-unreadable"), format!("cut {k}"))) } else { Ok(()) };
        }
        index::R::Ok(s) => s,
    };
    match kind {
        "csi" | "tbi" => {
            let (ob, oc) = orig.rsplit_once('~').unwrap();
            let (b, c) = s.rsplit_once('~').unwrap();
            if b != ob {
                // class: tabix, no reference sequence, the names returned are a proper prefix of
                // the written names and everything else is as written
                if kind == "tbi" {
                    let (oh, orefs) = ob.rsplit_once('~').unwrap();
                    let (h, refs) = b.rsplit_once('~').unwrap();
                    let of: Vec<&str> = oh.split(':').collect();
                    let f: Vec<&str> = h.split(':').collect();
                    if orefs == "_" && refs == "_" && of.len() == 7 && f.len() == 7 && of[..6] == f[..6] {
                        let on: Vec<&str> = if of[6] == "_" { vec![] } else { of[6].split(',').collect() };
                        let n: Vec<&str> = if f[6] == "_" { vec![] } else { f[6].split(',').collect() };
                        if n.len() < on.len() && on[..n.len()] == n[..] {
                            return Err(("tabix-truncated-names-accepted-no-refs".to_string(), format!("cut {k}: {} of {} names returned without error", n.len(), on.len())));
                        }
                    }
                }
                Err(("index-truncation-accepted".to_string(), format!("{kind} cut {k}: a different index is returned without error")))
            } else if c != oc && c != "-" {
                Err(("index-truncation-altered-count".to_string(), format!("{kind} cut {k}: unplaced count {c}, written {oc}")))
            } else {
                Ok(())
            }
        }
        _ => {
            let o = split_items(orig);
            let g = split_items(s);
            if g.len() <= o.len() && g[..] == o[..g.len()] {
                return Ok(());
            }
            // the last record differs from the written one in its last field only, and the input
            // ends inside a line
            let last_field_only = !g.is_empty()
                && g.len() <= o.len()
                && g[..g.len() - 1] == o[..g.len() - 1]
                && g[g.len() - 1].rsplit_once(':').map(|x| x.0) == o[g.len() - 1].rsplit_once(':').map(|x| x.0);
            if mid_line && last_field_only {
                if kind == "fai" {
                    Err(("text-truncated-final-line-accepted-fai".to_string(), format!("cut {k}: last record {}, written {}", g[g.len() - 1], o[g.len() - 1])))
                } else {
                    // crai: this is the text INSIDE the gzip member; a cut of the crai file itself is a
                    // gzip error (modelled kind `craigz`, theorem c13_crai_file_truncation; also the
                    // `file crai` oracle), so the payload-level acceptance is not reachable by
                    // truncating a written file
                    Ok(())
                }
            } else {
                Err(("index-truncation-accepted".to_string(), format!("{kind} cut {k}: the records returned are not a prefix of the written ones")))
            }
        }
    }
}

/// kinds csi tbi fai crai: every cut of the payload
fn run_idx(kind: &'static str, c: &Case) -> Obs {
    let payload = Arc::new(c.b(0));
    let cuts = parse_cuts(&c.args[1], payload.len());
    let orig = match index::read_payload(kind, &payload) {
        index::R::Ok(s) => Some(s),
        _ => None,
    };
    let mut toks = Vec::new();
    let mut fails = Vec::new();
    let mut n_err = 0;
    for (k, r) in sweep(&payload, &cuts, move |p| index::read_payload(kind, p)) {
        let Some(r) = r else {
            toks.push("Hang".to_string());
            fails.push(hang(kind, k));
            break;
        };
        toks.push(r.token());
        n_err += matches!(r, index::R::Err) as usize;
        match &orig {
            Some(o) => {
                let mid_line = k > 0 && k <= payload.len() && payload[k - 1] != b'\n';
                if let Err(f) = check_idx_cut(kind, k, k >= payload.len(), mid_line, &r, o) {
                    fails.push(f);
                }
            }
            None => {
                if let index::R::Panic(m) = &r {
                    fails.push((format!("panic-{kind}"), format!("cut {k}: {m}")));
                }
            }
        }
    }
    if orig.is_none() {
        fails.push((format!("{kind}-intact-file-unreadable"), String::new()));
    }
    Obs { obs: toks.join(" "), verdict: "ok".into(), nontrivial: orig.is_some() && n_err > 0 }.with_verdict(first_fail(fails))
}

/// kinds csiz tbiz: every cut of the BGZF file
fn run_idxz(kind: &'static str, c: &Case) -> Obs {
    let file = Arc::new(c.b(0));
    let cuts = parse_cuts(&c.args[2], file.len());
    let orig = match index::read_file(kind, &file) {
        index::R::Ok(s) => Some(s),
        _ => None,
    };
    let mut toks = Vec::new();
    let mut fails = Vec::new();
    let mut n_err = 0;
    for (k, r) in sweep(&file, &cuts, move |p| index::read_file(kind, p)) {
        let Some(r) = r else {
            toks.push("Hang".to_string());
            fails.push(hang(kind, k));
            break;
        };
        toks.push(r.token());
        n_err += matches!(r, index::R::Err) as usize;
        if let Some(o) = &orig {
            if let Err(f) = check_idx_cut(kind, k, k >= file.len(), false, &r, o) {
                fails.push(f);
            }
        } else if let index::R::Panic(m) = &r {
            fails.push((format!("panic-{kind}"), format!("cut {k}: {m}")));
        }
    }
    if orig.is_none() {
        fails.push((format!("{kind}-intact-file-unreadable"), String::new()));
    }
    Obs { obs: toks.join(" "), verdict: "ok".into(), nontrivial: orig.is_some() && n_err > 4 }.with_verdict(first_fail(fails))
}

// ---------------------------------------------------------------------------------------------
// implementation-only: cuts inside the header of an uncompressed BAM / BCF stream

/// (header or how reading it failed, records read behind it, how the record loop stopped)
fn read_raw_with_header(is_bam: bool, bytes: &[u8]) -> (Result<String, Stop>, usize, Stop) {
    let mut hdr: Result<String, Stop> = Err(Stop::Eof);
    let mut n = 0;
    let r = nv::guarded(AssertUnwindSafe(|| -> std::io::Result<()> {
        if is_bam {
            let mut r = bam::io::Reader::from(bytes);
            let h = r.read_header()?;
            // canonical text of a header = what the text writer prints for it (the Debug
            // rendering walks hash maps whose order differs between two instances)
            let mut t = Vec::new();
            sam::io::Writer::new(&mut t).write_header(&h)?;
            hdr = Ok(hex(&t));
            let mut rec = bam::Record::default();
            while r.read_record(&mut rec)? != 0 {
                n += 1;
            }
        } else {
            let mut r = bcf::io::Reader::from(bytes);
            let h = r.read_header()?;
            let mut t = Vec::new();
            vcf::io::Writer::new(&mut t).write_header(&h)?;
            hdr = Ok(hex(&t));
            let mut rec = bcf::Record::default();
            while r.read_record(&mut rec)? != 0 {
                n += 1;
            }
        }
        Ok(())
    }));
    let stop = match r {
        Outcome::Done(Ok(())) => Stop::Eof,
        Outcome::Done(Err(e)) => Stop::Err(nv::errkind(&e)),
        Outcome::Panicked(m) => Stop::Panic(m),
    };
    if hdr.is_err() {
        hdr = Err(stop.clone());
    }
    (hdr, n, stop)
}

/// kind hdrcut fmt seed n: every cut up to the end of the header of a raw BAM / BCF stream.  A
/// header read from a stream that ends inside the header must be an error (BAM: always was; BCF:
/// since repair b36f6c8 the header text reader demands all l_text bytes, NUL terminator
/// included); a header returned without error is the class `<fmt>-truncated-header-text-accepted`.
fn run_hdrcut(c: &Case) -> Obs {
    let is_bam = c.args[0] == "bam";
    let fmt = if is_bam { "bam" } else { "bcf" };
    let mut rng = Rng::new(c.u(1));
    let n = c.u(2);
    let (raw, hdr) = if is_bam {
        let t = files::sam_text(&mut rng, n, false, false);
        let (r, h, _) = files::bam_raw(&t);
        (r, h)
    } else {
        let t = files::vcf_text(&mut rng, n, false);
        let (r, h, _) = files::bcf_raw(&t);
        (r, h)
    };
    let file = Arc::new(raw);
    let cuts: Vec<usize> = if hdr <= 4096 { (0..=hdr).collect() } else { choose_cuts(&mut rng, hdr, &[9, hdr], 300) };
    let (intact, _, _) = read_raw_with_header(is_bam, &file[..hdr]);
    let Ok(intact) = intact else {
        return Obs::fail("-", &format!("{fmt}-intact-file-unreadable"), "header");
    };
    let mut fails = Vec::new();
    let (mut n_err, mut n_same) = (0, 0);
    for (k, r) in sweep(&file, &cuts, move |p| read_raw_with_header(is_bam, p)) {
        let Some((h, nrec, stop)) = r else {
            fails.push(hang(fmt, k));
            break;
        };
        match h {
            Err(Stop::Panic(m)) => fails.push((format!("panic-{fmt}"), format!("header cut {k}: {m}"))),
            Err(_) => {
                n_err += 1;
                if k == hdr {
                    fails.push((format!("{fmt}-intact-file-unreadable"), format!("header cut {k}")));
                }
            }
            Ok(h) => {
                if let Stop::Panic(m) = &stop {
                    fails.push((format!("panic-{fmt}"), format!("header cut {k}: {m}")));
                } else if k < hdr {
                    let what = if h != intact { "a different header" } else { "the written header" };
                    fails.push((format!("{fmt}-truncated-header-text-accepted"), format!("header cut {k} of {hdr}: {what} is returned without error, then {nrec} records and {}", stop.text())));
                } else if h != intact {
                    fails.push((format!("{fmt}-intact-file-unreadable"), format!("header cut {k}: a different header")));
                } else if nrec != 0 {
                    fails.push((format!("{fmt}-truncation-fabricated-record"), format!("header cut {k}: {nrec} records")));
                } else {
                    n_same += (k < hdr) as usize;
                }
            }
        }
    }
    let _ = n_same;
    Obs { obs: "-".into(), verdict: "ok".into(), nontrivial: n_err > 8 }.with_verdict(first_fail(fails))
}

// ---------------------------------------------------------------------------------------------
// modelled: whole BAM / BCF files INCLUDING their header, raw and BGZF-compressed

/// read_header + the lazy record loop on a raw stream (`Reader::from`) or a BGZF file
/// (`Reader::new`): (header as the text writer prints it | how reading it failed, records read,
/// how the whole read stopped)
fn read_with_header(is_bam: bool, raw: bool, bytes: &[u8]) -> (Result<String, Stop>, usize, Stop) {
    if raw {
        return read_raw_with_header(is_bam, bytes);
    }
    let mut hdr: Result<String, Stop> = Err(Stop::Eof);
    let mut n = 0;
    let r = nv::guarded(AssertUnwindSafe(|| -> std::io::Result<()> {
        if is_bam {
            let mut r = bam::io::Reader::new(bytes);
            let h = r.read_header()?;
            let mut t = Vec::new();
            sam::io::Writer::new(&mut t).write_header(&h)?;
            hdr = Ok(hex(&t));
            let mut rec = bam::Record::default();
            while r.read_record(&mut rec)? != 0 {
                n += 1;
            }
        } else {
            let mut r = bcf::io::Reader::new(bytes);
            let h = r.read_header()?;
            let mut t = Vec::new();
            vcf::io::Writer::new(&mut t).write_header(&h)?;
            hdr = Ok(hex(&t));
            let mut rec = bcf::Record::default();
            while r.read_record(&mut rec)? != 0 {
                n += 1;
            }
        }
        Ok(())
    }));
    let stop = match r {
        Outcome::Done(Ok(())) => Stop::Eof,
        Outcome::Done(Err(e)) => Stop::Err(nv::errkind(&e)),
        Outcome::Panicked(m) => Stop::Panic(m),
    };
    if hdr.is_err() {
        hdr = Err(stop.clone());
    }
    (hdr, n, stop)
}

/// the VCF header parser as a table for the model of the BCF header reader: "<i>:<line hex>" for
/// every line (every prefix of every line of the header text, the partial lines a truncated
/// stream can deliver) that the real parser - Parser::parse_partial followed by
/// StringMaps::insert_entry, as in bcf read_vcf_header - refuses after the i complete lines before
/// it; and the number of lines of the text
fn bcf_header_line_table(text: &[u8]) -> (String, usize) {
    header_line_table(text, true)
}

fn header_line_table(text: &[u8], string_maps: bool) -> (String, usize) {
    use vcf::header::{Parser, StringMaps};
    let lines: Vec<&[u8]> = text.split(|&b| b == b'\n').collect();
    let lines = &lines[..lines.len() - 1]; // the text ends with a line feed
    let mut parts = Vec::new();
    for i in 0..lines.len() {
        for j in 1..=lines[i].len() {
            let cand = &lines[i][..j];
            let refused = nv::guarded(AssertUnwindSafe(|| {
                let mut p = Parser::default();
                let mut sm = StringMaps::default();
                for l in &lines[..i] {
                    let e = p.parse_partial(l).expect("written header line");
                    if string_maps {
                        sm.insert_entry(&e).expect("written header line");
                    }
                }
                match p.parse_partial(cand) {
                    Ok(e) => string_maps && sm.insert_entry(&e).is_err(),
                    Err(_) => true,
                }
            }));
            if !matches!(refused, Outcome::Done(false)) {
                parts.push(format!("{i}:{}", hex(cand)));
            }
        }
    }
    (if parts.is_empty() { "_".to_string() } else { parts.join(";") }, lines.len())
}

/// kinds bamhf / bcfhf (raw stream) and bamhz / bcfhz (BGZF file): header + records, cut anywhere.
///   bamhf raw cuts hdr | bcfhf raw linetab nlines cuts hdr
///   bamhz file inflatetab cuts hdr | bcfhz file inflatetab linetab nlines cuts hdr
/// obs per cut: "E:Err:<kind>" when read_header fails, else "<header text hex | H | =>:<n>:<stop>".
/// Oracle: with n = number of bytes the record layer receives (the cut, or what the BGZF layer
/// delivers): the header read fails iff n < hdr; a header returned is the written one; exactly the
/// records wholly inside n are returned; a clean end only at a record boundary.
fn run_hfile(c: &Case) -> Obs {
    let is_bam = c.kind.starts_with("bam");
    let z = c.kind.ends_with('z');
    let fmt = if is_bam { "bam" } else { "bcf" };
    let file = Arc::new(c.b(0));
    let na = c.args.len();
    let hdr = c.u(na - 1) as usize;
    let cuts = parse_cuts(&c.args[na - 2], file.len());
    let stream = if z { bgzf_stream(&file).0 } else { file.to_vec() };
    let mut ends = Vec::new();
    let mut at = hdr;
    while at + if is_bam { 4 } else { 8 } <= stream.len() {
        let a = u32::from_le_bytes(stream[at..at + 4].try_into().unwrap()) as usize;
        at += if is_bam { 4 + a } else { 8 + a + u32::from_le_bytes(stream[at + 4..at + 8].try_into().unwrap()) as usize };
        ends.push(at);
    }
    let (intact, n_intact, stop_intact) = read_with_header(is_bam, !z, &file);
    let Ok(intact) = intact else {
        return Obs::fail("-", &format!("{fmt}-intact-file-unreadable"), "header");
    };
    if n_intact != ends.len() || stop_intact != Stop::Eof {
        return Obs::fail("-", &format!("{fmt}-intact-file-unreadable"), &format!("{n_intact} records then {}", stop_intact.text()));
    }
    let mut toks = Vec::new();
    let mut fails = Vec::new();
    let mut first: Option<String> = None;
    let (mut some_items, mut some_err, mut some_hdr_err) = (false, false, false);
    let res = sweep(&file, &cuts, move |p| (read_with_header(is_bam, !z, p), if z { let (s, b) = bgzf_stream(p); (s.len(), b) } else { (p.len(), Stop::Eof) }));
    for (k, r) in res {
        let Some(((h, nrec, stop), (n, bstop))) = r else {
            toks.push("Hang".to_string());
            fails.push(hang(fmt, k));
            break;
        };
        if let Stop::Panic(m) = &stop {
            toks.push("Panic".to_string());
            fails.push((format!("panic-{fmt}"), format!("cut {k}: {m}")));
            continue;
        }
        match h {
            Err(e) => {
                toks.push(format!("E:{}", e.text()));
                some_hdr_err = true;
                if n >= hdr {
                    fails.push((format!("{fmt}-intact-file-unreadable"), format!("cut {k}: all {hdr} header bytes delivered ({n}), header read fails with {}", e.text())));
                }
            }
            Ok(h) => {
                let t = if is_bam { h.clone() } else { "H".to_string() };
                let t = match &first {
                    None => {
                        first = Some(t.clone());
                        t
                    }
                    Some(t0) if *t0 == t => "=".to_string(),
                    Some(_) => t,
                };
                toks.push(format!("{t}:{nrec}:{}", stop.text()));
                some_items |= nrec > 0;
                some_err |= stop.is_err();
                let whole = ends.iter().filter(|&&e| e <= n).count();
                let at_boundary = n == hdr || ends.contains(&n);
                if n < hdr {
                    let what = if h != intact { "a different header" } else { "the written header" };
                    fails.push((format!("{fmt}-truncated-header-text-accepted"), format!("cut {k}: {n} of {hdr} header bytes delivered, {what} is returned without error, then {nrec} records and {}", stop.text())));
                } else if h != intact {
                    fails.push((format!("{fmt}-truncation-altered-header"), format!("cut {k}: a different header")));
                } else if nrec > whole {
                    fails.push((format!("{fmt}-truncation-fabricated-record"), format!("cut {k}: {nrec} records, {whole} lie inside the delivered bytes")));
                } else if nrec < whole {
                    fails.push((format!("{fmt}-truncation-lost-record"), format!("cut {k}: {nrec} of {whole} complete records returned, then {}", stop.text())));
                } else if bstop == Stop::Eof && !at_boundary && stop == Stop::Eof {
                    let last = ends.iter().copied().filter(|&e| e <= n).max().unwrap_or(hdr);
                    fails.push((mid_record_tag(fmt, "lazy", n - last), format!("cut {k}: the stream ends at {n}, {} bytes into a record, but the reader reports a clean end after {nrec} records", n - last)));
                } else if bstop == Stop::Eof && at_boundary && stop != Stop::Eof {
                    fails.push((format!("{fmt}-cut-at-record-boundary-not-eof"), format!("cut {k}: {nrec} items then {}", stop.text())));
                }
            }
        }
    }
    Obs { obs: toks.join(" "), verdict: "ok".into(), nontrivial: some_items && some_err && some_hdr_err }.with_verdict(first_fail(fails))
}

// ---------------------------------------------------------------------------------------------
// modelled: plain and bgzipped SAM / VCF text INCLUDING the header

/// (length, Adler-32 halves) of a byte string: the short canonical form of a header text
fn cks(bs: &[u8]) -> String {
    let (mut a, mut b) = (1u32, 0u32);
    for &x in bs {
        a = (a + x as u32) % 65521;
        b = (b + a) % 65521;
    }
    format!("{}.{a}.{b}", bs.len())
}

/// read_header + record_bufs of a plain (`z` false) or bgzipped text file: the header as the text
/// writer prints it (or how reading it failed) and the records
fn read_text_with_header(vcf_fmt: bool, z: bool, bytes: &[u8]) -> (Result<Vec<u8>, Stop>, ReadOut) {
    let mut hdr: Result<Vec<u8>, Stop> = Err(Stop::Eof);
    let out = collect(|hd, items| {
        macro_rules! go {
            ($reader:expr, $writer:path) => {{
                let mut r = $reader;
                let h = r.read_header()?;
                *hd = true;
                let mut t = Vec::new();
                $writer(&mut t).write_header(&h)?;
                hdr = Ok(t);
                for rec in r.record_bufs(&h) {
                    items.push(render(&rec?));
                }
                Ok(())
            }};
        }
        match (vcf_fmt, z) {
            (true, false) => go!(vcf::io::Reader::new(bytes), vcf::io::Writer::new),
            (true, true) => go!(vcf::io::Reader::new(bgzf::io::Reader::new(bytes)), vcf::io::Writer::new),
            (false, false) => go!(sam::io::Reader::new(bytes), sam::io::Writer::new),
            (false, true) => go!(sam::io::Reader::new(bgzf::io::Reader::new(bytes)), sam::io::Writer::new),
        }
    });
    if hdr.is_err() {
        hdr = Err(out.stop.clone());
    }
    (hdr, out)
}

/// the partial record lines (given as byte strings) that the real record parser refuses when they
/// arrive as a final line without line feed behind the intact header: "<line hex>:<1|2>;.."
fn text_rejected_for(vcf_fmt: bool, text: &[u8], hdr: usize, partials: &[Vec<u8>]) -> String {
    let mut parts = Vec::new();
    for partial in partials {
        let mut plain = text[..hdr].to_vec();
        plain.extend_from_slice(partial);
        let (_, out) = read_text_with_header(vcf_fmt, false, &plain);
        match out.stop {
            Stop::Err(ref kd) if kd == "UnexpectedEof" => parts.push(format!("{}:1", hex(partial))),
            Stop::Err(_) => parts.push(format!("{}:2", hex(partial))),
            _ => {}
        }
    }
    if parts.is_empty() { "_".to_string() } else { parts.join(";") }
}

/// every non-empty strict prefix (and the whole line without its line feed) of every record line
fn record_line_prefixes(text: &[u8], hdr: usize) -> Vec<Vec<u8>> {
    let mut v: Vec<Vec<u8>> = Vec::new();
    for line in text[hdr..].split(|&b| b == b'\n') {
        for j in 1..=line.len() {
            let c = line[..j].to_vec();
            if !v.contains(&c) {
                v.push(c);
            }
        }
    }
    v
}

/// the partial record lines a bgzipped file can deliver as a final line (clean BGZF end inside a
/// record line), over the given cuts
fn record_line_partials_z(file: &[u8], text: &[u8], hdr: usize, cuts: &[usize]) -> Vec<Vec<u8>> {
    let mut v: Vec<Vec<u8>> = Vec::new();
    for &k in cuts {
        let (stream, stop) = bgzf_stream(&file[..k]);
        if stop != Stop::Eof || stream.len() <= hdr || stream.len() >= text.len() || *stream.last().unwrap() == b'\n' {
            continue;
        }
        let start = stream.iter().rposition(|&b| b == b'\n').map(|i| i + 1).unwrap_or(0).max(hdr);
        let c = stream[start..].to_vec();
        if !v.contains(&c) {
            v.push(c);
        }
    }
    v
}

/// the VCF header parser (text reader: Parser::parse_partial only) as a table, see
/// bcf_header_line_table
fn vcf_header_line_table(text: &[u8]) -> (String, usize) {
    header_line_table(text, false)
}

/// kinds samth / vcfth (plain text) and samthz / vcfthz (bgzipped): header + records, cut anywhere.
///   samth text rejected cuts hdr | vcfth text linetab nlines rejected cuts hdr
///   samthz file inflatetab rejected cuts hdr | vcfthz file inflatetab linetab nlines rejected cuts hdr
/// obs per cut: "E:Err:<kind>" when read_header fails, else "<header>:<n>:<stop>" with header =
/// checksum of the header text (SAM) / "H" (VCF).
/// Oracle, with n = number of bytes the text reader receives and s = how the byte source ends:
/// beyond the header text the written header and the usual record-line rules; inside the header
/// text a header returned without error must consist of complete written header lines (a header
/// parsed from a partial last line is the class text-truncated-header-line-accepted-<fmt>), and no
/// record may follow.  VCF (reader stops behind #CHROM; c13_vcf_text_header_cut_verdict): inside
/// the header text a header may only come back from a non-empty strict prefix of the #CHROM line
/// on a source that ends (else tag vcf-header-cut-accepted-outside-chrom-line).
fn run_thfile(c: &Case) -> Obs {
    let vcf_fmt = c.kind.starts_with("vcf");
    let z = c.kind.ends_with('z');
    let fmt = match (vcf_fmt, z) {
        (true, true) => "vcfgz",
        (true, false) => "vcf",
        (false, true) => "samgz",
        (false, false) => "sam",
    };
    let hfmt = if vcf_fmt { "vcf" } else { "sam" };
    let file = Arc::new(c.b(0));
    let na = c.args.len();
    let hdr = c.u(na - 1) as usize;
    let cuts = parse_cuts(&c.args[na - 2], file.len());
    let text = if z { bgzf_stream(&file).0 } else { file.to_vec() };
    let (ih, intact) = read_text_with_header(vcf_fmt, z, &file);
    let Ok(ih) = ih else {
        return Obs::fail("-", &format!("{fmt}-intact-file-unreadable"), "header");
    };
    if intact.stop != Stop::Eof {
        return Obs::fail("-", &format!("{fmt}-intact-file-unreadable"), &intact.stop.text());
    }
    // headers made of the first j complete header lines (what a cut at a line boundary may return)
    let mut line_ends = vec![0usize];
    for (i, &b) in text[..hdr].iter().enumerate() {
        if b == b'\n' {
            line_ends.push(i + 1);
        }
    }
    let prefix_headers: Vec<Option<Vec<u8>>> = line_ends.iter().map(|&e| read_text_with_header(vcf_fmt, false, &text[..e]).0.ok()).collect();
    let mut toks = Vec::new();
    let mut fails = Vec::new();
    let (mut some_items, mut some_err, mut some_hdr_cut) = (false, false, false);
    let total = text.len();
    let text2 = text.clone();
    let res = sweep(&file, &cuts, move |p| (read_text_with_header(vcf_fmt, z, p), if z { let (s, b) = bgzf_stream(p); (s.len(), b) } else { (p.len(), Stop::Eof) }));
    for (k, r) in res {
        let Some(((h, out), (n, bstop))) = r else {
            toks.push("Hang".to_string());
            fails.push(hang(fmt, k));
            break;
        };
        if let Stop::Panic(m) = &out.stop {
            toks.push("Panic".to_string());
            fails.push((format!("panic-{fmt}"), format!("cut {k}: {m}")));
            continue;
        }
        some_items |= !out.items.is_empty();
        some_err |= out.stop.is_err();
        let stream = &text2[..n];
        let mid_line = n > 0 && n < total && stream[n - 1] != b'\n';
        match &h {
            Err(e) => toks.push(format!("E:{}", e.text())),
            Ok(t) => toks.push(format!("{}:{}:{}", if vcf_fmt { "H".to_string() } else { cks(t) }, out.items.len(), out.stop.text())),
        }
        // VCF (since ae9f807): read_header stops behind the #CHROM line, so the whole header text is enough
        if n > hdr || (vcf_fmt && n == hdr) || (n == total && bstop == Stop::Eof) {
            // the whole header text and the first byte behind it (or the whole file) was delivered
            match &h {
                Err(e) => fails.push((format!("{fmt}-intact-header-unreadable"), format!("cut {k}: {n} bytes delivered, header text has {hdr}: {}", e.text()))),
                Ok(t) if *t != ih => fails.push((format!("{fmt}-truncation-altered-header"), format!("cut {k}: a different header"))),
                Ok(_) => {
                    let spec = RecordSpec { fmt, orig: &intact.items, text: mid_line && bstop == Stop::Eof };
                    if let Err(f) = check_prefix(&spec, k, &out) {
                        fails.push(f);
                        continue;
                    }
                    let whole = stream[hdr..].iter().filter(|&&b| b == b'\n').count();
                    if out.items.len() < whole {
                        fails.push((format!("{fmt}-truncation-lost-record"), format!("cut {k}: {} of {whole} complete lines returned, then {}", out.items.len(), out.stop.text())));
                    }
                }
            }
        } else {
            some_hdr_cut = true;
            if let Ok(t) = &h {
                if !out.items.is_empty() {
                    fails.push((format!("{fmt}-truncation-fabricated-record"), format!("cut {k}: {} records behind a header cut at {n} of {hdr}", out.items.len())));
                } else if bstop != Stop::Eof {
                    fails.push((format!("text-header-source-error-swallowed-{hfmt}"), format!("cut {k}: the byte source fails at {n} inside the header text, a header is returned")));
                } else {
                    // complete lines delivered: j; acceptable = the header of j lines, or of j + 1
                    // lines when the partial last line is the whole line without its line feed
                    let j = line_ends.iter().filter(|&&e| e <= n).count() - 1;
                    // VCF (c13_vcf_text_header_cut_verdict): the only cut inside the header text that
                    // may return a header is a non-empty strict prefix of the LAST (#CHROM) line on a
                    // source that ends; anything else (a line boundary, a ## line) must be an error
                    if vcf_fmt && !(mid_line && j + 2 == line_ends.len()) {
                        fails.push(("vcf-header-cut-accepted-outside-chrom-line".to_string(), format!("cut {k}: the stream ends at {n} (header line {j} of {}, mid line: {mid_line}) and a header is returned", line_ends.len() - 1)));
                        continue;
                    }
                    let ok_j =prefix_headers[j].as_ref() == Some(t);
                    let ok_j1 = mid_line && j + 1 < line_ends.len() && n + 1 == line_ends[j + 1] && prefix_headers[j + 1].as_ref() == Some(t);
                    if !(ok_j && !mid_line) && !ok_j1 {
                        fails.push((format!("text-truncated-header-line-accepted-{hfmt}"), format!("cut {k}: the stream ends at {n} inside header line {j} (header text {hdr} bytes): a header parsed from the partial line is returned without error")));
                    }
                }
            }
        }
    }
    Obs { obs: toks.join(" "), verdict: "ok".into(), nontrivial: some_items && some_err && some_hdr_cut }.with_verdict(first_fail(fails))
}

// ---------------------------------------------------------------------------------------------
// modelled: the blocks and slices inside a CRAM container whose body is cut

/// the data containers of a CRAM file written by noodles: (offset of the container header, length
/// of the header, length of the body, landmarks)
fn cram_data_containers(file: &[u8]) -> Vec<(usize, usize, usize, Vec<usize>)> {
    let mut v = Vec::new();
    let mut r = cram::io::Reader::new(std::io::Cursor::new(file));
    if r.read_file_definition().is_err() || r.read_file_header().is_err() {
        return v;
    }
    loop {
        let Ok(p0) = r.position() else { break };
        let mut c = cram::io::reader::Container::default();
        match r.read_container(&mut c) {
            Ok(0) | Err(_) => break,
            Ok(n) => {
                let Ok(p1) = r.position() else { break };
                let hl = p1 as usize - p0 as usize - n;
                v.push((p0 as usize, hl, n, c.header().landmarks().to_vec()));
            }
        }
    }
    v
}

fn crc32_of(bs: &[u8]) -> u32 {
    let mut c = flate2::Crc::new();
    c.update(bs);
    c.sum()
}

/// what the block-level readers report on a container whose body holds only the first j bytes:
/// the container header is rewritten with length j (and its CRC32 recomputed) so that
/// read_container hands exactly body[..j] to compression_header / slices / decode_blocks
fn read_cut_container(prefix: &[u8], header: &[u8], body: &[u8], j: usize) -> String {
    let hl = header.len();
    let mut h = header.to_vec();
    h[..4].copy_from_slice(&(j as i32).to_le_bytes());
    let crc = crc32_of(&h[..hl - 4]);
    h[hl - 4..].copy_from_slice(&crc.to_le_bytes());
    let mut stream = prefix.to_vec();
    stream.extend_from_slice(&h);
    stream.extend_from_slice(&body[..j]);
    let r = nv::guarded(AssertUnwindSafe(|| -> std::io::Result<String> {
        let mut r = cram::io::Reader::new(&stream[..]);
        r.read_header()?;
        let mut c = cram::io::reader::Container::default();
        let n = r.read_container(&mut c)?;
        if n != j {
            return Ok(format!("L{n}"));
        }
        let ch = match c.compression_header() {
            Ok(_) => "ok".to_string(),
            Err(e) => format!("Err:{}", nv::errkind(&e)),
        };
        let mut ns = Vec::new();
        let mut stop = "Eof".to_string();
        for res in c.slices() {
            let ext = res.and_then(|slice| slice.decode_blocks().map(|(_, ext)| ext.len()));
            match ext {
                Ok(n) => ns.push(n.to_string()),
                Err(e) => {
                    stop = format!("Err:{}", nv::errkind(&e));
                    break;
                }
            }
        }
        Ok(format!("{ch}/{}/{stop}", if ns.is_empty() { "_".to_string() } else { ns.join("+") }))
    }));
    match r {
        Outcome::Done(Ok(s)) => s,
        Outcome::Done(Err(e)) => format!("R:Err:{}", nv::errkind(&e)),
        Outcome::Panicked(_) => "Panic".to_string(),
    }
}

/// kind cramb prefix header body landmarks cuts: one data container of a CRAM file noodles wrote
/// (prefix = file definition + header container), its body cut to j bytes for every j in cuts.
/// obs per cut: "<compression header ok|Err:k>/<external block counts of the slices decoded>/<Eof|Err:k>".
/// Oracle: every cut j < |body| must end in an error (never a panic, never a clean end), the
/// slices decoded before it are those wholly inside the cut, and the whole body decodes cleanly.
fn run_cramb(c: &Case) -> Obs {
    let prefix = c.b(0);
    let header = c.b(1);
    let body = c.b(2);
    let lms: Vec<usize> = if c.args[3] == "_" { Vec::new() } else { c.args[3].split(',').map(|x| x.parse().unwrap()).collect() };
    let cuts = parse_cuts(&c.args[4], body.len());
    let mut toks = Vec::new();
    let mut fails = Vec::new();
    let mut n_err = 0;
    for &j in &cuts {
        if j == 0 {
            continue;
        }
        let t = read_cut_container(&prefix, &header, &body, j);
        if t == "Panic" {
            fails.push(("panic-cram".to_string(), format!("container body cut to {j} of {}", body.len())));
        } else if t.starts_with('R') || t.starts_with('L') {
            fails.push(("cram-cut-container-not-delivered".to_string(), format!("body cut to {j}: {t}")));
        } else {
            let parts: Vec<&str> = t.split('/').collect();
            let nsl = if parts[1] == "_" { 0 } else { parts[1].split('+').count() };
            let whole = (0..lms.len()).filter(|&i| lms.get(i + 1).copied().unwrap_or(body.len()) <= j && (i + 1 < lms.len() || j == body.len())).count();
            if j < body.len() {
                n_err += (parts[2] != "Eof") as usize;
                if parts[2] == "Eof" && parts[0] == "ok" {
                    fails.push(("cram-cut-container-body-clean-end".to_string(), format!("body cut to {j} of {}: {t}", body.len())));
                } else if nsl != whole {
                    fails.push(("cram-cut-container-body-slices".to_string(), format!("body cut to {j}: {nsl} slices decoded, {whole} lie inside the cut")));
                }
            } else if !(parts[0] == "ok" && parts[2] == "Eof" && nsl == lms.len()) {
                fails.push(("cram-intact-file-unreadable".to_string(), format!("whole container: {t}")));
            }
        }
        toks.push(t);
    }
    Obs { obs: toks.join(" "), verdict: "ok".into(), nontrivial: n_err > 8 }.with_verdict(first_fail(fails))
}

// ---------------------------------------------------------------------------------------------
// implementation-only: the ASYNC twin of every reader, at every cut, against the blocking reader

/// what one reader made of one prefix: header (canonical text), items (canonical text), stop
#[derive(Clone, Debug, PartialEq)]
struct Twin {
    hdr: Option<String>,
    items: Vec<String>,
    stop: Stop,
}

fn twin_of(hdr: Option<String>, items: Vec<String>, r: Outcome<std::io::Result<()>>) -> Twin {
    let stop = match r {
        Outcome::Done(Ok(())) => Stop::Eof,
        Outcome::Done(Err(e)) => Stop::Err(nv::errkind(&e)),
        Outcome::Panicked(m) => Stop::Panic(m),
    };
    Twin { hdr, items, stop }
}

fn sam_header_text(h: &sam::Header) -> std::io::Result<String> {
    let mut t = Vec::new();
    sam::io::Writer::new(&mut t).write_header(h)?;
    Ok(hex(&t))
}

fn vcf_header_text(h: &vcf::Header) -> std::io::Result<String> {
    let mut t = Vec::new();
    vcf::io::Writer::new(&mut t).write_header(h)?;
    Ok(hex(&t))
}

/// the blocking reader of format `fmt` driven to the end of `bytes`
fn twin_sync(fmt: &str, bytes: &[u8]) -> Twin {
    let mut hdr = None;
    let mut items = Vec::new();
    let r = nv::guarded(AssertUnwindSafe(|| -> std::io::Result<()> {
        match fmt {
            "bgzf" => {
                let mut r = bgzf::io::Reader::new(bytes);
                let mut buf = [0u8; 64];
                let mut all = Vec::new();
                loop {
                    // the bytes delivered before an error count: keep them in `items`
                    match r.read(&mut buf) {
                        Ok(0) => break,
                        Ok(n) => all.extend_from_slice(&buf[..n]),
                        Err(e) => {
                            items.push(hex(&all));
                            return Err(e);
                        }
                    }
                }
                items.push(hex(&all));
            }
            "bam" => {
                let mut r = bam::io::Reader::new(bytes);
                hdr = Some(sam_header_text(&r.read_header()?)?);
                let mut rec = bam::Record::default();
                while r.read_record(&mut rec)? != 0 {
                    items.push(render(&rec));
                }
            }
            "bcf" => {
                let mut r = bcf::io::Reader::new(bytes);
                hdr = Some(vcf_header_text(&r.read_header()?)?);
                let mut rec = bcf::Record::default();
                while r.read_record(&mut rec)? != 0 {
                    items.push(render(&rec));
                }
            }
            "cramc" => {
                let mut r = cram::io::Reader::new(bytes);
                hdr = Some(sam_header_text(&r.read_header()?)?);
                let mut c = cram::io::reader::Container::default();
                loop {
                    let n = r.read_container(&mut c)?;
                    if n == 0 {
                        break;
                    }
                    items.push(format!("{n}/{}/{}", c.header().record_count(), c.header().landmarks().len()));
                }
            }
            "cram" => {
                let mut r = cram::io::Reader::new(bytes);
                let h = r.read_header()?;
                hdr = Some(sam_header_text(&h)?);
                for rec in r.records(&h) {
                    items.push(render(&rec?));
                }
            }
            "vcfgz" | "vcf" => {
                let mut rec = vcf::Record::default();
                if fmt == "vcfgz" {
                    let mut r = vcf::io::Reader::new(bgzf::io::Reader::new(bytes));
                    hdr = Some(vcf_header_text(&r.read_header()?)?);
                    while r.read_record(&mut rec)? != 0 {
                        items.push(render(&rec));
                    }
                } else {
                    let mut r = vcf::io::Reader::new(bytes);
                    hdr = Some(vcf_header_text(&r.read_header()?)?);
                    while r.read_record(&mut rec)? != 0 {
                        items.push(render(&rec));
                    }
                }
            }
            "samgz" | "sam" => {
                let mut rec = sam::Record::default();
                if fmt == "samgz" {
                    let mut r = sam::io::Reader::new(bgzf::io::Reader::new(bytes));
                    hdr = Some(sam_header_text(&r.read_header()?)?);
                    while r.read_record(&mut rec)? != 0 {
                        items.push(render(&rec));
                    }
                } else {
                    let mut r = sam::io::Reader::new(bytes);
                    hdr = Some(sam_header_text(&r.read_header()?)?);
                    while r.read_record(&mut rec)? != 0 {
                        items.push(render(&rec));
                    }
                }
            }
            "fastq" => {
                let mut r = noodles_fastq::io::Reader::new(bytes);
                let mut rec = noodles_fastq::Record::default();
                while r.read_record(&mut rec)? != 0 {
                    items.push(render(&rec));
                }
            }
            "fasta" => {
                let mut r = fasta::io::Reader::new(bytes);
                loop {
                    let mut def = fasta::record::Definition::default();
                    if r.read_definition(&mut def)? == 0 {
                        break;
                    }
                    let mut seq = Vec::new();
                    r.read_sequence(&mut seq)?;
                    items.push(format!("{def:?}/{}", hex(&seq)));
                }
            }
            "csi" => items.push(render(&csi::io::Reader::new(bytes).read_index()?)),
            "tabix" => items.push(render(&tabix::io::Reader::new(bytes).read_index()?)),
            "bai" => items.push(render(&bam::bai::io::Reader::new(bytes).read_index()?)),
            "gzi" => items.push(render(&bgzf::gzi::io::Reader::new(bytes).read_index()?)),
            "fai" => items.push(render(&fasta::fai::io::Reader::new(bytes).read_index()?)),
            "crai" => items.push(render(&cram::crai::io::Reader::new(bytes).read_index()?)),
            _ => unreachable!(),
        }
        Ok(())
    }));
    twin_of(hdr, items, r)
}

/// the async reader of format `fmt` driven to the end of `bytes` on a current-thread runtime
fn twin_async(fmt: &str, bytes: &[u8]) -> Twin {
    use futures::StreamExt as _;
    use tokio::io::AsyncReadExt as _;
    let mut hdr = None;
    let mut items = Vec::new();
    let r = nv::guarded(AssertUnwindSafe(|| -> std::io::Result<()> {
        let rt = tokio::runtime::Builder::new_current_thread().max_blocking_threads(4).build().unwrap();
        rt.block_on(async {
            match fmt {
                "bgzf" => {
                    let mut r = bgzf::r#async::io::Reader::new(bytes);
                    let mut buf = [0u8; 64];
                    let mut all = Vec::new();
                    loop {
                        match r.read(&mut buf).await {
                            Ok(0) => break,
                            Ok(n) => all.extend_from_slice(&buf[..n]),
                            Err(e) => {
                                items.push(hex(&all));
                                return Err(e);
                            }
                        }
                    }
                    items.push(hex(&all));
                }
                "bam" => {
                    let mut r = bam::r#async::io::Reader::new(bytes);
                    hdr = Some(sam_header_text(&r.read_header().await?)?);
                    let mut rec = bam::Record::default();
                    while r.read_record(&mut rec).await? != 0 {
                        items.push(render(&rec));
                    }
                }
                "bcf" => {
                    let mut r = bcf::r#async::io::Reader::new(bytes);
                    hdr = Some(vcf_header_text(&r.read_header().await?)?);
                    let mut rec = bcf::Record::default();
                    while r.read_record(&mut rec).await? != 0 {
                        items.push(render(&rec));
                    }
                }
                "cramc" => {
                    let mut r = cram::r#async::io::Reader::new(bytes);
                    hdr = Some(sam_header_text(&r.read_header().await?)?);
                    let mut c = cram::io::reader::Container::default();
                    loop {
                        let n = r.read_container(&mut c).await?;
                        if n == 0 {
                            break;
                        }
                        items.push(format!("{n}/{}/{}", c.header().record_count(), c.header().landmarks().len()));
                    }
                }
                "cram" => {
                    let mut r = cram::r#async::io::Reader::new(bytes);
                    let h = r.read_header().await?;
                    hdr = Some(sam_header_text(&h)?);
                    let mut st = std::pin::pin!(r.records(&h));
                    while let Some(rec) = st.next().await {
                        items.push(render(&rec?));
                    }
                }
                "vcfgz" | "vcf" => {
                    let mut rec = vcf::Record::default();
                    if fmt == "vcfgz" {
                        let mut r = vcf::r#async::io::Reader::new(bgzf::r#async::io::Reader::new(bytes));
                        hdr = Some(vcf_header_text(&r.read_header().await?)?);
                        while r.read_record(&mut rec).await? != 0 {
                            items.push(render(&rec));
                        }
                    } else {
                        let mut r = vcf::r#async::io::Reader::new(bytes);
                        hdr = Some(vcf_header_text(&r.read_header().await?)?);
                        while r.read_record(&mut rec).await? != 0 {
                            items.push(render(&rec));
                        }
                    }
                }
                "samgz" | "sam" => {
                    let mut rec = sam::Record::default();
                    if fmt == "samgz" {
                        let mut r = sam::r#async::io::Reader::new(bgzf::r#async::io::Reader::new(bytes));
                        hdr = Some(sam_header_text(&r.read_header().await?)?);
                        while r.read_record(&mut rec).await? != 0 {
                            items.push(render(&rec));
                        }
                    } else {
                        let mut r = sam::r#async::io::Reader::new(bytes);
                        hdr = Some(sam_header_text(&r.read_header().await?)?);
                        while r.read_record(&mut rec).await? != 0 {
                            items.push(render(&rec));
                        }
                    }
                }
                "fastq" => {
                    let mut r = noodles_fastq::r#async::io::Reader::new(bytes);
                    let mut rec = noodles_fastq::Record::default();
                    while r.read_record(&mut rec).await? != 0 {
                        items.push(render(&rec));
                    }
                }
                "fasta" => {
                    let mut r = fasta::r#async::io::Reader::new(bytes);
                    loop {
                        let mut def = fasta::record::Definition::default();
                        if r.read_definition(&mut def).await? == 0 {
                            break;
                        }
                        let mut seq = Vec::new();
                        r.read_sequence(&mut seq).await?;
                        items.push(format!("{def:?}/{}", hex(&seq)));
                    }
                }
                "csi" => items.push(render(&csi::r#async::io::Reader::new(bytes).read_index().await?)),
                "tabix" => items.push(render(&tabix::r#async::io::Reader::new(bytes).read_index().await?)),
                "bai" => items.push(render(&bam::bai::r#async::io::Reader::new(bytes).read_index().await?)),
                "gzi" => items.push(render(&bgzf::gzi::r#async::io::Reader::new(bytes).read_index().await?)),
                "fai" => items.push(render(&fasta::fai::r#async::io::Reader::new(bytes).read_index().await?)),
                "crai" => items.push(render(&cram::crai::r#async::io::Reader::new(bytes).read_index().await?)),
                _ => unreachable!(),
            }
            Ok(())
        })
    }));
    twin_of(hdr, items, r)
}

/// the file of an `atwin` case: the same builders as the `file` kind, small sizes (every cut)
fn twin_file(fmt: &str, rng: &mut Rng, p: u64, q: u64) -> Vec<u8> {
    match fmt {
        "bgzf" => {
            let payload = rng.bytes(p as usize).iter().map(|b| b"ACGTN\n"[(*b % 6) as usize]).collect::<Vec<u8>>();
            let breaks = files::random_breaks(rng, payload.len(), q);
            let eof = rng.chance(3, 4);
            files::bgzip(&payload, &breaks, eof)
        }
        "bam" => {
            let text = files::sam_text(rng, p, false, false);
            let eof = rng.chance(3, 4);
            files::bam_file(&text, q as usize, eof)
        }
        "bcf" => files::bcf_file(&files::vcf_text(rng, p, false), q as usize),
        "cram" | "cramc" => files::cram_file(&files::sam_text(rng, p, true, false), q as usize),
        "vcfgz" => files::vcf_gz(&files::vcf_text(rng, p, false), q as usize),
        "samgz" => files::sam_gz(&files::sam_text(rng, p, false, false), q as usize),
        "vcf" => files::vcf_text(rng, p, false),
        "sam" => files::sam_text(rng, p, false, false),
        "fastq" => {
            let mut s = String::new();
            for i in 0..p {
                let l = rng.range(1, 30) as usize;
                let seq: String = (0..l).map(|_| *rng.pick(b"ACGTN") as char).collect();
                let qual: String = (0..l).map(|_| (b'!' + rng.below(40) as u8) as char).collect();
                let desc = if rng.chance(1, 2) { " d" } else { "" };
                s.push_str(&format!("@r{i}{desc}\n{seq}\n+\n{qual}\n"));
            }
            s.into_bytes()
        }
        "fasta" => {
            let mut s = String::new();
            for i in 0..p {
                let desc = if rng.chance(1, 2) { " desc" } else { "" };
                s.push_str(&format!(">s{i}{desc}\n"));
                for _ in 0..rng.range(1, 4) {
                    let l = rng.range(1, 30) as usize;
                    let seq: String = (0..l).map(|_| *rng.pick(b"ACGTN") as char).collect();
                    s.push_str(&seq);
                    s.push('\n');
                }
            }
            s.into_bytes()
        }
        "csi" => files::csi_file(rng),
        "tabix" => files::tabix_file_small(rng),
        "bai" => files::bai_file(&files::bai_index(rng, true)),
        "gzi" => files::gzi_file(rng),
        "fai" => files::fai_file(rng),
        "crai" => files::crai_file(rng),
        _ => Vec::new(),
    }
}

/// kind atwin fmt seed p q: a file of format fmt built from the seed, cut at EVERY offset when it
/// has <= 4 KiB (else block boundaries -2..+19 and random offsets); each prefix read by the blocking
/// reader and by its async twin.  Oracle: the async reader never panics or hangs, reads the intact
/// file completely, and at every cut returns exactly what the blocking reader returns (header,
/// items in order, outcome kind) - so the verdict of the blocking oracle (kinds above) carries
/// over: items are a prefix, a clean end only where the blocking model has one.
fn run_atwin(c: &Case) -> Obs {
    let fmt = c.args[0].clone();
    let mut rng = Rng::new(c.u(1));
    let file = Arc::new(twin_file(&fmt, &mut rng, c.u(2), c.u(3)));
    let cuts: Vec<usize> = if file.len() <= 4096 {
        (0..=file.len()).collect()
    } else {
        let b = if matches!(fmt.as_str(), "bgzf" | "bam" | "bcf" | "vcfgz" | "samgz" | "csi" | "tabix") { files::bgzf_boundaries(&file) } else if fmt.starts_with("cram") { cram_boundaries(&file) } else { vec![0, file.len()] };
        choose_cuts(&mut rng, file.len(), &b, 120)
    };
    let intact_s = twin_sync(&fmt, &file);
    let intact_a = twin_async(&fmt, &file);
    if intact_s.stop != Stop::Eof {
        return Obs::fail("-", &format!("{fmt}-intact-file-unreadable"), &intact_s.stop.text());
    }
    if intact_a != intact_s {
        let tag = if matches!(intact_a.stop, Stop::Panic(_)) { format!("panic-async-{fmt}") } else { format!("async-intact-file-differs-from-sync-{fmt}") };
        return Obs::fail("-", &tag, &format!("{} items then {} (blocking: {} items then Eof)", intact_a.items.len(), intact_a.stop.text(), intact_s.items.len()));
    }
    let f2 = fmt.clone();
    let res = sweep(&file, &cuts, move |p| (twin_sync(&f2, p), twin_async(&f2, p)));
    let mut fails = Vec::new();
    let (mut some_err, mut some_ok) = (false, false);
    for (k, r) in res {
        let Some((s, a)) = r else {
            fails.push(hang(&format!("async-{fmt}"), k));
            break;
        };
        some_err |= a.stop.is_err();
        some_ok |= !a.items.is_empty();
        if let Stop::Panic(m) = &a.stop {
            fails.push((format!("panic-async-{fmt}"), format!("cut {k} of {}: {m}", file.len())));
        } else if let Stop::Panic(m) = &s.stop {
            fails.push((format!("panic-{fmt}"), format!("cut {k} of {}: {m}", file.len())));
        } else if a != s
            && !(a.stop == s.stop
                && a.stop.is_err()
                && [&a, &s].iter().all(|t| {
                    t.hdr.as_ref().map_or(true, |h| Some(h) == intact_s.hdr.as_ref())
                        && t.items.len() <= intact_s.items.len()
                        && (fmt == "bgzf" || t.items[..] == intact_s.items[..t.items.len()])
                }))
        {
            // (both readers end in the same ERROR after unchanged written items: which of the
            // complete items before the failure point were already handed out may differ - the
            // blocking lazy VCF reader asks for more input right behind a line terminator and so
            // reports the torn next block before returning the complete last record -; the
            // statement allows any prefix before an error.  A clean end must agree exactly.)
            let what = if a.stop != s.stop { "outcome" } else if a.hdr != s.hdr { "header" } else { "items" };
            fails.push((format!("async-differs-from-sync-{fmt}"), format!("cut {k} of {}: {what}: async {} items then {}, blocking {} items then {}", file.len(), a.items.len(), a.stop.text(), s.items.len(), s.stop.text())));
        }
    }
    Obs { obs: "-".into(), verdict: "ok".into(), nontrivial: some_err && some_ok }.with_verdict(first_fail(fails))
}

// ---------------------------------------------------------------------------------------------
// implementation-only oracle over generated files of every format

/// offsets at which a field group of a well-formed BAI starts
fn bai_boundaries(f: &[u8]) -> Vec<usize> {
    let u32at = |at: usize| u32::from_le_bytes(f[at..at + 4].try_into().unwrap()) as usize;
    let mut v = vec![0, 4, 8];
    let n_ref = u32at(4);
    let mut at = 8;
    for _ in 0..n_ref {
        let n_bin = u32at(at);
        at += 4;
        for _ in 0..n_bin {
            v.push(at);
            let n_chunk = u32at(at + 4);
            at += 8 + 16 * n_chunk;
        }
        v.push(at);
        let n_intv = u32at(at);
        at += 4;
        v.push(at);
        at += 8 * n_intv;
        v.push(at);
    }
    v.push(f.len());
    v
}

fn cram_boundaries(file: &[u8]) -> Vec<usize> {
    // file definition (26 bytes), then containers: i32 length of the body after the header; the
    // header length is found by letting the reader consume it
    let mut v = vec![0usize, 26.min(file.len())];
    let mut r = cram::io::Reader::new(std::io::Cursor::new(file));
    if r.read_file_definition().is_err() {
        return v;
    }
    // header container
    if r.read_file_header().is_err() {
        return v;
    }
    loop {
        match r.position() {
            Ok(p) => v.push(p as usize),
            Err(_) => break,
        }
        let mut c = cram::io::reader::Container::default();
        match r.read_container(&mut c) {
            Ok(0) | Err(_) => break,
            Ok(_) => {}
        }
    }
    if let Ok(p) = r.position() {
        v.push(p as usize);
    }
    v.push(file.len());
    v.sort_unstable();
    v.dedup();
    v
}

fn run_file(c: &Case) -> Obs {
    let fmt = c.args[0].as_str();
    let seed = c.u(1);
    let p = c.u(2);
    let q = c.u(3);
    let mut rng = Rng::new(seed);
    let mut toks = Vec::new();
    match fmt {
        "bgzf" => {
            // p = payload length, q = max number of forced block breaks
            let payload = rng.bytes(p as usize).iter().map(|b| b"ACGTN\n"[(*b % 6) as usize]).collect::<Vec<u8>>();
            let breaks = files::random_breaks(&mut rng, payload.len(), q);
            let eof = rng.chance(3, 4);
            let file = files::bgzip(&payload, &breaks, eof);
            let cuts = choose_cuts(&mut rng, file.len(), &files::bgzf_boundaries(&file), 40);
            let c2 = Case::new(c.id.clone(), "bgzf", vec![hex(&file), fmt_cuts(&cuts)]);
            let mut o = run_bgzf(&c2);
            o.obs = "-".into();
            o
        }
        "bam" | "bcf" => {
            // p = number of records, q = flush every q records (0 = never); seed bit: long records
            let long = rng.chance(1, 3) && p <= 12;
            let (file, hdr, ends) = if fmt == "bam" {
                let text = files::sam_text(&mut rng, p, false, long);
                let (_, hdr, ends) = files::bam_raw(&text);
                let eof = rng.chance(3, 4);
                (files::bam_file(&text, q as usize, eof), hdr, ends)
            } else {
                let text = files::vcf_text(&mut rng, p, long);
                let (_, hdr, ends) = files::bcf_raw(&text);
                (files::bcf_file(&text, q as usize), hdr, ends)
            };
            let file = Arc::new(file);
            let cuts = choose_cuts(&mut rng, file.len(), &files::bgzf_boundaries(&file), 40);
            let reader: fn(&[u8]) -> ReadOut = if fmt == "bam" { read_bam } else { read_bcf };
            let (mut fails, nt) = check_compressed_records(fmt, &file, &cuts, hdr, &ends, reader, "recordbuf", &mut toks);
            let lazy: fn(&[u8]) -> ReadOut = if fmt == "bam" { read_bam_lazy } else { read_bcf_lazy };
            let (f2, _) = check_compressed_records(fmt, &file, &cuts, hdr, &ends, lazy, "lazy", &mut toks);
            fails.extend(f2);
            Obs { obs: "-".into(), verdict: "ok".into(), nontrivial: nt }.with_verdict(first_fail(fails))
        }
        "cram" => {
            // p = number of records, q = records per slice
            let text = files::sam_text(&mut rng, p, true, false);
            let file = Arc::new(files::cram_file(&text, q as usize));
            let bounds = cram_boundaries(&file);
            let cuts = choose_cuts(&mut rng, file.len(), &bounds, 60);
            let intact = read_cram(&file);
            if !(intact.hdr && intact.stop == Stop::Eof && intact.items.len() == p as usize) {
                return Obs::fail("-", "cram-intact-file-unreadable", format!("{} items then {}", intact.items.len(), intact.stop.text()));
            }
            let spec = RecordSpec { fmt, orig: &intact.items, text: false };
            let res = sweep(&file, &cuts, read_cram);
            let mut fails = Vec::new();
            let (mut some_items, mut some_err) = (false, false);
            for (k, r) in res {
                let Some(out) = r else {
                    fails.push(hang(fmt, k));
                    break;
                };
                some_items |= !out.items.is_empty();
                some_err |= out.stop.is_err();
                if let Err(f) = check_prefix(&spec, k, &out) {
                    fails.push(f);
                    continue;
                }
                // a file that ends inside a container (or inside the file definition / header
                // container) is an error, not a clean end
                if k < file.len() && !bounds.contains(&k) && out.stop == Stop::Eof {
                    // class: the cut lies in the 15-byte body of the EOF container, behind its
                    // complete (CRC-checked) 23-byte header -- the reader stops at that header
                    // and never reads the body
                    let tag = if k + 15 >= file.len() && out.items.len() == intact.items.len() {
                        "cram-truncated-eof-container-body-clean-eof"
                    } else {
                        "cram-truncated-container-clean-eof"
                    };
                    fails.push((tag.to_string(), format!("cut {k} of {}: clean end after {} records", file.len(), out.items.len())));
                }
                if k == file.len() && (out.stop != Stop::Eof || out.items.len() != intact.items.len()) {
                    fails.push(("cram-intact-file-unreadable".to_string(), format!("cut {k}")));
                }
                // records of containers that lie wholly inside the cut are all returned
                if out.hdr && out.stop == Stop::Eof && k < file.len() && out.items.len() != intact.items.len() && bounds.contains(&k) {
                    // a clean end at a container boundary short of the EOF container: allowed by the
                    // statement (end of input) only if nothing was lost before it; containers are
                    // decoded whole, so count the records of the containers before k
                    // (checked via monotonicity below)
                }
            }
            Obs { obs: "-".into(), verdict: "ok".into(), nontrivial: some_items && some_err && bounds.len() >= 5 }.with_verdict(first_fail(fails))
        }
        "vcfgz" | "samgz" => {
            let long = rng.chance(1, 3) && p <= 12;
            let (file, text) = if fmt == "vcfgz" {
                let text = files::vcf_text(&mut rng, p, long);
                (files::vcf_gz(&text, q as usize), text)
            } else {
                let text = files::sam_text(&mut rng, p, false, long);
                (files::sam_gz(&text, q as usize), text)
            };
            let _ = text;
            let file = Arc::new(file);
            let reader: fn(&[u8]) -> ReadOut = if fmt == "vcfgz" { read_vcfgz } else { read_samgz };
            let cuts = choose_cuts(&mut rng, file.len(), &files::bgzf_boundaries(&file), 40);
            let intact = reader(&file);
            if !(intact.hdr && intact.stop == Stop::Eof && intact.items.len() == p as usize) {
                return Obs::fail("-", &format!("{fmt}-intact-file-unreadable"), format!("{} items then {}", intact.items.len(), intact.stop.text()));
            }
            let (full_stream, _) = bgzf_stream(&file);
            let res = sweep(&file, &cuts, move |p| (reader(p), bgzf_stream(p)));
            let mut fails = Vec::new();
            let (mut some_items, mut some_err) = (false, false);
            for (k, r) in res {
                let Some((out, (stream, bstop))) = r else {
                    fails.push(hang(fmt, k));
                    break;
                };
                some_items |= !out.items.is_empty();
                some_err |= out.stop.is_err();
                // does the stream the text reader receives end cleanly inside a line?
                let mid_line = bstop == Stop::Eof && stream.len() < full_stream.len() && !stream.is_empty() && *stream.last().unwrap() != b'\n';
                let spec = RecordSpec { fmt, orig: &intact.items, text: mid_line };
                if let Err(f) = check_prefix(&spec, k, &out) {
                    fails.push(f);
                    continue;
                }
                // complete lines before the end of the delivered stream are all returned
                if out.hdr && out.stop == Stop::Eof {
                    let lines = stream.iter().filter(|&&b| b == b'\n').count();
                    let total_lines = full_stream.iter().filter(|&&b| b == b'\n').count();
                    let hdr_lines = total_lines - intact.items.len();
                    if lines >= hdr_lines && out.items.len() < lines - hdr_lines {
                        fails.push((format!("{fmt}-truncation-lost-record"), format!("cut {k}: {} of {} complete lines returned", out.items.len(), lines - hdr_lines)));
                    }
                }
            }
            Obs { obs: "-".into(), verdict: "ok".into(), nontrivial: some_items && some_err }.with_verdict(first_fail(fails))
        }
        "bai" => {
            let small = rng.chance(2, 3);
            let ix = files::bai_index(&mut rng, small);
            let file = files::bai_file(&ix);
            let cuts = if file.len() <= 4096 { "all".to_string() } else { fmt_cuts(&choose_cuts(&mut rng, file.len(), &bai_boundaries(&file), 100)) };
            let c2 = Case::new(c.id.clone(), "bai", vec![hex(&file), cuts]);
            let mut o = run_bai(&c2);
            o.obs = "-".into();
            o
        }
        "csi" | "tabix" => {
            let file = Arc::new(if fmt == "csi" { files::csi_file(&mut rng) } else { files::tabix_file(&mut rng) });
            let is_csi = fmt == "csi";
            let rd = move |p: &[u8]| -> Result<(String, Option<u64>), Stop> {
                let r = if is_csi {
                    nv::guarded(|| csi::io::Reader::new(p).read_index().map(|i| (format!("{:?}|{:?}|{:?}|{:?}", i.min_shift(), i.depth(), i.header(), i.reference_sequences()), i.unplaced_unmapped_record_count())))
                } else {
                    nv::guarded(|| tabix::io::Reader::new(p).read_index().map(|i| (format!("{:?}|{:?}|{:?}|{:?}", i.min_shift(), i.depth(), i.header(), i.reference_sequences()), i.unplaced_unmapped_record_count())))
                };
                match r {
                    Outcome::Done(Ok(x)) => Ok(x),
                    Outcome::Done(Err(e)) => Err(Stop::Err(nv::errkind(&e))),
                    Outcome::Panicked(m) => Err(Stop::Panic(m)),
                }
            };
            let Ok(orig) = rd(&file) else {
                return Obs::fail("-", &format!("{fmt}-intact-file-unreadable"), "");
            };
            let cuts = choose_cuts(&mut rng, file.len(), &files::bgzf_boundaries(&file), 40);
            let res = sweep(&file, &cuts, rd);
            let mut fails = Vec::new();
            let mut n_err = 0;
            for (k, r) in res {
                let Some(r) = r else {
                    fails.push(hang(fmt, k));
                    break;
                };
                n_err += r.is_err() as usize;
                if let Err(f) = check_index_cut(fmt, k, &r, &orig, k == file.len()) {
                    fails.push(f);
                }
            }
            Obs { obs: "-".into(), verdict: "ok".into(), nontrivial: n_err > 4 }.with_verdict(first_fail(fails))
        }
        "gzi" | "fai" | "crai" => {
            let file = Arc::new(match fmt {
                "gzi" => files::gzi_file(&mut rng),
                "fai" => files::fai_file(&mut rng),
                _ => files::crai_file(&mut rng),
            });
            let f = fmt.to_string();
            // item lists: gzi entries, fai records, crai records
            let rd = move |p: &[u8]| -> Result<Vec<String>, Stop> {
                let r = match f.as_str() {
                    "gzi" => nv::guarded(|| bgzf::gzi::io::Reader::new(p).read_index().map(|i| i.as_ref().iter().map(|e| render(e)).collect::<Vec<_>>())),
                    "fai" => nv::guarded(|| fasta::fai::io::Reader::new(p).read_index().map(|i| i.as_ref().iter().map(|e| render(e)).collect::<Vec<_>>())),
                    _ => nv::guarded(|| cram::crai::io::Reader::new(p).read_index().map(|i| i.iter().map(|e| render(e)).collect::<Vec<_>>())),
                };
                match r {
                    Outcome::Done(Ok(x)) => Ok(x),
                    Outcome::Done(Err(e)) => Err(Stop::Err(nv::errkind(&e))),
                    Outcome::Panicked(m) => Err(Stop::Panic(m)),
                }
            };
            let Ok(orig) = rd(&file) else {
                return Obs::fail("-", &format!("{fmt}-intact-file-unreadable"), "");
            };
            let cuts: Vec<usize> = (0..=file.len()).collect();
            let res = sweep(&file, &cuts, rd);
            let mut fails = Vec::new();
            let mut n_err = 0;
            for (k, r) in res {
                let Some(r) = r else {
                    fails.push(hang(fmt, k));
                    break;
                };
                n_err += r.is_err() as usize;
                match r {
                    Err(Stop::Panic(m)) => fails.push((format!("panic-{fmt}"), format!("cut {k}: {m}"))),
                    Err(_) => {
                        if k == file.len() {
                            fails.push((format!("{fmt}-intact-file-unreadable"), format!("cut {k}")));
                        }
                    }
                    Ok(items) => {
                        if fmt == "gzi" {
                            // count-driven: only the intact file may be accepted
                            if k < file.len() {
                                fails.push(("index-truncation-accepted".to_string(), format!("gzi cut {k} of {}: {} entries returned without error", file.len(), items.len())));
                            }
                        } else if !(items.len() <= orig.len() && items[..] == orig[..items.len()]) {
                            // fai is plain text: a cut inside the last field of a line leaves a
                            // shorter number that still parses
                            let mid_line = fmt == "fai" && k > 0 && file[k - 1] != b'\n';
                            let tag = if mid_line && items.len() <= orig.len() && items[..items.len() - 1] == orig[..items.len() - 1] {
                                "text-truncated-final-line-accepted-fai".to_string()
                            } else {
                                "index-truncation-accepted".to_string()
                            };
                            fails.push((tag, format!("{fmt} cut {k} of {}: the {} records returned are not a prefix of the written ones", file.len(), items.len())));
                        }
                    }
                }
            }
            Obs { obs: "-".into(), verdict: "ok".into(), nontrivial: n_err > 0 || fmt == "fai" }.with_verdict(first_fail(fails))
        }
        _ => Obs { obs: "-".into(), verdict: "skip".into(), nontrivial: false },
    }
}

// ---------------------------------------------------------------------------------------------

/// one read of a crai FILE prefix: canonical index | error kind | panic
fn read_crai_file(p: &[u8]) -> Result<String, String> {
    match nv::guarded(AssertUnwindSafe(|| cram::crai::io::Reader::new(p).read_index())) {
        nv::Outcome::Done(Ok(i)) => Ok(index::fmt_crai(&i)),
        nv::Outcome::Done(Err(e)) => Err(nv::errkind(&e)),
        nv::Outcome::Panicked(m) => Err(format!("Panic {m}")),
    }
}

/// kind craigz: every cut of a .crai file (the gzip container included)
fn run_craigz(c: &Case) -> Obs {
    let file = Arc::new(c.b(0));
    let cuts: Vec<usize> = (0..=file.len()).collect();
    let member = files::gz_member_len(&file);
    let exact = member == Some(file.len());
    let intact = read_crai_file(&file);
    let mut toks = vec![format!("X{}", exact as u8)];
    let mut fails = Vec::new();
    let mut n_err = 0;
    if intact.is_err() {
        fails.push(("crai-intact-file-unreadable".to_string(), String::new()));
    }
    for (k, r) in sweep(&file, &cuts, read_crai_file) {
        let Some(r) = r else {
            toks.push("Hang".to_string());
            fails.push(hang("craigz", k));
            break;
        };
        match &r {
            Ok(s) => {
                toks.push(format!("Ok:{s}"));
                // an index is returned only when the whole member is present, and it is the written one
                if let (Some(m), Ok(orig)) = (member, &intact) {
                    if k < m {
                        fails.push(("crai-file-truncation-accepted".to_string(), format!("cut {k} of {} (member ends at {m}): an index is returned without error", file.len())));
                    } else if s != orig {
                        fails.push(("crai-file-bytes-behind-member-change-index".to_string(), format!("cut {k}")));
                    }
                }
            }
            Err(e) if e.starts_with("Panic") => {
                toks.push("Panic".to_string());
                fails.push(("panic-craigz".to_string(), format!("cut {k}: {e}")));
            }
            Err(e) => {
                toks.push(format!("E:{e}"));
                n_err += 1;
                if let (Some(m), Ok(_)) = (member, &intact) {
                    if k >= m {
                        fails.push(("crai-file-complete-member-refused".to_string(), format!("cut {k} of {} (member ends at {m}): {e}", file.len())));
                    }
                }
            }
        }
    }
    Obs { obs: toks.join(" "), verdict: "ok".into(), nontrivial: intact.is_ok() && n_err > 0 }.with_verdict(first_fail(fails))
}

fn run(c: &Case) -> Obs {
    match c.kind.as_str() {
        "bamraw" | "bcfraw" => run_raw(&c.kind, c),
        "bgzf" => run_bgzf(c),
        "bamz" | "bcfz" => run_bamz(c),
        "bcfeager" => run_bcf_eager(c),
        "bai" => run_bai(c),
        "baik" => run_bai_k(c, true),
        "cramc" => run_cramc(c),
        "gzi" => run_gzi(c),
        "textz" => run_textz(c),
        "csi" => run_idx("csi", c),
        "tbi" => run_idx("tbi", c),
        "fai" => run_idx("fai", c),
        "crai" => run_idx("crai", c),
        "csiz" => run_idxz("csi", c),
        "tbiz" => run_idxz("tbi", c),
        "file" => run_file(c),
        "hdrcut" => run_hdrcut(c),
        "bamhf" | "bcfhf" | "bamhz" | "bcfhz" => run_hfile(c),
        "samth" | "vcfth" | "samthz" | "vcfthz" => run_thfile(c),
        "cramb" => run_cramb(c),
        "craigz" => run_craigz(c),
        "atwin" => run_atwin(c),
        _ => Obs { obs: "-".into(), verdict: "skip".into(), nontrivial: false },
    }
}

/// inflate as a table for the model: "<frame length>:<data hex>;..."
fn inflate_table(file: &[u8]) -> String {
    let b = files::bgzf_boundaries(file);
    let mut parts = Vec::new();
    for w in b.windows(2) {
        let (d, s) = read_bgzf_bytes(&file[w[0]..w[1]], 0);
        assert!(s == Stop::Eof);
        parts.push(format!("{}:{}", w[1] - w[0], hex(&d)));
    }
    parts.join(";")
}

fn generate(rng: &mut Rng, tier: &str, w: &mut CaseWriter) {
    let thorough = tier == "thorough";
    let scale = if thorough { 8 } else { 1 };

    // --- modelled: uncompressed BAM / BCF record streams, every cut
    for i in 0..(12 * scale) {
        let n = if i == 0 { 1 } else { rng.range(1, 30) };
        let um = rng.chance(1, 4);
        let text = files::sam_text(rng, n, um, false);
        let (raw, hdr, _) = files::bam_raw(&text);
        let stream = &raw[hdr..];
        let cuts = if stream.len() <= 4096 { "all".to_string() } else { fmt_cuts(&choose_cuts(rng, stream.len(), &[], 200)) };
        w.push("bamraw", vec![hex(stream), cuts, hex(&raw[..hdr])]);
    }
    for i in 0..(12 * scale) {
        let n = if i == 0 { 1 } else { rng.range(1, 30) };
        let text = files::vcf_text(rng, n, false);
        let (raw, hdr, _) = files::bcf_raw(&text);
        let stream = &raw[hdr..];
        let cuts = if stream.len() <= 4096 { "all".to_string() } else { fmt_cuts(&choose_cuts(rng, stream.len(), &[], 200)) };
        w.push("bcfraw", vec![hex(stream), cuts.clone(), hex(&raw[..hdr])]);
        w.push("bcfeager", vec![hex(stream), cuts, hex(&raw[..hdr])]);
    }
    // a few malformed streams: zero length prefix in the middle, a length running past the end,
    // a record shorter than the fixed BAM fields
    for _ in 0..(4 * scale) {
        let text = files::sam_text(rng, 3, true, false);
        let (raw, hdr, ends) = files::bam_raw(&text);
        let mut s = raw[hdr..].to_vec();
        let at = ends[0] - hdr;
        match rng.below(3) {
            0 => s[at..at + 4].copy_from_slice(&0u32.to_le_bytes()),
            1 => s[at..at + 4].copy_from_slice(&(rng.range(1, 31) as u32).to_le_bytes()),
            _ => s[at + 4 + 16] = s[at + 4 + 16].wrapping_add(rng.range(1, 200) as u8),
        }
        w.push("bamraw", vec![hex(&s), "all".into(), "malformed".into()]);
    }

    // --- modelled: BGZF files, 0..5 blocks, with and without the EOF marker, every cut
    for i in 0..(14 * scale) {
        let len = match i {
            0 => 0,
            1 => 1,
            _ => rng.range(1, 1500) as usize,
        };
        let payload: Vec<u8> = rng.bytes(len).iter().map(|b| b"ACGTN\n"[(*b % 6) as usize]).collect();
        let breaks = files::random_breaks(rng, len, 4);
        let file = files::bgzip(&payload, &breaks, rng.chance(3, 4));
        let cuts = if file.len() <= 4096 { "all".to_string() } else { fmt_cuts(&choose_cuts(rng, file.len(), &files::bgzf_boundaries(&file), 100)) };
        w.push("bgzf", vec![hex(&file), cuts]);
    }
    // a malformed one: a corrupted fixed header field / BSIZE too small in the second block
    for _ in 0..(3 * scale) {
        let payload: Vec<u8> = rng.bytes(300).iter().map(|b| b"ACGT"[(*b % 4) as usize]).collect();
        let mut file = files::bgzip(&payload, &[100, 200], true);
        let b = files::bgzf_boundaries(&file);
        if rng.chance(1, 2) {
            file[b[1] + *rng.pick(&[0usize, 1, 2, 3, 10, 12, 13, 14])] ^= 0x40;
        } else {
            let v = rng.below(25) as u16;
            file[b[1] + 16..b[1] + 18].copy_from_slice(&v.to_le_bytes());
        }
        w.push("bgzf", vec![hex(&file), "all".into()]);
    }

    // --- modelled: BAM over BGZF (record reader layered on the block reader), small files with
    // several blocks so that records straddle block boundaries
    for _ in 0..(10 * scale) {
        let n = rng.range(1, 12);
        let um = rng.chance(1, 4);
        let text = files::sam_text(rng, n, um, false);
        let (raw, hdr, _) = files::bam_raw(&text);
        // compress the raw stream with block breaks at arbitrary offsets (a BGZF writer fills
        // blocks without regard to record boundaries)
        let breaks = files::random_breaks(rng, raw.len(), 5);
        let file = files::bgzip(&raw, &breaks, rng.chance(3, 4));
        let cuts = if file.len() <= 4096 { "all".to_string() } else { fmt_cuts(&choose_cuts(rng, file.len(), &files::bgzf_boundaries(&file), 100)) };
        w.push("bamz", vec![hex(&file), hdr.to_string(), inflate_table(&file), cuts]);
    }

    // --- modelled: BCF over BGZF through record_bufs, block breaks at arbitrary offsets
    for _ in 0..(8 * scale) {
        let n = rng.range(1, 12);
        let text = files::vcf_text(rng, n, false);
        let (raw, hdr, _) = files::bcf_raw(&text);
        let breaks = files::random_breaks(rng, raw.len(), 5);
        let file = files::bgzip(&raw, &breaks, rng.chance(3, 4));
        // the model takes "header unreadable" = fewer than hdr bytes delivered; the real BCF header
        // reader reads the header text through io::Take, so a stream that ends inside the last
        // header line or before the NUL terminator can still give a (different) header: the header
        // parser is not modelled, cuts that deliver only a part of the header text are left to the
        // oracle of this kind's L3 verdict on the other cuts and to the `file` kind
        let cuts: Vec<usize> = if file.len() <= 4096 { (0..=file.len()).collect() } else { choose_cuts(rng, file.len(), &files::bgzf_boundaries(&file), 100) };
        let cuts: Vec<usize> = cuts.into_iter().filter(|&k| { let n = bgzf_stream(&file[..k]).0.len(); !(9 <= n && n < hdr) }).collect();
        w.push("bcfz", vec![hex(&file), hdr.to_string(), inflate_table(&file), fmt_cuts(&cuts)]);
    }

    // --- modelled: BAI
    for _ in 0..(12 * scale) {
        let ix = files::bai_index(rng, true);
        let file = files::bai_file(&ix);
        let cuts = if file.len() <= 4096 { "all".to_string() } else { fmt_cuts(&choose_cuts(rng, file.len(), &[file.len() - 8], 300)) };
        w.push("bai", vec![hex(&file), cuts]);
    }

    // --- modelled: BAI with error kinds (read program p_bai): written files at every cut, and the
    // same files with a damaged magic number (InvalidData from cut 4 on, UnexpectedEof below)
    for n in 0..(8 * scale) {
        let ix = files::bai_index(rng, true);
        let mut file = files::bai_file(&ix);
        if n % 4 == 3 {
            let at = rng.below(4) as usize;
            file[at] ^= 1 + rng.below(255) as u8;
        }
        let cuts = if file.len() <= 4096 { "all".to_string() } else { fmt_cuts(&choose_cuts(rng, file.len(), &[file.len() - 8], 300)) };
        w.push("baik", vec![hex(&file), cuts]);
    }

    // --- modelled: CRAM at the container level (file definition, header container, 1..n data
    // containers, EOF container), every cut when small
    for i in 0..(8 * scale) {
        let (p, q) = match i % 4 {
            0 => (1, 0),
            1 => (rng.range(2, 9), rng.range(1, 3)),
            2 => (rng.range(3, 12), rng.range(1, 4)),
            _ => (rng.range(1, 30), 0),
        };
        let text = files::sam_text(rng, p, true, false);
        let file = files::cram_file(&text, q as usize);
        let cuts = if file.len() <= 4096 { "all".to_string() } else { fmt_cuts(&choose_cuts(rng, file.len(), &cram_boundaries(&file), 150)) };
        w.push("cramc", vec![hex(&file), cram_hdr_body_table(&file), cuts]);
    }

    // --- modelled: bgzipped VCF / SAM text through record_bufs, block breaks at arbitrary offsets
    // (lines straddle blocks); cuts from the point where the whole header is delivered
    for i in 0..(10 * scale) {
        let vcf = i % 2 == 0;
        let n = rng.range(1, 10);
        let text = if vcf { files::vcf_text(rng, n, false) } else { files::sam_text(rng, n, false, false) };
        // header text = the leading lines that start with '#' / '@'
        let mut hdr = 0;
        while hdr < text.len() && text[hdr] == if vcf { b'#' } else { b'@' } {
            hdr += text[hdr..].iter().position(|&b| b == b'\n').unwrap() + 1;
        }
        let breaks = files::random_breaks(rng, text.len(), 5);
        let file = files::bgzip(&text, &breaks, rng.chance(3, 4));
        let b = files::bgzf_boundaries(&file);
        // first block boundary at which at least hdr bytes have been delivered
        let mut first = file.len();
        for &x in &b[1..] {
            if bgzf_stream(&file[..x]).0.len() >= hdr {
                first = x;
                break;
            }
        }
        let cuts: Vec<usize> = if file.len() <= 4096 { (first..=file.len()).collect() } else { choose_cuts(rng, file.len(), &b, 100).into_iter().filter(|&k| k >= first).collect() };
        let fmt = if vcf { "vcf" } else { "sam" };
        let rejected = text_rejected_table(fmt, &file, &text, hdr, &cuts);
        w.push("textz", vec![fmt.into(), hex(&file), hdr.to_string(), inflate_table(&file), rejected, fmt_cuts(&cuts)]);
    }

    // --- modelled: gzi
    for _ in 0..(8 * scale) {
        let file = files::gzi_file(rng);
        w.push("gzi", vec![hex(&file), "all".into()]);
    }
    // a written gzi followed by bytes (InvalidData: trailing data; model comparison and no-panic only)
    for _ in 0..(2 * scale) {
        let mut file = files::gzi_file(rng);
        let l = rng.range(1, 20) as usize;
        file.extend(rng.bytes(l));
        w.push("gzi", vec![hex(&file), "all".into()]);
    }

    // --- modelled: CSI / tabix: every cut of the uncompressed payload, and every cut of a BGZF
    // file holding it (the written file, or the payload recompressed with arbitrary block breaks)
    for i in 0..(5 * scale) {
        for kind in ["csi", "tbi"] {
            let file = match (kind, i % 5) {
                ("csi", _) => files::csi_file(rng),
                (_, 4) => files::tabix_file_no_refs(rng),
                _ => files::tabix_file_small(rng),
            };
            let payload = index::inflate(&file);
            let cuts = if payload.len() <= 4096 { "all".to_string() } else { fmt_cuts(&choose_cuts(rng, payload.len(), &[4, 8, payload.len() - 8], 150)) };
            w.push(kind, vec![hex(&payload), cuts]);
            let zf = if rng.chance(1, 2) {
                file
            } else {
                let br = files::random_breaks(rng, payload.len(), 4);
                files::bgzip(&payload, &br, rng.chance(3, 4))
            };
            let cuts = if zf.len() <= 4096 { "all".to_string() } else { fmt_cuts(&choose_cuts(rng, zf.len(), &files::bgzf_boundaries(&zf), 100)) };
            w.push(&format!("{kind}z"), vec![hex(&zf), inflate_table(&zf), cuts]);
        }
    }
    // --- modelled: fai text and the text inside a crai, every cut
    for _ in 0..(6 * scale) {
        let text = files::fai_file(rng);
        w.push("fai", vec![hex(&text), "all".into()]);
        let text = index::gunzip(&files::crai_file(rng));
        w.push("crai", vec![hex(&text), "all".into()]);
    }

    // --- modelled: the crai FILE (gzip container included), every cut
    for i in 0..(5 * scale) {
        // written by crai::io::Writer; every 5th a longer index (a dynamic Huffman block)
        let n = if i % 5 == 4 { rng.range(20, 45) } else { rng.range(0, 6) };
        w.push("craigz", vec![hex(&files::crai_file_n(rng, n))]);
    }
    for i in 0..(6 * scale) {
        // the text of a written index inside a hand-assembled member
        let n = if i % 6 == 5 { rng.range(15, 30) } else { rng.range(0, 5) };
        let text = index::gunzip(&files::crai_file_n(rng, n));
        let field = |rng: &mut Rng, max: u64| -> Option<Vec<u8>> {
            if rng.chance(1, 2) { let l = rng.range(0, max) as usize; Some(rng.bytes(l)) } else { None }
        };
        let o = files::GzOpts {
            extra: field(rng, 12),
            name: field(rng, 10),
            comment: field(rng, 10),
            hcrc: rng.chance(1, 2),
            ftext: rng.chance(1, 4),
            level: *rng.pick(&[0u32, 0, 1, 6, 9]),
            mtime: rng.below(1 << 32) as u32,
            xfl: *rng.pick(&[0u8, 2, 4]),
            os: *rng.pick(&[255u8, 3, 0]),
            garbage: if rng.chance(1, 4) { let l = rng.range(1, 12) as usize; rng.bytes(l) } else { Vec::new() },
        };
        w.push("craigz", vec![hex(&files::gz_member(&text, &o))]);
    }

    // --- modelled: whole BAM / BCF files incl. their header (raw and BGZF with block breaks at
    // arbitrary offsets, also inside the header), every cut
    for i in 0..(6 * scale) {
        for is_bam in [true, false] {
            let n = if i == 0 { 0 } else { rng.range(1, 8) };
            let (raw, hdr, ltab) = if is_bam {
                let um = rng.chance(1, 4);
                let text = files::sam_text(rng, n, um, false);
                let (raw, hdr, _) = files::bam_raw(&text);
                (raw, hdr, None)
            } else {
                let text = files::vcf_text(rng, n, false);
                let (raw, hdr, _) = files::bcf_raw(&text);
                // header text = l_text bytes behind magic, version, l_text, without the NUL
                let t = bcf_header_line_table(&raw[9..hdr - 1]);
                (raw, hdr, Some(t))
            };
            let cuts = if raw.len() <= 4096 { "all".to_string() } else { fmt_cuts(&choose_cuts(rng, raw.len(), &[hdr], 300)) };
            let mut breaks = files::random_breaks(rng, raw.len(), 4);
            if rng.chance(2, 3) {
                breaks.push(rng.range(1, hdr as u64 - 1) as usize);
                breaks.sort_unstable();
            }
            let file = files::bgzip(&raw, &breaks, rng.chance(3, 4));
            let zcuts = if file.len() <= 4096 { "all".to_string() } else { fmt_cuts(&choose_cuts(rng, file.len(), &files::bgzf_boundaries(&file), 200)) };
            match ltab {
                None => {
                    w.push("bamhf", vec![hex(&raw), cuts, hdr.to_string()]);
                    w.push("bamhz", vec![hex(&file), inflate_table(&file), zcuts, hdr.to_string()]);
                }
                Some((tab, nl)) => {
                    w.push("bcfhf", vec![hex(&raw), tab.clone(), nl.to_string(), cuts, hdr.to_string()]);
                    w.push("bcfhz", vec![hex(&file), inflate_table(&file), tab, nl.to_string(), zcuts, hdr.to_string()]);
                }
            }
        }
    }

    // --- modelled: plain and bgzipped SAM / VCF text incl. the header, every cut
    for i in 0..(4 * scale) {
        for vcf_fmt in [true, false] {
            let n = if i == 0 { 0 } else { rng.range(1, 4) };
            let text = if vcf_fmt { files::vcf_text(rng, n, false) } else { files::sam_text(rng, n, false, false) };
            let mut hdr = 0;
            while hdr < text.len() && text[hdr] == if vcf_fmt { b'#' } else { b'@' } {
                hdr += text[hdr..].iter().position(|&b| b == b'\n').unwrap() + 1;
            }
            let cuts = if text.len() <= 4096 { "all".to_string() } else { fmt_cuts(&choose_cuts(rng, text.len(), &[hdr], 300)) };
            let rejected = text_rejected_for(vcf_fmt, &text, hdr, &record_line_prefixes(&text, hdr));
            let mut breaks = files::random_breaks(rng, text.len(), 4);
            if rng.chance(2, 3) {
                breaks.push(rng.range(1, hdr as u64 - 1) as usize);
                breaks.sort_unstable();
            }
            let file = files::bgzip(&text, &breaks, rng.chance(3, 4));
            let zc: Vec<usize> = if file.len() <= 4096 { (0..=file.len()).collect() } else { choose_cuts(rng, file.len(), &files::bgzf_boundaries(&file), 200) };
            let zrejected = text_rejected_for(vcf_fmt, &text, hdr, &record_line_partials_z(&file, &text, hdr, &zc));
            if vcf_fmt {
                let (tab, nl) = vcf_header_line_table(&text[..hdr]);
                w.push("vcfth", vec![hex(&text), tab.clone(), nl.to_string(), rejected, cuts, hdr.to_string()]);
                w.push("vcfthz", vec![hex(&file), inflate_table(&file), tab, nl.to_string(), zrejected, fmt_cuts(&zc), hdr.to_string()]);
            } else {
                w.push("samth", vec![hex(&text), rejected, cuts, hdr.to_string()]);
                w.push("samthz", vec![hex(&file), inflate_table(&file), zrejected, fmt_cuts(&zc), hdr.to_string()]);
            }
        }
    }

    // --- modelled: the blocks / slices inside a data container whose body is cut (1..n slices per
    // container via verif_set_records_per_slice)
    for i in 0..(4 * scale) {
        let (p, q) = match i % 4 {
            0 => (1, 0),
            1 => (rng.range(2, 9), rng.range(1, 3)),
            2 => (rng.range(3, 12), rng.range(1, 4)),
            _ => (rng.range(4, 20), rng.range(1, 2)),
        };
        let text = files::sam_text(rng, p, true, false);
        let file = files::cram_file(&text, q as usize);
        let cs = cram_data_containers(&file);
        if cs.is_empty() {
            continue;
        }
        let (p0, hl, n, lms) = cs[rng.below(cs.len() as u64) as usize].clone();
        let first = cs[0].0;
        let body = &file[p0 + hl..p0 + hl + n];
        let cuts = if n <= 3000 { "all".to_string() } else { fmt_cuts(&choose_cuts(rng, n, &lms, 300)) };
        let lm = if lms.is_empty() { "_".to_string() } else { lms.iter().map(|x| x.to_string()).collect::<Vec<_>>().join(",") };
        w.push("cramb", vec![hex(&file[..first]), hex(&file[p0..p0 + hl]), hex(body), lm, cuts]);
        // a hand-made container with TWO slices (noodles' writer puts one slice in a container):
        // the body of container A followed by the slice of container B, the landmark array of A's
        // header rewritten to [lm0, |body A|] (read_cut_container sets the length and the CRC)
        if cs.len() >= 2 && cs[0].3.len() == 1 && cs[1].3.len() == 1 {
            let (a0, ahl, an, almk) = cs[0].clone();
            let (b0, bhl, bn, blmk) = cs[1].clone();
            let mut itf = |v: usize| {
                let mut t = Vec::new();
                cram::verif::write_itf8(&mut t, v as i32).unwrap();
                t
            };
            let old_arr = [itf(1), itf(almk[0])].concat();
            let head = &file[a0..a0 + ahl];
            if head[..ahl - 4].ends_with(&old_arr) {
                let mut h2 = head[..ahl - 4 - old_arr.len()].to_vec();
                h2.extend(itf(2));
                h2.extend(itf(almk[0]));
                h2.extend(itf(an));
                h2.extend([0u8; 4]);
                let mut body2 = file[a0 + ahl..a0 + ahl + an].to_vec();
                body2.extend_from_slice(&file[b0 + bhl + blmk[0]..b0 + bhl + bn]);
                let cuts = if body2.len() <= 3000 { "all".to_string() } else { fmt_cuts(&choose_cuts(rng, body2.len(), &[almk[0], an], 300)) };
                w.push("cramb", vec![hex(&file[..first]), hex(&h2), hex(&body2), format!("{},{}", almk[0], an), cuts]);
            }
        }
    }

    // --- implementation-only: every cut inside the header of a raw BAM / BCF stream
    for _ in 0..(3 * scale) {
        for fmt in ["bam", "bcf"] {
            w.push("hdrcut", vec![fmt.into(), rng.next().to_string(), rng.range(0, 3).to_string()]);
        }
    }

    // --- implementation-only: the async twin of every reader against the blocking reader, every cut
    for i in 0..(2 * scale) {
        for fmt in ["bgzf", "bam", "bcf", "cram", "cramc", "vcfgz", "samgz", "vcf", "sam", "fastq", "fasta", "csi", "tabix", "bai", "gzi", "fai", "crai"] {
            let (p, q) = match fmt {
                "bgzf" => (if i == 0 { rng.range(1, 400) } else { rng.range(400, 2500) }, 4),
                "cram" | "cramc" => (rng.range(1, 6), rng.range(0, 2)),
                "fastq" | "fasta" => (rng.range(1, 5), 0),
                _ => (if i == 0 { 1 } else { rng.range(2, 5) }, rng.range(0, 2)),
            };
            w.push("atwin", vec![fmt.into(), rng.next().to_string(), p.to_string(), q.to_string()]);
        }
    }

    // --- implementation-only: every format, files built in `run` from the seed
    let mut file_case = |w: &mut CaseWriter, fmt: &str, p: u64, q: u64, rng: &mut Rng| {
        w.push("file", vec![fmt.into(), rng.next().to_string(), p.to_string(), q.to_string()]);
    };
    for i in 0..(6 * scale) {
        // bgzf: small (every cut) and large (several full blocks)
        let p = if i % 3 == 2 { rng.range(70000, 200000) } else { rng.range(0, 3000) };
        file_case(w, "bgzf", p, 4, rng);
    }
    for i in 0..(8 * scale) {
        let (p, q) = match i % 4 {
            0 => (1, 0),
            1 => (rng.range(2, 30), rng.range(1, 4)),
            2 => (rng.range(2, 12), 0),
            _ => (rng.range(2, 30), rng.range(0, 7)),
        };
        file_case(w, "bam", p, q, rng);
        file_case(w, "bcf", p, q, rng);
        file_case(w, "vcfgz", p, q, rng);
        file_case(w, "samgz", p, q, rng);
    }
    for i in 0..(8 * scale) {
        let (p, q) = match i % 4 {
            0 => (1, 0),
            1 => (rng.range(2, 9), rng.range(1, 3)),
            2 => (rng.range(3, 12), rng.range(1, 4)),
            _ => (rng.range(1, 30), 0),
        };
        file_case(w, "cram", p, q, rng);
    }
    for _ in 0..(6 * scale) {
        for fmt in ["bai", "csi", "tabix", "gzi", "fai", "crai"] {
            file_case(w, fmt, 0, 0, rng);
        }
    }
}

fn main() {
    nv::main_with(generate, run)
}
