//! C08: CRAM codecs and integer codings decode exactly what was encoded.
//!
//! Modelled kinds (obs compared byte for byte with the extracted Coq model):
//!   itf8  n            -> hex(write_itf8 n)                     verdict: read(write n ++ AA) = (n, len)
//!   ltf8  n            -> hex(write_ltf8 n)
//!   u7    n            -> hex(write_uint7 n)
//!   itf8r hex          -> "<value> <consumed>" | Err:<kind>     (reader on arbitrary bytes)
//!   ltf8r hex / u7r hex
//!   isweep which mode a b -> "<count> <digest of all encoded bytes>"   verdict: every value round trips
//!        mode = range (all integers a..=b) | smix (b SplitMix64 values from seed a) | pow2 (2^k +- a, all k)
//!   r4    order src    -> hex(real rANS 4x8 encoding) (or len:digest when long)
//!                         verdict: decode(encode src) = src     (model: the Gallina encoder, order 0)
//!   r4d   order src enc-> hex(decode enc); enc is the REAL encoder's output computed at generation time;
//!                         the model runs the INDEPENDENT (specification) decoder on the same bytes
//!   nfe   flags src    -> hex(real rANS Nx16 stream) for EVERY flag byte (STRIPE, CAT, ORDER-0 or ORDER-1
//!                         entropy coded, N = 4 | 32); model: Nx16Stripe.nx_encode_s; verdict: self round trip
//!   nfd   flags usize stream expect -> hex(decode stream) | Err | Panic; model: Nx16Cap.nx_decode_s_capped = Nx16Stripe.nx_decode_s with hostile-size guards (noodles'
//!                         decoder incl. the order-0/1 entropy decoders, entropy-coded RLE meta-data and
//!                         entropy-coded order-1 tables)
//!   aae   flags src    -> hex(real adaptive-arithmetic-coder stream) for every flag byte without EXT,
//!                         model: AacRle.aac_encode_r (range coder, adaptive models, order 0/1, RLE, PACK, CAT, STRIPE)
//!   aad   flags usize stream expect -> hex(decode stream) | Err | Panic; model: AacCap.aac_decode_r_capped (= AacRle.aac_decode_r below the cap)
//!   fqe   lens src     -> hex(real fqzcomp stream); model: Fqz.fqz_encode; verdict: self round trip
//!   fqq   stream expect -> as fqd; model: FqzQmap.fqz_decode_qm (decoder-only feature HAVE_QMAP: real encoder streams
//!         rebuilt with the flag bit, a quality map of max_symbol bytes and the size field cut before the last symbol)
//!   fqd   stream expect -> hex(decode stream) | Err | Panic; model: FqzCap.fqz_decode_capped (= Fqz.fqz_decode below the cap; streams without the features
//!                         the encoder never uses)
//!   nme   src          -> hex(real name tokenizer stream); model: Names.names_encode; verdict: self round trip
//!   nmd   stream expect -> hex(decode stream) | Err | Panic; model: NamesCap.names_decode_capped (= Names.names_decode below the cap)
//!   HOSTILE STREAMS (same kinds nfd / aad / fqd / nmd, expect = "-"): flag bytes, declared sizes, compressed
//!                         sizes, symbol / chunk counts, PACK tables, order-1 table headers, fqzcomp parameter bytes and
//!                         name tokenizer header / token-type bytes of real streams are corrupted (1..3 fields; every
//!                         output size the decoder would allocate kept <= 2^20, see shared/c08_hostile.rs); the models
//!                         are the CAPPED decoders NV.Cram.{Nx16Cap,AacCap,FqzCap,NamesCap} (cap 2^22, obs `Capped`
//!                         above it -- never produced by a generated case)
//! Implementation-only oracles (obs "-"):
//!   nx16 flags src | aac flags src | fqz lens src | names src | gz level src | bz2 level src | xz level src
//!   big codec param shape len seed     (input built inside `run`; > 1 MiB inputs and the witnesses of
//!                                       the repaired normalisation defects)
//!
//! The check describes the REPAIRED code (fix series 01..16): there is no known-finding class left;
//! every round-trip failure is a new failure.  The only input-derived guard kept is a safety one: an
//! input on which an encoder WITHOUT the normalisation repair would loop forever is executed only
//! after a probe input (which such an encoder rejects with a panic) has passed.

use noodles_cram::codecs::{aac, rans_4x8::Order, rans_nx16};
use noodles_cram::verif as v;
use nv::{Case, CaseWriter, Obs, Outcome, Rng, errkind, guarded, hex};
use std::io;
use std::panic::AssertUnwindSafe;

#[path = "../shared/c08_hostile.rs"]
mod c08_hostile;
use c08_hostile::{Fam, LIMIT, hostile};

const MASK: u64 = (1 << 62) - 1;
fn mix(h: u64, x: u64) -> u64 {
    h.wrapping_mul(1_000_003).wrapping_add(x).wrapping_add(1) & MASK
}

// -------------------------------------------------------------------------------------------
// integer codings

fn w_itf8(n: i32) -> Vec<u8> {
    let mut b = Vec::new();
    v::write_itf8(&mut b, n).unwrap();
    b
}
fn w_ltf8(n: i64) -> Vec<u8> {
    let mut b = Vec::new();
    v::write_ltf8(&mut b, n).unwrap();
    b
}
fn w_u7(n: u32) -> Vec<u8> {
    let mut b = Vec::new();
    v::write_uint7(&mut b, n).unwrap();
    b
}

fn itf8_size(n: i32) -> usize {
    let u = n as u32;
    if u < 1 << 7 { 1 } else if u < 1 << 14 { 2 } else if u < 1 << 21 { 3 } else if u < 1 << 28 { 4 } else { 5 }
}
fn ltf8_size(n: i64) -> usize {
    let u = n as u64;
    for k in 1..=8u32 {
        if u < 1u64 << (7 * k) {
            return k as usize;
        }
    }
    9
}
fn u7_size(n: u32) -> usize {
    let mut k = 1;
    let mut m = n >> 7;
    while m > 0 {
        k += 1;
        m >>= 7;
    }
    k
}

/// Some(tag, detail) when value `n` does not round trip
fn check_itf8(n: i32) -> Result<Vec<u8>, String> {
    let enc = w_itf8(n);
    let mut buf = enc.clone();
    buf.push(0xAA);
    let mut r = &buf[..];
    match v::read_itf8(&mut r) {
        Ok(m) if m == n && r.len() == 1 && enc.len() == itf8_size(n) => Ok(enc),
        Ok(m) => Err(format!("n={n} enc={} read={m} left={} size={}", hex(&enc), r.len(), itf8_size(n))),
        Err(e) => Err(format!("n={n} enc={} read=Err:{}", hex(&enc), errkind(&e))),
    }
}
fn check_ltf8(n: i64) -> Result<Vec<u8>, String> {
    let enc = w_ltf8(n);
    let mut buf = enc.clone();
    buf.push(0xAA);
    let mut r = &buf[..];
    match v::read_ltf8(&mut r) {
        Ok(m) if m == n && r.len() == 1 && enc.len() == ltf8_size(n) => Ok(enc),
        Ok(m) => Err(format!("n={n} enc={} read={m} left={} size={}", hex(&enc), r.len(), ltf8_size(n))),
        Err(e) => Err(format!("n={n} enc={} read=Err:{}", hex(&enc), errkind(&e))),
    }
}
fn check_u7(n: u32) -> Result<Vec<u8>, String> {
    let enc = w_u7(n);
    let mut buf = enc.clone();
    buf.push(0xAA);
    let mut r = &buf[..];
    match v::read_uint7(&mut r) {
        Ok(m) if m == n && r.len() == 1 && enc.len() == u7_size(n) => Ok(enc),
        Ok(m) => Err(format!("n={n} enc={} read={m} left={} size={}", hex(&enc), r.len(), u7_size(n))),
        Err(e) => Err(format!("n={n} enc={} read=Err:{}", hex(&enc), errkind(&e))),
    }
}

fn int_case(c: &Case) -> Obs {
    let r = match c.kind.as_str() {
        "itf8" => check_itf8(c.i(0) as i32),
        "ltf8" => check_ltf8(c.i(0)),
        _ => check_u7(c.u(0) as u32),
    };
    match r {
        Ok(enc) => Obs::ok(hex(&enc), true),
        Err(d) => {
            let enc = match c.kind.as_str() {
                "itf8" => w_itf8(c.i(0) as i32),
                "ltf8" => w_ltf8(c.i(0)),
                _ => w_u7(c.u(0) as u32),
            };
            Obs::fail(hex(&enc), &format!("{}-roundtrip", c.kind), d)
        }
    }
}

fn read_case(c: &Case) -> Obs {
    let bytes = c.b(0);
    let mut r = &bytes[..];
    let res: io::Result<String> = match c.kind.as_str() {
        "itf8r" => v::read_itf8(&mut r).map(|n| n.to_string()),
        "ltf8r" => v::read_ltf8(&mut r).map(|n| n.to_string()),
        _ => v::read_uint7(&mut r).map(|n| n.to_string()),
    };
    match res {
        Ok(s) => Obs::ok(format!("{s} {}", bytes.len() - r.len()), true),
        Err(e) => Obs::ok(format!("Err:{}", errkind(&e)), true),
    }
}

/// the values of a sweep, in order
fn sweep_values(which: &str, mode: &str, a: i64, b: i64, mut f: impl FnMut(i64)) {
    let (bits, signed) = match which {
        "itf8" => (32, true),
        "ltf8" => (64, true),
        _ => (32, false),
    };
    let clamp = |x: i128| -> i64 {
        // wrap into the type's range (two's complement)
        if bits == 64 {
            x as i64
        } else if signed {
            (x as i64) as i32 as i64
        } else {
            ((x as i64) as u32) as i64
        }
    };
    match mode {
        "range" => {
            let mut x = a;
            loop {
                f(x);
                if x == b {
                    break;
                }
                x += 1;
            }
        }
        "smix" => {
            let mut rng = Rng(a as u64);
            for _ in 0..b {
                let r = rng.next();
                // vary the magnitude: keep a random number of low bits
                let keep = 1 + (rng.next() % bits as u64) as u32;
                let r = if keep >= 64 { r } else { r & ((1u64 << keep) - 1) };
                let r = if signed && rng.next() & 1 == 1 { !r } else { r };
                f(clamp(r as i64 as i128));
            }
        }
        _ => {
            // pow2: 2^k + d and -(2^k) + d for |d| <= a, all k
            for k in 0..bits as u32 {
                for d in -a..=a {
                    let p = 1i128 << k;
                    f(clamp(p + d as i128));
                    if signed {
                        f(clamp(-p + d as i128));
                    }
                }
            }
        }
    }
}

fn sweep_case(c: &Case) -> Obs {
    let which = c.args[0].as_str();
    let mode = c.args[1].as_str();
    let (a, b) = (c.i(2), c.i(3));
    let mut h = 0u64;
    let mut n = 0u64;
    let mut first: Option<String> = None;
    sweep_values(which, mode, a, b, |x| {
        let r = match which {
            "itf8" => check_itf8(x as i32),
            "ltf8" => check_ltf8(x),
            _ => check_u7(x as u32),
        };
        let enc = match r {
            Ok(e) => e,
            Err(d) => {
                if first.is_none() {
                    first = Some(d);
                }
                match which {
                    "itf8" => w_itf8(x as i32),
                    "ltf8" => w_ltf8(x),
                    _ => w_u7(x as u32),
                }
            }
        };
        for &byte in &enc {
            h = mix(h, byte as u64);
        }
        h = mix(h, 256);
        n += 1;
    });
    let obs = format!("{n} {h}");
    match first {
        None => Obs::ok(obs, true),
        Some(d) => Obs::fail(obs, &format!("{which}-roundtrip"), d),
    }
}

// -------------------------------------------------------------------------------------------
// rANS 4x8

/// count rows as the encoder's normalize_frequencies sees them (only used to guard the witnesses of
/// the former non-terminating normalisation, see `normaliser_repaired`)
fn o0_counts(src: &[u8]) -> [u64; 256] {
    let mut c = [0u64; 256];
    for &b in src {
        c[b as usize] += 1;
    }
    c
}

/// true iff the old correction (`freq[max] -= excess`) would leave frequency 0 for the most frequent
/// symbol of this row when normalising to `total`: an encoder WITHOUT the repair never terminates on it
fn old_correction_zeroes_max(raw: &[u64; 256], total: u64) -> bool {
    let sum: u64 = raw.iter().sum();
    if sum == 0 {
        return false;
    }
    let (mut max, mut mi) = (0, 0);
    for (i, &f) in raw.iter().enumerate() {
        if f >= max {
            max = f;
            mi = i;
        }
    }
    let nf: Vec<u64> = raw.iter().map(|&f| if f == 0 { 0 } else { (f * total / sum).max(1) }).collect();
    let nsum: u64 = nf.iter().sum();
    nsum > total && nf[mi] == nsum - total
}

/// Safety probe, not an oracle: the DESIGN F8b input makes an encoder without the normalisation
/// repair panic immediately.  Inputs on which such an encoder would loop forever (allocating
/// without bound) are only executed when the probe passes.
fn normaliser_repaired() -> bool {
    use std::sync::OnceLock;
    static OK: OnceLock<bool> = OnceLock::new();
    *OK.get_or_init(|| {
        let mut rng = Rng(0);
        let w = shaped(&mut rng, "f8b", 0);
        matches!(guarded(AssertUnwindSafe(|| v::rans_4x8_encode(Order::Zero, &w))), Outcome::Done(Ok(_)))
            && {
                let w = shaped(&mut rng, "nx16under", 0);
                matches!(guarded(AssertUnwindSafe(|| v::rans_nx16_encode(rans_nx16::Flags::from(0), &w))), Outcome::Done(Ok(_)))
            }
    })
}

fn order_of(o: u64) -> Order {
    if o == 0 { Order::Zero } else { Order::One }
}

fn long_obs(b: &[u8]) -> String {
    if b.len() <= 6000 {
        hex(b)
    } else {
        let mut h = 0u64;
        for &x in b {
            h = mix(h, x as u64);
        }
        format!("{}:{h}", b.len())
    }
}

/// generic self round trip: returns (obs of encoding, verdict)
fn roundtrip(
    what: &str,
    src: &[u8],
    enc: impl FnOnce() -> io::Result<Vec<u8>>,
    dec: impl FnOnce(&[u8]) -> io::Result<Vec<u8>>,
    want_obs: bool,
) -> Obs {
    let tag = |cause: &str| format!("{what}-{cause}");
    let e = match guarded(AssertUnwindSafe(enc)) {
        Outcome::Done(Ok(e)) => e,
        Outcome::Done(Err(e)) => {
            let o = format!("Err:{}", errkind(&e));
            return Obs::fail(if want_obs { o.clone() } else { "-".into() }, &tag("encode-error"), format!("{o} len={}", src.len()));
        }
        Outcome::Panicked(m) => {
            return Obs::fail(if want_obs { "Panic" } else { "-" }, &tag("encode-panic"), format!("{m} len={}", src.len()));
        }
    };
    let obs = if want_obs { long_obs(&e) } else { "-".to_string() };
    match guarded(AssertUnwindSafe(|| dec(&e))) {
        Outcome::Done(Ok(d)) if d == src => Obs::ok(obs, !src.is_empty()),
        Outcome::Done(Ok(d)) => {
            let at = d.iter().zip(src).position(|(a, b)| a != b).unwrap_or(d.len().min(src.len()));
            Obs::fail(obs, &tag("decode-mismatch"), format!("len={} decoded_len={} first_diff_at={at}", src.len(), d.len()))
        }
        Outcome::Done(Err(e)) => Obs::fail(obs, &tag("decode-error"), format!("Err:{} len={}", errkind(&e), src.len())),
        Outcome::Panicked(m) => Obs::fail(obs, &tag("decode-panic"), format!("{m} len={}", src.len())),
    }
}

fn r4_case(order: u64, src: &[u8], want_obs: bool) -> Obs {
    let what = if order == 0 { "rans4x8-o0" } else { "rans4x8-o1" };
    if order == 1 && src.len() < 4 {
        // the specification forbids order-1 on fewer than 4 bytes; the encoder must refuse
        return match guarded(AssertUnwindSafe(|| v::rans_4x8_encode(Order::One, src))) {
            Outcome::Done(Err(e)) if e.kind() == io::ErrorKind::InvalidInput => {
                Obs { obs: if want_obs { "Err:InvalidInput".into() } else { "-".into() }, verdict: "ok".into(), nontrivial: false }
            }
            _ => Obs::fail("-", "rans4x8-o1-short-not-refused", format!("len={}", src.len())),
        };
    }
    if old_correction_zeroes_max(&o0_counts(src), 4095) && !normaliser_repaired() {
        return Obs::fail(if want_obs { "Diverges" } else { "-" }, "rans4x8-normalize-zero-max", "not executed: this encoder lacks the normalisation repair (probe input panicked) and would never terminate");
    }
    roundtrip(what, src, || v::rans_4x8_encode(order_of(order), src), |e| v::rans_4x8_decode(e), want_obs)
}

fn r4d_case(c: &Case) -> Obs {
    let order = c.u(0);
    let src = c.b(1);
    let enc = c.b(2);
    // the stream in the case must be what the encoder produces now
    let now = guarded(AssertUnwindSafe(|| v::rans_4x8_encode(order_of(order), &src)));
    let same = matches!(&now, Outcome::Done(Ok(e)) if *e == enc);
    let tag = |cause: &str| format!("rans4x8-o{order}-{cause}");
    match guarded(AssertUnwindSafe(|| v::rans_4x8_decode(&enc))) {
        Outcome::Done(Ok(d)) => {
            let obs = long_obs(&d);
            if d != src {
                Obs::fail(obs, &tag("decode-mismatch"), format!("len={}", src.len()))
            } else if !same {
                Obs::fail(obs, "rans4x8-encoder-not-deterministic", format!("len={}", src.len()))
            } else {
                Obs::ok(obs, true)
            }
        }
        Outcome::Done(Err(e)) => Obs::fail("Err", &tag("decode-error"), format!("Err:{} len={}", errkind(&e), src.len())),
        Outcome::Panicked(m) => Obs::fail("Panic", &tag("decode-panic"), m),
    }
}

// -------------------------------------------------------------------------------------------
// the other codecs (implementation-side oracle only)

fn nx16_case(flags: u8, src: &[u8]) -> Obs {
    let f = rans_nx16::Flags::from(flags);
    let n = src.len();
    if flags & 0x29 == 0 && flags & 0xc0 == 0 && old_correction_zeroes_max(&o0_counts(src), 4096) && !normaliser_repaired() {
        return Obs::fail("-", "nx16-normalize-zero-max", "not executed: this encoder lacks the normalisation repair (probe input panicked) and would never terminate");
    }
    roundtrip(&format!("nx16-f{flags:02x}"), src, || v::rans_nx16_encode(f, src), |e| v::rans_nx16_decode(e, n), false)
}

/// nxe: the real encoder's whole stream when the entropy stage is bypassed (CAT in the emitted
/// flag byte), else which stage the data went to; verdict = self round trip
fn nxe_case(flags: u8, src: &[u8]) -> Obs {
    let f = rans_nx16::Flags::from(flags);
    let n = src.len();
    let what = format!("nx16-xform-f{flags:02x}");
    let enc = match guarded(AssertUnwindSafe(|| v::rans_nx16_encode(f, src))) {
        Outcome::Done(Ok(e)) => e,
        Outcome::Done(Err(e)) => return Obs::fail("Err", &format!("{what}-encode-error"), format!("Err:{} len={n}", errkind(&e))),
        Outcome::Panicked(m) => return Obs::fail("Panic", &format!("{what}-encode-panic"), format!("{m} len={n}")),
    };
    let obs = if flags & 0x08 != 0 {
        "stripe".to_string()
    } else if enc.first().is_some_and(|b| b & 0x20 != 0) {
        long_obs(&enc)
    } else {
        "entropy".to_string()
    };
    match guarded(AssertUnwindSafe(|| v::rans_nx16_decode(&enc, n))) {
        Outcome::Done(Ok(d)) if d == src => Obs::ok(obs, !src.is_empty()),
        Outcome::Done(Ok(d)) => Obs::fail(obs, &format!("{what}-decode-mismatch"), format!("len={n} decoded_len={}", d.len())),
        Outcome::Done(Err(e)) => Obs::fail(obs, &format!("{what}-decode-error"), format!("Err:{} len={n}", errkind(&e))),
        Outcome::Panicked(m) => Obs::fail(obs, &format!("{what}-decode-panic"), format!("{m} len={n}")),
    }
}

/// nfe: the real encoder's whole stream unless the order-1 coder (or STRIPE) was used
fn nfe_case(flags: u8, src: &[u8]) -> Obs {
    let f = rans_nx16::Flags::from(flags);
    let n = src.len();
    let what = format!("nx16-f{flags:02x}");
    if flags & 0x29 == 0 && flags & 0xc0 == 0 && old_correction_zeroes_max(&o0_counts(src), 4096) && !normaliser_repaired() {
        return Obs::fail("Diverges", "nx16-normalize-zero-max", "not executed: this encoder lacks the normalisation repair (probe input panicked) and would never terminate");
    }
    let enc = match guarded(AssertUnwindSafe(|| v::rans_nx16_encode(f, src))) {
        Outcome::Done(Ok(e)) => e,
        Outcome::Done(Err(e)) => return Obs::fail("Err", &format!("{what}-encode-error"), format!("Err:{} len={n}", errkind(&e))),
        Outcome::Panicked(m) => return Obs::fail("Panic", &format!("{what}-encode-panic"), format!("{m} len={n}")),
    };
    let obs = long_obs(&enc);
    match guarded(AssertUnwindSafe(|| v::rans_nx16_decode(&enc, n))) {
        Outcome::Done(Ok(d)) if d == src => Obs::ok(obs, !src.is_empty()),
        Outcome::Done(Ok(d)) => Obs::fail(obs, &format!("{what}-decode-mismatch"), format!("len={n} decoded_len={}", d.len())),
        Outcome::Done(Err(e)) => Obs::fail(obs, &format!("{what}-decode-error"), format!("Err:{} len={n}", errkind(&e))),
        Outcome::Panicked(m) => Obs::fail(obs, &format!("{what}-decode-panic"), format!("{m} len={n}")),
    }
}

/// length of an uncompressed order-1 frequency table (alphabet + the rows of its contexts) at the
/// start of `b`, following the layout of the format; used only to cut test streams
fn o1_table_len(b: &[u8]) -> Option<usize> {
    let mut alpha = [false; 256];
    let mut p = 0usize;
    let mut sym = *b.get(p)?;
    p += 1;
    let mut prev = sym;
    loop {
        alpha[sym as usize] = true;
        sym = *b.get(p)?;
        p += 1;
        if sym == 0 {
            break;
        }
        if sym - 1 == prev {
            let len = *b.get(p)?;
            p += 1;
            for _ in 0..len {
                alpha[sym as usize] = true;
                sym = sym.checked_add(1)?;
            }
        }
        prev = sym;
    }
    let n = alpha.iter().filter(|a| **a).count();
    for _ in 0..n {
        let mut j = 0;
        while j < n {
            let mut f = 0u32;
            loop {
                let x = *b.get(p)?;
                p += 1;
                f = (f << 7) | (x & 0x7f) as u32;
                if x & 0x80 == 0 {
                    break;
                }
            }
            j += 1;
            if f == 0 {
                let k = *b.get(p)? as usize;
                p += 1;
                j += k;
            }
        }
    }
    Some(p)
}

/// offset of the data stage (CAT payload / entropy-coded body) of an Nx16 or AAC stream: after the
/// flag byte, the size field, the PACK context and (Nx16 only) the RLE context; None for STRIPE
/// or a malformed header.  Test streams are corrupted only from here on, so that every declared
/// size stays what the encoder wrote.
fn body_start(enc: &[u8], with_rle_ctx: bool) -> Option<usize> {
    fn u7(b: &[u8], p: &mut usize) -> Option<u32> {
        let mut n = 0u32;
        loop {
            let x = *b.get(*p)?;
            *p += 1;
            n = (n << 7) | (x & 0x7f) as u32;
            if x & 0x80 == 0 {
                return Some(n);
            }
        }
    }
    let f = *enc.first()?;
    let mut p = 1usize;
    if f & 0x08 != 0 {
        return None;
    }
    if f & 0x10 == 0 {
        u7(enc, &mut p)?;
    }
    if f & 0x80 != 0 {
        let nsym = *enc.get(p)? as usize;
        p += 1 + nsym;
        u7(enc, &mut p)?;
    }
    if with_rle_ctx && f & 0x40 != 0 {
        let n = u7(enc, &mut p)?;
        u7(enc, &mut p)?;
        if n & 1 == 1 {
            p += (n >> 1) as usize;
        } else {
            let c = u7(enc, &mut p)?;
            p += c as usize;
        }
    }
    (p <= enc.len()).then_some(p)
}

/// nxd: the real decoder on a stream (the encoder's, or a truncation of it); `expect` = the
/// input the stream was made from ("-" for truncated streams, where only the observation counts)
fn nxd_case(c: &Case) -> Obs {
    let flags = c.u(0) as u8;
    let usize_ = c.u(1) as usize;
    let stream = c.b(2);
    let expect = if c.args[3] == "-" { None } else { Some(c.b(3)) };
    match guarded(AssertUnwindSafe(|| v::rans_nx16_decode(&stream, usize_))) {
        Outcome::Done(Ok(d)) => {
            let obs = long_obs(&d);
            match expect {
                Some(e) if e != d => Obs::fail(obs, &format!("nx16-xform-f{flags:02x}-decode-mismatch"), format!("len={}", e.len())),
                Some(e) => Obs::ok(obs, !e.is_empty()),
                None => Obs::ok(obs, false),
            }
        }
        Outcome::Done(Err(e)) => match expect {
            Some(x) => Obs::fail("Err", &format!("nx16-xform-f{flags:02x}-decode-error"), format!("Err:{} len={}", errkind(&e), x.len())),
            None => Obs::ok("Err", false),
        },
        Outcome::Panicked(m) => match expect {
            Some(x) => Obs::fail("Panic", &format!("nx16-xform-f{flags:02x}-decode-panic"), format!("{m} len={}", x.len())),
            None => Obs::ok("Panic", false),
        },
    }
}

/// inputs for the transform cases: pack width classes (1, 2, 3..4, 5..16, 17+ symbols), runs of
/// symbols inside and outside the RLE alphabet, every symbol with runs (RLE symbol count 0),
/// lengths around the 4/32 state counts and the uint7 byte boundaries
fn nxx_inputs(rng: &mut Rng, thorough: bool) -> Vec<Vec<u8>> {
    let mut v: Vec<Vec<u8>> = vec![vec![], vec![5], vec![5, 5], vec![1, 2], vec![3, 3, 3], vec![1, 2, 3, 4], vec![7; 4], vec![7; 31], vec![7; 32], vec![7; 33], vec![0; 200], vec![255; 130]];
    let runs = |rng: &mut Rng, syms: &[u8], n: usize, maxrun: u64| -> Vec<u8> {
        let mut o = Vec::new();
        while o.len() < n {
            let s = *rng.pick(syms);
            let r = 1 + rng.below(maxrun) as usize;
            o.extend(std::iter::repeat(s).take(r.min(n - o.len())));
        }
        o
    };
    let reps = if thorough { 6 } else { 1 };
    for _ in 0..reps {
        for nsym in [2usize, 3, 4, 5, 9, 16, 17, 40] {
            let base = *rng.pick(&[0u8, 1, 100, 200]);
            let syms: Vec<u8> = (0..nsym).map(|i| base.wrapping_add((i * 3) as u8)).collect();
            let n = rng.range(1, 300) as usize;
            v.push((0..n).map(|_| *rng.pick(&syms)).collect());
            let rn = rng.range(1, 400) as usize;
            v.push(runs(rng, &syms, rn, 9));
        }
        // lengths around the state counts after packing / run-length coding
        for n in [3usize, 4, 5, 7, 8, 9, 15, 16, 17, 31, 32, 33, 63, 64, 65, 127, 128, 129, 255, 256, 257] {
            let syms: Vec<u8> = (0..rng.range(1, 5) as u8).map(|i| 60 + i).collect();
            v.push((0..n).map(|_| *rng.pick(&syms)).collect());
        }
        // runs longer than 127 / 16383 (multi-byte run lengths), mixed with singletons
        v.push(runs(rng, &[1, 2, 3], 1500, 400));
        v.push(runs(rng, &[9, 200], 40_000, 20_000));
        // every symbol in the RLE alphabet (symbol count byte 0) and almost every symbol
        v.push((0..=255u8).flat_map(|s| std::iter::repeat(s).take(3)).collect());
        v.push((0..=254u8).flat_map(|s| std::iter::repeat(s).take(2 + (s as usize % 3))).collect());
        // literal stream crossing a uint7 boundary
        v.push(rng.bytes(16_400));
        v.push((0..16_500usize).map(|i| if i % 2 == 0 { 4 } else { 5 + (rng.below(3) as u8) }).collect());
    }
    v
}

/// aae: the real AAC encoder's whole stream (flags within NO_SIZE | CAT | PACK: order 0)
fn aae_case(flags: u8, src: &[u8]) -> Obs {
    let f = aac::Flags::from(flags);
    let n = src.len();
    roundtrip(&format!("aac-f{flags:02x}"), src, || v::aac_encode(f, src), |e| v::aac_decode(e, n), true)
}

/// aad: the real AAC decoder on a stream (the encoder's, a truncation, a corruption)
fn aad_case(c: &Case) -> Obs {
    let flags = c.u(0) as u8;
    let usize_ = c.u(1) as usize;
    let stream = c.b(2);
    let expect = if c.args[3] == "-" { None } else { Some(c.b(3)) };
    match guarded(AssertUnwindSafe(|| v::aac_decode(&stream, usize_))) {
        Outcome::Done(Ok(d)) => {
            let obs = long_obs(&d);
            match expect {
                Some(e) if e != d => Obs::fail(obs, &format!("aac-f{flags:02x}-decode-mismatch"), format!("len={}", e.len())),
                Some(e) => Obs::ok(obs, !e.is_empty()),
                None => Obs::ok(obs, false),
            }
        }
        Outcome::Done(Err(e)) => match expect {
            Some(x) => Obs::fail("Err", &format!("aac-f{flags:02x}-decode-error"), format!("Err:{} len={}", errkind(&e), x.len())),
            None => Obs::ok("Err", false),
        },
        Outcome::Panicked(m) => match expect {
            Some(x) => Obs::fail("Panic", &format!("aac-f{flags:02x}-decode-panic"), format!("{m} len={}", x.len())),
            None => Obs::ok("Panic", false),
        },
    }
}

fn aac_case(flags: u8, src: &[u8]) -> Obs {
    let f = aac::Flags::from(flags);
    let n = src.len();
    roundtrip(&format!("aac-f{flags:02x}"), src, || v::aac_encode(f, src), |e| v::aac_decode(e, n), false)
}

fn fqz_case(lens: &[usize], src: &[u8]) -> Obs {
    roundtrip("fqzcomp", src, || v::fqzcomp_encode(lens, src), |e| v::fqzcomp_decode(e), false)
}

fn fqe_case(lens: &[usize], src: &[u8]) -> Obs {
    roundtrip("fqzcomp", src, || v::fqzcomp_encode(lens, src), |e| v::fqzcomp_decode(e), true)
}

fn fqd_case(c: &Case) -> Obs {
    let stream = c.b(0);
    let expect = if c.args[1] == "-" { None } else { Some(c.b(1)) };
    match guarded(AssertUnwindSafe(|| v::fqzcomp_decode(&stream))) {
        Outcome::Done(Ok(d)) => {
            let obs = long_obs(&d);
            match expect {
                Some(e) if e != d => Obs::fail(obs, "fqzcomp-decode-mismatch", format!("len={}", e.len())),
                Some(e) => Obs::ok(obs, !e.is_empty()),
                None => Obs::ok(obs, false),
            }
        }
        Outcome::Done(Err(e)) => match expect {
            Some(x) => Obs::fail("Err", "fqzcomp-decode-error", format!("Err:{} len={}", errkind(&e), x.len())),
            None => Obs::ok("Err", false),
        },
        Outcome::Panicked(m) => match expect {
            Some(x) => Obs::fail("Panic", "fqzcomp-decode-panic", format!("{m} len={}", x.len())),
            None => Obs::ok("Panic", false),
        },
    }
}

/// former finding class `names-plus-sign-number-in-126th-token` (repaired by /repo fc00545; the tag is
/// kept so that a recurrence is reported under its own name as a NEW failure): a name with at least 126 tokens
/// (maximal runs of ASCII-alphanumeric / other bytes) whose 126th token -- the unsplit remainder --
/// is '+' followed only by digits: the encoder's lexical_core::parse::<u32> accepts the sign, so
/// the token is stored as a number and the '+' (and leading zeros) are lost.
fn names_plus_class(src: &[u8]) -> bool {
    let body = src.strip_suffix(&[0]).unwrap_or(src);
    body.split(|&b| b == 0).any(|name| {
        let mut pos = 0usize;
        let mut count = 0usize;
        while pos < name.len() {
            count += 1;
            if count == 126 {
                let rest = &name[pos..];
                return rest.len() >= 2 && rest[0] == b'+' && rest[1..].iter().all(u8::is_ascii_digit);
            }
            let alnum = name[pos].is_ascii_alphanumeric();
            while pos < name.len() && name[pos].is_ascii_alphanumeric() == alnum {
                pos += 1;
            }
        }
        false
    })
}

fn names_roundtrip(src: &[u8], want_obs: bool) -> Obs {
    let mut o = roundtrip("names", src, || v::name_tokenizer_encode(src), |e| v::name_tokenizer_decode(e), want_obs);
    if o.verdict.starts_with("fail names-decode-mismatch") && names_plus_class(src) {
        o.verdict = o.verdict.replacen("names-decode-mismatch", "names-plus-sign-number-in-126th-token", 1);
    }
    o
}

fn nme_case(src: &[u8]) -> Obs {
    names_roundtrip(src, true)
}

fn nmd_case(c: &Case) -> Obs {
    let stream = c.b(0);
    let expect = if c.args[1] == "-" { None } else { Some(c.b(1)) };
    match guarded(AssertUnwindSafe(|| v::name_tokenizer_decode(&stream))) {
        Outcome::Done(Ok(d)) => {
            let obs = long_obs(&d);
            match expect {
                Some(e) if e != d => Obs::fail(obs, "names-decode-mismatch", format!("len={}", e.len())),
                Some(e) => Obs::ok(obs, !e.is_empty()),
                None => Obs::ok(obs, false),
            }
        }
        Outcome::Done(Err(e)) => match expect {
            Some(x) => Obs::fail("Err", "names-decode-error", format!("Err:{} len={}", errkind(&e), x.len())),
            None => Obs::ok("Err", false),
        },
        Outcome::Panicked(m) => match expect {
            Some(x) => Obs::fail("Panic", "names-decode-panic", format!("{m} len={}", x.len())),
            None => Obs::ok("Panic", false),
        },
    }
}

fn names_case(src: &[u8]) -> Obs {
    names_roundtrip(src, false)
}

fn ext_case(kind: &str, level: u32, src: &[u8]) -> Obs {
    let n = src.len();
    match kind {
        "gz" => roundtrip("gzip", src, || v::gzip_encode(level, src), |e| { let mut d = vec![0; n]; v::gzip_decode(e, &mut d)?; Ok(d) }, false),
        "bz2" => roundtrip("bzip2", src, || v::bzip2_encode(level, src), |e| { let mut d = vec![0; n]; v::bzip2_decode(e, &mut d)?; Ok(d) }, false),
        _ => roundtrip("lzma", src, || v::lzma_encode(level, src), |e| { let mut d = vec![0; n]; v::lzma_decode(e, &mut d)?; Ok(d) }, false),
    }
}

// -------------------------------------------------------------------------------------------
// input shapes

const SHAPES: &[&str] = &["uniform", "single", "two", "skewed", "runs", "all256", "ascii", "qual", "dominant", "lowhigh", "ramp"];

fn shaped(rng: &mut Rng, shape: &str, len: usize) -> Vec<u8> {
    match shape {
        "uniform" => rng.bytes(len),
        "f8" => vec![65u8; 1_048_833],
        "f8ok" => vec![65u8; 1_048_832],
        "zmax4x8" => {
            // 41 symbols x 372 + 135 symbols x 1: the old correction left frequency 0 for the maximum (4095)
            let mut v = Vec::new();
            for s in 0..41u8 {
                v.extend(std::iter::repeat(s).take(372));
            }
            v.extend(41..176u8);
            v
        }
        "under4x8" => {
            // 100 symbols x 66 + 156 symbols x 1: scaled sum 4156, excess 61 > 40 = share of the maximum
            let mut v = Vec::new();
            for s in 0..100u8 {
                v.extend(std::iter::repeat(s).take(66));
            }
            v.extend(100..=255u8);
            v
        }
        "zmaxnx16" => {
            // 41 symbols x 364 + 136 symbols x 1: the same for the Nx16 normalisation (4096)
            let mut v = Vec::new();
            for s in 0..41u8 {
                v.extend(std::iter::repeat(s).take(364));
            }
            v.extend(41..177u8);
            v
        }
        "nx16under" => {
            // symbols 0..=172 once, 173..=255 390 times each: the old Nx16 correction underflowed
            let mut v: Vec<u8> = (0..=172u8).collect();
            for s in 173..=255u8 {
                v.extend(std::iter::repeat(s).take(390));
            }
            v
        }
        "f8b" => {
            // DESIGN F8b: 127 symbols x 4128, one x 3871, 128 symbols x 1 (528,255 bytes)
            let mut v = Vec::with_capacity(528_255);
            for s in 0..127u8 {
                v.extend(std::iter::repeat(s).take(4128));
            }
            v.extend(std::iter::repeat(127u8).take(3871));
            for s in 128..=255u8 {
                v.push(s);
            }
            v
        }
        "single" => {
            let s = *rng.pick(&[0u8, 1, 2, 65, 127, 128, 254, 255]);
            vec![s; len]
        }
        "two" => {
            let a = rng.next() as u8;
            let b = rng.next() as u8;
            (0..len).map(|_| if rng.chance(1, 5) { a } else { b }).collect()
        }
        "skewed" => {
            // geometric-ish over a random alphabet
            let k = rng.range(2, 40) as usize;
            let alpha = rng.bytes(k);
            (0..len)
                .map(|_| {
                    let mut i = 0;
                    while i + 1 < k && rng.chance(1, 2) {
                        i += 1;
                    }
                    alpha[i]
                })
                .collect()
        }
        "runs" => {
            let mut v = Vec::with_capacity(len);
            while v.len() < len {
                let s = if rng.chance(1, 2) { rng.below(4) as u8 } else { rng.next() as u8 };
                let r = if rng.chance(1, 4) { rng.range(1, 600) } else { rng.range(1, 9) } as usize;
                for _ in 0..r.min(len - v.len()) {
                    v.push(s);
                }
            }
            v
        }
        "all256" => {
            let mut v: Vec<u8> = (0..len).map(|i| i as u8).collect();
            // shuffle lightly and skew
            for i in 0..len {
                if rng.chance(1, 3) {
                    v[i] = rng.below(8) as u8;
                }
            }
            if len >= 256 {
                for i in 0..256 {
                    v[i] = i as u8;
                }
            }
            v
        }
        "ascii" => (0..len).map(|_| rng.range(32, 126) as u8).collect(),
        "qual" => {
            let mut q = 30i32;
            (0..len)
                .map(|_| {
                    q += rng.range(0, 6) as i32 - 3;
                    q = q.clamp(2, 41);
                    q as u8
                })
                .collect()
        }
        "dominant" => {
            let d = rng.next() as u8;
            (0..len).map(|_| if rng.chance(1, 200) { rng.next() as u8 } else { d }).collect()
        }
        "lowhigh" => {
            // symbols near both ends of the alphabet: 0,1,2 and 253,254,255 (frequency-table run-length edges)
            let alpha = [0u8, 1, 2, 3, 252, 253, 254, 255];
            let k = rng.range(1, 8) as usize;
            let off = rng.below(8) as usize;
            (0..len).map(|_| alpha[(off + rng.below(k as u64) as usize) % 8]).collect()
        }
        _ => {
            // ramp: consecutive symbols starting at a random base (runs in the frequency table)
            let base = rng.next() as u8;
            let k = rng.range(1, 70);
            (0..len).map(|_| base.wrapping_add(rng.below(k) as u8)).collect()
        }
    }
}

fn gen_len(rng: &mut Rng, big: usize) -> usize {
    match rng.below(10) {
        0 => rng.range(0, 3) as usize,
        1 => rng.range(3, 9) as usize,
        2 => rng.range(28, 36) as usize,
        3 => rng.range(60, 70) as usize,
        4 => rng.range(124, 132) as usize,
        5 | 6 => rng.range(10, 300) as usize,
        7 => rng.range(300, 2000) as usize,
        _ => rng.range(1, big as u64) as usize,
    }
}

fn gen_names(rng: &mut Rng) -> Vec<u8> {
    let n = rng.range(1, 40);
    let style = rng.below(7);
    let mut out = Vec::new();
    let mut x = rng.range(0, 2000);
    let mut prev: Vec<Vec<u8>> = Vec::new();
    for i in 0..n {
        let name: Vec<u8> = match style {
            0 => format!("read{:05}", x).into_bytes(),               // digits with leading zeros
            1 => format!("I:{}:{}:{}", x / 100, x % 100, i).into_bytes(), // deltas
            2 => {
                if !prev.is_empty() && rng.chance(1, 2) {
                    prev[rng.below(prev.len() as u64) as usize].clone()   // duplicates
                } else {
                    format!("q.{}", x).into_bytes()
                }
            }
            3 => {
                // differing token counts
                let k = rng.range(1, 6);
                let mut s = String::from("t");
                for j in 0..k {
                    s.push_str(&format!("{}{}", if j % 2 == 0 { ":" } else { "_x" }, rng.below(300)));
                }
                s.into_bytes()
            }
            4 => format!("{:0w$}", x, w = rng.range(1, 12) as usize).into_bytes(), // pure digits, varying width
            5 => {
                // arbitrary printable bytes, sometimes empty
                let l = rng.range(0, 12) as usize;
                (0..l).map(|_| rng.range(33, 126) as u8).collect()
            }
            _ => format!("SRR{}.{} {}/1", 100 + x / 1000, x, 4294967290u64 + rng.below(12)).into_bytes(), // large numbers
        };
        x = match rng.below(4) {
            0 => x,
            1 => x + 1,
            2 => x + rng.range(2, 300),
            _ => rng.range(0, 100000),
        };
        out.extend_from_slice(&name);
        out.push(0);
        prev.push(name);
    }
    out
}

fn gen_partition(rng: &mut Rng, total: usize) -> Vec<usize> {
    if total == 0 {
        return vec![];
    }
    let mut lens = Vec::new();
    let mut left = total;
    let fixed = rng.chance(1, 3);
    let fl = rng.range(1, 60) as usize;
    while left > 0 {
        let l = if fixed { fl.min(left) } else { (rng.range(1, 150) as usize).min(left) };
        lens.push(l);
        left -= l;
    }
    lens
}

const NX16_BITS: &[u8] = &[0x01, 0x04, 0x08, 0x10, 0x20, 0x40, 0x80];
const AAC_BITS: &[u8] = &[0x01, 0x04, 0x08, 0x10, 0x20, 0x40, 0x80];

fn all_subsets(bits: &[u8]) -> Vec<u8> {
    (0..1u32 << bits.len())
        .map(|m| bits.iter().enumerate().filter(|(i, _)| m >> i & 1 == 1).fold(0u8, |a, (_, b)| a | b))
        .collect()
}

fn generate(rng: &mut Rng, tier: &str, w: &mut CaseWriter) {
    let thorough = tier == "thorough";
    let scale = if thorough { 12 } else { 1 };

    // ---- integer codings: every first-byte class boundary, +-, and random
    let mut i32s: Vec<i64> = vec![0, 1, -1, i32::MAX as i64, i32::MIN as i64];
    for k in 0..32u32 {
        for d in -2i64..=2 {
            i32s.push((((1i64 << k) + d) as i32) as i64);
            i32s.push(((-(1i64 << k) + d) as i32) as i64);
        }
    }
    for _ in 0..150 * scale {
        let keep = rng.range(1, 32) as u32;
        i32s.push(((rng.next() & ((1u64 << keep) - 1)) as u32 as i32) as i64);
    }
    for n in &i32s {
        w.push("itf8", vec![n.to_string()]);
    }
    let mut i64s: Vec<i64> = vec![0, 1, -1, i64::MAX, i64::MIN];
    for k in 0..64u32 {
        for d in -2i128..=2 {
            i64s.push(((1i128 << k) + d) as i64);
            i64s.push((-(1i128 << k) + d) as i64);
        }
    }
    for _ in 0..200 * scale {
        let keep = rng.range(1, 64) as u32;
        let r = rng.next();
        i64s.push((if keep == 64 { r } else { r & ((1u64 << keep) - 1) }) as i64);
    }
    for n in &i64s {
        w.push("ltf8", vec![n.to_string()]);
    }
    let mut u32s: Vec<u64> = vec![0, 1, u32::MAX as u64];
    for k in 0..32u32 {
        for d in -2i64..=2 {
            u32s.push(((1i64 << k) + d) as u32 as u64);
        }
    }
    for _ in 0..150 * scale {
        let keep = rng.range(1, 32) as u32;
        u32s.push(rng.next() & ((1u64 << keep) - 1));
    }
    for n in &u32s {
        w.push("u7", vec![n.to_string()]);
    }
    // readers on arbitrary bytes: every first byte x {enough, truncated} payloads
    for b0 in 0..=255u8 {
        let mut full = vec![b0];
        full.extend(rng.bytes(9));
        w.push("itf8r", vec![hex(&full)]);
        w.push("ltf8r", vec![hex(&full)]);
        w.push("u7r", vec![hex(&full)]);
        let cut = rng.range(1, 9) as usize;
        w.push("itf8r", vec![hex(&full[..cut.min(5)])]);
        w.push("ltf8r", vec![hex(&full[..cut])]);
        w.push("u7r", vec![hex(&full[..cut.min(6)])]);
    }
    w.push("itf8r", vec!["_".into()]);
    w.push("ltf8r", vec!["_".into()]);
    w.push("u7r", vec!["_".into()]);
    // fifth ITF8 byte: every high nibble is ignored
    for hi in 0..16u8 {
        w.push("itf8r", vec![hex(&[0xf7, 0x55, 0x99, 0x66, hi << 4 | 0x02, 0x11])]);
        w.push("itf8r", vec![hex(&[0xff, 0xff, 0xff, 0xff, hi << 4 | 0x0f])]);
    }
    // uint7: continuation chains of length 1..7 (more than 5 bytes is an error), overflowing 5-byte values
    for l in 1..=7usize {
        let mut b = vec![0xffu8; l];
        b[l - 1] = 0x7f;
        w.push("u7r", vec![hex(&b)]);
        let mut b = vec![0x80u8; l];
        b[l - 1] = 0x01;
        w.push("u7r", vec![hex(&b)]);
        w.push("u7r", vec![hex(&vec![0x80u8; l])]);
    }
    // sweeps
    if thorough {
        w.push("isweep", vec!["itf8".into(), "range".into(), (-(1i64 << 20)).to_string(), (1i64 << 20).to_string()]);
        w.push("isweep", vec!["itf8".into(), "smix".into(), rng.next().to_string().chars().take(15).collect(), "3000000".into()]);
        w.push("isweep", vec!["ltf8".into(), "smix".into(), rng.next().to_string().chars().take(15).collect(), "2000000".into()]);
        w.push("isweep", vec!["u7".into(), "smix".into(), rng.next().to_string().chars().take(15).collect(), "2000000".into()]);
        w.push("isweep", vec!["u7".into(), "range".into(), "0".into(), (1i64 << 21).to_string()]);
        w.push("isweep", vec!["ltf8".into(), "range".into(), (-(1i64 << 19)).to_string(), (1i64 << 19).to_string()]);
    } else {
        w.push("isweep", vec!["itf8".into(), "range".into(), "-70000".into(), "70000".into()]);
        w.push("isweep", vec!["itf8".into(), "smix".into(), rng.next().to_string().chars().take(15).collect(), "60000".into()]);
        w.push("isweep", vec!["ltf8".into(), "smix".into(), rng.next().to_string().chars().take(15).collect(), "60000".into()]);
        w.push("isweep", vec!["u7".into(), "smix".into(), rng.next().to_string().chars().take(15).collect(), "60000".into()]);
        w.push("isweep", vec!["u7".into(), "range".into(), "0".into(), "40000".into()]);
    }
    for which in ["itf8", "ltf8", "u7"] {
        w.push("isweep", vec![which.into(), "pow2".into(), "16".into(), "0".into()]);
    }

    // ---- rANS 4x8
    let mut r4_inputs: Vec<Vec<u8>> = vec![vec![], vec![0], vec![7], vec![0, 0], vec![3, 9], vec![5, 5, 5], vec![9, 8, 7], vec![4, 4, 4, 4], vec![0, 2, 4, 6, 8]];
    for _ in 0..(70 * scale) {
        let shape = *rng.pick(SHAPES);
        let len = gen_len(rng, if thorough { 20000 } else { 3000 });
        r4_inputs.push(shaped(rng, shape, len));
    }
    // all 256 symbols exactly once, and with skew
    r4_inputs.push((0..=255u8).collect());
    r4_inputs.push((0..=255u8).chain(std::iter::repeat(65).take(3000)).collect());
    // many rare symbols + few frequent ones (normalisation correction paths), moderate sizes
    for _ in 0..(6 * scale) {
        let rare = rng.range(1, 200) as usize;
        let freq_syms = rng.range(1, 4) as usize;
        let reps = rng.range(50, 4000) as usize;
        let mut v = Vec::new();
        for s in 0..rare {
            v.push((s + 40) as u8);
        }
        for s in 0..freq_syms {
            for _ in 0..reps {
                v.push(s as u8 + 2);
            }
        }
        // deterministic shuffle
        for i in (1..v.len()).rev() {
            let j = rng.below(i as u64 + 1) as usize;
            v.swap(i, j);
        }
        r4_inputs.push(v);
    }
    // the normalisation correction spread over the table (modelled: compared byte for byte)
    {
        let mut r0 = Rng(0);
        r4_inputs.push(shaped(&mut r0, "under4x8", 0));
        r4_inputs.push(shaped(&mut r0, "zmax4x8", 0));
    }
    // order 1 (modelled: encoder output compared byte for byte): every length 4..=40 (all four
    // remainders with 1..10 byte quarters), every context occurring (outer run of 255 rows), the
    // contexts at the alphabet edges, separated groups of contexts (runs and singletons in the
    // outer table), a pair that only occurs across a quarter boundary (counted, never coded)
    for len in 4..=40usize {
        let k = rng.range(1, 5) as u8;
        let base = *rng.pick(&[0u8, 1, 65, 250]);
        r4_inputs.push((0..len).map(|_| base.wrapping_add(rng.below(k as u64) as u8)).collect());
    }
    r4_inputs.push((0..=255u8).chain(0..=255u8).collect());
    r4_inputs.push((0..=255u8).rev().chain(0..=255u8).chain(std::iter::repeat(7).take(37)).collect());
    r4_inputs.push(vec![255, 254, 255, 255, 0, 0, 1, 255, 254, 254, 0, 1, 1, 0, 255]);
    r4_inputs.push(vec![9, 9, 9, 9, 8, 9, 9, 9, 9, 9, 9, 9, 9, 9, 9, 9]);
    for _ in 0..(4 * scale) {
        let groups: [&[u8]; 4] = [&[10, 11, 12], &[20], &[30, 31], &[200, 201, 202, 203, 204]];
        let len = rng.range(4, 600) as usize;
        let mut v = Vec::with_capacity(len);
        for _ in 0..len {
            let g = *rng.pick(&groups);
            v.push(*rng.pick(g));
        }
        r4_inputs.push(v);
    }
    if thorough {
        r4_inputs.push(shaped(rng, "qual", 70_001));
        r4_inputs.push(shaped(rng, "dominant", 131_075));
    }
    for src in &r4_inputs {
        for order in [0u64, 1] {
            w.push("r4", vec![order.to_string(), hex(src)]);
            if order == 1 && src.len() < 4 {
                continue;
            }
            if src.len() <= 3000 || (order == 0 && src.len() <= 16000 && src.len() > 6000) {
                if old_correction_zeroes_max(&o0_counts(src), 4095) && !normaliser_repaired() {
                    continue;
                }
                if let Outcome::Done(Ok(enc)) = guarded(AssertUnwindSafe(|| v::rans_4x8_encode(order_of(order), src))) {
                    w.push("r4d", vec![order.to_string(), hex(src), hex(&enc)]);
                }
            }
        }
    }

    // ---- rANS Nx16 and AAC: every flag subset on a few inputs each
    let nx_flags = all_subsets(NX16_BITS);
    let aac_flags = all_subsets(AAC_BITS);
    let per_flag = if thorough { 10 } else { 2 };
    let fixed_small: Vec<Vec<u8>> = vec![vec![], vec![1], vec![1, 2], vec![3, 3, 3], vec![1, 2, 3, 4], (0..33u8).collect()];
    for (fi, &f) in nx_flags.iter().enumerate() {
        // every flag byte is compared with the model (nfe)
        let kind = "nfe";
        let s = &fixed_small[fi % fixed_small.len()];
        w.push(kind, vec![f.to_string(), hex(s)]);
        for _ in 0..per_flag {
            let shape = *rng.pick(SHAPES);
            let len = gen_len(rng, if thorough { 6000 } else { 1500 });
            w.push(kind, vec![f.to_string(), hex(&shaped(rng, shape, len))]);
        }
    }
    for (fi, &f) in aac_flags.iter().enumerate() {
        let s = &fixed_small[(fi + 1) % fixed_small.len()];
        w.push("aac", vec![f.to_string(), hex(s)]);
        for _ in 0..per_flag {
            let shape = *rng.pick(SHAPES);
            let len = gen_len(rng, if thorough { 6000 } else { 1500 });
            w.push("aac", vec![f.to_string(), hex(&shaped(rng, shape, len))]);
        }
    }

    // ---- rANS Nx16 transforms (modelled): flags byte, PACK, RLE, CAT and the fall-backs
    {
        let inputs = nxx_inputs(rng, thorough);
        let flagsets = all_subsets(&[0x01, 0x04, 0x10, 0x20, 0x40, 0x80]);
        for (fi, &f) in flagsets.iter().enumerate() {
            for (ii, src) in inputs.iter().enumerate() {
                // flags with CAT: every input; others: a rotating third (mostly "entropy")
                let small = src.len() <= 600;
                if f & 0x20 == 0 && (ii + fi) % 3 != 0 {
                    continue;
                }
                if !small && (ii + fi) % 4 != 0 && !thorough {
                    continue;
                }
                w.push("nxe", vec![f.to_string(), hex(src)]);
                if let Outcome::Done(Ok(enc)) = guarded(AssertUnwindSafe(|| v::rans_nx16_encode(rans_nx16::Flags::from(f), src))) {
                    if enc.first().is_some_and(|b| b & 0x20 != 0) && small {
                        w.push("nxd", vec![f.to_string(), src.len().to_string(), hex(&enc), hex(src)]);
                        if enc.len() > 1 && (ii + fi) % 2 == 0 {
                            let cut = rng.range(1, enc.len() as u64 - 1) as usize;
                            w.push("nxd", vec![f.to_string(), src.len().to_string(), hex(&enc[..cut]), "-".into()]);
                        }
                        // the repaired decoder: bytes after the CAT payload are ignored; a packed /
                        // literal byte set to 0xff (a value outside a 3, 5..15 symbol table is an error)
                        if (ii + fi) % 5 == 0 {
                            let mut more = enc.clone();
                            let extra = rng.range(1, 4) as usize;
                            more.extend(rng.bytes(extra));
                            w.push("nxd", vec![f.to_string(), src.len().to_string(), hex(&more), "-".into()]);
                            if enc.len() >= 2 {
                                // (never the flag byte itself: 0xff would select the unmodelled STRIPE)
                                let mut bad = enc.clone();
                                *bad.last_mut().unwrap() = 0xff;
                                w.push("nxd", vec![f.to_string(), src.len().to_string(), hex(&bad), "-".into()]);
                            }
                        }
                    }
                }
            }
        }
        w.push("nxe", vec!["8".into(), hex(b"noodles")]);
    }

    // ---- rANS Nx16 whole streams incl. the ORDER-0 entropy coder (modelled): nfe / nfd
    {
        let mut inputs = nxx_inputs(rng, false);
        // alphabets that exercise write_alphabet / read_alphabet: symbol 0 and 1, runs of adjacent
        // symbols ending before / at symbol 255, isolated symbols, every symbol
        let alpha_sets: Vec<Vec<u8>> = vec![
            vec![0], vec![0, 1], vec![0, 1, 2, 3], vec![1, 2], vec![0, 2, 4], vec![254, 255], vec![253, 254, 255],
            (250..=255u8).collect(), (10..=20u8).collect(), vec![10, 11, 13, 14, 15, 17, 200, 201, 255],
            (0..=255u8).collect(), (1..=255u8).collect(), (0..=254u8).collect(), vec![0, 255], vec![7, 9, 10, 11, 12, 13, 30],
        ];
        for a in &alpha_sets {
            let n = rng.range(a.len() as u64, 40 + 3 * a.len() as u64) as usize;
            let mut v: Vec<u8> = a.clone();
            while v.len() < n {
                v.push(*rng.pick(a));
            }
            inputs.push(v);
        }
        for shape in SHAPES {
            for _ in 0..(if thorough { 6 } else { 2 }) {
                let len = gen_len(rng, if thorough { 5000 } else { 1200 });
                inputs.push(shaped(rng, shape, len));
            }
        }
        // the witnesses of the repaired normalisation (scaled sum above / below 4096)
        inputs.push(shaped(rng, "zmaxnx16", 0));
        inputs.push(shaped(rng, "nx16under", 0));
        let mut flagsets = all_subsets(&[0x01, 0x04, 0x10, 0x20, 0x40, 0x80]);
        // STRIPE: the other flags are ignored except NO_SIZE
        flagsets.extend([0x08u8, 0x18, 0x09, 0x0c, 0xc8, 0x28, 0x1d]);
        for (fi, &f) in flagsets.iter().enumerate() {
            for (ii, src) in inputs.iter().enumerate() {
                let small = src.len() <= 600;
                // without CAT (order 0 and order 1): most inputs; with CAT: a rotating sixth
                let keep = if f & 0x20 == 0 { thorough || small || (ii + fi) % 3 == 0 } else { (ii + fi) % 6 == 0 && (small || thorough) };
                if !keep {
                    continue;
                }
                w.push("nfe", vec![f.to_string(), hex(src)]);
                let Outcome::Done(Ok(enc)) = guarded(AssertUnwindSafe(|| v::rans_nx16_encode(rans_nx16::Flags::from(f), src))) else { continue };
                if !small {
                    continue;
                }
                let n = src.len().to_string();
                w.push("nfd", vec![f.to_string(), n.clone(), hex(&enc), hex(src)]);
                if enc.len() > 2 && (ii + fi) % 2 == 0 {
                    let cut = rng.range(1, enc.len() as u64 - 1) as usize;
                    w.push("nfd", vec![f.to_string(), n.clone(), hex(&enc[..cut]), "-".into()]);
                }
                if (ii + fi) % 4 == 0 {
                    let mut more = enc.clone();
                    let extra = rng.range(1, 4) as usize;
                    more.extend(rng.bytes(extra));
                    w.push("nfd", vec![f.to_string(), n.clone(), hex(&more), "-".into()]);
                }
                // corrupted streams: never the flag byte, a size field or a context (the declared sizes
                // stay what the encoder wrote): everything from the data stage on -- CAT payload, or
                // alphabet / frequencies / order-1 table header / states / payload; STRIPE: only the
                // last byte (the sub-streams carry their own flag bytes and sizes)
                let start = if f & 0x08 != 0 { enc.len() - 1 } else { body_start(&enc, true).unwrap_or(enc.len()) };
                if start < enc.len() {
                    let order1 = enc[0] & 0x29 == 0x01;
                    for _ in 0..(if thorough { 3 } else { 1 }) {
                        let mut bad = enc.clone();
                        let pos = if order1 && rng.below(8) == 0 { start } else { rng.range(start as u64, enc.len() as u64 - 1) as usize };
                        bad[pos] = match rng.below(4) {
                            0 => 0,
                            1 => 0xff,
                            2 => bad[pos] ^ (1 << rng.below(8)),
                            _ => rng.below(256) as u8,
                        };
                        if order1 && pos == start {
                            // the order-1 table header: any bit count, never the 'compressed' bit
                            // (the sizes that follow it would be arbitrary)
                            bad[pos] = (rng.below(16) as u8) << 4;
                        }
                        w.push("nfd", vec![f.to_string(), n.clone(), hex(&bad), "-".into()]);
                    }
                }
            }
        }
        // hand-made order-0 streams for the decoder's table normalisation: totals 1, 2048 (scaled
        // up), 3 and 4097 (rejected), 0 (accepted), a run reaching past symbol 255, no terminator
        let st4: Vec<u8> = [0x8000u32, 0x8001, 0x8fff, 0x12345].iter().flat_map(|x| x.to_le_bytes()).collect();
        for (tbl, n) in [
            (vec![0x41u8, 0x00, 0x01], 5usize),
            (vec![0x41, 0x43, 0x00, 0x88, 0x00, 0x88, 0x00], 9),
            (vec![0x41, 0x00, 0x03], 5),
            (vec![0x41, 0x42, 0x00, 0x00, 0xa0, 0x00, 0x01], 5),
            (vec![0x41, 0x00, 0x00], 6),
            (vec![0xfe, 0xff, 0x01, 0x00, 0x01, 0x01], 3),
            (vec![0xfd, 0xfe, 0x01, 0x00, 0x90, 0x00, 0x88, 0x00, 0x88, 0x00], 7),
            (vec![0x41, 0x42, 0x05], 3),
            (vec![0x00, 0x01, 0x02, 0x00, 0x90, 0x00, 0x84, 0x00, 0x84, 0x00, 0x88, 0x00], 11),
        ] {
            let mut sbytes = vec![0x00u8, n as u8];
            sbytes.extend(&tbl);
            sbytes.extend(&st4);
            sbytes.extend([0x34, 0x12, 0xff, 0xee, 0x01, 0x00, 0x00, 0x80]);
            w.push("nfd", vec!["0".into(), n.to_string(), hex(&sbytes), "-".into()]);
        }
        // entropy-compressed RLE meta-data (accepted by the decoder, never written by the encoder):
        // the meta-data of a real CAT|RLE stream replaced by its own order-0 encoding
        for f in [0x60u8, 0x64, 0x70, 0x40, 0x44] {
            for _ in 0..(if thorough { 6 } else { 2 }) {
                let nsym = rng.range(2, 40) as usize;
                let syms: Vec<u8> = (0..nsym).map(|i| (i * 5) as u8).collect();
                let mut src = Vec::new();
                let total = rng.range(200, 900) as usize;
                while src.len() < total {
                    let sy = *rng.pick(&syms);
                    let r = 1 + rng.below(12) as usize;
                    src.extend(std::iter::repeat(sy).take(r));
                }
                let Outcome::Done(Ok(enc)) = guarded(AssertUnwindSafe(|| v::rans_nx16_encode(rans_nx16::Flags::from(f), &src))) else { continue };
                if enc[0] & 0x40 == 0 {
                    continue;
                }
                let mut r = &enc[1..];
                let mut head = vec![enc[0]];
                if f & 0x10 == 0 {
                    let Ok(sz) = v::read_uint7(&mut r) else { continue };
                    head.extend(w_u7(sz));
                }
                let (Ok(mh), Ok(lits)) = (v::read_uint7(&mut r), v::read_uint7(&mut r)) else { continue };
                let mlen = (mh >> 1) as usize;
                if mh & 1 == 0 || r.len() < mlen {
                    continue;
                }
                let (meta, rest) = r.split_at(mlen);
                let cf = 0x10 | (f & 0x04);
                let Outcome::Done(Ok(cm)) = guarded(AssertUnwindSafe(|| v::rans_nx16_encode(rans_nx16::Flags::from(cf), meta))) else { continue };
                if cm[0] & 0x21 != 0 {
                    continue;
                }
                let body = &cm[1..];
                let mut st = head.clone();
                st.extend(w_u7((mlen as u32) << 1));
                st.extend(w_u7(lits));
                st.extend(w_u7(body.len() as u32));
                st.extend(body);
                st.extend(rest);
                w.push("nfd", vec![f.to_string(), src.len().to_string(), hex(&st), hex(&src)]);
                let cut = rng.range(head.len() as u64 + 3, st.len() as u64 - 1) as usize;
                w.push("nfd", vec![f.to_string(), src.len().to_string(), hex(&st[..cut]), "-".into()]);
            }
        }
    }

    // ---- entropy-compressed order-1 tables (accepted by the decoder, never written by the encoder):
    // the table of a real order-1 stream replaced by its own order-0 (4 states) encoding
    for f in [0x01u8, 0x05, 0x11] {
        for _ in 0..(if thorough { 8 } else { 3 }) {
            let shape = *rng.pick(&["skewed", "ascii", "qual", "two", "runs", "dominant"]);
            let len = rng.range(40, 700) as usize;
            let src = shaped(rng, shape, len);
            let Outcome::Done(Ok(enc)) = guarded(AssertUnwindSafe(|| v::rans_nx16_encode(rans_nx16::Flags::from(f), &src))) else { continue };
            if enc[0] & 0x21 != 0x01 {
                continue;
            }
            let body_at = 1 + if f & 0x10 == 0 { u7_size(src.len() as u32) } else { 0 };
            let Some(tlen) = o1_table_len(&enc[body_at + 1..]) else { continue };
            let table = &enc[body_at + 1..body_at + 1 + tlen];
            let Outcome::Done(Ok(cm)) = guarded(AssertUnwindSafe(|| v::rans_nx16_encode(rans_nx16::Flags::from(0x10), table))) else { continue };
            if cm[0] != 0x10 {
                continue;
            }
            let mut st = enc[..body_at].to_vec();
            st.push(enc[body_at] | 0x01);
            st.extend(w_u7(tlen as u32));
            st.extend(w_u7((cm.len() - 1) as u32));
            st.extend(&cm[1..]);
            st.extend(&enc[body_at + 1 + tlen..]);
            w.push("nfd", vec![f.to_string(), src.len().to_string(), hex(&st), hex(&src)]);
            let cut = rng.range(body_at as u64 + 4, st.len() as u64 - 1) as usize;
            w.push("nfd", vec![f.to_string(), src.len().to_string(), hex(&st[..cut]), "-".into()]);
        }
    }

    // ---- adaptive arithmetic coder, order 0 (modelled): aae / aad for the flag bytes within NO_SIZE|CAT|PACK
    {
        let mut inputs: Vec<Vec<u8>> = vec![vec![], vec![0], vec![7], vec![255], vec![1, 2], vec![3, 3, 3], vec![0, 255], vec![9; 40], vec![255; 300], (0..=255u8).collect()];
        for shape in SHAPES {
            for _ in 0..(if thorough { 8 } else { 3 }) {
                let len = gen_len(rng, if thorough { 6000 } else { 1500 });
                inputs.push(shaped(rng, shape, len));
            }
        }
        // long enough for several renormalisations of the model (total > 2^16 - 17 after ~4100 symbols)
        inputs.push(shaped(rng, "skewed", 9000));
        inputs.push(shaped(rng, "dominant", 13000));
        inputs.push(vec![200; 5000]);
        inputs.push((0..12000usize).map(|i| (i % 3) as u8).collect());
        // runs of every length class of the base-4 run-length digits (0..2, 3..5, 6.., long)
        for maxrun in [2u64, 4, 7, 12, 40, 300] {
            let mut v = Vec::new();
            let total = rng.range(30, 600) as usize;
            while v.len() < total {
                let sy = (rng.below(6) * 40) as u8;
                let r = 1 + rng.below(maxrun) as usize;
                v.extend(std::iter::repeat(sy).take(r));
            }
            inputs.push(v);
        }
        // few symbols: PACK applies
        for nsym in [1usize, 2, 3, 4, 5, 16, 17] {
            let n = rng.range(1, 400) as usize;
            inputs.push((0..n).map(|_| (rng.below(nsym as u64) * 7) as u8).collect());
        }
        for (fi, &f) in all_subsets(&[0x01, 0x08, 0x10, 0x20, 0x40, 0x80]).iter().enumerate() {
            for (ii, src) in inputs.iter().enumerate() {
                if (f & 0x20 != 0 || f & 0x08 != 0) && (ii + fi) % 6 != 0 || f & 0x28 == 0 && (ii + fi) % 2 != 0 && !thorough {
                    continue;
                }
                w.push("aae", vec![f.to_string(), hex(src)]);
                if src.len() > 2000 {
                    continue;
                }
                let Outcome::Done(Ok(enc)) = guarded(AssertUnwindSafe(|| v::aac_encode(aac::Flags::from(f), src))) else { continue };
                let n = src.len().to_string();
                w.push("aad", vec![f.to_string(), n.clone(), hex(&enc), hex(src)]);
                if enc.len() > 2 {
                    let cut = rng.range(1, enc.len() as u64 - 1) as usize;
                    w.push("aad", vec![f.to_string(), n.clone(), hex(&enc[..cut]), "-".into()]);
                }
                // corrupted: any byte of the data stage (CAT payload, or symbol count and range-coder
                // bytes); STRIPE: only the last byte, and only when it is a range-coder byte of the
                // last sub-stream (the sub-streams carry their own flag bytes; EXT is not modelled)
                let start = if f & 0x08 != 0 { if src.len() >= 8 { enc.len() - 1 } else { enc.len() } } else { body_start(&enc, false).unwrap_or(enc.len()) };
                if start < enc.len() {
                    for _ in 0..(if thorough { 3 } else { 2 }) {
                        let mut bad = enc.clone();
                        let pos = rng.range(start as u64, enc.len() as u64 - 1) as usize;
                        bad[pos] = match rng.below(4) {
                            0 => 0,
                            1 => 0xff,
                            2 => bad[pos] ^ (1 << rng.below(8)),
                            _ => rng.below(256) as u8,
                        };
                        w.push("aad", vec![f.to_string(), n.clone(), hex(&bad), "-".into()]);
                    }
                }
                if (ii + fi) % 3 == 0 {
                    let mut more = enc.clone();
                    more.extend(rng.bytes(3));
                    w.push("aad", vec![f.to_string(), n.clone(), hex(&more), "-".into()]);
                }
            }
        }
    }

    // ---- fqzcomp
    for _ in 0..(25 * scale) {
        let shape = *rng.pick(&["qual", "qual", "skewed", "single", "two", "uniform", "runs"]);
        let len = gen_len(rng, if thorough { 8000 } else { 2000 });
        let src: Vec<u8> = shaped(rng, shape, len);
        let lens = gen_partition(rng, src.len());
        let ls = if lens.is_empty() { "_".to_string() } else { lens.iter().map(|l| l.to_string()).collect::<Vec<_>>().join(",") };
        w.push("fqz", vec![ls, hex(&src)]);
    }
    // ---- fqzcomp (modelled): fqe / fqd -- equal-length records (DO_LEN), unequal ones, a first
    // record above 128 qualities (position table shifted), one record, symbols up to 255
    for it in 0..(30 * scale) {
        let shape = *rng.pick(&["qual", "qual", "skewed", "single", "two", "uniform", "runs", "all256"]);
        let (src, lens): (Vec<u8>, Vec<usize>) = match it % 5 {
            0 => {
                let rl = rng.range(1, 160) as usize;
                let n = rng.range(1, 12) as usize;
                (shaped(rng, shape, rl * n), vec![rl; n])
            }
            1 => {
                let len = rng.range(1, 700) as usize;
                (shaped(rng, shape, len), vec![len])
            }
            2 => {
                let first = rng.range(129, 400) as usize;
                let rest = rng.range(0, 300) as usize;
                let mut l = vec![first];
                l.extend(gen_partition(rng, rest));
                let total: usize = l.iter().sum();
                (shaped(rng, shape, total), l)
            }
            _ => {
                let len = gen_len(rng, if thorough { 4000 } else { 1200 });
                let src = shaped(rng, shape, len);
                let l = gen_partition(rng, src.len());
                (src, l)
            }
        };
        let ls = if lens.is_empty() { "_".to_string() } else { lens.iter().map(|l| l.to_string()).collect::<Vec<_>>().join(",") };
        w.push("fqe", vec![ls, hex(&src)]);
        let Outcome::Done(Ok(enc)) = guarded(AssertUnwindSafe(|| v::fqzcomp_encode(&lens, &src))) else { continue };
        w.push("fqd", vec![hex(&enc), hex(&src)]);
        if enc.len() > 3 {
            let cut = rng.range(1, enc.len() as u64 - 1) as usize;
            w.push("fqd", vec![hex(&enc[..cut]), "-".into()]);
            // corrupted range-coder bytes (never the size field, the parameter block or its tables)
            let tail = enc.len().saturating_sub(8).max(enc.len() * 3 / 4);
            for _ in 0..2 {
                let mut bad = enc.clone();
                let pos = rng.range(tail as u64, enc.len() as u64 - 1) as usize;
                bad[pos] = match rng.below(3) { 0 => 0, 1 => 0xff, _ => rng.below(256) as u8 };
                w.push("fqd", vec![hex(&bad), "-".into()]);
            }
        }
    }

    // ---- fqzcomp HAVE_QMAP (decoder-only feature, model FqzQmap.fqz_decode_qm): the real encoder's
    // stream of src ++ [M] (M = max + 1, its own record) rebuilt with size |src| (the decoder stops
    // before M), parameter flag 0x10 and a map of M = max_symbol bytes: every decoded symbol is inside
    // the map -> Ok(map[src]); with the full size the last symbol is outside the map -> Err; short
    // map / truncations; flag without room for the map
    for it in 0..(12 * scale) {
        let shape = *rng.pick(&["qual", "skewed", "two", "runs", "single"]);
        let len = rng.range(1, if it % 3 == 0 { 400 } else { 60 }) as usize;
        let mut src = shaped(rng, shape, len);
        for b in src.iter_mut() {
            *b %= 47;
        }
        let mut lens = if it % 2 == 0 { vec![src.len()] } else { gen_partition(rng, src.len()) };
        let m = *src.iter().max().unwrap() + 1;
        let mut src1 = src.clone();
        src1.push(m);
        lens.push(1);
        let Outcome::Done(Ok(enc)) = guarded(AssertUnwindSafe(|| v::fqzcomp_encode(&lens, &src1))) else { continue };
        let mut p = 0usize;
        while p < enc.len() && enc[p] & 0x80 != 0 {
            p += 1;
        }
        p += 1;
        if enc.len() < p + 9 || enc[p + 5] != m {
            continue;
        }
        let map: Vec<u8> = match it % 3 {
            0 => (0..m).map(|i| 33 + i).collect(),
            1 => (0..m).map(|_| rng.below(256) as u8).collect(),
            _ => (0..m).rev().collect(),
        };
        let u7 = |n: usize| -> Vec<u8> {
            let mut v = vec![(n & 0x7f) as u8];
            let mut n = n >> 7;
            while n > 0 {
                v.insert(0, 0x80 | (n & 0x7f) as u8);
                n >>= 7;
            }
            v
        };
        let build = |size: usize, map: &[u8]| -> Vec<u8> {
            let mut s = u7(size);
            s.extend_from_slice(&enc[p..p + 9]);
            let at = s.len() - 5;
            s[at] |= 0x10;
            s.extend_from_slice(map);
            s.extend_from_slice(&enc[p + 9..]);
            s
        };
        let good = build(src.len(), &map);
        let expect: Vec<u8> = src.iter().map(|&q| map[q as usize]).collect();
        w.push("fqq", vec![hex(&good), hex(&expect)]);
        w.push("fqq", vec![hex(&build(src1.len(), &map)), "-".into()]);
        w.push("fqq", vec![hex(&build(src.len(), &map[..map.len() - 1])), "-".into()]);
        let cut = rng.range(1, good.len() as u64 - 1) as usize;
        w.push("fqq", vec![hex(&good[..cut]), "-".into()]);
        w.push("fqq", vec![hex(&enc), hex(&src1)]);
    }

    // ---- name tokenizer
    for _ in 0..(40 * scale) {
        w.push("names", vec![hex(&gen_names(rng))]);
    }
    w.push("names", vec![hex(b"a\0")]);
    w.push("names", vec![hex(b"0\0")]);
    w.push("names", vec![hex(b"007\0008\0")]);
    w.push("names", vec![hex(b"x1\0x1\0x1\0")]);
    // ---- name tokenizer (modelled): nme / nmd -- the decoder also on truncations and on streams
    // with bytes appended or the use_arith byte set (never a corrupted size or count: they drive
    // the allocation of the decoder and the unary fuel of the model)
    let mut name_inputs: Vec<Vec<u8>> = vec![b"a\0".to_vec(), b"0\0".to_vec(), b"007\0008\0".to_vec(), b"x1\0x1\0x1\0".to_vec(), b"a\0b\0a\0".to_vec(),
        b"r9\0r10\0r265\0r266\0r300000\0".to_vec(), b"q:01\0q:02\0q:1\0q:001\0".to_vec(), b"4294967295\04294967296\000\0".to_vec(), b"\0\0x\0".to_vec()];
    // names with 126 tokens and more: the 126th token is the unsplit remainder; remainders that
    // are a string, a number, and the known class '+' digits (stored as a number, the sign is lost)
    for tail in [&b"zz.yy"[..], b"12", b"007", b".+5", b"+5", b"+05", b"+x", b"+", b"+4294967296"] {
        let mut n: Vec<u8> = b"a.".repeat(62);
        n.push(b'a');
        n.extend(tail);
        n.push(0);
        let mut two = n.clone();
        two.extend(&n);
        name_inputs.push(n);
        name_inputs.push(two);
    }
    for _ in 0..(30 * scale) {
        name_inputs.push(gen_names(rng));
    }
    for (ii, src) in name_inputs.iter().enumerate() {
        w.push("nme", vec![hex(src)]);
        let Outcome::Done(Ok(enc)) = guarded(AssertUnwindSafe(|| v::name_tokenizer_encode(src))) else { continue };
        let mut want = src.clone();
        if !want.is_empty() && *want.last().unwrap() != 0 {
            want.push(0);
        }
        w.push("nmd", vec![hex(&enc), hex(&want)]);
        if enc.len() > 10 {
            let cut = rng.range(1, enc.len() as u64 - 1) as usize;
            w.push("nmd", vec![hex(&enc[..cut]), "-".into()]);
            if ii % 3 == 0 {
                let mut more = enc.clone();
                more.extend(rng.bytes(2));
                w.push("nmd", vec![hex(&more), "-".into()]);
                let mut ar = enc.clone();
                ar[8] = 1;
                w.push("nmd", vec![hex(&ar), "-".into()]);
            }
        }
    }

    // ---- general purpose codecs
    for _ in 0..(6 * scale) {
        let shape = *rng.pick(SHAPES);
        let len = gen_len(rng, 5000);
        let src = shaped(rng, shape, len);
        w.push("gz", vec![rng.range(0, 9).to_string(), hex(&src)]);
        w.push("bz2", vec![rng.range(1, 9).to_string(), hex(&src)]);
        w.push("xz", vec![rng.range(0, 9).to_string(), hex(&src)]);
    }
    for k in ["gz", "bz2", "xz"] {
        w.push(k, vec!["6".into(), "_".into()]);
    }

    // ---- witnesses of the normalisation defects (DESIGN F8, F8b) and the last good size
    for shape in ["f8", "f8ok", "f8b", "zmax4x8"] {
        w.push("big", vec!["r4".into(), "0".into(), shape.into(), "0".into(), "0".into()]);
    }
    for shape in ["zmaxnx16", "nx16under"] {
        w.push("big", vec!["nx16".into(), "0".into(), shape.into(), "0".into(), "0".into()]);
    }
    w.push("big", vec!["nx16".into(), "0".into(), "f8".into(), "0".into(), "0".into()]);
    w.push("fqz", vec!["5,0,5".into(), hex(&[30u8; 10])]);
    w.push("fqz", vec!["4,4,0".into(), hex(&[30u8; 8])]);
    // ---- big inputs, built inside `run`
    if thorough {
        for (codec, param) in [("r4", 0u64), ("r4", 1), ("nx16", 0), ("nx16", 1), ("nx16", 0x04), ("nx16", 0xc1), ("aac", 0), ("aac", 0x41), ("gz", 6), ("bz2", 6), ("xz", 3), ("fqz", 100)] {
            for shape in ["dominant", "qual"] {
                w.push("big", vec![codec.into(), param.to_string(), shape.into(), rng.range(1_100_000, 1_400_000).to_string(), rng.below(1 << 40).to_string()]);
            }
        }
    } else {
        for (codec, param) in [("r4", 0u64), ("r4", 1), ("nx16", 0x05), ("aac", 1)] {
            w.push("big", vec![codec.into(), param.to_string(), "dominant".into(), rng.range(1_060_000, 1_100_000).to_string(), rng.below(1 << 40).to_string()]);
        }
    }
    // ---- HOSTILE STREAMS (last, so that the cases above do not depend on them): corrupted flag /
    // size / count / context fields of real streams of all four codec families
    {
        let mut hr = rng.fork();
        let rng = &mut hr;
        let per = if thorough { 14 } else { 3 };
        let mut small: Vec<Vec<u8>> = vec![vec![7], vec![1, 2, 3], vec![9; 40], vec![0, 255, 0, 255, 7, 7, 7, 7, 7, 7, 7, 7, 7]];
        for shape in ["two", "runs", "skewed", "ascii", "qual", "single", "all256"] {
            for _ in 0..(if thorough { 3 } else { 1 }) {
                let len = rng.range(5, 400) as usize;
                small.push(shaped(rng, shape, len));
            }
        }
        // few symbols with runs: PACK and RLE both apply
        for nsym in [2u64, 4, 9] {
            let mut v = Vec::new();
            while v.len() < 120 {
                let sy = (rng.below(nsym) * 11) as u8;
                let r = 1 + rng.below(9) as usize;
                v.extend(std::iter::repeat(sy).take(r));
            }
            small.push(v);
        }
        let nx_flags: &[u8] = &[0x00, 0x01, 0x04, 0x05, 0x10, 0x20, 0x40, 0x41, 0x80, 0x81, 0xc0, 0xc1, 0xe0, 0xa0, 0x60, 0xd0, 0x08, 0x18, 0x09];
        for (fi, &f) in nx_flags.iter().enumerate() {
            for (ii, src) in small.iter().enumerate() {
                if !thorough && (ii + fi) % 3 != 0 {
                    continue;
                }
                let Outcome::Done(Ok(enc)) = guarded(AssertUnwindSafe(|| v::rans_nx16_encode(rans_nx16::Flags::from(f), src))) else { continue };
                for _ in 0..per {
                    let lim = if thorough || rng.below(4) == 0 { LIMIT } else { 1 << 16 };
                    if let Some((bad, u)) = hostile(rng, Fam::Nx, &enc, src.len() as u64, lim, if thorough { 1 << 14 } else { 1 << 12 }) {
                        w.push("nfd", vec![f.to_string(), u.to_string(), hex(&bad), "-".into()]);
                    }
                }
            }
        }
        // a hand-written order-0 stream (size 7, alphabet d e | l n o | s, frequencies, four states)
        for (vec_, n) in [
            (vec![0x00u8, 0x07, 0x64, 0x65, 0x00, 0x6c, 0x6e, 0x6f, 0x00, 0x73, 0x00, 0x01, 0x01, 0x01, 0x01, 0x03, 0x01, 0x00, 0x26, 0x20, 0x00, 0x00, 0xb8, 0x0a, 0x00, 0x00, 0xd8, 0x0a, 0x00, 0x00, 0x00, 0x04, 0x00], 7usize),
        ] {
            for _ in 0..per * 4 {
                if let Some((bad, u)) = hostile(rng, Fam::Nx, &vec_, n as u64, 1 << 16, 1 << 12) {
                    w.push("nfd", vec!["0".into(), u.to_string(), hex(&bad), "-".into()]);
                }
            }
        }
        let aac_flags: &[u8] = &[0x00, 0x01, 0x10, 0x20, 0x40, 0x41, 0x80, 0x81, 0xc0, 0xc1, 0xa0, 0xd1, 0x08, 0x18, 0x49];
        for (fi, &f) in aac_flags.iter().enumerate() {
            for (ii, src) in small.iter().enumerate() {
                if !thorough && (ii + fi) % 3 != 0 {
                    continue;
                }
                let Outcome::Done(Ok(enc)) = guarded(AssertUnwindSafe(|| v::aac_encode(aac::Flags::from(f), src))) else { continue };
                for _ in 0..per {
                    let lim = if thorough || rng.below(4) == 0 { LIMIT } else { 1 << 16 };
                    if let Some((bad, u)) = hostile(rng, Fam::Aac, &enc, src.len() as u64, lim, if thorough { 1 << 17 } else { 1 << 15 }) {
                        w.push("aad", vec![f.to_string(), u.to_string(), hex(&bad), "-".into()]);
                    }
                }
            }
        }
        for it in 0..(if thorough { 60 } else { 14 }) {
            let shape = *rng.pick(&["qual", "skewed", "two", "runs"]);
            let (src, lens): (Vec<u8>, Vec<usize>) = if it % 2 == 0 {
                let rl = rng.range(1, 60) as usize;
                let n = rng.range(1, 6) as usize;
                (shaped(rng, shape, rl * n), vec![rl; n])
            } else {
                let len = rng.range(1, 300) as usize;
                let src = shaped(rng, shape, len);
                let l = gen_partition(rng, src.len());
                (src, l)
            };
            let Outcome::Done(Ok(enc)) = guarded(AssertUnwindSafe(|| v::fqzcomp_encode(&lens, &src))) else { continue };
            for _ in 0..per * 2 {
                let lim = if thorough && rng.below(8) == 0 { LIMIT } else { 1 << 14 };
                if let Some((bad, _)) = hostile(rng, Fam::Fqz, &enc, 0, lim, lim) {
                    w.push("fqd", vec![hex(&bad), "-".into()]);
                }
            }
        }
        let mut nsrc: Vec<Vec<u8>> = vec![b"a\0".to_vec(), b"x1\0x1\0x2\0".to_vec(), b"r9\0r10\0r265\0r266\0".to_vec(), b"q:01\0q:02\0q:1\0q:001\0".to_vec()];
        for _ in 0..(if thorough { 20 } else { 5 }) {
            nsrc.push(gen_names(rng));
        }
        for src in &nsrc {
            let Outcome::Done(Ok(enc)) = guarded(AssertUnwindSafe(|| v::name_tokenizer_encode(src))) else { continue };
            for k in 0..per * 3 {
                // every third stream with the arithmetic coder selected for (rANS-written) sub-streams
                let mut e = enc.clone();
                if k % 3 == 2 && e.len() > 8 {
                    e[8] = 1;
                }
                let lim = if thorough || rng.below(4) == 0 { LIMIT } else { 1 << 16 };
                if let Some((bad, _)) = hostile(rng, Fam::Names, &e, 0, lim, 1 << 12) {
                    w.push("nmd", vec![hex(&bad), "-".into()]);
                }
            }
        }
    }
    // ---- BOUNDARY VALUES of every numeric threshold of the four codec families (after the hostile
    // block, deterministic except for filler bytes, so the cases above do not depend on them)
    {
        // -- name tokenizer: numeric deltas 254..258 (plain: parse_delta, zero-padded: parse_delta0,
        // after Digits / Delta / PaddedDigits / Delta0 tokens), decreasing values, the u32 limit, digit
        // widths around 255 / 256 (the width of a padded number is a byte), token counts 124..130
        // (the 126th token is the unsplit remainder), name counts around 2^8 (thorough: 2^16)
        let mut bn: Vec<Vec<u8>> = Vec::new();
        let cat = |names: &[String]| -> Vec<u8> {
            let mut o = Vec::new();
            for n in names {
                o.extend_from_slice(n.as_bytes());
                o.push(0);
            }
            o
        };
        for base in [0u64, 1, 100, 999, 65280, 4294967040 - 3, 4294967040] {
            for d in 253u64..=259 {
                let m = base + d;
                bn.push(cat(&[format!("r:1:{base}"), format!("r:1:{m}")]));
                // a chain: the previous token is itself a Delta
                bn.push(cat(&[format!("r:1:{base}"), format!("r:1:{}", base + 7), format!("r:1:{}", base + 7 + d)]));
                // purely numeric names, and the number as first / last / middle token
                bn.push(cat(&[format!("{base}"), format!("{m}")]));
                bn.push(cat(&[format!("{base}:x"), format!("{m}:x")]));
                // zero-padded, equal widths (Delta0) and a width change at the same values
                for w in [6usize, 11] {
                    bn.push(cat(&[format!("q{:0w$}", base, w = w), format!("q{:0w$}", m, w = w)]));
                    bn.push(cat(&[format!("q{:0w$}", base, w = w), format!("q{:0w$}", base + 3, w = w), format!("q{:0w$}", base + 3 + d, w = w)]));
                }
                bn.push(cat(&[format!("q{:06}", base), format!("q{:07}", m)]));
                // decreasing by the same amounts
                bn.push(cat(&[format!("r:1:{m}"), format!("r:1:{base}")]));
                bn.push(cat(&[format!("q{:011}", m), format!("q{:011}", base)]));
            }
        }
        for v in [4294967294u64, 4294967295, 4294967296, 4294967297] {
            bn.push(cat(&[format!("n{}", v - 255), format!("n{v}")]));
            bn.push(cat(&[format!("n{}", v - 256), format!("n{v}")]));
            bn.push(cat(&[format!("n0{}", v - 255), format!("n0{v}")]));
        }
        for k in [253usize, 254, 255, 256, 257, 258, 511, 512] {
            // a zero-padded number of k digits, then the next one (Delta0 with the same width)
            let z = "0".repeat(k - 1);
            bn.push(cat(&[format!("x{z}7"), format!("x{z}9")]));
            bn.push(cat(&[format!("x{z}7")]));
            // a string token and a char run of that length
            bn.push(cat(&[format!("{}:1", "a".repeat(k)), format!("{}:2", "a".repeat(k))]));
        }
        for k in 123usize..=131 {
            // about k tokens: "a." repeated, then a number / a padded number / a string / '+' digits
            for tail in ["7", "007", "zz", "+5", "300"] {
                let mut n1 = String::new();
                for t in 0..k - 1 {
                    n1.push_str(if t % 2 == 0 { "a" } else { "." });
                }
                // (an alphanumeric tail merges with a preceding "a": the sweep over k covers both parities)
                let n1 = format!("{n1}{tail}");
                let n2 = n1.replace('7', "8");
                bn.push(cat(&[n1.clone(), n2, n1]));
            }
        }
        for cnt in [254usize, 255, 256, 257, 258] {
            bn.push(cat(&(0..cnt).map(|i| format!("r{i}")).collect::<Vec<_>>()));
            bn.push(cat(&(0..cnt).map(|i| if i % 2 == 0 { "dup".to_string() } else { format!("r{i}") }).collect::<Vec<_>>()));
        }
        if thorough {
            for cnt in [65535usize, 65536, 65537] {
                bn.push(cat(&(0..cnt).map(|i| format!("r{i}")).collect::<Vec<_>>()));
            }
        }
        for src in &bn {
            w.push("nme", vec![hex(src)]);
            if src.len() > 4000 {
                continue;
            }
            let Outcome::Done(Ok(enc)) = guarded(AssertUnwindSafe(|| v::name_tokenizer_encode(src))) else { continue };
            w.push("nmd", vec![hex(&enc), hex(src)]);
        }

        // -- rANS 4x8 / Nx16 / AAC: raw totals around 4096 and 8192 (normalisation is the identity /
        // an exact halving at the middle value), 65536 (thorough), with 1, 2, 15..17, 255, 256 symbols
        // of which all but one occur once or twice (bumped to frequency 1 by the normalisation), and
        // balanced two-symbol inputs; AAC: the model total reaches exactly 65519 (no halving) or one
        // step more after (65519 - nsym) / 16 symbols
        let mut tot: Vec<Vec<u8>> = Vec::new();
        let mut lens = vec![4094usize, 4095, 4096, 4097, 4098, 8191, 8192, 8193];
        if thorough {
            lens.extend([2047, 2048, 2049, 16383, 16384, 16385, 65535, 65536, 65537]);
        }
        for &l in &lens {
            for rare in [0usize, 1, 2, 15, 16, 17, 254, 255] {
                for reps in [1usize, 2] {
                    if rare * reps >= l || (rare == 0 && reps == 2) {
                        continue;
                    }
                    let mut v = Vec::with_capacity(l);
                    for r in 0..rare {
                        for _ in 0..reps {
                            v.push((r + 1) as u8);
                        }
                    }
                    while v.len() < l {
                        v.push(0);
                    }
                    // rare symbols spread over the input rather than in front
                    let step = (l / (rare * reps).max(1)).max(1);
                    let mut sp = vec![0u8; l];
                    let mut used = vec![false; l];
                    for (k, &b) in v.iter().take(rare * reps).enumerate() {
                        let pos = (k * step + k % 3) % l;
                        let mut q = pos;
                        while used[q] {
                            q = (q + 1) % l;
                        }
                        used[q] = true;
                        sp[q] = b;
                    }
                    tot.push(sp);
                }
            }
            for a in [l / 2 - 1, l / 2, l / 2 + 1] {
                let mut v = vec![7u8; a];
                v.extend(std::iter::repeat(9u8).take(l - a));
                tot.push(v);
            }
        }
        for (ti, src) in tot.iter().enumerate() {
            for order in [0u64, 1] {
                if src.len() <= 8200 || ti % 2 == order as usize {
                    w.push("r4", vec![order.to_string(), hex(src)]);
                }
            }
            for f in [0x00u8, 0x01, 0x04, 0x05] {
                if src.len() <= 4100 || (ti + f as usize) % 3 == 0 {
                    w.push("nfe", vec![f.to_string(), hex(src)]);
                }
            }
        }
        for nsym in [1usize, 2, 15, 16, 31, 47, 255, 256] {
            let centre = (65519 - nsym) / 16;
            for l in centre.saturating_sub(2)..=centre + 3 {
                // symbol nsym-1 first (fixes the model size), then one dominant symbol
                let mut v = vec![(nsym - 1) as u8];
                v.extend(std::iter::repeat(0u8).take(l));
                for f in [0x00u8, 0x01] {
                    w.push("aae", vec![f.to_string(), hex(&v)]);
                }
            }
        }

        // -- run lengths at the byte / uint7 / base-4 digit boundaries (Nx16 RLE: uint7 run lengths;
        // AAC RLE: digits 0..3, 3 = more; PACK: 8 / 4 / 2 symbols per byte)
        let mut runs: Vec<Vec<u8>> = Vec::new();
        let mut rl = vec![1usize, 2, 3, 4, 5, 6, 7, 8, 9, 10, 126, 127, 128, 129, 130, 254, 255, 256, 257, 258, 259];
        if thorough {
            rl.extend([16382, 16383, 16384, 16385, 16386, 65535, 65536, 65537]);
        }
        for &r in &rl {
            let mut v = vec![5u8; r];
            v.push(9);
            v.extend(std::iter::repeat(5u8).take(r + 1));
            v.extend([9, 9, 1]);
            runs.push(v);
            // one run only, and a run of every symbol of a 4-symbol alphabet (PACK applies as well)
            runs.push(vec![200u8; r]);
            let mut q = Vec::new();
            for sy in [0u8, 1, 2, 3] {
                q.extend(std::iter::repeat(sy).take(r));
            }
            runs.push(q);
        }
        for (ri, src) in runs.iter().enumerate() {
            for f in [0x40u8, 0x41, 0xc0, 0x60, 0x80, 0x44] {
                if src.len() > 3000 && (ri + f as usize) % 2 == 0 {
                    continue;
                }
                w.push("nfe", vec![f.to_string(), hex(src)]);
                if src.len() <= 1100 {
                    if let Outcome::Done(Ok(enc)) = guarded(AssertUnwindSafe(|| v::rans_nx16_encode(rans_nx16::Flags::from(f), src))) {
                        w.push("nfd", vec![f.to_string(), src.len().to_string(), hex(&enc), hex(src)]);
                    }
                }
            }
            for f in [0x40u8, 0x41, 0xc0, 0x80] {
                if src.len() > 3000 && (ri + f as usize) % 2 == 0 {
                    continue;
                }
                w.push("aae", vec![f.to_string(), hex(src)]);
                if src.len() <= 1100 {
                    if let Outcome::Done(Ok(enc)) = guarded(AssertUnwindSafe(|| v::aac_encode(aac::Flags::from(f), src))) {
                        w.push("aad", vec![f.to_string(), src.len().to_string(), hex(&enc), hex(src)]);
                    }
                }
            }
        }

        // -- fqzcomp: record lengths at the byte boundaries of the four length bytes, at the position
        // table limit (1023) and at the shift classes of the first record (128, 256, 512)
        let mut fl: Vec<Vec<usize>> = Vec::new();
        for l in [1usize, 127, 128, 129, 255, 256, 257, 511, 512, 513, 1022, 1023, 1024, 1025, 1026] {
            fl.push(vec![l]);
            fl.push(vec![l, l]);
            fl.push(vec![l, l + 1, l]);
        }
        if thorough {
            for l in [65535usize, 65536, 65537] {
                fl.push(vec![l]);
                fl.push(vec![3, l, 3]);
            }
        }
        for lens in &fl {
            let total: usize = lens.iter().sum();
            let src = shaped(rng, "qual", total);
            let ls = lens.iter().map(|l| l.to_string()).collect::<Vec<_>>().join(",");
            w.push("fqe", vec![ls, hex(&src)]);
            if total <= 2100 {
                if let Outcome::Done(Ok(enc)) = guarded(AssertUnwindSafe(|| v::fqzcomp_encode(lens, &src))) {
                    w.push("fqd", vec![hex(&enc), hex(&src)]);
                }
            }
        }
    }
}

fn run(c: &Case) -> Obs {
    match c.kind.as_str() {
        "itf8" | "ltf8" | "u7" => int_case(c),
        "itf8r" | "ltf8r" | "u7r" => read_case(c),
        "isweep" => sweep_case(c),
        "r4" => r4_case(c.u(0), &c.b(1), true),
        "r4d" => r4d_case(c),
        "nx16" => nx16_case(c.u(0) as u8, &c.b(1)),
        "aac" => aac_case(c.u(0) as u8, &c.b(1)),
        "nxe" => nxe_case(c.u(0) as u8, &c.b(1)),
        "nxd" | "nfd" => nxd_case(c),
        "nfe" => nfe_case(c.u(0) as u8, &c.b(1)),
        "aae" => aae_case(c.u(0) as u8, &c.b(1)),
        "aad" => aad_case(c),
        "fqz" => {
            let lens: Vec<usize> = if c.args[0] == "_" { vec![] } else { c.args[0].split(',').map(|x| x.parse().unwrap()).collect() };
            fqz_case(&lens, &c.b(1))
        }
        "fqe" => {
            let lens: Vec<usize> = if c.args[0] == "_" { vec![] } else { c.args[0].split(',').map(|x| x.parse().unwrap()).collect() };
            fqe_case(&lens, &c.b(1))
        }
        "fqd" | "fqq" => fqd_case(c),
        "names" => names_case(&c.b(0)),
        "nme" => nme_case(&c.b(0)),
        "nmd" => nmd_case(c),
        "gz" | "bz2" | "xz" => ext_case(&c.kind, c.u(0) as u32, &c.b(1)),
        "big" => {
            let mut rng = Rng(c.u(4));
            let src = shaped(&mut rng, &c.args[2], c.u(3) as usize);
            let p = c.u(1);
            match c.args[0].as_str() {
                "r4" => r4_case(p, &src, false),
                "nx16" => nx16_case(p as u8, &src),
                "aac" => aac_case(p as u8, &src),
                "fqz" => {
                    let mut lens = vec![p as usize; src.len() / p as usize];
                    if src.len() % p as usize != 0 {
                        lens.push(src.len() % p as usize);
                    }
                    fqz_case(&lens, &src)
                }
                k => ext_case(k, p as u32, &src),
            }
        }
        _ => Obs { obs: "-".into(), verdict: "skip".into(), nontrivial: false },
    }
}

fn main() {
    nv::main_with(generate, run)
}
