//! C11: FASTA/FASTQ indexing and random access return exactly the indexed bases.
//!
//! Modelled kinds (obs compared with the extracted Coq model NV.Fasta.{Layout,Indexer,Query}):
//!   idx <file> <mode>                  fai records built by fasta::io::Indexer, or the records so
//!                                      far and the error class
//!   q   <file> <mode> <regions>        regions with start <= length (or unbounded start):
//!                                      index with the real indexer, query through IndexedReader
//!   qb  <file> <mode> <regions>        regions whose start lies beyond the sequence length
//!   wr  <w> <records>                  bytes written by fasta::io::Writer at line width w, the
//!                                      records fasta::io::Reader reads back from them and the fai
//!                                      records the indexer builds on them
//!   rd  <file>                         records read by fasta::io::Reader::records (or the records
//!                                      so far and the error class); rdw = same, verdict skip
//!   np  <file>                         the naive whole-file parse (the truth of the L3 oracle) as
//!                                      the Coq definition NV.Fasta.Layout.naive_file states it
//!   qd  <file> <cap> <script> <regions> each region through a fresh IndexedReader over
//!                                      BufReader::with_capacity(cap, ScriptedReader(file, script)):
//!                                      script = delivery events (`k` = at most k bytes, `i` =
//!                                      ErrorKind::Interrupted), the model's NV.Io.Source language
//!   fq  <records> [sep]                bytes written by fastq::io::Writer (definition separator
//!                                      sep, default SP), the records fastq::io::Reader reads back
//!                                      and the fastq fai records
//!   fqr <file>                         records read by fastq::io::Reader::records and index records
//!                                      of fastq::io::Indexer on arbitrary bytes
//!
//! <mode>: c0 = Cursor over the bytes; b<k> = std BufReader of capacity k; z<k> = BGZF with blocks
//! of k uncompressed bytes + gzi through bgzf::io::IndexedReader (indexing reads through the
//! BGZF reader, so fill_buf chunks end at block boundaries).
//! <regions>: `hexname:s:e;...` with `-` for an open bound.
//!
//! The truth (L3 oracle) is `naive_parse`: a whole-file parse written here, independent of noodles.

use std::{
    io::{self, BufRead, BufReader, Cursor, Seek, Write},
    num::NonZero,
    panic::AssertUnwindSafe,
};

use noodles_bgzf as bgzf;
use noodles_core::{Position, Region, region::Interval};
use noodles_fasta::{self as fasta, fai};
use noodles_fastq as fastq;
use nv::adversary::{Deliver, ScriptedReader};
use nv::{Case, CaseWriter, Obs, Outcome, Rng, guarded, hex, unhex};

#[path = "../shared/c11_deep4.rs"]
mod c11_deep4;
#[path = "../shared/c11_deep7.rs"]
mod c11_deep7;

// -------------------------------------------------------------------------------------------
// naive whole-file parse (the truth)

#[derive(Clone, Debug)]
struct NLine {
    off: usize,   // offset of the first byte of the raw line
    raw: usize,   // raw length including terminator
    bases: usize, // content length (LF and one CR before it stripped)
}

#[derive(Clone, Debug)]
struct NRec {
    name: Vec<u8>,
    bases: Vec<u8>,
    lines: Vec<NLine>, // raw lines between this definition and the next one / EOF
}

fn is_ws(b: u8) -> bool {
    matches!(b, b' ' | b'\t' | b'\n' | 0x0c | b'\r')
}

/// None = the file does not start with a definition line or a definition has no name.
fn naive_parse(f: &[u8]) -> Option<Vec<NRec>> {
    let mut recs: Vec<NRec> = Vec::new();
    let mut i = 0;
    while i < f.len() {
        let j = f[i..].iter().position(|&b| b == b'\n').map(|p| i + p + 1).unwrap_or(f.len());
        let raw = &f[i..j];
        let mut c = raw;
        if c.last() == Some(&b'\n') {
            c = &c[..c.len() - 1];
        }
        if c.last() == Some(&b'\r') {
            c = &c[..c.len() - 1];
        }
        if raw[0] == b'>' {
            let n: Vec<u8> = c[1..].iter().copied().take_while(|&b| !is_ws(b)).collect();
            if n.is_empty() {
                return None;
            }
            recs.push(NRec { name: n, bases: vec![], lines: vec![] });
        } else {
            let r = recs.last_mut()?;
            r.bases.extend_from_slice(c);
            r.lines.push(NLine { off: i, raw: j - i, bases: c.len() });
        }
        i = j;
    }
    Some(recs)
}

/// The Coq definition naive_file, literally: one (name, bases) per line starting with '>', lines
/// before the first one ignored, a malformed definition has the empty name.
fn naive_records_total(f: &[u8]) -> Vec<(Vec<u8>, Vec<u8>)> {
    let mut recs: Vec<(Vec<u8>, Vec<u8>)> = Vec::new();
    let mut i = 0;
    while i < f.len() {
        let j = f[i..].iter().position(|&b| b == b'\n').map(|p| i + p + 1).unwrap_or(f.len());
        let raw = &f[i..j];
        if raw[0] == b'>' {
            let mut c = raw;
            if c.last() == Some(&b'\n') {
                c = &c[..c.len() - 1];
                if c.last() == Some(&b'\r') {
                    c = &c[..c.len() - 1];
                }
            }
            let n: Vec<u8> = c[1..].iter().copied().take_while(|&b| !is_ws(b)).collect();
            recs.push((n, vec![]));
        } else if let Some(r) = recs.last_mut() {
            let mut c = raw;
            if c.last() == Some(&b'\n') {
                c = &c[..c.len() - 1];
            }
            if c.last() == Some(&b'\r') {
                c = &c[..c.len() - 1];
            }
            r.1.extend_from_slice(c);
        }
        i = j;
    }
    recs
}

fn run_np(f: &[u8]) -> Obs {
    let total = naive_records_total(f);
    let obs = total.iter().map(|(n, b)| format!("{}:{}", hex(n), hex(b))).collect::<Vec<_>>().join(";");
    let obs = if obs.is_empty() { "none".to_string() } else { obs };
    if let Some(naive) = naive_parse(f) {
        let same = naive.len() == total.len() && naive.iter().zip(&total).all(|(a, b)| a.name == b.0 && a.bases == b.1);
        if !same {
            return Obs::fail(obs, "naive-parse-definitions-disagree", format!("{} vs {}", naive.len(), total.len()));
        }
    }
    Obs::ok(obs, total.len() > 1)
}

/// every line but the last has the geometry of the first, the last has at most that; >= 1 base
fn naive_regular(r: &NRec) -> bool {
    let Some(first) = r.lines.first() else { return false };
    if first.bases == 0 {
        return false;
    }
    let n = r.lines.len();
    r.lines.iter().enumerate().all(|(k, l)| {
        if k + 1 == n && k > 0 {
            l.raw <= first.raw && l.bases <= first.bases
        } else {
            l.raw == first.raw && l.bases == first.bases
        }
    })
}

// -------------------------------------------------------------------------------------------
// sources

#[derive(Clone, Copy, Debug, PartialEq)]
enum Mode {
    Cursor,
    Buf(usize),
    Bgzf(usize),
}

fn parse_mode(s: &str) -> Mode {
    let k: usize = s[1..].parse().expect("mode");
    match &s[..1] {
        "c" => Mode::Cursor,
        "b" => Mode::Buf(k.max(1)),
        "z" => Mode::Bgzf(k.max(1)),
        _ => panic!("mode"),
    }
}

fn mode_name(m: Mode) -> &'static str {
    match m {
        Mode::Cursor => "plain",
        Mode::Buf(_) => "bufreader",
        Mode::Bgzf(_) => "bgzf",
    }
}

/// BGZF-compress with one block per `blk` uncompressed bytes; returns (bytes, gzi)
fn bgzip(f: &[u8], blk: usize) -> (Vec<u8>, bgzf::gzi::Index) {
    let mut w = bgzf::io::Writer::new(Vec::new());
    let mut entries = Vec::new();
    let mut done = 0usize;
    for chunk in f.chunks(blk) {
        if done > 0 {
            entries.push((w.position(), done as u64));
        }
        w.write_all(chunk).unwrap();
        w.flush().unwrap();
        done += chunk.len();
    }
    let bytes = w.finish().unwrap();
    (bytes, bgzf::gzi::Index::from(entries))
}

fn canon_index_error<E: std::fmt::Debug + Into<io::Error>>(e: E) -> String {
    let d = format!("{e:?}");
    let variant = d.split('(').next().unwrap_or("").to_string();
    match variant.as_str() {
        "Io" => {
            let ioe: io::Error = e.into();
            format!("Err:Io:{}", nv::errkind(&ioe))
        }
        "EmptySequence" | "InvalidLineBases" | "InvalidLineWidth" => {
            let inner = d[variant.len() + 1..d.len() - 1].replace(", ", ":");
            format!("Err:{variant}:{inner}")
        }
        _ => format!("Err:?{d}"),
    }
}

fn index_all<R: BufRead>(r: R) -> (Vec<fai::Record>, Option<String>) {
    let mut ix = fasta::io::Indexer::new(r);
    let mut recs = Vec::new();
    loop {
        match guarded(AssertUnwindSafe(|| ix.index_record())) {
            Outcome::Panicked(_) => return (recs, Some("Panic".into())),
            Outcome::Done(Ok(Some(r))) => recs.push(r),
            Outcome::Done(Ok(None)) => return (recs, None),
            Outcome::Done(Err(e)) => return (recs, Some(canon_index_error(e))),
        }
    }
}

fn run_index(f: &[u8], mode: Mode) -> (Vec<fai::Record>, Option<String>) {
    match mode {
        Mode::Cursor => index_all(f),
        Mode::Buf(k) => index_all(BufReader::with_capacity(k, f)),
        Mode::Bgzf(k) => {
            let (z, _) = bgzip(f, k);
            index_all(bgzf::io::Reader::new(Cursor::new(z)))
        }
    }
}

fn fmt_index(recs: &[fai::Record], err: &Option<String>) -> String {
    let rs: Vec<String> = recs
        .iter()
        .map(|r| {
            format!(
                "{}:{}:{}:{}:{}",
                hex(r.name()),
                r.length(),
                r.position(),
                r.line_base_count(),
                r.line_width()
            )
        })
        .collect();
    format!("{}|{}", rs.join(","), err.clone().unwrap_or_else(|| "ok".into()))
}

// -------------------------------------------------------------------------------------------
// regions

#[derive(Clone, Debug)]
struct Reg {
    name: Vec<u8>,
    s: Option<u64>,
    e: Option<u64>,
}

fn fmt_regions(rs: &[Reg]) -> String {
    if rs.is_empty() {
        return "_".into();
    }
    let o = |x: Option<u64>| x.map(|v| v.to_string()).unwrap_or_else(|| "-".into());
    rs.iter()
        .map(|r| format!("{}:{}:{}", hex(&r.name), o(r.s), o(r.e)))
        .collect::<Vec<_>>()
        .join(";")
}

fn parse_regions(s: &str) -> Vec<Reg> {
    if s == "_" {
        return vec![];
    }
    let o = |x: &str| if x == "-" { None } else { Some(x.parse::<u64>().unwrap()) };
    s.split(';')
        .map(|r| {
            let p: Vec<&str> = r.split(':').collect();
            Reg { name: unhex(p[0]), s: o(p[1]), e: o(p[2]) }
        })
        .collect()
}

fn to_region(r: &Reg) -> Region {
    let p = |x: u64| Position::try_from(x as usize).expect("position >= 1");
    let iv: Interval = match (r.s, r.e) {
        (Some(s), Some(e)) => Interval::from(p(s)..=p(e)),
        (Some(s), None) => Interval::from(p(s)..),
        (None, Some(e)) => Interval::from(..=p(e)),
        (None, None) => Interval::from(..),
    };
    Region::new(r.name.clone(), iv)
}

fn query_all<R: BufRead + Seek>(inner: R, index: fai::Index, regs: &[Reg]) -> Vec<Result<Vec<u8>, String>> {
    let mut rd = fasta::io::IndexedReader::new(inner, index);
    regs.iter()
        .map(|r| {
            let region = to_region(r);
            match guarded(AssertUnwindSafe(|| rd.query(&region))) {
                Outcome::Panicked(_) => Err("Panic".to_string()),
                Outcome::Done(Ok(rec)) => Ok(rec.sequence().as_ref().to_vec()),
                Outcome::Done(Err(e)) => Err(format!("Err:{}", nv::errkind(&e))),
            }
        })
        .collect()
}

fn run_queries(f: &[u8], mode: Mode, index: fai::Index, regs: &[Reg]) -> Vec<Result<Vec<u8>, String>> {
    match mode {
        Mode::Cursor => query_all(Cursor::new(f), index, regs),
        Mode::Buf(k) => query_all(BufReader::with_capacity(k, Cursor::new(f)), index, regs),
        Mode::Bgzf(k) => {
            let (z, gzi) = bgzip(f, k);
            query_all(bgzf::io::IndexedReader::new(Cursor::new(z), gzi), index, regs)
        }
    }
}

fn fmt_script(s: &[Deliver]) -> String {
    if s.is_empty() {
        return "_".into();
    }
    s.iter()
        .map(|e| match e {
            Deliver::Interrupted => "i".to_string(),
            Deliver::Bytes(k) => k.to_string(),
        })
        .collect::<Vec<_>>()
        .join(",")
}

fn parse_script(s: &str) -> Vec<Deliver> {
    if s == "_" {
        return Vec::new();
    }
    s.split(',')
        .map(|t| if t == "i" { Deliver::Interrupted } else { Deliver::Bytes(t.parse().expect("script item")) })
        .collect()
}

/// qd: every region through its own reader, so that each query sees the script from its start
fn run_qd(c: &Case) -> Obs {
    let f = c.b(0);
    let cap = (c.u(1) as usize).max(1);
    let script = parse_script(&c.args[2]);
    let regs = parse_regions(&c.args[3]);
    let (recs, _err) = run_index(&f, Mode::Cursor);
    let index = fai::Index::from(recs.clone());
    let mut res = Vec::new();
    for r in &regs {
        let inner = BufReader::with_capacity(cap, ScriptedReader::new(f.clone(), script.clone()));
        res.extend(query_all(inner, index.clone(), std::slice::from_ref(r)));
    }
    let obs = fmt_results(&res);
    Obs::ok(obs, regs.len() > 1).with_verdict(check_queries(&f, Mode::Buf(cap), &recs, &regs, &res))
}

/// kind qdp (wave 10): as qd, plus `BufReader::stream_position()` after every query
/// (obs = `<result>@<position>,...`; `-` after a panic).  Model:
/// NV.Fasta.QueryPos.index_and_query_delivered_pos, which the driver also compares with the closed
/// form index_and_query_pos_closed (query_pos_spec / seq_rest).  Oracle (independent of the model):
/// the bytes between the seek target and the reported position, without CR / LF, are the bases
/// returned, and when all the bases asked for were returned the position is just behind the last one.
fn run_qdp(c: &Case) -> Obs {
    use std::io::Seek;
    let f = c.b(0);
    let cap = (c.u(1) as usize).max(1);
    let script = parse_script(&c.args[2]);
    let regs = parse_regions(&c.args[3]);
    let (recs, _err) = run_index(&f, Mode::Cursor);
    let index = fai::Index::from(recs.clone());
    let mut res = Vec::new();
    let mut obs = Vec::new();
    let mut bad: Option<String> = None;
    for r in &regs {
        let inner = BufReader::with_capacity(cap, ScriptedReader::new(f.clone(), script.clone()));
        let mut rd = fasta::io::IndexedReader::new(inner, index.clone());
        let region = to_region(r);
        let out = match guarded(AssertUnwindSafe(|| rd.query(&region))) {
            Outcome::Panicked(_) => Err("Panic".to_string()),
            Outcome::Done(Ok(rec)) => Ok(rec.sequence().as_ref().to_vec()),
            Outcome::Done(Err(e)) => Err(format!("Err:{}", nv::errkind(&e))),
        };
        let pos = if out == Err("Panic".to_string()) {
            "-".to_string()
        } else {
            match rd.get_mut().stream_position() {
                Ok(p) => p.to_string(),
                Err(e) => format!("Err:{}", nv::errkind(&e)),
            }
        };
        if let (Ok(bases), Ok(p), Ok(start)) = (&out, pos.parse::<usize>(), index.query(&region)) {
            let start = (start as usize).min(f.len());
            let plain = bases.iter().all(|b| *b != b'\r' && *b != b'\n');
            if p < start || p > f.len() {
                bad.get_or_insert(format!("position {p} outside [{start}, {}]", f.len()));
            } else if plain {
                let between: Vec<u8> = f[start..p].iter().copied().filter(|b| *b != b'\r' && *b != b'\n').collect();
                let want = r.e.map(|e| (e - r.s.unwrap_or(1) + 1) as usize);
                if &between != bases {
                    bad.get_or_insert(format!("bytes up to position {p} are not the bases returned"));
                } else if want == Some(bases.len()) && !bases.is_empty() && f[p - 1] != *bases.last().unwrap() {
                    bad.get_or_insert(format!("position {p} is not just behind the last base"));
                }
            }
        }
        obs.push(format!("{}@{}", fmt_results(std::slice::from_ref(&out)), pos));
        res.push(out);
    }
    let o = Obs::ok(obs.join(","), regs.len() > 1).with_verdict(check_queries(&f, Mode::Buf(cap), &recs, &regs, &res));
    match bad {
        Some(d) if !o.verdict.starts_with("fail") => o.with_verdict(Err(("fasta-query-position".to_string(), d))),
        _ => o,
    }
}

fn fai_roundtrip(recs: &[fai::Record]) -> Result<fai::Index, String> {
    let index = fai::Index::from(recs.to_vec());
    let mut w = fai::io::Writer::new(Vec::new());
    w.write_index(&index).map_err(|e| format!("write: {e}"))?;
    let bytes = w.into_inner();
    let back = fai::io::Reader::new(&bytes[..]).read_index().map_err(|e| format!("read: {e}"))?;
    if back != index {
        return Err(format!("{back:?} != {index:?}"));
    }
    Ok(back)
}

/// Repository over the indexed reader: `get(name)` is the whole naive sequence
fn check_repository(f: &[u8], index: fai::Index) -> Result<(), String> {
    let Some(naive) = naive_parse(f) else { return Ok(()) };
    let names: Vec<Vec<u8>> = index.as_ref().iter().map(|r| r.name().to_vec()).collect();
    let rd = fasta::io::IndexedReader::new(Cursor::new(f.to_vec()), index);
    let repo = fasta::Repository::new(fasta::repository::adapters::IndexedReader::new(rd));
    for (k, n) in names.iter().enumerate() {
        for _ in 0..2 {
            match repo.get(n) {
                Some(Ok(seq)) if seq.as_ref().as_ref() == &naive[k].bases[..] => {}
                other => return Err(format!("record {k}: {:?}", other.map(|r| r.map(|s| s.len())))),
            }
        }
    }
    Ok(())
}

/// The on-disk flow: fasta::fs::index, fai::fs::write, (bgzip + gzi::fs::write,)
/// indexed_reader::Builder::build_from_path; results must equal the in-memory ones.
fn run_path_flow(id: &str, f: &[u8], mode: Mode, regs: &[Reg]) -> Result<Vec<Result<Vec<u8>, String>>, String> {
    let dir = std::path::PathBuf::from(format!("/tmp/C11/run-{}-{id}", std::process::id()));
    std::fs::create_dir_all(&dir).map_err(|e| e.to_string())?;
    let out = (|| -> io::Result<Vec<Result<Vec<u8>, String>>> {
        let plain = dir.join("ref.fa");
        std::fs::write(&plain, f)?;
        let index = fasta::fs::index(&plain)?;
        let src = match mode {
            Mode::Bgzf(k) => {
                let (z, gzi) = bgzip(f, k);
                let p = dir.join(if k % 2 == 0 { "ref.fa.gz" } else { "ref.fa.bgz" });
                std::fs::write(&p, z)?;
                let mut g = p.clone().into_os_string();
                g.push(".gzi");
                bgzf::gzi::fs::write(g, &gzi)?;
                p
            }
            _ => plain.clone(),
        };
        let mut fai_path = src.clone().into_os_string();
        fai_path.push(".fai");
        fai::fs::write(fai_path, &index)?;
        let mut rd = fasta::io::indexed_reader::Builder::default().build_from_path(&src)?;
        Ok(regs
            .iter()
            .map(|r| {
                let region = to_region(r);
                match guarded(AssertUnwindSafe(|| rd.query(&region))) {
                    Outcome::Panicked(_) => Err("Panic".to_string()),
                    Outcome::Done(Ok(rec)) => Ok(rec.sequence().as_ref().to_vec()),
                    Outcome::Done(Err(e)) => Err(format!("Err:{}", nv::errkind(&e))),
                }
            })
            .collect())
    })();
    let _ = std::fs::remove_dir_all(&dir);
    out.map_err(|e| format!("{:?}", e.kind()))
}

fn fmt_results(rs: &[Result<Vec<u8>, String>]) -> String {
    rs.iter()
        .map(|r| match r {
            Ok(b) => hex(b),
            Err(e) => e.clone(),
        })
        .collect::<Vec<_>>()
        .join(",")
}

// -------------------------------------------------------------------------------------------
// oracles

fn eol_class(f: &[u8]) -> &'static str {
    let lf = f.iter().filter(|&&b| b == b'\n').count();
    let crlf = f.windows(2).filter(|w| w == b"\r\n").count();
    if crlf == 0 {
        "lf"
    } else if crlf == lf {
        "crlf"
    } else {
        "mixed-eol"
    }
}

fn region_class(r: &Reg, len: u64, lb: u64) -> &'static str {
    let s = r.s.unwrap_or(1);
    match (r.s, r.e) {
        (None, None) => "whole",
        (_, None) => "to-end",
        (_, Some(e)) if e < s => "end-before-start",
        (_, Some(e)) if e > len => "end-beyond-length",
        (_, Some(e)) if e == s => "single-base",
        (_, Some(e)) if (s - 1) / lb.max(1) == (e - 1) / lb.max(1) => "within-line",
        _ => "line-spanning",
    }
}

/// idx: every base of every accepted record sits at the offset the fai record computes
fn check_index(f: &[u8], recs: &[fai::Record], err: &Option<String>) -> Result<(), (String, String)> {
    let Some(naive) = naive_parse(f) else { return Ok(()) };
    let eol = eol_class(f);
    for (k, r) in recs.iter().enumerate() {
        let Some(n) = naive.get(k) else {
            return Err((format!("fai-extra-record-{eol}"), format!("record {k}")));
        };
        let shape = if naive_regular(n) { "regular" } else { "ragged" };
        if r.name() != &n.name[..] {
            return Err((format!("fai-name-{shape}-{eol}"), format!("record {k}")));
        }
        if r.length() != n.bases.len() as u64 {
            return Err((
                format!("fai-length-{shape}-{eol}"),
                format!("record {k} length {} naive {}", r.length(), n.bases.len()),
            ));
        }
        let (lb, lw) = (r.line_base_count().get(), r.line_width().get());
        for i in 0..n.bases.len() as u64 {
            let off = r.position() + i / lb * lw + i % lb;
            if f.get(off as usize) != Some(&n.bases[i as usize]) {
                return Err((
                    format!("fai-offset-{shape}-{eol}"),
                    format!("record {k} base {} computed offset {off}", i + 1),
                ));
            }
        }
    }
    match err {
        None => {
            if recs.len() != naive.len() {
                return Err((format!("fai-missing-record-{eol}"), format!("{} of {}", recs.len(), naive.len())));
            }
        }
        Some(e) => {
            // the record the indexer stopped at must not be a regular one
            if let Some(n) = naive.get(recs.len()) {
                if naive_regular(n) {
                    return Err((format!("regular-record-rejected-{eol}"), format!("record {} {e}", recs.len())));
                }
            }
        }
    }
    Ok(())
}

/// idx: whenever the real indexer ACCEPTS records of a file, single-base queries through that
/// index and the real reader return the naive base: all bases of records <= 200 bases, otherwise
/// the first / last base of the record and of every line plus a deterministic sample.
fn check_accepted_bases(f: &[u8], recs: &[fai::Record]) -> Result<(), (String, String)> {
    let Some(naive) = naive_parse(f) else { return Ok(()) };
    let eol = eol_class(f);
    let mut regs = Vec::new();
    let mut want = Vec::new();
    let mut shapes = Vec::new();
    for (k, r) in recs.iter().enumerate() {
        let Some(n) = naive.get(k) else { break };
        if recs[..k].iter().any(|x| x.name() == r.name()) {
            continue; // a duplicate name resolves to the first record
        }
        let len = n.bases.len();
        let mut ps: Vec<usize> = Vec::new();
        if len <= 200 {
            ps.extend(1..=len);
        } else {
            ps.push(1);
            ps.push(len);
            let mut at = 0usize;
            for l in &n.lines {
                if l.bases > 0 {
                    ps.push(at + 1);
                    ps.push(at + l.bases);
                }
                at += l.bases;
            }
            let mut h = (len as u64).wrapping_mul(0x9E37_79B9_7F4A_7C15) ^ f.len() as u64;
            for _ in 0..12 {
                h = h.wrapping_mul(6364136223846793005).wrapping_add(1442695040888963407);
                ps.push(1 + (h >> 33) as usize % len);
            }
        }
        // the index may claim more bases than the naive parse has: ask for those too
        for p in len + 1..=(r.length() as usize).min(len + 3) {
            ps.push(p);
        }
        for p in ps {
            regs.push(Reg { name: n.name.clone(), s: Some(p as u64), e: Some(p as u64) });
            want.push(n.bases.get(p - 1).map(|&b| vec![b]).unwrap_or_default());
            shapes.push(if naive_regular(n) { "regular" } else { "ragged" });
        }
    }
    if regs.is_empty() {
        return Ok(());
    }
    let res = run_queries(f, Mode::Cursor, fai::Index::from(recs.to_vec()), &regs);
    for (((r, got), w), shape) in regs.iter().zip(&res).zip(&want).zip(&shapes) {
        let ok = match got {
            Ok(b) => b == w,
            Err(e) => w.is_empty() && e != "Panic",
        };
        if !ok {
            return Err((
                format!("fasta-accepted-base-query-{shape}-{eol}"),
                format!(
                    "{}:{} got={} want={}",
                    String::from_utf8_lossy(&r.name),
                    r.s.unwrap(),
                    match got {
                        Ok(b) => format!("{:?}", String::from_utf8_lossy(b)),
                        Err(e) => e.clone(),
                    },
                    String::from_utf8_lossy(w)
                ),
            ));
        }
    }
    Ok(())
}

fn check_queries(
    f: &[u8],
    mode: Mode,
    recs: &[fai::Record],
    regs: &[Reg],
    res: &[Result<Vec<u8>, String>],
) -> Result<(), (String, String)> {
    let Some(naive) = naive_parse(f) else { return Ok(()) };
    let eol = eol_class(f);
    let src = mode_name(mode);
    let mut beyond: Option<(String, String)> = None;
    for (r, got) in regs.iter().zip(res) {
        let Some(k) = recs.iter().position(|x| x.name() == &r.name[..]) else {
            if got.is_ok() {
                return Err((format!("fasta-query-unknown-name-{src}"), hex(&r.name)));
            }
            continue;
        };
        let n = &naive[k];
        let len = n.bases.len() as u64;
        let s = r.s.unwrap_or(1);
        let e = r.e.unwrap_or(u64::MAX);
        if e < s {
            continue; // not a region
        }
        let detail = |got: &Result<Vec<u8>, String>, want: &[u8]| {
            format!(
                "{}:{}-{} len={len} got={} want={}",
                String::from_utf8_lossy(&r.name),
                s,
                r.e.map(|v| v.to_string()).unwrap_or_default(),
                match got {
                    Ok(b) => String::from_utf8_lossy(&b[..b.len().min(40)]).escape_default().to_string(),
                    Err(e) => e.clone(),
                },
                String::from_utf8_lossy(&want[..want.len().min(40)])
            )
        };
        if s > len {
            // clipped at the sequence end: nothing may be returned (an error is acceptable)
            match got {
                Ok(b) if !b.is_empty() => {
                    if beyond.is_none() {
                        beyond = Some(("fasta-query-start-beyond-length".into(), detail(got, b"")));
                    }
                }
                Err(p) if p == "Panic" => {
                    return Err((format!("fasta-query-start-beyond-length-panic-{src}"), detail(got, b"")));
                }
                _ => {}
            }
            continue;
        }
        let want = &n.bases[(s - 1) as usize..e.min(len) as usize];
        let ok = matches!(got, Ok(b) if &b[..] == want);
        if !ok {
            let class = region_class(r, len, recs[k].line_base_count().get());
            return Err((format!("fasta-query-{class}-{eol}-{src}"), detail(got, want)));
        }
    }
    match beyond {
        Some(b) => Err(b),
        None => Ok(()),
    }
}

// -------------------------------------------------------------------------------------------
// FASTA writer / FASTQ round trips

type WRec = (Vec<u8>, Option<Vec<u8>>, Vec<u8>);

/// fasta::io::Reader::records until the end or the first error
fn read_fasta<R: BufRead>(r: R) -> (Vec<fasta::Record>, Option<String>) {
    let mut rd = fasta::io::Reader::new(r);
    let mut out = Vec::new();
    let mut it = rd.records();
    loop {
        match guarded(AssertUnwindSafe(|| it.next())) {
            Outcome::Panicked(_) => return (out, Some("Panic".into())),
            Outcome::Done(None) => return (out, None),
            Outcome::Done(Some(Ok(r))) => out.push(r),
            Outcome::Done(Some(Err(e))) => return (out, Some(format!("Err:{}", nv::errkind(&e)))),
        }
    }
}

fn fmt_frecs(recs: &[fasta::Record], err: &Option<String>) -> String {
    let rs: Vec<String> = recs
        .iter()
        .map(|r| {
            format!(
                "{}:{}:{}",
                hex(r.name()),
                r.description().map(|d| hex(d)).unwrap_or_else(|| "-".into()),
                hex(r.sequence().as_ref())
            )
        })
        .collect();
    format!("{}|{}", rs.join(";"), err.clone().unwrap_or_else(|| "ok".into()))
}

/// rd: the sequential reader against the naive parse, and the same records for every chunking
fn run_rd(f: &[u8], judged: bool) -> Obs {
    let (recs, err) = read_fasta(f);
    let obs = fmt_frecs(&recs, &err);
    if !judged {
        return Obs { obs, verdict: "skip".into(), nontrivial: false };
    }
    let eol = eol_class(f);
    for cap in [1usize, 2, 3, 5, 64] {
        let (r2, e2) = read_fasta(BufReader::with_capacity(cap, f));
        if fmt_frecs(&r2, &e2) != obs {
            return Obs::fail(obs, &format!("fasta-records-chunk-dependent-{eol}"), format!("cap={cap}"));
        }
    }
    let nt = recs.len() > 1 || err.is_some();
    let Some(naive) = naive_parse(f) else {
        return if err.is_some() || f.is_empty() {
            Obs::ok(obs, nt)
        } else {
            Obs::fail(obs, &format!("fasta-records-accepted-malformed-{eol}"), format!("{} records", recs.len()))
        };
    };
    if err.is_some() || recs.len() != naive.len() {
        return Obs::fail(obs, &format!("fasta-records-count-{eol}"), format!("{} vs {} {err:?}", recs.len(), naive.len()));
    }
    for (k, (r, n)) in recs.iter().zip(&naive).enumerate() {
        if r.name() != &n.name[..] {
            return Obs::fail(obs, &format!("fasta-records-name-{eol}"), format!("record {k}"));
        }
        if r.sequence().as_ref() != &n.bases[..] {
            return Obs::fail(obs, &format!("fasta-records-sequence-{eol}"), format!("record {k}"));
        }
    }
    Obs::ok(obs, nt)
}

fn parse_wrecs(s: &str) -> Vec<WRec> {
    if s == "_" {
        return vec![];
    }
    s.split(';')
        .map(|r| {
            let p: Vec<&str> = r.split(':').collect();
            (unhex(p[0]), if p[1] == "-" { None } else { Some(unhex(p[1])) }, unhex(p[2]))
        })
        .collect()
}

fn fmt_wrecs(rs: &[WRec]) -> String {
    if rs.is_empty() {
        return "_".into();
    }
    rs.iter()
        .map(|(n, d, s)| format!("{}:{}:{}", hex(n), d.as_ref().map(|d| hex(d)).unwrap_or_else(|| "-".into()), hex(s)))
        .collect::<Vec<_>>()
        .join(";")
}

fn run_wr(c: &Case) -> Obs {
    use fasta::record::{Definition, Sequence};
    let w = c.u(0) as usize;
    let recs = parse_wrecs(&c.args[1]);
    let mut wr = fasta::io::writer::Builder::default()
        .set_line_base_count(NonZero::new(w).expect("w >= 1"))
        .build_from_writer(Vec::new());
    let records: Vec<fasta::Record> = recs
        .iter()
        .map(|(n, d, s)| {
            fasta::Record::new(
                Definition::new(n.clone(), d.clone().map(Into::into)),
                Sequence::from(s.clone()),
            )
        })
        .collect();
    for r in &records {
        wr.write_record(r).unwrap();
    }
    let out = wr.into_inner();
    // read back, index
    let (back, rerr) = read_fasta(&out[..]);
    let (ix0, ierr0) = run_index(&out, Mode::Cursor);
    let obs = format!("{}|{}|{}", hex(&out), fmt_frecs(&back, &rerr), fmt_index(&ix0, &ierr0));
    if rerr.is_some() || back.len() != records.len() {
        return Obs::fail(obs, "fasta-writer-reader-count", format!("w={w} {} vs {} {rerr:?}", back.len(), records.len()));
    }
    for (k, (b, r)) in back.iter().zip(&records).enumerate() {
        if b != r {
            return Obs::fail(obs, "fasta-writer-reader-record", format!("w={w} record {k}"));
        }
    }
    // the writer's own output is accepted by the indexer with the expected geometry, and a whole
    // query returns the sequence
    if recs.iter().all(|(_, _, s)| !s.is_empty()) {
        let (ix, err) = run_index(&out, Mode::Cursor);
        if let Some(e) = err {
            return Obs::fail(obs, "fasta-writer-output-rejected", format!("w={w} {e}"));
        }
        for (r, (n, _, s)) in ix.iter().zip(&recs) {
            let lb = w.min(s.len()) as u64;
            if r.name() != &n[..] || r.length() != s.len() as u64 || r.line_base_count().get() != lb
                || r.line_width().get() != lb + 1
            {
                return Obs::fail(obs, "fasta-writer-output-geometry", format!("w={w} {r:?}"));
            }
        }
        let regs: Vec<Reg> = recs.iter().map(|(n, _, _)| Reg { name: n.clone(), s: None, e: None }).collect();
        let res = run_queries(&out, Mode::Cursor, fai::Index::from(ix), &regs);
        for (got, (_, _, s)) in res.iter().zip(&recs) {
            if got.as_ref().ok() != Some(s) {
                return Obs::fail(obs, "fasta-writer-output-query", format!("w={w}"));
            }
        }
    }
    Obs::ok(obs, recs.iter().any(|(_, _, s)| s.len() > w))
}

type QRec = (Vec<u8>, Vec<u8>, Vec<u8>, Vec<u8>);

#[derive(Clone, Default)]
struct SharedBuf(std::sync::Arc<std::sync::Mutex<Vec<u8>>>);

impl Write for SharedBuf {
    fn write(&mut self, buf: &[u8]) -> io::Result<usize> {
        self.0.lock().unwrap().extend_from_slice(buf);
        Ok(buf.len())
    }
    fn flush(&mut self) -> io::Result<()> {
        Ok(())
    }
}

/// fastq::io::Reader::records until the end or the first error
fn read_fastq<R: BufRead>(r: R) -> (Vec<fastq::Record>, Option<String>) {
    let mut rd = fastq::io::Reader::new(r);
    let mut out = Vec::new();
    let mut it = rd.records();
    loop {
        match guarded(AssertUnwindSafe(|| it.next())) {
            Outcome::Panicked(_) => return (out, Some("Panic".into())),
            Outcome::Done(None) => return (out, None),
            Outcome::Done(Some(Ok(r))) => out.push(r),
            Outcome::Done(Some(Err(e))) => return (out, Some(format!("Err:{}", nv::errkind(&e)))),
        }
    }
}

fn fmt_qrecs(recs: &[fastq::Record], err: &Option<String>) -> String {
    let rs: Vec<String> = recs
        .iter()
        .map(|r| format!("{}:{}:{}:{}", hex(r.name()), hex(r.description()), hex(r.sequence()), hex(r.quality_scores())))
        .collect();
    format!("{}|{}", rs.join(";"), err.clone().unwrap_or_else(|| "ok".into()))
}

fn index_fastq<R: BufRead>(r: R) -> (Vec<fastq::fai::Record>, Option<String>) {
    let mut ix = fastq::io::Indexer::new(r);
    let mut out = Vec::new();
    loop {
        match guarded(AssertUnwindSafe(|| ix.index_record())) {
            Outcome::Panicked(_) => return (out, Some("Panic".into())),
            Outcome::Done(Ok(None)) => return (out, None),
            Outcome::Done(Ok(Some(r))) => out.push(r),
            Outcome::Done(Err(e)) => return (out, Some(format!("Err:{}", nv::errkind(&e)))),
        }
    }
}

fn fmt_qindex(recs: &[fastq::fai::Record], err: &Option<String>) -> String {
    let rs: Vec<String> = recs
        .iter()
        .map(|r| {
            format!(
                "{}:{}:{}:{}:{}:{}",
                hex(r.name().as_bytes()),
                r.length(),
                r.sequence_offset(),
                r.line_bases(),
                r.line_width(),
                r.quality_scores_offset()
            )
        })
        .collect();
    format!("{}|{}", rs.join(","), err.clone().unwrap_or_else(|| "ok".into()))
}

fn run_fq(c: &Case) -> Obs {
    let recs: Vec<QRec> = if c.args[0] == "_" {
        vec![]
    } else {
        c.args[0]
            .split(';')
            .map(|r| {
                let p: Vec<&str> = r.split(':').collect();
                (unhex(p[0]), unhex(p[1]), unhex(p[2]), unhex(p[3]))
            })
            .collect()
    };
    let sep: u8 = c.args.get(1).map(|s| s.parse().expect("sep")).unwrap_or(b' ');
    let records: Vec<fastq::Record> = recs
        .iter()
        .map(|(n, d, s, q)| fastq::Record::new(fastq::record::Definition::new(n.clone(), d.clone()), s.clone(), q.clone()))
        .collect();
    // the builder boxes its writer: collect the bytes through a shared buffer
    let shared = SharedBuf::default();
    {
        let mut wr = fastq::io::writer::Builder::default().set_definition_separator(sep).build_from_writer(shared.clone());
        for r in &records {
            wr.write_record(r).unwrap();
        }
    }
    let out: Vec<u8> = shared.0.lock().unwrap().clone();
    if sep == b' ' {
        // Writer::new is the same writer with the default separator
        let mut w2 = fastq::io::Writer::new(Vec::new());
        for r in &records {
            w2.write_record(r).unwrap();
        }
        if w2.into_inner() != out {
            return Obs::fail("-", "fastq-writer-builder-differs", "default separator");
        }
    }
    let (back0, rerr0) = read_fastq(&out[..]);
    let (ix, ierr) = index_fastq(&out[..]);
    let obs = format!("{}|{}|{}", hex(&out), fmt_qrecs(&back0, &rerr0), fmt_qindex(&ix, &ierr));
    let special = recs.iter().any(|(_, _, s, q)| {
        q.first().is_some_and(|&b| b == b'@' || b == b'+') || s.first().is_some_and(|&b| b == b'@' || b == b'+')
    });
    let class = if special { "at-plus-leading" } else { "plain" };
    for cap in [0usize, 1, 3, 7] {
        let (back, rerr) = if cap == 0 { (back0.clone(), rerr0.clone()) } else { read_fastq(BufReader::with_capacity(cap, &out[..])) };
        if rerr.is_some() || back.len() != records.len() {
            return Obs::fail(obs, &format!("fastq-roundtrip-count-{class}"), format!("cap={cap} {} vs {} {rerr:?}", back.len(), records.len()));
        }
        for (k, (b, r)) in back.iter().zip(&records).enumerate() {
            if b != r {
                return Obs::fail(obs, &format!("fastq-roundtrip-record-{class}"), format!("cap={cap} record {k}"));
            }
        }
    }
    // fastq indexer: offsets point at the sequence and the quality scores
    for (k, (n, _, s, q)) in recs.iter().enumerate() {
        match ix.get(k) {
            Some(r) => {
                let so = r.sequence_offset() as usize;
                let qo = r.quality_scores_offset() as usize;
                let l = r.length() as usize;
                let good = r.name().as_bytes() == &n[..]
                    && l == s.len()
                    && out.get(so..so + l) == Some(&s[..])
                    && out.get(qo..qo + q.len()) == Some(&q[..])
                    && r.line_bases() == l as u64
                    && r.line_width() == l as u64 + 1;
                if !good {
                    return Obs::fail(obs, &format!("fastq-index-offsets-{class}"), format!("record {k} {r:?}"));
                }
            }
            None => {
                // names that are not UTF-8 are rejected by the fastq indexer; not part of the property
                if std::str::from_utf8(n).is_err() {
                    return Obs::ok(obs, true);
                }
                return Obs::fail(obs, "fastq-index-missing", format!("record {k} {ierr:?}"));
            }
        }
    }
    Obs::ok(obs, special)
}

/// fqr: arbitrary bytes through the FASTQ reader and indexer; both must not depend on the chunking
fn run_fqr(c: &Case) -> Obs {
    let f = c.b(0);
    let (recs, rerr) = read_fastq(&f[..]);
    let (ix, ierr) = index_fastq(&f[..]);
    let r_obs = fmt_qrecs(&recs, &rerr);
    let i_obs = fmt_qindex(&ix, &ierr);
    let obs = format!("{r_obs}|{i_obs}");
    let eol = eol_class(&f);
    for cap in [1usize, 2, 3, 5, 7] {
        let (r2, e2) = read_fastq(BufReader::with_capacity(cap, &f[..]));
        if fmt_qrecs(&r2, &e2) != r_obs {
            return Obs::fail(obs, &format!("fastq-records-chunk-dependent-{eol}"), format!("cap={cap}"));
        }
        let (i2, e2) = index_fastq(BufReader::with_capacity(cap, &f[..]));
        if fmt_qindex(&i2, &e2) != i_obs {
            return Obs::fail(obs, &format!("fastq-index-chunk-dependent-{eol}"), format!("cap={cap}"));
        }
    }
    Obs::ok(obs, recs.len() > 1 || rerr.is_some())
}

// -------------------------------------------------------------------------------------------
// run

fn run(c: &Case) -> Obs {
    match c.kind.as_str() {
        "idx" => {
            let f = c.b(0);
            let mode = parse_mode(&c.args[1]);
            let (recs, err) = run_index(&f, mode);
            let obs = fmt_index(&recs, &err);
            let nt = recs.iter().any(|r| r.length() > r.line_base_count().get()) || err.is_some();
            let v = check_index(&f, &recs, &err).and_then(|()| check_accepted_bases(&f, &recs));
            Obs::ok(obs, nt).with_verdict(v)
        }
        "q" | "qb" => {
            let f = c.b(0);
            let mode = parse_mode(&c.args[1]);
            let regs = parse_regions(&c.args[2]);
            let (recs, _err) = run_index(&f, mode);
            // the index goes through its file form (fai writer + reader) before it is used
            let index = match fai_roundtrip(&recs) {
                Ok(ix) => ix,
                Err(d) => return Obs::fail("-", "fai-file-roundtrip", d),
            };
            let res = run_queries(&f, mode, index.clone(), &regs);
            if c.kind == "q" && mode == Mode::Cursor {
                if let Err(e) = check_repository(&f, index) {
                    return Obs::fail(fmt_results(&res), "fasta-repository-get", e);
                }
            }
            // every 4th case also goes through the file-system flow (fs::index, .fai / .gzi files,
            // indexed_reader::Builder::build_from_path)
            if c.kind == "q" && _err.is_none() && c.id.bytes().last().is_some_and(|b| b % 4 == 0) {
                match run_path_flow(&c.id, &f, mode, &regs) {
                    Ok(r2) if r2 == res => {}
                    Ok(r2) => {
                        return Obs::fail(
                            fmt_results(&res),
                            &format!("fasta-indexed-reader-path-flow-{}", mode_name(mode)),
                            format!("{} vs {}", fmt_results(&r2), fmt_results(&res)),
                        );
                    }
                    Err(e) => {
                        return Obs::fail(
                            fmt_results(&res),
                            &format!("fasta-indexed-reader-path-flow-error-{}", mode_name(mode)),
                            e,
                        );
                    }
                }
            }
            let obs = fmt_results(&res);
            // what a start beyond the length returns depends on how the source chunks the foreign
            // bytes (a '>' inside a definition line, BGZF seeks past EOF): modelled for the plain
            // in-memory source only
            let obs = if c.kind == "qb" && mode != Mode::Cursor { "-".to_string() } else { obs };
            Obs::ok(obs, regs.len() > 1).with_verdict(check_queries(&f, mode, &recs, &regs, &res))
        }
        // out of the property's quantifier (bare CR / '>' inside a sequence line): observation
        // for the model only, plain in-memory source
        "idxw" => {
            let f = c.b(0);
            let (recs, err) = run_index(&f, Mode::Cursor);
            Obs { obs: fmt_index(&recs, &err), verdict: "skip".into(), nontrivial: false }
        }
        "qw" => {
            let f = c.b(0);
            let regs = parse_regions(&c.args[2]);
            let (recs, _err) = run_index(&f, Mode::Cursor);
            let res = run_queries(&f, Mode::Cursor, fai::Index::from(recs), &regs);
            Obs { obs: fmt_results(&res), verdict: "skip".into(), nontrivial: false }
        }
        "qd" => run_qd(c),
        "qdp" => run_qdp(c),
        "np" => run_np(&c.b(0)),
        "wr" => run_wr(c),
        "rd" => run_rd(&c.b(0), true),
        "rdw" => run_rd(&c.b(0), false),
        "fq" => run_fq(c),
        "fqr" => run_fqr(c),
        "qz" => c11_deep4::run_qz(c),
        "qf" => c11_deep4::run_qf(c),
        "aq" => c11_deep4::run_aq(c),
        "fqg" => c11_deep4::run_fqg(c),
        "qy" => c11_deep7::run_qy(c),
        "qyb" => c11_deep7::run_qyb(c),
        "fqi" => c11_deep7::run_fqi(c),
        "wre" => c11_deep7::run_wre(c),
        _ => Obs { obs: "-".into(), verdict: "skip".into(), nontrivial: false },
    }
}

// -------------------------------------------------------------------------------------------
// generation

const BASES: &[u8] = b"ACGTNacgtn";
const ODD_BASES: &[u8] = b"ACGTN*-.RYKMSWBDHVU@+=<";
const NAME_CH: &[u8] = b"abcXYZ0189_.|-#";

#[derive(Clone, Debug)]
struct GRec {
    name: Vec<u8>,
    def_tail: Vec<u8>, // what follows the name on the definition line (separator + description)
    seq: Vec<u8>,
    w: usize,
    crlf: bool,
    blanks: usize, // blank lines after the sequence
}

fn gen_seq(rng: &mut Rng, n: usize) -> Vec<u8> {
    let alpha = if rng.chance(1, 6) { ODD_BASES } else { BASES };
    (0..n).map(|_| *rng.pick(alpha)).collect()
}

fn gen_width(rng: &mut Rng) -> usize {
    match rng.below(8) {
        0 => 1,
        1 => 2,
        2 => *rng.pick(&[3usize, 4, 5, 7, 8]),
        3 => *rng.pick(&[60usize, 70, 80]),
        4 => *rng.pick(&[199usize, 200]),
        5 => rng.range(1, 16) as usize,
        _ => rng.range(1, 200) as usize,
    }
}

fn gen_len(rng: &mut Rng, w: usize) -> usize {
    let k = rng.range(0, 4) as usize;
    let l = match rng.below(9) {
        0 => 1,
        1 => w.saturating_sub(1),
        2 => w,
        3 => w + 1,
        4 => k * w,
        5 => k * w + 1,
        6 => (k * w).saturating_sub(1),
        _ => k * w + rng.below(w as u64) as usize,
    };
    l.clamp(1, 900)
}

fn gen_name(rng: &mut Rng, k: usize) -> Vec<u8> {
    let n = rng.range(1, 6) as usize;
    let mut v: Vec<u8> = (0..n).map(|_| *rng.pick(NAME_CH)).collect();
    // distinct names: suffix with the ordinal
    v.extend_from_slice(format!("{k}").as_bytes());
    v
}

fn gen_def_tail(rng: &mut Rng) -> Vec<u8> {
    match rng.below(6) {
        0 | 1 | 2 => vec![],
        3 => b" LN:13 some text".to_vec(),
        4 => b"\tdesc\twith tabs ".to_vec(),
        _ => {
            let mut v = vec![b' '; rng.range(1, 3) as usize];
            let n = rng.range(1, 12) as usize;
            v.extend((0..n).map(|_| *rng.pick(b"abc XYZ:=>,;")));
            v
        }
    }
}

fn gen_recs(rng: &mut Rng) -> Vec<GRec> {
    let n = match rng.below(6) {
        0 => 1,
        1 | 2 => 2,
        3 | 4 => 3,
        _ => rng.range(4, 6) as usize,
    };
    let file_crlf = rng.chance(1, 3);
    let per_rec_eol = rng.chance(1, 8);
    let file_w = gen_width(rng);
    let same_w = rng.chance(1, 2);
    (0..n)
        .map(|k| {
            let w = if same_w { file_w } else { gen_width(rng) };
            let len = gen_len(rng, w);
            GRec {
                name: gen_name(rng, k),
                def_tail: gen_def_tail(rng),
                seq: gen_seq(rng, len),
                w,
                crlf: if per_rec_eol { rng.chance(1, 2) } else { file_crlf },
                blanks: match rng.below(12) {
                    0 | 1 => 1,
                    2 => 2,
                    _ => 0,
                },
            }
        })
        .collect()
}

/// Render; `final_eol` = false drops the terminator of the very last line of the file.
fn render(recs: &[GRec], final_eol: bool) -> Vec<u8> {
    let mut out = Vec::new();
    for r in recs {
        let eol: &[u8] = if r.crlf { b"\r\n" } else { b"\n" };
        out.push(b'>');
        out.extend_from_slice(&r.name);
        out.extend_from_slice(&r.def_tail);
        out.extend_from_slice(eol);
        for ch in r.seq.chunks(r.w) {
            out.extend_from_slice(ch);
            out.extend_from_slice(eol);
        }
        for _ in 0..r.blanks {
            out.extend_from_slice(eol);
        }
    }
    if !final_eol {
        while matches!(out.last(), Some(b'\n' | b'\r')) {
            out.pop();
        }
    }
    out
}

/// Make one record ragged; returns the rendered file.
fn render_ragged(rng: &mut Rng, recs: &[GRec]) -> Vec<u8> {
    let victim = rng.below(recs.len() as u64) as usize;
    let mut out = Vec::new();
    for (k, r) in recs.iter().enumerate() {
        let eol: &[u8] = if r.crlf { b"\r\n" } else { b"\n" };
        let other: &[u8] = if r.crlf { b"\n" } else { b"\r\n" };
        out.push(b'>');
        out.extend_from_slice(&r.name);
        out.extend_from_slice(&r.def_tail);
        out.extend_from_slice(eol);
        let mut lines: Vec<(Vec<u8>, Vec<u8>)> = r.seq.chunks(r.w).map(|c| (c.to_vec(), eol.to_vec())).collect();
        if k == victim {
            let n = lines.len();
            let mid = if n >= 3 { rng.range(1, n as u64 - 2) as usize } else { 0 };
            match *rng.pick(&[0u64, 1, 2, 2, 3, 4, 5, 5, 6, 7, 8, 9, 9, 10]) {
                0 => {
                    // a middle (or first) line loses bases
                    let d = rng.range(1, lines[mid].0.len() as u64) as usize;
                    let l = lines[mid].0.len();
                    lines[mid].0.truncate(l - d.min(l));
                }
                1 => {
                    let d = rng.range(1, 3) as usize;
                    let extra = gen_seq(rng, d);
                    lines[mid].0.extend(extra);
                }
                2 => lines[mid].1 = other.to_vec(),
                3 => lines.insert(mid.max(1).min(n), (vec![], eol.to_vec())),
                4 => {
                    // last line longer than the first
                    let extra = gen_seq(rng, r.w + 1);
                    let last = lines.last_mut().unwrap();
                    last.0.extend(extra);
                }
                5 => lines.last_mut().unwrap().1 = other.to_vec(),
                6 => lines.insert(0, (vec![], eol.to_vec())),
                7 => lines.clear(),
                9 => {
                    // last line: one base more, terminator one byte shorter (same bytes)
                    let last = lines.last_mut().unwrap();
                    let fill = r.w - last.0.len().min(r.w);
                    let extra = gen_seq(rng, fill + 1);
                    last.0.extend(extra);
                    last.1 = if r.crlf {
                        b"\n".to_vec()
                    } else if k + 1 == recs.len() && r.blanks == 0 {
                        vec![]
                    } else {
                        eol.to_vec()
                    };
                }
                10 => {
                    // CRLF: last line without terminator and two bases more
                    let last = lines.last_mut().unwrap();
                    let fill = r.w - last.0.len().min(r.w);
                    let extra = gen_seq(rng, fill + if r.crlf { 2 } else { 1 });
                    last.0.extend(extra);
                    if k + 1 == recs.len() && r.blanks == 0 {
                        last.1 = vec![];
                    }
                }
                _ => {
                    // first line shorter than the rest
                    if !lines[0].0.is_empty() {
                        lines[0].0.pop();
                    }
                }
            }
        }
        for (c, e) in lines {
            out.extend_from_slice(&c);
            out.extend_from_slice(&e);
        }
        for _ in 0..r.blanks {
            out.extend_from_slice(eol);
        }
    }
    out
}

/// Systematic ragged / borderline layouts of one record of `nl` lines of `w` bases (optionally
/// followed by a second record): each shape differs from a regular file in one place.
/// Lines are (bases, terminator).
fn systematic_shapes(rng: &mut Rng, w: usize, nl: usize, crlf: bool) -> Vec<Vec<(Vec<u8>, Vec<u8>)>> {
    let eol: Vec<u8> = if crlf { b"\r\n".to_vec() } else { b"\n".to_vec() };
    let other: Vec<u8> = if crlf { b"\n".to_vec() } else { b"\r\n".to_vec() };
    let base: Vec<(Vec<u8>, Vec<u8>)> = (0..nl).map(|_| (gen_seq(rng, w), eol.clone())).collect();
    let last = nl - 1;
    let mid = if nl >= 3 { nl / 2 } else { 0 };
    let mut out = Vec::new();
    let mut push = |f: &dyn Fn(&mut Vec<(Vec<u8>, Vec<u8>)>)| {
        let mut v = base.clone();
        f(&mut v);
        out.push(v);
    };
    // regular references: full last line, short last line, no final terminator
    push(&|_| {});
    push(&|v| v[last].0.truncate(w / 2));
    push(&|v| v[last].1.clear());
    // last line longer in bases but not in bytes
    push(&|v| {
        v[last].0.push(b'N');
        v[last].1.clear(); // LF file: w+1 bytes = line width; CRLF file: w+1 < w+2
    });
    push(&|v| {
        v[last].0.push(b'N');
        v[last].1 = b"\n".to_vec(); // CRLF file: last line LF-terminated, w+2 bytes = line width
    });
    push(&|v| {
        v[last].0.extend_from_slice(b"NN");
        v[last].1.clear(); // CRLF file: w+2 bytes = line width, two more bases
    });
    // last line longer in bytes only / in both
    push(&|v| v[last].1 = other.clone());
    push(&|v| v[last].0.push(b'N'));
    // a middle (or first) line longer / shorter by one base, same and other terminator
    push(&|v| v[mid].0.push(b'N'));
    push(&|v| {
        v[mid].0.pop();
    });
    push(&|v| {
        v[mid].0.push(b'N');
        v[mid].1 = b"\n".to_vec(); // CRLF file: same bytes, one more base
    });
    push(&|v| {
        v[mid].0.pop();
        v[mid].1 = b"\r\n".to_vec(); // LF file: same bytes, one base fewer
    });
    push(&|v| v[mid].1 = other.clone());
    // the width changes only in the last two lines
    if nl >= 2 {
        push(&|v| {
            v[last - 1].1 = other.clone();
            v[last].0.truncate(w / 2);
        });
        push(&|v| {
            v[last - 1].0.push(b'N');
            v[last].0.truncate(w / 2);
        });
        push(&|v| {
            v[last - 1].0.pop();
            v[last].0.truncate(w / 2);
        });
        push(&|v| {
            v[last - 1].1 = other.clone();
            v[last].1 = other.clone();
        });
        push(&|v| {
            v[last - 1].0.push(b'N');
            v[last].0.push(b'N');
        });
    }
    // a blank line before the last line / two blank lines at the end
    push(&|v| v.insert(last, (vec![], eol.clone())));
    push(&|v| {
        v.push((vec![], eol.clone()));
        v.push((vec![], eol.clone()));
    });
    out
}

fn gen_systematic(rng: &mut Rng, w: &mut CaseWriter, wmax: usize) {
    for width in 1..=wmax {
        for nl in 1..=4usize {
            for crlf in [false, true] {
                for shape in systematic_shapes(rng, width, nl, crlf) {
                    for follow in [false, true] {
                        let eol: &[u8] = if crlf { b"\r\n" } else { b"\n" };
                        let mut f = b">s".to_vec();
                        f.extend_from_slice(eol);
                        for (b, t) in &shape {
                            f.extend_from_slice(b);
                            f.extend_from_slice(t);
                        }
                        if follow {
                            if !matches!(f.last(), Some(b'\n')) {
                                f.extend_from_slice(eol);
                            }
                            f.extend_from_slice(b">t x");
                            f.extend_from_slice(eol);
                            f.extend_from_slice(b"GG");
                            f.extend_from_slice(eol);
                        }
                        let mode = match rng.below(3) {
                            0 => "c0".to_string(),
                            1 => format!("b{}", rng.range(1, 7)),
                            _ => format!("z{}", rng.range(1, 9)),
                        };
                        w.push("idx", vec![hex(&f), mode]);
                    }
                }
            }
        }
    }
}

fn gen_mode(rng: &mut Rng) -> String {
    match rng.below(10) {
        0..=2 => "c0".into(),
        3..=6 => format!("b{}", match rng.below(3) {
            0 => rng.range(1, 4),
            1 => rng.range(1, 64),
            _ => *rng.pick(&[5u64, 6, 7, 61, 62, 81, 82, 83]),
        }),
        _ => format!("z{}", match rng.below(3) {
            0 => rng.range(1, 9),
            1 => rng.range(1, 200),
            _ => rng.range(50, 700),
        }),
    }
}

/// regions for one naive record (length len, first-line base count lb)
fn gen_regions(rng: &mut Rng, name: &[u8], len: u64, lb: u64, out_in: &mut Vec<Reg>, out_beyond: &mut Vec<Reg>, total: u64) {
    let mk = |s: Option<u64>, e: Option<u64>| Reg { name: name.to_vec(), s, e };
    let lb = lb.max(1);
    let nl = len.div_ceil(lb);
    let clamp = |x: u64| x.clamp(1, len);
    let edge = |rng: &mut Rng| -> u64 {
        let k = rng.range(0, nl);
        clamp((k * lb + rng.range(0, 2)).saturating_sub(1).max(1))
    };
    // whole / to-end / open start
    out_in.push(mk(None, None));
    out_in.push(mk(Some(edge(rng)), None));
    out_in.push(mk(None, Some(edge(rng))));
    // single bases: first, last, around a line edge
    out_in.push(mk(Some(1), Some(1)));
    out_in.push(mk(Some(len), Some(len)));
    let p = edge(rng);
    out_in.push(mk(Some(p), Some(p)));
    // start == length with an end beyond
    out_in.push(mk(Some(len), Some(len + rng.range(1, lb + 2))));
    for _ in 0..6 {
        let s = if rng.chance(1, 2) { edge(rng) } else { rng.range(1, len) };
        let e = match rng.below(7) {
            0 => s + rng.below(lb),                       // mostly within a line
            1 => s + lb - 1,                              // exactly one line of bases
            2 => s + lb,                                  // crosses one boundary
            3 => s + rng.range(1, 4) * lb + rng.below(lb), // crosses several
            4 => edge(rng).max(s),
            5 => len.saturating_add(*rng.pick(&[1u64, 2, lb, lb + 1, 1000, u32::MAX as u64, usize::MAX as u64 - 1, usize::MAX as u64])),
            _ => rng.range(s, len),
        };
        out_in.push(mk(Some(s), Some(e)));
    }
    if rng.chance(1, 10) {
        let s = rng.range(2, len.max(2));
        out_in.push(mk(Some(s), Some(s - 1))); // end before start: observation only
    }
    // start beyond the length
    for _ in 0..4 {
        let s = len
            + match rng.below(8) {
                0 => 1,
                1 => 2,
                2 => 3,
                3 => lb,
                4 => lb + 1,
                5 => rng.range(1, 3 * lb + 8),
                6 => rng.range(1, total + 2),
                _ => total + rng.range(1, 500),
            };
        let e = match rng.below(4) {
            0 => Some(s),
            1 => Some(s + rng.range(1, lb + 3)),
            2 => Some(s + 1),
            _ => None,
        };
        out_beyond.push(mk(Some(s), e));
    }
}

fn push_file_cases(rng: &mut Rng, w: &mut CaseWriter, f: &[u8], with_queries: bool) {
    let mode = gen_mode(rng);
    w.push("idx", vec![hex(f), mode.clone()]);
    w.push("rd", vec![hex(f)]);
    w.push("np", vec![hex(f)]);
    if !with_queries {
        return;
    }
    let Some(naive) = naive_parse(f) else { return };
    let mut rin = Vec::new();
    let mut rbe = Vec::new();
    for n in &naive {
        if n.bases.is_empty() {
            continue;
        }
        let lb = n.lines.first().map(|l| l.bases as u64).unwrap_or(1);
        gen_regions(rng, &n.name, n.bases.len() as u64, lb, &mut rin, &mut rbe, f.len() as u64);
    }
    if rng.chance(1, 10) {
        rin.push(Reg { name: b"nosuchname".to_vec(), s: Some(1), e: Some(2) });
    }
    let mut qmode = if rng.chance(1, 2) { mode } else { gen_mode(rng) };
    if rng.chance(1, 6) {
        // BGZF block boundary exactly at the start of a sequence line (or one byte around it)
        let offs: Vec<usize> = naive.iter().flat_map(|n| n.lines.iter().map(|l| l.off)).collect();
        if !offs.is_empty() {
            let o = *rng.pick(&offs) as u64 + rng.range(0, 2);
            qmode = format!("z{}", o.saturating_sub(1).max(1));
        }
    }
    w.push("q", vec![hex(f), qmode.clone(), fmt_regions(&rin)]);
    w.push("qb", vec![hex(f), qmode, fmt_regions(&rbe)]);
    if rng.chance(1, 2) && f.len() <= 1500 {
        // a few of the in-range regions through a scripted source
        let cap = *rng.pick(&[1usize, 2, 3, 5, 7, 16, 64]);
        let with_intr = rng.chance(1, 2);
        let style = rng.below(4);
        let script: Vec<Deliver> = (0..rng.range(0, 60))
            .flat_map(|_| {
                let k = match style {
                    0 => 1,
                    1 => rng.range(1, 4),
                    2 => rng.range(1, 40),
                    _ => if rng.chance(1, 8) { rng.range(1, 70000) } else { rng.range(1, 9) },
                } as usize;
                let mut v = Vec::new();
                if with_intr && rng.chance(1, 3) {
                    v.push(Deliver::Interrupted);
                }
                v.push(Deliver::Bytes(k));
                v
            })
            .collect();
        let some: Vec<Reg> = rin.iter().filter(|r| r.e.is_none_or(|e| r.s.unwrap_or(1) <= e)).take(40).step_by(3).cloned().collect();
        if !some.is_empty() {
            w.push("qd", vec![hex(f), cap.to_string(), fmt_script(&script), fmt_regions(&some)]);
            w.push("qdp", vec![hex(f), cap.to_string(), fmt_script(&script), fmt_regions(&some)]);
        }
    }
}

fn gen_wr(rng: &mut Rng, w: &mut CaseWriter) {
    let width = gen_width(rng);
    let n = rng.range(1, 4) as usize;
    let recs: Vec<WRec> = (0..n)
        .map(|k| {
            let len = if rng.chance(1, 12) { 0 } else { gen_len(rng, width) };
            let d = if rng.chance(1, 2) {
                None
            } else {
                let m = rng.range(1, 10) as usize;
                let mut d: Vec<u8> = (0..m).map(|_| *rng.pick(b"abc XYZ:=\t>")).collect();
                // the reader trims the description; keep it trimmed and non-empty
                d.insert(0, b'd');
                d.push(b'e');
                Some(d)
            };
            (gen_name(rng, k), d, gen_seq(rng, len))
        })
        .collect();
    w.push("wr", vec![width.to_string(), fmt_wrecs(&recs)]);
}

const UTF8_NAMES: &[&[u8]] = &[
    b"r\xc3\xa9",                 // valid 2-byte
    b"\xe2\x82\xacx",             // valid 3-byte
    b"\xf0\x9f\x98\x80",          // valid 4-byte
    b"\xed\x9f\xbf",              // valid, last before the surrogates
    b"\xf4\x8f\xbf\xbf",          // valid, U+10FFFF
    b"\xc0\x80",                  // overlong
    b"\xed\xa0\x80",              // surrogate
    b"\xf4\x90\x80\x80",          // beyond U+10FFFF
    b"\xe0\x9f\xbf",              // overlong 3-byte
    b"\xf0\x8f\xbf\xbf",          // overlong 4-byte
    b"a\x80",                     // lone continuation
    b"\xe2\x82",                  // truncated
    b"\xf5\x80\x80\x80",          // invalid lead
];

fn gen_qrec(rng: &mut Rng, k: usize) -> QRec {
    let len = rng.range(0, 40) as usize;
    let seq = gen_seq(rng, len);
    let mut q: Vec<u8> = (0..len).map(|_| rng.range(33, 126) as u8).collect();
    if len > 0 {
        match rng.below(5) {
            0 => q[0] = b'@',
            1 => q[0] = b'+',
            2 => {
                let i = rng.below(len as u64) as usize;
                q[i] = b'@';
                let j = rng.below(len as u64) as usize;
                q[j] = b'+';
            }
            3 => q.iter_mut().for_each(|b| *b = if rng.chance(1, 2) { b'@' } else { b'+' }),
            _ => {}
        }
    }
    let d: Vec<u8> = if rng.chance(1, 2) {
        vec![]
    } else {
        let m = rng.range(1, 10) as usize;
        (0..m).map(|_| *rng.pick(b"abc XYZ:=@+\t")).collect()
    };
    let name = if rng.chance(1, 10) { rng.pick(UTF8_NAMES).to_vec() } else { gen_name(rng, k) };
    (name, d, seq, q)
}

fn gen_fq(rng: &mut Rng, w: &mut CaseWriter) {
    let n = rng.range(1, 4) as usize;
    let recs: Vec<String> = (0..n)
        .map(|k| {
            let (name, d, seq, q) = gen_qrec(rng, k);
            format!("{}:{}:{}:{}", hex(&name), hex(&d), hex(&seq), hex(&q))
        })
        .collect();
    let sep = if rng.chance(1, 3) { b'\t' } else { b' ' };
    w.push("fq", vec![recs.join(";"), sep.to_string()]);
}

/// FASTQ-like bytes: rendered records with LF / CRLF / mixed terminators, SP / HT separators,
/// "+name" lines, a missing final newline, then (half of the cases) a few byte-level mutations
fn gen_fqr(rng: &mut Rng, w: &mut CaseWriter) {
    let n = rng.range(1, 4) as usize;
    let file_crlf = rng.chance(1, 2);
    let mixed = rng.chance(1, 5);
    let mut f = Vec::new();
    for k in 0..n {
        let (mut name, d, seq, q) = gen_qrec(rng, k);
        if rng.chance(1, 12) {
            name.push(b'\r'); // a name that itself ends with CR
        }
        if rng.chance(1, 20) {
            name.clear();
        }
        let eol = |rng: &mut Rng| -> &'static [u8] {
            let crlf = if mixed { rng.chance(1, 2) } else { file_crlf };
            if crlf { b"\r\n" } else { b"\n" }
        };
        f.push(b'@');
        f.extend_from_slice(&name);
        if !d.is_empty() || rng.chance(1, 10) {
            f.push(if rng.chance(1, 3) { b'\t' } else { b' ' });
            f.extend_from_slice(&d);
        }
        f.extend_from_slice(eol(rng));
        f.extend_from_slice(&seq);
        if rng.chance(1, 10) {
            f.extend_from_slice(b"  ");
        }
        f.extend_from_slice(eol(rng));
        f.push(b'+');
        if rng.chance(1, 3) {
            f.extend_from_slice(&name);
        }
        f.extend_from_slice(eol(rng));
        f.extend_from_slice(&q);
        f.extend_from_slice(eol(rng));
    }
    if rng.chance(1, 4) {
        while matches!(f.last(), Some(b'\n' | b'\r')) {
            f.pop();
        }
        if rng.chance(1, 3) {
            f.push(b'\r');
        }
    }
    if rng.chance(1, 2) {
        for _ in 0..rng.range(1, 3) {
            match rng.below(4) {
                0 if !f.is_empty() => {
                    let at = rng.below(f.len() as u64) as usize;
                    f.remove(at);
                }
                1 => {
                    let at = rng.below(f.len() as u64 + 1) as usize;
                    f.truncate(at);
                }
                _ => {
                    let at = rng.below(f.len() as u64 + 1) as usize;
                    f.insert(at, *rng.pick(b"@+\n\r \t\x80\xc3>"));
                }
            }
        }
    }
    w.push("fqr", vec![hex(&f)]);
    w.push("fqg", vec![hex(&f)]);
    w.push("fqi", vec![hex(&f)]);
}

fn generate(rng: &mut Rng, tier: &str, w: &mut CaseWriter) {
    let scale = if tier == "thorough" { 12 } else { 1 };
    // fixed cases: the designer's example of the start-beyond-length class and unit-test layouts
    let fixed: &[&[u8]] = &[
        b">a\nACGT\n>b\nTTTT\n",
        b">sq0\nACGT\n>sq1\nNNNN\nNNNN\nNN\n",
        b">sq0\r\nACGT\r\nACGT\r\nAC\r\n>sq1 d\r\nNN\r\n",
        b">sq0\nACGT\nACG\nACGT\nAC\n",
        b">sq0\nACGT\nACGT\r\nACGT\nAC\n",
        b">sq0\n",
        b">sq0\nACGT",
        b">a\nACGT\n\n>b\nTT\n",
        b">a\nACGT\n\n\n>b\nTT\n",
        b"ACGT\n",
        b">\nACGT\n",
        b"",
    ];
    for f in fixed {
        let mut r = rng.fork();
        w.push("idx", vec![hex(f), "c0".into()]);
        w.push("rd", vec![hex(f)]);
        w.push("np", vec![hex(f)]);
        if let Some(naive) = naive_parse(f) {
            let (mut rin, mut rbe) = (Vec::new(), Vec::new());
            for n in naive.iter().filter(|n| !n.bases.is_empty()) {
                gen_regions(&mut r, &n.name, n.bases.len() as u64, n.lines[0].bases as u64, &mut rin, &mut rbe, f.len() as u64);
            }
            w.push("q", vec![hex(f), "c0".into(), fmt_regions(&rin)]);
            w.push("qb", vec![hex(f), "c0".into(), fmt_regions(&rbe)]);
        }
    }
    w.push("qb", vec![hex(b">a\nACGT\n>b\nTTTT\n"), "c0".into(), fmt_regions(&[Reg { name: b"a".to_vec(), s: Some(6), e: Some(7) }])]);

    for _ in 0..500 * scale {
        let recs = gen_recs(rng);
        let final_eol = !rng.chance(1, 5);
        let f = render(&recs, final_eol);
        push_file_cases(rng, w, &f, true);
    }
    for _ in 0..250 * scale {
        let recs = gen_recs(rng);
        let f = render_ragged(rng, &recs);
        let wq = rng.chance(1, 2);
        push_file_cases(rng, w, &f, wq);
    }
    for _ in 0..120 * scale {
        let recs = gen_recs(rng);
        let mut f = render(&recs, !rng.chance(1, 5));
        for _ in 0..rng.range(1, 3) {
            let at = rng.below(f.len() as u64 + 1) as usize;
            f.insert(at, *rng.pick(&[b'\r', b'\r', b'>', b'\n', b' ']));
        }
        w.push("idxw", vec![hex(&f), "c0".into()]);
        w.push("rdw", vec![hex(&f)]);
        w.push("np", vec![hex(&f)]);
        if let Some(naive) = naive_parse(&f) {
            let (mut rin, mut rbe) = (Vec::new(), Vec::new());
            for n in naive.iter().filter(|n| !n.bases.is_empty()) {
                let lb = n.lines.first().map(|l| l.bases as u64).unwrap_or(1);
                gen_regions(rng, &n.name, n.bases.len() as u64, lb, &mut rin, &mut rbe, f.len() as u64);
            }
            rin.extend(rbe);
            w.push("qw", vec![hex(&f), "c0".into(), fmt_regions(&rin)]);
        }
    }
    for _ in 0..200 * scale {
        gen_wr(rng, w);
    }
    for _ in 0..200 * scale {
        gen_fq(rng, w);
    }
    for fx in [&b"@r0\nACGT\n+\nNDLS\n"[..], b"@r0 LN:4\r\nACGT\r\n+r0\r\n@+@+\r\n", b"@\nA\r", b"@r0\r\nAC\r\n+\r\n!!", b"@r0", b"@r0\nAC\n", b"r0\n", b"@r0\nAC\n-\n!!\n", b""] {
        w.push("fqr", vec![hex(fx)]);
        w.push("fqg", vec![hex(fx)]);
        w.push("fqi", vec![hex(fx)]);
    }
    for _ in 0..300 * scale {
        gen_fqr(rng, w);
    }
    gen_systematic(rng, w, if tier == "thorough" { 9 } else { 4 });
    // exhaustive sweep (thorough): every (width, length) geometry up to 12 x 40, LF and CRLF,
    // followed by a second record, all single-base and all (s, e) queries for the small ones
    let (wmax, lmax) = if tier == "thorough" { (12usize, 40usize) } else { (5, 12) };
    for width in 1..=wmax {
        for len in 1..=lmax {
            for crlf in [false, true] {
                let recs = vec![
                    GRec { name: b"s".to_vec(), def_tail: vec![], seq: gen_seq(rng, len), w: width, crlf, blanks: 0 },
                    GRec { name: b"t".to_vec(), def_tail: b" x".to_vec(), seq: gen_seq(rng, 5), w: width, crlf, blanks: 0 },
                ];
                let f = render(&recs, true);
                let mut regs = Vec::new();
                for s in 1..=len as u64 {
                    for e in s..=(len as u64 + 1) {
                        if len <= 14 || e == s || e == len as u64 || (s + e) % 7 == 0 {
                            regs.push(Reg { name: b"s".to_vec(), s: Some(s), e: Some(e) });
                        }
                    }
                }
                let mode = if crlf { format!("b{}", 1 + (len + width) % 9) } else { "c0".into() };
                w.push("q", vec![hex(&f), mode, fmt_regions(&regs)]);
            }
        }
    }
    // ---- fourth wave: BGZF + gzi (qz), the index through its file (qf), the async reader (aq);
    // multi-line / malformed FASTQ for the grammar (fqg)
    let mut r4 = rng.fork();
    for fx in [&b">a\nACGT\n>b\nTTTT\n"[..], b">sq0\r\nACGT\r\nACGT\r\nAC\r\n>sq1 d\r\nNN\r\n", b">sq0\nACGT"] {
        c11_deep4::gen_qz(&mut r4, w, fx);
        c11_deep4::gen_qf(&mut r4, w, fx);
        c11_deep4::gen_aq(&mut r4, w, fx);
    }
    for _ in 0..160 * scale {
        let recs = gen_recs(&mut r4);
        let f = render(&recs, !r4.chance(1, 5));
        c11_deep4::gen_qz(&mut r4, w, &f);
        if r4.chance(1, 2) {
            c11_deep4::gen_qf(&mut r4, w, &f);
        }
        if r4.chance(1, 2) {
            c11_deep4::gen_aq(&mut r4, w, &f);
        }
    }
    // ---- seventh wave: any gzi index + virtual positions (qy), the same from the file bytes through a
    // scripted source (qyb), FASTA writer on records outside rec_ok (wre)
    let mut r7 = rng.fork();
    for fx in [&b">a\nACGT\n>b\nTTTT\n"[..], b">sq0\r\nACGT\r\nACGT\r\nAC\r\n>sq1 d\r\nNN\r\n", b">sq0\nACGT"] {
        c11_deep7::gen_qy(&mut r7, w, fx);
    }
    for _ in 0..150 * scale {
        let recs = gen_recs(&mut r7);
        let f = render(&recs, !r7.chance(1, 5));
        c11_deep7::gen_qy(&mut r7, w, &f);
    }
    for _ in 0..60 * scale {
        c11_deep7::gen_wre(&mut r7, w);
    }
    for fx in [
        &b"@r\nAC\nGT\n+\n!!\n!!\n"[..], // a wrapped (multi-line) record
        b"@r\nACGT\n+\n!!\n!!\n",
        b"@r\nACGT\n+",
        b"@r\nACGT\n+x",
        b"@r\nACGT\n+\n",
        b"@r\nACGT\n+\n!!!!",
        b"@r\nACGT\n+\n!!!!\r",
        b"@r\nACGT\n",
        b"@r\nACGT",
        b"@r\n",
        b"@",
        b"\n",
        b"@r\nACGT\n+\n!!!!\n\n",
        b"@r\nACGT\n+\n!!!!\n@",
    ] {
        w.push("fqg", vec![hex(fx)]);
        w.push("fqi", vec![hex(fx)]);
        w.push("fqr", vec![hex(fx)]);
    }
}

fn main() {
    nv::main_with(generate, run)
}
