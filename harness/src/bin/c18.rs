//! C18: GFF3 / GTF / BED lines round-trip, including escaping of reserved characters.
//!
//! Modelled kinds (obs compared byte for byte with the extracted Coq model):
//!   gff    seqid source type start end score strand phase attrs
//!            -> "W=<hex line>|R=<canonical lazy parse of the first line read back>"
//!   gffw   (same arguments; used when source/type contain TAB or LF)  -> "W=<hex line>" only
//!   gffset seqid|attr   -> the 256 single-byte strings pushed through the real writer
//!   gtf    seqid source type start end score strand phase attrs  -> "W=..|R=.."
//!   bed    n name start end nm score strand others   -> "W=<hex line>|R=<view>/<owned>" (record level,
//!                          NV.Text.BedRec, like bedfile / bedt; the older split_all reader model is retired)
//!   bedfile n rec rec ...  multi-line BED file with mixed column counts read into ONE reused
//!                          Record<N> and into fresh ones (rec = bed fields joined by ' ')
//!                          -> "W=<hex file>|R=<view>/<owned>;..." (shared/c18_bedrec.rs)
//!   bedraw n <hex text> fuel   arbitrary BED text, one reused Record<N>, going on after errors
//!                          -> "<result>/<view>/<owned>;..." per read_record call
//!   gffline <hex text>     arbitrary GFF3 text: read_line with one reused Line, Line::kind,
//!                          as_directive/as_comment/as_record, line_bufs(), record_bufs()
//!                          -> "L=<lazy lines>|O=<owned lines>|B=<record_bufs records>"
//!   gffdir key kind payload    directive through the real writer -> "W=<hex line>|<lines read back>"
//!   gffcom <hex text>      comment through Writer::write_line -> "W=<hex line>|<lines read back>"
//!   bedt   n ... typed other fields (I:<i64> U:<u64> F:<f64 bits>:<hex Display text> C:<byte> S:<hex>)
//!                          -> "W=<hex line>|R=<view>/<owned>" (NV.Text.BedTyped + BedRec)
//!   gtfline <hex text>     arbitrary GTF text: read_line (one reused Line), Line::kind, as_comment /
//!                          as_record, line_bufs(), record_bufs() -> "L=..|O=..|B=.."
//!   gtfcom <hex text>      comment through gtf Writer::write_line -> "W=<hex line>|L=..|O=.."
//!   dirval / gffdv / gfffile / gtffile / gffattr : see shared/c18_files.rs (typed directive values
//!                          re-parsed with FromStr, whole written files, attribute map views); all modelled
//!
//! Field encodings: byte strings hex ("_" empty); score "." or "<f32 bits>:<hex of Display text>";
//! strand one of . + - ?; phase one of . 0 1 2; attrs "-" (none) or entries joined by ';', an
//! entry is <hex tag>=S:<hex value> or <hex tag>=A:<hex>,<hex>,... ("A:" alone = empty array).

use std::{io, panic::AssertUnwindSafe, str::FromStr};

use bstr::{BString, ByteSlice};
use noodles_bed as bed;
use noodles_core::Position;
use noodles_gff::{
    self as gff,
    directive_buf::{
        self,
        value::{GenomeBuild, GffVersion, SequenceRegion},
    },
    feature::{
        RecordBuf,
        record::{Phase, Strand, attributes::field::Value as ValueRef},
        record_buf::{Attributes, attributes::field::Value},
    },
};
use noodles_gtf as gtf;
use nv::{Case, CaseWriter, Obs, Outcome, Rng, errkind, guarded, hex, unhex};

#[path = "../shared/c18_bedrec.rs"]
mod c18_bedrec;
#[path = "../shared/c18_files.rs"]
mod c18_files;

// ---------------------------------------------------------------------------------------------
// Case <-> values

#[derive(Clone, Debug, PartialEq)]
enum Val {
    S(Vec<u8>),
    A(Vec<Vec<u8>>),
}

impl Val {
    fn items(&self) -> Vec<Vec<u8>> {
        match self {
            Val::S(s) => vec![s.clone()],
            Val::A(v) => v.clone(),
        }
    }
}

#[derive(Clone, Debug)]
struct Rec {
    seqid: Vec<u8>,
    source: Vec<u8>,
    ty: Vec<u8>,
    start: u64,
    end: u64,
    score: Option<(u32, Vec<u8>)>,
    strand: char,
    phase: char,
    attrs: Vec<(Vec<u8>, Val)>,
}

fn fmt_attrs(attrs: &[(Vec<u8>, Val)]) -> String {
    if attrs.is_empty() {
        return "-".into();
    }
    attrs
        .iter()
        .map(|(t, v)| match v {
            Val::S(s) => format!("{}=S:{}", hex(t), hex(s)),
            Val::A(vs) => format!(
                "{}=A:{}",
                hex(t),
                vs.iter().map(|x| hex(x)).collect::<Vec<_>>().join(",")
            ),
        })
        .collect::<Vec<_>>()
        .join(";")
}

fn parse_attrs(s: &str) -> Vec<(Vec<u8>, Val)> {
    if s == "-" {
        return Vec::new();
    }
    s.split(';')
        .map(|e| {
            let (t, v) = e.split_once('=').expect("attr entry");
            let tag = unhex(t);
            let val = if let Some(x) = v.strip_prefix("S:") {
                Val::S(unhex(x))
            } else {
                let x = v.strip_prefix("A:").expect("A:");
                if x.is_empty() {
                    Val::A(Vec::new())
                } else {
                    Val::A(x.split(',').map(unhex).collect())
                }
            };
            (tag, val)
        })
        .collect()
}

fn rec_args(r: &Rec) -> Vec<String> {
    vec![
        hex(&r.seqid),
        hex(&r.source),
        hex(&r.ty),
        r.start.to_string(),
        r.end.to_string(),
        match &r.score {
            None => ".".into(),
            Some((b, t)) => format!("{b}:{}", hex(t)),
        },
        r.strand.to_string(),
        r.phase.to_string(),
        fmt_attrs(&r.attrs),
    ]
}

fn rec_of_case(c: &Case) -> Rec {
    let score = if c.args[5] == "." {
        None
    } else {
        let (b, t) = c.args[5].split_once(':').expect("score");
        Some((b.parse::<u32>().expect("bits"), unhex(t)))
    };
    Rec {
        seqid: c.b(0),
        source: c.b(1),
        ty: c.b(2),
        start: c.u(3),
        end: c.u(4),
        score,
        strand: c.args[6].chars().next().unwrap(),
        phase: c.args[7].chars().next().unwrap(),
        attrs: parse_attrs(&c.args[8]),
    }
}

fn pos(n: u64) -> Position {
    Position::try_from(n as usize).expect("position >= 1")
}

fn build_gff(r: &Rec) -> RecordBuf {
    let mut b = RecordBuf::builder()
        .set_reference_sequence_name(BString::from(r.seqid.clone()))
        .set_source(BString::from(r.source.clone()))
        .set_type(BString::from(r.ty.clone()))
        .set_start(pos(r.start))
        .set_end(pos(r.end));
    if let Some((bits, _)) = &r.score {
        b = b.set_score(f32::from_bits(*bits));
    }
    b = b.set_strand(match r.strand {
        '.' => Strand::None,
        '+' => Strand::Forward,
        '-' => Strand::Reverse,
        _ => Strand::Unknown,
    });
    match r.phase {
        '0' => b = b.set_phase(Phase::Zero),
        '1' => b = b.set_phase(Phase::One),
        '2' => b = b.set_phase(Phase::Two),
        _ => {}
    }
    let attrs: Attributes = r
        .attrs
        .iter()
        .map(|(t, v)| {
            (
                BString::from(t.clone()),
                match v {
                    Val::S(s) => Value::String(BString::from(s.clone())),
                    Val::A(vs) => Value::Array(vs.iter().map(|x| BString::from(x.clone())).collect()),
                },
            )
        })
        .collect();
    b.set_attributes(attrs).build()
}

// ---------------------------------------------------------------------------------------------
// Canonical rendering of a parsed feature record (lazy view or owned), shared by GFF3 and GTF.

fn res_str<T>(r: io::Result<T>, f: impl FnOnce(T) -> String) -> String {
    match r {
        Ok(v) => f(v),
        Err(e) => format!("Err:{}", errkind(&e)),
    }
}

fn strand_ch(s: Strand) -> String {
    match s {
        Strand::None => ".",
        Strand::Forward => "+",
        Strand::Reverse => "-",
        Strand::Unknown => "?",
    }
    .into()
}

fn phase_ch(p: Phase) -> String {
    match p {
        Phase::Zero => "0",
        Phase::One => "1",
        Phase::Two => "2",
    }
    .into()
}

/// (canonical text, attribute list if it parsed)
fn canon_feature(rec: &dyn gff::feature::Record) -> (String, Option<Vec<(Vec<u8>, Val)>>) {
    let mut out = vec![
        hex(rec.reference_sequence_name()),
        hex(rec.source()),
        hex(rec.ty()),
        res_str(rec.feature_start(), |p| usize::from(p).to_string()),
        res_str(rec.feature_end(), |p| usize::from(p).to_string()),
        match rec.score() {
            None => ".".into(),
            Some(r) => res_str(r, |f| f.to_bits().to_string()),
        },
        res_str(rec.strand(), strand_ch),
        match rec.phase() {
            None => ".".into(),
            Some(r) => res_str(r, phase_ch),
        },
    ];
    let attrs = rec.attributes();
    let mut list = Vec::new();
    let mut err = None;
    for item in attrs.iter() {
        match item {
            Err(e) => {
                err = Some(format!("Err:{}", errkind(&e)));
                break;
            }
            Ok((tag, v)) => {
                let val = match v {
                    ValueRef::String(s) => Ok(Val::S(s.to_vec())),
                    ValueRef::Array(a) => a
                        .iter()
                        .map(|r| r.map(|s| s.to_vec()))
                        .collect::<io::Result<Vec<_>>>()
                        .map(Val::A),
                };
                match val {
                    Ok(v) => list.push((tag.to_vec(), v)),
                    Err(e) => {
                        err = Some(format!("Err:{}", errkind(&e)));
                        break;
                    }
                }
            }
        }
    }
    let mut a = fmt_attrs(&list);
    if let Some(e) = &err {
        a = if list.is_empty() { e.clone() } else { format!("{a};{e}") };
    }
    out.push(a);
    (out.join("|"), if err.is_none() { Some(list) } else { None })
}

fn canon_input(r: &Rec) -> String {
    [
        hex(&r.seqid),
        hex(&r.source),
        hex(&r.ty),
        r.start.to_string(),
        r.end.to_string(),
        match &r.score {
            None => ".".into(),
            Some((b, _)) => b.to_string(),
        },
        r.strand.to_string(),
        r.phase.to_string(),
        fmt_attrs(&r.attrs),
    ]
    .join("|")
}

/// Array [x] and String x are the same text in GFF3/GTF: compare modulo that.
fn norm_attrs(a: &[(Vec<u8>, Val)]) -> Vec<(Vec<u8>, Vec<Vec<u8>>)> {
    a.iter().map(|(t, v)| (t.clone(), v.items())).collect()
}

fn norm_canon(s: &str) -> String {
    // normalise the attribute column of a canonical text: one-element arrays become strings
    let mut cols: Vec<String> = s.split('|').map(|x| x.to_string()).collect();
    if cols.len() == 9 && !cols[8].contains("Err:") && cols[8] != "-" {
        let a = parse_attrs(&cols[8]);
        let n: Vec<(Vec<u8>, Val)> = a
            .into_iter()
            .map(|(t, v)| match v {
                Val::A(ref x) if x.len() == 1 => (t, Val::S(x[0].clone())),
                v => (t, v),
            })
            .collect();
        cols[8] = fmt_attrs(&n);
    }
    cols.join("|")
}

// ---------------------------------------------------------------------------------------------
// Input classes (derived from the input only)

fn seqid_reserved(b: u8) -> bool {
    // GFF3 spec, column 1: everything outside [a-zA-Z0-9.:^*$@!+_?-|] must be escaped
    !(b.is_ascii_alphanumeric() || b".:^*$@!+_?-|".contains(&b))
}

fn gff_universal_reserved(b: u8) -> bool {
    // GFF3 spec: tab, newline, carriage return, percent and control characters must be escaped
    // in every column
    b < 0x20 || b == 0x7f || b == b'%'
}

fn has(bs: &[u8], f: impl Fn(u8) -> bool) -> bool {
    bs.iter().any(|b| f(*b))
}

// ---------------------------------------------------------------------------------------------
// GFF3

fn write_gff(r: &Rec) -> Outcome<io::Result<Vec<u8>>> {
    let rec = build_gff(r);
    guarded(AssertUnwindSafe(move || {
        let mut w = gff::io::Writer::new(Vec::new());
        w.write_record(&rec)?;
        Ok(w.into_inner())
    }))
}

struct ReadBack {
    n_lines: usize,
    lazy: String,
    owned: String,
    lazy_attrs: Option<Vec<(Vec<u8>, Val)>>,
}

fn read_gff(text: &[u8]) -> Outcome<ReadBack> {
    let text = text.to_vec();
    guarded(AssertUnwindSafe(move || {
        let mut reader = gff::io::Reader::new(&text[..]);
        let lines: Vec<io::Result<gff::Line>> = reader.lines().collect();
        let n_lines = lines.len();
        let (lazy, lazy_attrs, owned) = match lines.into_iter().next() {
            None => ("NoLine".to_string(), None, "NoLine".to_string()),
            Some(Err(e)) => (format!("Err:{}", errkind(&e)), None, format!("Err:{}", errkind(&e))),
            Some(Ok(line)) => match line.as_record() {
                None => ("NotRecord".to_string(), None, "NotRecord".to_string()),
                Some(Err(e)) => (format!("Err:{}", errkind(&e)), None, format!("Err:{}", errkind(&e))),
                Some(Ok(rec)) => {
                    let (lazy, la) = canon_feature(&rec);
                    let owned = match RecordBuf::try_from_feature_record(&rec) {
                        Ok(buf) => canon_feature(&buf).0,
                        Err(e) => format!("Err:{}", errkind(&e)),
                    };
                    (lazy, la, owned)
                }
            },
        };
        // the owning iterator must give the same record
        let mut reader2 = gff::io::Reader::new(&text[..]);
        let owned2 = match reader2.record_bufs().next() {
            None => "NoLine".to_string(),
            Some(Ok(buf)) => canon_feature(&buf).0,
            Some(Err(e)) => format!("Err:{}", errkind(&e)),
        };
        let owned = if owned2 == owned || owned == "NotRecord" { owned } else { format!("{owned}<>{owned2}") };
        ReadBack { n_lines, lazy, owned, lazy_attrs }
    }))
}

fn first_err_col(c: &str) -> bool {
    c.split('|').any(|x| x.contains("Err:"))
}

/// Compare the canonical text read back with the input, column by column; returns the names of
/// the columns that differ.
fn diff_cols(input: &str, got: &str) -> Vec<&'static str> {
    const NAMES: [&str; 9] = ["seqid", "source", "type", "start", "end", "score", "strand", "phase", "attributes"];
    let a: Vec<&str> = input.split('|').collect();
    let b: Vec<&str> = got.split('|').collect();
    if b.len() != 9 {
        return vec!["line"];
    }
    (0..9).filter(|&i| a[i] != b[i]).map(|i| NAMES[i]).collect()
}

fn run_gff(c: &Case, full: bool) -> Obs {
    let r = rec_of_case(c);
    if let Some((bits, t)) = &r.score {
        assert_eq!(format!("{}", f32::from_bits(*bits)).as_bytes(), &t[..], "score text");
    }
    let nontrivial = !r.attrs.is_empty() || has(&r.seqid, seqid_reserved);
    let bytes = match write_gff(&r) {
        Outcome::Panicked(m) => return Obs::fail("W=Panic", "gff3-writer-panic", m),
        Outcome::Done(Err(e)) => {
            let obs = format!("W=Err:{}", errkind(&e));
            // the only writer rejection of an in-range record: a CDS without phase
            return if r.ty == b"CDS" && r.phase == '.' && e.kind() == io::ErrorKind::InvalidInput {
                Obs { obs, verdict: "skip".into(), nontrivial: false }
            } else {
                Obs::fail(obs, "gff3-writer-rejects-valid-record", errkind(&e))
            };
        }
        Outcome::Done(Ok(b)) => b,
    };
    if bytes.last() != Some(&b'\n') {
        return Obs::fail("W=?", "gff3-writer-no-newline", hex(&bytes));
    }
    let line = &bytes[..bytes.len() - 1];
    let rb = match read_gff(&bytes) {
        Outcome::Panicked(m) => return Obs::fail(format!("W={}|R=Panic", hex(line)), "gff3-reader-panic", m),
        Outcome::Done(rb) => rb,
    };
    let obs = if full { format!("W={}|R={}", hex(line), rb.lazy) } else { format!("W={}", hex(line)) };

    // ---- the property
    let k1 = has(&r.seqid, seqid_reserved);
    let k2_break = has(&r.source, |b| b == b'\t' || b == b'\n') || has(&r.ty, |b| b == b'\t' || b == b'\n');
    let k2 = has(&r.source, gff_universal_reserved) || has(&r.ty, gff_universal_reserved);
    let input = norm_canon(&canon_input(&r));
    let lazy = norm_canon(&rb.lazy);
    let owned = norm_canon(&rb.owned);
    let mut unknown: Vec<String> = Vec::new();
    let mut known: Option<(&str, String)> = None;

    if k2_break {
        // TAB/LF written raw in source/type: the line structure is destroyed; nothing else can be attributed
        if lazy == input && owned == input && rb.n_lines == 1 {
            // (would mean the writer now encodes them and the reader decodes them)
        } else {
            known = Some(("gff3-source-type-not-encoded", format!("source/type with TAB or LF: read back {}", rb.lazy)));
        }
    } else {
        if rb.n_lines != 1 {
            unknown.push(format!("lines:{}", rb.n_lines));
        }
        if rb.lazy != rb.owned && !(first_err_col(&rb.lazy) && rb.owned.starts_with("Err:")) {
            unknown.push(format!("lazy-vs-owned lazy={} owned={}", rb.lazy, rb.owned));
        }
        for col in diff_cols(&input, &lazy) {
            match col {
                "seqid" if k1 => {
                    known = known.or(Some(("gff3-seqid-not-decoded", format!("seqid {} read back as {}", hex(&r.seqid), lazy.split('|').next().unwrap_or("")))));
                }
                _ => unknown.push(format!("{col}: in={input} out={lazy}")),
            }
        }
        // multi-valued attributes keep their order (already implied by equality above; checked on
        // the value lists explicitly so that the detail names it)
        if let Some(la) = &rb.lazy_attrs {
            if norm_attrs(la) != norm_attrs(&r.attrs) && !unknown.iter().any(|u| u.starts_with("attributes")) {
                unknown.push("attributes-order".into());
            }
        }
        // "reserved characters are percent-encoded on output": the written columns
        let cols: Vec<&[u8]> = line.split(|b| *b == b'\t').collect();
        if cols.len() == 9 {
            if has(cols[0], seqid_reserved_in_output) {
                unknown.push("seqid-column-has-raw-reserved-byte".into());
            }
            if k2 && (cols[1] == &r.source[..] && has(&r.source, gff_universal_reserved)
                || cols[2] == &r.ty[..] && has(&r.ty, gff_universal_reserved))
            {
                known = known.or(Some(("gff3-source-type-not-encoded", format!("source/type written raw: {}", hex(line)))));
            }
            if has(cols[8], |b| b < 0x20 || b >= 0x7f) {
                unknown.push("attributes-column-has-raw-control-or-non-ascii".into());
            }
        } else {
            unknown.push(format!("columns:{}", cols.len()));
        }
    }
    let o = Obs { obs, verdict: "ok".into(), nontrivial };
    if let Some(u) = unknown.first() {
        let tag = if u.starts_with("lazy-vs-owned") {
            "gff3-lazy-differs-from-owned"
        } else if u.starts_with("attributes") {
            "gff3-attributes-roundtrip"
        } else if u.starts_with("seqid") {
            "gff3-seqid-roundtrip"
        } else if u.starts_with("source") || u.starts_with("type") {
            "gff3-source-type-roundtrip"
        } else {
            "gff3-column-roundtrip"
        };
        return o.with_verdict(Err((tag.into(), unknown.join(" ; "))));
    }
    if let Some((tag, d)) = known {
        return o.with_verdict(Err((tag.into(), d)));
    }
    o
}

fn seqid_reserved_in_output(b: u8) -> bool {
    // '%' and hex digits are what the encoder emits
    b != b'%' && seqid_reserved(b)
}

fn run_gffset(c: &Case) -> Obs {
    let which = c.args[0].as_str();
    let mut outs = Vec::with_capacity(256);
    let mut bad = Vec::new();
    for b in 0u16..256 {
        let b = b as u8;
        let r = Rec {
            seqid: if which == "seqid" { vec![b] } else { b"s".to_vec() },
            source: b"x".to_vec(),
            ty: b"t".to_vec(),
            start: 1,
            end: 1,
            score: None,
            strand: '.',
            phase: '.',
            attrs: if which == "attr" { vec![(vec![b], Val::A(vec![vec![b], vec![b]]))] } else { vec![] },
        };
        match write_gff(&r) {
            Outcome::Done(Ok(bytes)) => {
                let line = &bytes[..bytes.len() - 1];
                let col: &[u8] = if which == "seqid" {
                    &line[..line.len() - b"\tx\tt\t1\t1\t.\t.\t.\t.".len()]
                } else {
                    &line[b"s\tx\tt\t1\t1\t.\t.\t.\t".len()..]
                };
                outs.push(hex(col));
                // round trip of the single byte
                match read_gff(&bytes) {
                    Outcome::Done(rb) => {
                        let want = norm_canon(&canon_input(&r));
                        if norm_canon(&rb.lazy) != want || norm_canon(&rb.owned) != want {
                            bad.push(b);
                        }
                    }
                    Outcome::Panicked(_) => bad.push(b),
                }
            }
            _ => {
                outs.push("X".into());
                bad.push(b);
            }
        }
    }
    let obs = outs.join(",");
    let o = Obs::ok(obs, true);
    if which == "seqid" {
        // every byte of the seqid encode set fails to come back (known); any other byte failing is new
        let unexpected: Vec<u8> = bad.iter().copied().filter(|b| !seqid_reserved(*b)).collect();
        if !unexpected.is_empty() {
            return o.with_verdict(Err(("gff3-seqid-roundtrip".into(), format!("bytes {unexpected:?}"))));
        }
        if !bad.is_empty() {
            return o.with_verdict(Err(("gff3-seqid-not-decoded".into(), format!("{} single-byte seqids are not decoded, e.g. byte {}", bad.len(), bad[0]))));
        }
        o
    } else if !bad.is_empty() {
        o.with_verdict(Err(("gff3-attributes-roundtrip".into(), format!("single-byte tag/value {bad:?}"))))
    } else {
        o
    }
}

fn run_gffdir(c: &Case) -> Obs {
    let key = c.b(0);
    let kind = c.args[1].as_str();
    let payload = c.b(2);
    let ptxt = String::from_utf8_lossy(&payload).to_string();
    let value = match kind {
        "N" => None,
        "S" => Some(directive_buf::Value::String(BString::from(payload.clone()))),
        "V" => Some(directive_buf::Value::GffVersion(GffVersion::from_str(&ptxt).expect("version"))),
        "R" => {
            let p: Vec<&str> = ptxt.split(' ').collect();
            Some(directive_buf::Value::SequenceRegion(SequenceRegion::new(
                p[0],
                pos(p[1].parse().unwrap()),
                pos(p[2].parse().unwrap()),
            )))
        }
        "G" => {
            let p: Vec<&str> = ptxt.split(' ').collect();
            Some(directive_buf::Value::GenomeBuild(GenomeBuild::new(p[0], p[1])))
        }
        _ => panic!("directive kind"),
    };
    let d = gff::DirectiveBuf::new(BString::from(key.clone()), value.clone());
    let d2 = d.clone();
    let res = guarded(AssertUnwindSafe(move || -> io::Result<(Vec<u8>, Vec<gff::LineBuf>, Vec<(Vec<u8>, Option<Vec<u8>>)>)> {
        let mut w = gff::io::Writer::new(Vec::new());
        w.write_directive(&d2)?;
        let bytes = w.into_inner();
        let mut r = gff::io::Reader::new(&bytes[..]);
        let bufs = r.line_bufs().collect::<io::Result<Vec<_>>>()?;
        let mut r = gff::io::Reader::new(&bytes[..]);
        let mut lazy = Vec::new();
        for l in r.lines() {
            let l = l?;
            if let Some(dv) = l.as_directive() {
                lazy.push((dv.key().to_vec(), dv.value().map(|v| v.to_vec())));
            }
        }
        Ok((bytes, bufs, lazy))
    }));
    // modelled observation (NV.Text.GffLine.gff_write_directive, gff_file_lines): the written line,
    // then the lazy view of every line read back from it
    let obs = match c18_bedrec::write_directive_line(&d) {
        Outcome::Panicked(_) => "W=Panic".to_string(),
        Outcome::Done(Err(e)) => format!("W=Err:{}", errkind(&e)),
        Outcome::Done(Ok(bytes)) => {
            let lines = match c18_bedrec::read_gff_lines(&bytes) {
                Outcome::Panicked(_) => "Panic".to_string(),
                Outcome::Done(g) => if g.lazy.is_empty() { "-".into() } else { g.lazy.join(";") },
            };
            format!("W={}|{}", hex(&bytes[..bytes.len().saturating_sub(1)]), lines)
        }
    };
    let o = Obs::ok(obs.clone(), true);
    // a key with a blank, a value with LF or a final CR is not something a `##key value` line can
    // carry (the model's directive_ok; c18_gff_directive_refuted): observed, not judged
    if key.iter().any(u8::is_ascii_whitespace) || payload.contains(&b'\n') || payload.ends_with(b"\r") {
        return Obs { obs, verdict: "skip".into(), nontrivial: false };
    }
    match res {
        Outcome::Panicked(m) => Obs::fail(obs, "gff3-directive-panic", m),
        Outcome::Done(Err(e)) => {
            // typed key with a value of another type is rejected by the writer
            let _ = e;
            Obs { obs, verdict: "skip".into(), nontrivial: false }
        }
        Outcome::Done(Ok((bytes, bufs, lazy))) => {
            if bufs.len() != 1 || lazy.len() != 1 {
                return o.with_verdict(Err(("gff3-directive-roundtrip".into(), format!("{} lines for {}", bufs.len(), hex(&bytes)))));
            }
            let gff::LineBuf::Directive(got) = &bufs[0] else {
                return o.with_verdict(Err(("gff3-directive-roundtrip".into(), format!("not a directive: {}", hex(&bytes)))));
            };
            // the reader keeps values as text: typed values are compared after re-parsing the text
            let same_value = match (&value, got.value()) {
                (None, None) => true,
                (Some(directive_buf::Value::String(a)), Some(directive_buf::Value::String(b))) => a == b,
                (Some(directive_buf::Value::GffVersion(a)), Some(directive_buf::Value::String(b))) => {
                    b.to_str().ok().and_then(|s| GffVersion::from_str(s).ok()).as_ref() == Some(a)
                }
                (Some(directive_buf::Value::SequenceRegion(a)), Some(directive_buf::Value::String(b))) => {
                    b.to_str().ok().and_then(|s| SequenceRegion::from_str(s).ok()).as_ref() == Some(a)
                }
                (Some(directive_buf::Value::GenomeBuild(a)), Some(directive_buf::Value::String(b))) => {
                    b.to_str().ok().and_then(|s| GenomeBuild::from_str(s).ok()).as_ref() == Some(a)
                }
                _ => false,
            };
            let lazy_same = lazy[0].0 == got.key().to_vec()
                && match (&lazy[0].1, got.value()) {
                    (None, None) => true,
                    (Some(a), Some(directive_buf::Value::String(b))) => &a[..] == &b[..],
                    _ => false,
                };
            if got.key() != d.key() || !same_value {
                o.with_verdict(Err(("gff3-directive-roundtrip".into(), format!("wrote {} read {:?}", hex(&bytes), got))))
            } else if !lazy_same {
                o.with_verdict(Err(("gff3-lazy-differs-from-owned".into(), format!("directive {}", hex(&bytes)))))
            } else {
                o
            }
        }
    }
}

// ---------------------------------------------------------------------------------------------
// GTF

fn run_gtf(c: &Case) -> Obs {
    let r = rec_of_case(c);
    let rec = build_gff(&r);
    let nontrivial = !r.attrs.is_empty();
    let w = guarded(AssertUnwindSafe(move || -> io::Result<Vec<u8>> {
        let mut w = gtf::io::Writer::new(Vec::new());
        w.write_record(&rec)?;
        Ok(w.into_inner())
    }));
    let bytes = match w {
        Outcome::Panicked(m) => return Obs::fail("W=Panic", "gtf-writer-panic", m),
        Outcome::Done(Err(e)) => {
            let obs = format!("W=Err:{}", errkind(&e));
            return if r.strand == '?' && e.kind() == io::ErrorKind::InvalidInput {
                Obs { obs, verdict: "skip".into(), nontrivial: false }
            } else {
                Obs::fail(obs, "gtf-writer-rejects-valid-record", errkind(&e))
            };
        }
        Outcome::Done(Ok(b)) => b,
    };
    let line = bytes[..bytes.len() - 1].to_vec();
    let text = bytes.clone();
    // lazy view
    let lz = guarded(AssertUnwindSafe(move || -> (usize, String) {
        let mut reader = gtf::io::Reader::new(&text[..]);
        let lines: Vec<io::Result<gtf::Line>> = reader.lines().collect();
        let n = lines.len();
        let s = match lines.into_iter().next() {
            None => "NoLine".to_string(),
            Some(Err(e)) => format!("Err:{}", errkind(&e)),
            Some(Ok(line)) => match line.as_record() {
                None => "NotRecord".to_string(),
                Some(Err(e)) => format!("Err:{}", errkind(&e)),
                Some(Ok(rec)) => {
                    // the lazy attributes accessor is fallible on its own
                    match rec.attributes() {
                        Err(e) => {
                            let head = [
                                hex(rec.reference_sequence_name()),
                                hex(rec.source()),
                                hex(rec.ty()),
                                res_str(rec.start(), |p| usize::from(p).to_string()),
                                res_str(rec.end(), |p| usize::from(p).to_string()),
                                match rec.score() {
                                    None => ".".into(),
                                    Some(r) => res_str(r, |f| f.to_bits().to_string()),
                                },
                                res_str(rec.strand(), strand_ch),
                                match rec.phase() {
                                    None => ".".into(),
                                    Some(r) => res_str(r, phase_ch),
                                },
                            ];
                            format!("{}|Err:{}", head.join("|"), errkind(&e))
                        }
                        Ok(_) => canon_feature(&rec).0,
                    }
                }
            },
        };
        (n, s)
    }));
    let (n_lines, lazy) = match lz {
        Outcome::Panicked(m) => return Obs::fail(format!("W={}|R=Panic", hex(&line)), "gtf-reader-panic", m),
        Outcome::Done(x) => x,
    };
    let text = bytes.clone();
    let ow = guarded(AssertUnwindSafe(move || -> String {
        let mut reader = gtf::io::Reader::new(&text[..]);
        match reader.record_bufs().next() {
            None => "NoLine".to_string(),
            Some(Ok(buf)) => canon_feature(&buf).0,
            Some(Err(e)) => format!("Err:{}", errkind(&e)),
        }
    }));
    let owned = match ow {
        Outcome::Panicked(_) => "Panic".to_string(),
        Outcome::Done(s) => s,
    };
    let obs = format!("W={}|R={}|O={}", hex(&line), lazy, if owned == lazy { "same".to_string() } else { owned.clone() });

    let quote = r.attrs.iter().any(|(_, v)| v.items().iter().any(|x| x.contains(&b'"')));
    let input = norm_canon(&canon_input(&r));
    let o = Obs { obs, verdict: "ok".into(), nontrivial };
    let lazy_n = norm_canon(&lazy);
    let owned_n = norm_canon(&owned);
    let mut problems = Vec::new();
    if n_lines != 1 {
        problems.push(format!("lines:{n_lines}"));
    }
    if lazy_n != input {
        problems.push(format!("lazy: in={input} out={lazy}"));
    }
    if owned_n != input {
        problems.push(format!("owned: in={input} out={owned}"));
    }
    if problems.is_empty() {
        return o;
    }
    if quote && (owned == "Panic" || diff_cols(&input, &lazy_n) == vec!["attributes"]) {
        // class: some attribute value contains a double quote (repaired in /repo 7a3d67e: parse_string
        // must skip escaped quotes) -- no longer a known finding
        return o.with_verdict(Err(("gtf-quote-in-value-not-reparsed".into(), problems.join(" ; "))));
    }
    let tag = if lazy_n == input && owned_n != input {
        "gtf-lazy-differs-from-owned"
    } else if diff_cols(&input, &lazy_n) == vec!["attributes"] {
        "gtf-attributes-roundtrip"
    } else {
        "gtf-column-roundtrip"
    };
    o.with_verdict(Err((tag.into(), problems.join(" ; "))))
}

// ---------------------------------------------------------------------------------------------
// BED

#[derive(Clone, Debug)]
enum Other {
    S(Vec<u8>),
    I(i64),
    U(u64),
    F(u64),
    C(u8),
}

#[derive(Clone, Debug)]
struct BedRec {
    n: usize,
    name: Vec<u8>,
    start: u64,
    end: Option<u64>,
    nm: Option<Vec<u8>>,
    score: u16,
    strand: char,
    others: Vec<Other>,
}

fn bed_of_case(c: &Case) -> BedRec {
    let others = if c.args[7] == "-" {
        Vec::new()
    } else {
        c.args[7]
            .split(',')
            .map(|e| {
                let (k, v) = e.split_once(':').expect("other");
                match k {
                    "S" => Other::S(unhex(v)),
                    "I" => Other::I(v.parse().unwrap()),
                    "U" => Other::U(v.parse().unwrap()),
                    "F" => {
                        // F:<f64 bits>:<hex of its Display text> (the model's float oracle)
                        let (bits, text) = v.split_once(':').expect("float text");
                        let bits: u64 = bits.parse().unwrap();
                        assert_eq!(f64::from_bits(bits).to_string().into_bytes(), unhex(text), "f64 text");
                        Other::F(bits)
                    }
                    "C" => Other::C(v.parse().unwrap()),
                    _ => panic!("other kind"),
                }
            })
            .collect()
    };
    BedRec {
        n: c.u(0) as usize,
        name: c.b(1),
        start: c.u(2),
        end: if c.args[3] == "." { None } else { Some(c.u(3)) },
        nm: if c.args[4] == "-" { None } else { Some(c.b(4)) },
        score: c.u(5) as u16,
        strand: c.args[6].chars().next().unwrap(),
        others,
    }
}

fn bed_args(r: &BedRec) -> Vec<String> {
    vec![
        r.n.to_string(),
        hex(&r.name),
        r.start.to_string(),
        r.end.map(|e| e.to_string()).unwrap_or(".".into()),
        r.nm.as_ref().map(|n| hex(n)).unwrap_or("-".into()),
        r.score.to_string(),
        r.strand.to_string(),
        if r.others.is_empty() {
            "-".into()
        } else {
            r.others
                .iter()
                .map(|o| match o {
                    Other::S(s) => format!("S:{}", hex(s)),
                    Other::I(n) => format!("I:{n}"),
                    Other::U(n) => format!("U:{n}"),
                    Other::F(n) => format!("F:{n}:{}", hex(f64::from_bits(*n).to_string().as_bytes())),
                    Other::C(n) => format!("C:{n}"),
                })
                .collect::<Vec<_>>()
                .join(",")
        },
    ]
}

fn other_values(r: &BedRec) -> bed::feature::record_buf::OtherFields {
    use bed::feature::record_buf::other_fields::Value as V;
    let vs: Vec<V> = r
        .others
        .iter()
        .map(|o| match o {
            Other::S(s) => V::String(BString::from(s.clone())),
            Other::I(n) => V::Int64(*n),
            Other::U(n) => V::UInt64(*n),
            Other::F(n) => V::Float64(f64::from_bits(*n)),
            Other::C(b) => V::Character(*b),
        })
        .collect();
    bed::feature::record_buf::OtherFields::from(vs)
}

fn other_texts(r: &BedRec) -> Vec<Vec<u8>> {
    r.others
        .iter()
        .map(|o| match o {
            Other::S(s) => s.clone(),
            Other::I(n) => n.to_string().into_bytes(),
            Other::U(n) => n.to_string().into_bytes(),
            Other::F(n) => f64::from_bits(*n).to_string().into_bytes(),
            Other::C(b) => vec![*b],
        })
        .collect()
}

fn bed_strand(c: char) -> Option<bed::feature::record::Strand> {
    match c {
        '+' => Some(bed::feature::record::Strand::Forward),
        '-' => Some(bed::feature::record::Strand::Reverse),
        _ => None,
    }
}

fn bed_strand_ch(s: Option<bed::feature::record::Strand>) -> String {
    match s {
        None => ".",
        Some(bed::feature::record::Strand::Forward) => "+",
        Some(bed::feature::record::Strand::Reverse) => "-",
    }
    .into()
}

/// (written bytes, per line (lazy canonical, owned canonical) read into one reused Record, the same
/// read into fresh Records)
type BedOut = io::Result<(Vec<u8>, Vec<(String, String)>, Vec<(String, String)>)>;

fn join_others<'a>(it: impl Iterator<Item = &'a [u8]>) -> String {
    let v: Vec<String> = it.map(hex).collect();
    if v.is_empty() { "-".into() } else { v.join(",") }
}

fn owned_others(o: &bed::feature::record_buf::OtherFields) -> String {
    use bed::feature::record_buf::other_fields::Value as V;
    let v: Vec<String> = o
        .as_ref()
        .iter()
        .map(|x| match x {
            V::String(s) => hex(s),
            other => format!("typed:{other:?}"),
        })
        .collect();
    if v.is_empty() { "-".into() } else { v.join(",") }
}

macro_rules! bed_roundtrip {
    ($n:literal, $rs:expr, $set:expr, $lazy:expr, $owned:expr) => {{
        let rs: &[BedRec] = $rs;
        (|| -> BedOut {
            let mut w = bed::io::Writer::<$n, _>::new(Vec::new());
            for r in rs {
                let mut b = bed::feature::RecordBuf::<$n>::builder()
                    .set_reference_sequence_name(BString::from(r.name.clone()))
                    .set_feature_start(pos(r.start));
                if let Some(e) = r.end {
                    b = b.set_feature_end(pos(e));
                }
                #[allow(clippy::redundant_closure_call)]
                let b = ($set)(b, r);
                let rec = b.set_other_fields(other_values(r)).build();
                w.write_feature_record(&rec)?;
            }
            let bytes = w.into_inner();
            // every line of the file, read into ONE reused Record (reuse = true) or into a fresh one
            let read = |reuse: bool| -> Vec<(String, String)> {
                let mut reader = bed::io::Reader::<$n, _>::new(&bytes[..]);
                let mut rec = bed::Record::<$n>::default();
                let mut out: Vec<(String, String)> = Vec::new();
                loop {
                    if !reuse {
                        rec = bed::Record::<$n>::default();
                    }
                    match reader.read_record(&mut rec) {
                        Ok(0) => break,
                        Ok(_) => {
                            #[allow(clippy::redundant_closure_call)]
                            let lazy = match guarded(AssertUnwindSafe(|| ($lazy)(&rec))) {
                                Outcome::Done(s) => s,
                                Outcome::Panicked(_) => "Panic".to_string(),
                            };
                            let owned = match guarded(AssertUnwindSafe(|| {
                                bed::feature::RecordBuf::<$n>::try_from_feature_record(&rec)
                            })) {
                                Outcome::Done(Ok(buf)) => {
                                    #[allow(clippy::redundant_closure_call)]
                                    let s: String = ($owned)(&buf);
                                    s
                                }
                                Outcome::Done(Err(e)) => format!("Err:{}", errkind(&e)),
                                Outcome::Panicked(_) => "Panic".to_string(),
                            };
                            out.push((lazy, owned));
                        }
                        Err(e) => {
                            let s = format!("Err:{}", errkind(&e));
                            out.push((s.clone(), s));
                            break;
                        }
                    }
                    if out.len() > rs.len() + 4 {
                        break;
                    }
                }
                out
            };
            let reused = read(true);
            let fresh = read(false);
            Ok((bytes, reused, fresh))
        })()
    }};
}

fn opt_pos(p: Option<io::Result<Position>>) -> String {
    match p {
        None => ".".into(),
        Some(r) => res_str(r, |p| usize::from(p).to_string()),
    }
}

fn bed_io(r: &[BedRec]) -> BedOut {
    match r[0].n {
        3 => bed_roundtrip!(
            3,
            r,
            |b, _r: &BedRec| b,
            |x: &bed::Record<3>| format!(
                "{}|{}|{}|-|0|.|{}",
                hex(x.reference_sequence_name()),
                res_str(x.feature_start(), |p| usize::from(p).to_string()),
                opt_pos(x.feature_end()),
                join_others(x.other_fields().iter().map(|s| s.as_bytes()))
            ),
            |x: &bed::feature::RecordBuf<3>| format!(
                "{}|{}|{}|-|0|.|{}",
                hex(x.reference_sequence_name()),
                usize::from(x.feature_start()),
                x.feature_end().map(|p| usize::from(p).to_string()).unwrap_or(".".into()),
                owned_others(x.other_fields())
            )
        ),
        4 => bed_roundtrip!(
            4,
            r,
            |b: bed::feature::record_buf::Builder<4>, r: &BedRec| match &r.nm {
                Some(n) => b.set_name(BString::from(n.clone())),
                None => b,
            },
            |x: &bed::Record<4>| format!(
                "{}|{}|{}|{}|0|.|{}",
                hex(x.reference_sequence_name()),
                res_str(x.feature_start(), |p| usize::from(p).to_string()),
                opt_pos(x.feature_end()),
                x.name().map(|n| hex(n)).unwrap_or("-".into()),
                join_others(x.other_fields().iter().map(|s| s.as_bytes()))
            ),
            |x: &bed::feature::RecordBuf<4>| format!(
                "{}|{}|{}|{}|0|.|{}",
                hex(x.reference_sequence_name()),
                usize::from(x.feature_start()),
                x.feature_end().map(|p| usize::from(p).to_string()).unwrap_or(".".into()),
                x.name().map(|n| hex(n)).unwrap_or("-".into()),
                owned_others(x.other_fields())
            )
        ),
        5 => bed_roundtrip!(
            5,
            r,
            |b: bed::feature::record_buf::Builder<5>, r: &BedRec| {
                let b = b.set_score(r.score);
                match &r.nm {
                    Some(n) => b.set_name(BString::from(n.clone())),
                    None => b,
                }
            },
            |x: &bed::Record<5>| format!(
                "{}|{}|{}|{}|{}|.|{}",
                hex(x.reference_sequence_name()),
                res_str(x.feature_start(), |p| usize::from(p).to_string()),
                opt_pos(x.feature_end()),
                x.name().map(|n| hex(n)).unwrap_or("-".into()),
                res_str(x.score(), |s| s.to_string()),
                join_others(x.other_fields().iter().map(|s| s.as_bytes()))
            ),
            |x: &bed::feature::RecordBuf<5>| format!(
                "{}|{}|{}|{}|{}|.|{}",
                hex(x.reference_sequence_name()),
                usize::from(x.feature_start()),
                x.feature_end().map(|p| usize::from(p).to_string()).unwrap_or(".".into()),
                x.name().map(|n| hex(n)).unwrap_or("-".into()),
                x.score(),
                owned_others(x.other_fields())
            )
        ),
        6 => bed_roundtrip!(
            6,
            r,
            |b: bed::feature::record_buf::Builder<6>, r: &BedRec| {
                let b = b.set_score(r.score);
                let b = match bed_strand(r.strand) {
                    Some(s) => b.set_strand(s),
                    None => b,
                };
                match &r.nm {
                    Some(n) => b.set_name(BString::from(n.clone())),
                    None => b,
                }
            },
            |x: &bed::Record<6>| format!(
                "{}|{}|{}|{}|{}|{}|{}",
                hex(x.reference_sequence_name()),
                res_str(x.feature_start(), |p| usize::from(p).to_string()),
                opt_pos(x.feature_end()),
                x.name().map(|n| hex(n)).unwrap_or("-".into()),
                res_str(x.score(), |s| s.to_string()),
                res_str(x.strand(), bed_strand_ch),
                join_others(x.other_fields().iter().map(|s| s.as_bytes()))
            ),
            |x: &bed::feature::RecordBuf<6>| format!(
                "{}|{}|{}|{}|{}|{}|{}",
                hex(x.reference_sequence_name()),
                usize::from(x.feature_start()),
                x.feature_end().map(|p| usize::from(p).to_string()).unwrap_or(".".into()),
                x.name().map(|n| hex(n)).unwrap_or("-".into()),
                x.score(),
                bed_strand_ch(x.strand()),
                owned_others(x.other_fields())
            )
        ),
        _ => panic!("bed n"),
    }
}

fn bed_name_valid(n: &[u8]) -> bool {
    (1..=255).contains(&n.len()) && n.iter().all(|b| (0x20..=0x7e).contains(b))
}

fn bed_writer_accepts(r: &BedRec) -> bool {
    (1..=255).contains(&r.name.len())
        && r.name.iter().all(|b| b.is_ascii_alphanumeric() || *b == b'_')
        && (r.n < 4 || r.nm.as_ref().map(|n| bed_name_valid(n)).unwrap_or(true))
        && r.others.iter().all(|o| match o {
            Other::S(s) => s.iter().all(|b| (0x20..=0x7e).contains(b)),
            Other::C(b) => (0x20..=0x7e).contains(b),
            _ => true,
        })
}

/// expected canonical text; name "." is the BED spelling of a missing name (documented aliasing)
fn bed_want(r: &BedRec) -> String {
    let nm = match (&r.nm, r.n >= 4) {
        (Some(n), true) if n != b"." => hex(n),
        _ => "-".into(),
    };
    format!(
        "{}|{}|{}|{}|{}|{}|{}",
        hex(&r.name),
        r.start,
        r.end.map(|e| e.to_string()).unwrap_or(".".into()),
        nm,
        if r.n >= 5 { r.score } else { 0 },
        if r.n >= 6 { r.strand } else { '.' },
        join_others(other_texts(r).iter().map(|v| &v[..]))
    )
}

/// A multi-line BED file with mixed column counts, read line by line into ONE reused Record<N>
/// and into fresh ones: every lazy accessor and the owned conversion, per line.
fn run_bedfile(c: &Case) -> Obs {
    let n = c.u(0) as usize;
    let rs: Vec<BedRec> = c.args[1..]
        .iter()
        .map(|a| {
            let mut args = vec![n.to_string()];
            args.extend(a.split(' ').map(|x| x.to_string()));
            bed_of_case(&Case::new("x", "bed", args))
        })
        .collect();
    let rs2 = rs.clone();
    let out = match guarded(AssertUnwindSafe(move || bed_io(&rs2))) {
        Outcome::Panicked(m) => return Obs::fail("-", "bed-panic", m),
        Outcome::Done(x) => x,
    };
    let (bytes, reused, fresh) = match out {
        Err(e) => return Obs::fail("-", "bed-writer-rejects-valid-record", errkind(&e)),
        Ok(x) => x,
    };
    let want: Vec<String> = rs.iter().map(bed_want).collect();
    // modelled observation: the file as written, then view and owned conversion of every line
    // read into ONE reused Record<N> (NV.Text.BedRec.bed_write_file / bed_read_file)
    let entries = c18_bedrec::read_text(n, &bytes, true, rs.len() + 2, false);
    let shown: Vec<String> = entries.iter().filter(|e| e.res != "0").map(|e| if e.is_record() { format!("{}/{}", e.view, e.owned) } else { e.res.clone() }).collect();
    let o = Obs::ok(format!("W={}|R={}", hex(&bytes), shown.join(";")), true);
    let want_views: Vec<String> = rs.iter().map(|r| { let v = c18_bedrec::want_view(r); format!("{v}/{v}") }).collect();
    if shown != want_views {
        return o.with_verdict(Err(("bed-file-roundtrip".into(), format!("per-accessor views: want={want_views:?} got={shown:?}"))));
    }
    let check = |got: &[(String, String)]| -> Option<String> {
        if got.len() != want.len() {
            return Some(format!("{} lines read, {} written", got.len(), want.len()));
        }
        for (i, ((lazy, owned), w)) in got.iter().zip(&want).enumerate() {
            if lazy != w {
                return Some(format!("line {i}: lazy want={w} got={lazy}"));
            }
            if owned != w {
                return Some(format!("line {i}: owned want={w} got={owned}"));
            }
        }
        None
    };
    let pf = check(&fresh);
    let pr = check(&reused);
    match (pf, pr) {
        (None, None) => o,
        (None, Some(d)) => o.with_verdict(Err(("bed-reused-record-stale-fields".into(), format!("{d} file={}", hex(&bytes))))),
        (Some(d), _) => o.with_verdict(Err(("bed-file-roundtrip".into(), format!("{d} file={}", hex(&bytes))))),
    }
}

fn run_bed(c: &Case, modelled: bool) -> Obs {
    let r = bed_of_case(c);
    let nontrivial = r.n > 3 || !r.others.is_empty();
    let r2 = r.clone();
    let out = match guarded(AssertUnwindSafe(move || bed_io(std::slice::from_ref(&r2)))) {
        Outcome::Panicked(m) => return Obs::fail("W=Panic", "bed-panic", m),
        Outcome::Done(x) => x,
    };
    let (bytes, reused, fresh) = match out {
        Err(e) => {
            let obs = format!("W=Err:{}", errkind(&e));
            return if !bed_writer_accepts(&r) && e.kind() == io::ErrorKind::InvalidInput {
                Obs { obs, verdict: "skip".into(), nontrivial: false }
            } else {
                Obs::fail(obs, "bed-writer-rejects-valid-record", errkind(&e))
            };
        }
        Ok(x) => x,
    };
    let count = fresh.len();
    let (lazy, owned) = fresh.first().cloned().unwrap_or(("NoLine".into(), "NoLine".into()));
    let line = &bytes[..bytes.len() - 1];
    // record-level observation for both kinds (bed: NV.Text.Bed.bed_write, bedt:
    // NV.Text.BedTyped.bed_write_typed; then NV.Text.BedRec): per-accessor view and owned
    // conversion of every line read back into one reused Record<N>
    let _ = modelled;
    let rewritten: String;
    let obs = {
        let es = c18_bedrec::read_text(r.n, &bytes, true, 3, false);
        let shown: Vec<String> = es.iter().filter(|e| e.res != "0").map(|e| if e.is_record() { format!("{}/{}/{}", e.view, e.owned, e.rewrite) } else { e.res.clone() }).collect();
        // the whole path write -> read_record -> try_from_feature_record -> write (NV.Text.BedRewrite.bed_rewrite)
        rewritten = es.first().map(|e| if e.is_record() { e.rewrite.clone() } else { e.res.clone() }).unwrap_or("NoLine".into());
        format!("W={}|R={}|RW={}", hex(line), shown.join(";"), rewritten)
    };
    let o = Obs { obs, verdict: "ok".into(), nontrivial };
    if !bed_writer_accepts(&r) {
        return o.with_verdict(Err(("bed-writer-accepts-invalid-field".into(), hex(line))));
    }
    let want = bed_want(&r);
    let mut problems = Vec::new();
    if count != 1 {
        problems.push(format!("records:{count}"));
    }
    if lazy != want {
        problems.push(format!("lazy: want={want} got={lazy}"));
    }
    if reused != fresh {
        return o.with_verdict(Err(("bed-reused-record-stale-fields".into(), format!("reused={reused:?} fresh={fresh:?}"))));
    }
    if owned != lazy {
        return o.with_verdict(Err(("bed-lazy-differs-from-owned".into(), format!("lazy={lazy} owned={owned}"))));
    }
    // oracle (c18_bed_write_read_write): the copy of the read-back record is the written text again,
    // typed extra columns and the '.' name included
    if problems.is_empty() && rewritten != hex(line) {
        return o.with_verdict(Err(("bed-rewrite-changes-text".into(), format!("written={} rewritten={rewritten}", hex(line)))));
    }
    if problems.is_empty() {
        o
    } else {
        let tag = if lazy.split('|').last() != want.split('|').last() { "bed-other-fields-roundtrip" } else { "bed-standard-fields-roundtrip" };
        o.with_verdict(Err((tag.into(), problems.join(" ; "))))
    }
}


// Multi-line GFF3 / GTF files: shared/c18_files.rs (kinds gfffile, gtffile).

// ---------------------------------------------------------------------------------------------
// Generation

const SPECIAL: &[u8] = b"\t\n\r;=&,% >#\"\\.%25%3B+-|:@!$^*?_\x00\x1f\x7f";

fn gen_utf8(rng: &mut Rng, max: usize, special_pct: u64) -> Vec<u8> {
    let n = rng.below(max as u64 + 1) as usize;
    let mut s = Vec::new();
    for _ in 0..n {
        let roll = rng.below(100);
        if roll < special_pct {
            s.push(*rng.pick(SPECIAL));
        } else if roll < special_pct + 10 {
            let cps = [0xe9u32, 0x3b1, 0x4e2d, 0x1f9ec, 0x80, 0x7ff, 0x800, 0xffff, 0x10000];
            let ch = char::from_u32(*rng.pick(&cps)).unwrap();
            let mut buf = [0u8; 4];
            s.extend_from_slice(ch.encode_utf8(&mut buf).as_bytes());
        } else if roll < special_pct + 13 {
            // things that look like escapes
            s.extend_from_slice(*rng.pick(&[&b"%41"[..], b"%", b"%2", b"%zz", b"%2c", b"%3d", b"%%"]));
        } else {
            s.push(*rng.pick(b"abcdefghijklmnopqrstuvwxyzABCDEFGHIJKLMNOPQRSTUVWXYZ0123456789"));
        }
    }
    s
}

fn gen_plain(rng: &mut Rng, min: usize, max: usize, alphabet: &[u8]) -> Vec<u8> {
    let n = rng.range(min as u64, max as u64) as usize;
    (0..n).map(|_| *rng.pick(alphabet)).collect()
}

const SEQID_SAFE: &[u8] = b"abcdefghijklmnopqrstuvwxyzABCDEFGHIJKLMNOPQRSTUVWXYZ0123456789.:^*$@!+_?-|";
// delimiter-free alphabet for columns that are written raw (no TAB/LF/CR, no '%', no controls)
const PLAIN: &[u8] = b"abcdefghijklmnopqrstuvwxyzABCDEFGHIJKLMNOPQRSTUVWXYZ0123456789 .:;=&,#>_-+*/()[]{}~'\"\\|";

fn gen_pos(rng: &mut Rng) -> u64 {
    match rng.below(8) {
        0 => 1,
        1 => rng.range(1, 9),
        2 => u32::MAX as u64 + rng.below(3),
        3 => u64::MAX - rng.below(3),
        4 => 10u64.pow(rng.below(19) as u32 + 1) - rng.below(2),
        _ => rng.range(1, 300_000_000),
    }
}

fn gen_score(rng: &mut Rng) -> Option<(u32, Vec<u8>)> {
    let bits: u32 = match rng.below(12) {
        0..=2 => return None,
        3 => 0,
        4 => 0x8000_0000,
        5 => (rng.below(2000) as f32 / 10.0).to_bits(),
        6 => (rng.below(1 << 20) as f32).to_bits(),
        7 => f32::MAX.to_bits(),
        8 => f32::MIN_POSITIVE.to_bits(),
        9 => 1,
        _ => {
            // any finite value
            let b = rng.next() as u32;
            if f32::from_bits(b).is_finite() { b } else { b & 0x807f_ffff | 0x3f00_0000 }
        }
    };
    Some((bits, format!("{}", f32::from_bits(bits)).into_bytes()))
}

fn gen_attrs(rng: &mut Rng, gtf: bool, quotes: bool) -> Vec<(Vec<u8>, Val)> {
    let n = match rng.below(10) {
        0 | 1 => 0,
        2..=5 => 1,
        6 | 7 => 2,
        8 => 3,
        _ => rng.range(4, 8),
    } as usize;
    let mut out: Vec<(Vec<u8>, Val)> = Vec::new();
    for _ in 0..n {
        let tag = if gtf {
            let mut t = gen_plain(rng, 1, 8, b"abcdefghijklmnopqrstuvwxyzABCDEFGHIJKLMNOPQRSTUVWXYZ0123456789_.:-");
            if rng.chance(1, 8) {
                t.extend_from_slice("é中".as_bytes());
            }
            t
        } else if rng.chance(1, 3) {
            rng.pick(&[&b"ID"[..], b"Name", b"Parent", b"Dbxref", b"Note", b"Is_circular"]).to_vec()
        } else {
            gen_utf8(rng, 6, 25)
        };
        if out.iter().any(|(t, _)| *t == tag) {
            continue;
        }
        let value = |rng: &mut Rng| -> Vec<u8> {
            if gtf {
                let mut v = gen_plain(rng, 0, 10, b"abcdefghijklmnopqrstuvwxyz0123456789 ;=,.#'_-:/");
                let k = rng.below(4);
                for _ in 0..k {
                    let at = rng.below(v.len() as u64 + 1) as usize;
                    let c = match rng.below(6) {
                        0 | 1 | 2 => b'\\',
                        3 if quotes => b'"',
                        4 => b';',
                        _ => b' ',
                    };
                    v.insert(at, c);
                }
                if rng.chance(1, 10) {
                    v.extend_from_slice("é中\u{1f9ec}".as_bytes());
                }
                v
            } else {
                gen_utf8(rng, 10, 30)
            }
        };
        let v = match rng.below(6) {
            0..=2 => Val::S(value(rng)),
            3 => Val::A(vec![value(rng)]),
            4 => Val::A(vec![value(rng), value(rng)]),
            _ => {
                let k = rng.range(2, 5);
                Val::A((0..k).map(|_| value(rng)).collect())
            }
        };
        out.push((tag, v));
    }
    out
}

/// class: 0 = outside every known class, 1 = seqid with reserved bytes, 2 = source/type with
/// reserved bytes but no TAB/LF, 3 = source/type with TAB/LF
fn gen_gff(rng: &mut Rng, class: u64) -> Rec {
    let seqid = match class {
        1 => {
            let mut s = gen_utf8(rng, 8, 30);
            if !has(&s, seqid_reserved) {
                s.push(*rng.pick(b" %#>\t\n;=,&/"));
                if rng.chance(1, 2) {
                    s.rotate_right(1); // leading '#' or '>'
                }
            }
            s
        }
        _ => {
            let lo = if rng.chance(1, 20) { 0 } else { 1 };
            gen_plain(rng, lo, 12, SEQID_SAFE)
        }
    };
    let mut source = if rng.chance(1, 4) { b".".to_vec() } else { gen_plain(rng, 0, 8, PLAIN) };
    let mut ty = match rng.below(6) {
        0 | 1 => b"CDS".to_vec(),
        2 => b"gene".to_vec(),
        3 => b"cds".to_vec(),
        _ => gen_plain(rng, 0, 8, PLAIN),
    };
    if rng.chance(1, 6) {
        source.extend_from_slice("é中".as_bytes());
    }
    if class == 2 || class == 3 {
        let extra: &[u8] = if class == 2 { b"%\r\x00\x1f\x7f\x0b" } else { b"\t\n" };
        let tgt = if rng.chance(1, 2) { &mut source } else { &mut ty };
        let at = rng.below(tgt.len() as u64 + 1) as usize;
        tgt.insert(at, *rng.pick(extra));
        if rng.chance(1, 3) {
            tgt.extend_from_slice(b"%09");
        }
    }
    // leading '#' and '>' on source of a record with empty seqid never start the line (TAB first)
    let phase = match (ty == b"CDS", rng.below(8)) {
        (true, 0) => '.',
        (true, n) => ['0', '1', '2'][(n % 3) as usize],
        (false, 0..=4) => '.',
        (false, n) => ['0', '1', '2'][(n % 3) as usize],
    };
    Rec {
        seqid,
        source,
        ty,
        start: gen_pos(rng),
        end: gen_pos(rng),
        score: gen_score(rng),
        strand: *rng.pick(&['.', '+', '-', '?']),
        phase,
        attrs: gen_attrs(rng, false, false),
    }
}

fn gen_gtf(rng: &mut Rng, quotes: bool) -> Rec {
    let alpha = b"abcdefghijklmnopqrstuvwxyzABCDEFGHIJKLMNOPQRSTUVWXYZ0123456789 .:;=&,>_-+*/()%|\"\\";
    let mut seqid = gen_plain(rng, 1, 10, alpha);
    if seqid[0] == b'#' {
        seqid[0] = b'c';
    }
    if rng.chance(1, 8) {
        seqid.extend_from_slice("é".as_bytes());
    }
    Rec {
        seqid,
        source: gen_plain(rng, 0, 8, alpha),
        ty: if rng.chance(1, 3) { b"CDS".to_vec() } else { gen_plain(rng, 0, 8, alpha) },
        start: gen_pos(rng),
        end: gen_pos(rng),
        score: gen_score(rng),
        strand: *rng.pick(&['.', '+', '-', '+', '-', '.', '+', '-', '+', '-', '.', '?']),
        phase: *rng.pick(&['.', '0', '1', '2']),
        attrs: gen_attrs(rng, true, quotes),
    }
}

fn gen_bed(rng: &mut Rng, typed: bool) -> BedRec {
    let n = rng.range(3, 6) as usize;
    let printable: Vec<u8> = (0x20u8..=0x7e).collect();
    let mut name = gen_plain(rng, 1, 12, b"abcdefghijklmnopqrstuvwxyzABCDEFGHIJKLMNOPQRSTUVWXYZ0123456789_");
    match rng.below(40) {
        0 => name = vec![b'a'; 255],
        1 => name = vec![b'a'; 256], // rejected
        2 => name.clear(),           // rejected
        3 => name.push(b'.'),        // rejected
        _ => {}
    }
    let nm = match rng.below(10) {
        0 => None,
        1 => Some(b".".to_vec()),
        2 => Some(vec![b'n'; 255]),
        3 => Some(gen_plain(rng, 0, 3, &printable)), // may be empty: rejected
        _ => Some(gen_plain(rng, 1, 10, &printable)),
    };
    // BED3..BED12 and beyond: up to 9 extra columns
    let k = match rng.below(6) {
        0 | 1 => 0,
        2 => 1,
        3 => 12usize.saturating_sub(n) as u64,
        _ => rng.range(1, 9),
    };
    let others = (0..k)
        .map(|_| {
            if typed {
                match rng.below(6) {
                    0 => Other::I(rng.next() as i64),
                    1 => Other::I(*rng.pick(&[0, -1, i64::MIN, i64::MAX])),
                    2 => Other::U(*rng.pick(&[0, 1, u64::MAX, 12345])),
                    3 => Other::F(rng.pick(&[0.0f64, -0.0, 1.5, 1e300, 5e-324, 0.1]).to_bits()),
                    4 => Other::C(rng.range(0x20, 0x7e) as u8),
                    _ => Other::S(gen_plain(rng, 0, 6, &printable)),
                }
            } else {
                match rng.below(8) {
                    0 => Other::S(Vec::new()),
                    1 => Other::S(b".".to_vec()),
                    2 => Other::S(gen_plain(rng, 1, 4, b"0123456789,")),
                    _ => Other::S(gen_plain(rng, 0, 8, &printable)),
                }
            }
        })
        .collect();
    let start = match rng.below(6) {
        0 => 1,
        1 => u64::MAX,
        2 => u64::MAX - 1,
        _ => rng.range(1, 250_000_000),
    };
    BedRec {
        n,
        name,
        start,
        end: match rng.below(6) {
            0 => None,
            1 => Some(1),
            2 => Some(u64::MAX),
            _ => Some(start.saturating_add(rng.below(100_000))),
        },
        nm,
        score: *rng.pick(&[0u16, 1, 9, 10, 999, 1000, 1001, 65535, 500]),
        strand: *rng.pick(&['.', '+', '-']),
        others,
    }
}

fn generate(rng: &mut Rng, tier: &str, w: &mut CaseWriter) {
    let thorough = tier == "thorough";
    let scale = if thorough { 25 } else { 1 };
    w.push("gffset", vec!["seqid".into()]);
    w.push("gffset", vec!["attr".into()]);
    // hand-picked boundary records
    let base = Rec {
        seqid: b"chr1".to_vec(),
        source: b".".to_vec(),
        ty: b"gene".to_vec(),
        start: 1,
        end: 1,
        score: None,
        strand: '.',
        phase: '.',
        attrs: vec![],
    };
    let mut fixed: Vec<Rec> = vec![base.clone()];
    fixed.push(Rec { seqid: b"chr 1%".to_vec(), ..base.clone() });
    fixed.push(Rec { seqid: b"#chr".to_vec(), ..base.clone() });
    fixed.push(Rec { seqid: b">chr".to_vec(), ..base.clone() });
    fixed.push(Rec { seqid: vec![], ..base.clone() });
    fixed.push(Rec { ty: b"CDS".to_vec(), ..base.clone() });
    fixed.push(Rec { ty: b"CDS".to_vec(), phase: '0', ..base.clone() });
    fixed.push(Rec { attrs: vec![(vec![], Val::S(vec![]))], ..base.clone() });
    fixed.push(Rec { attrs: vec![(b".".to_vec(), Val::S(b".".to_vec()))], ..base.clone() });
    fixed.push(Rec { attrs: vec![(b"a".to_vec(), Val::A(vec![vec![], vec![]]))], ..base.clone() });
    fixed.push(Rec { attrs: vec![(b"a,b".to_vec(), Val::S(b"x,y".to_vec())), (b"c".to_vec(), Val::A(vec![b"1,2".to_vec(), b"3".to_vec()]))], ..base.clone() });
    fixed.push(Rec { attrs: vec![(b"t=;".to_vec(), Val::S(b"%3B;=&,%\t\n\r".to_vec()))], ..base.clone() });
    fixed.push(Rec { attrs: vec![(b"k".to_vec(), Val::S(b"%41%4".to_vec())), (b"%6b".to_vec(), Val::S(b"v".to_vec()))], ..base.clone() });
    fixed.push(Rec { attrs: vec![(b"Note".to_vec(), Val::S("caf\u{e9} \u{4e2d}\u{1f9ec}".as_bytes().to_vec()))], ..base.clone() });
    for r in &fixed {
        w.push("gff", rec_args(r));
    }
    w.push("gffw", rec_args(&Rec { source: b"a\tb".to_vec(), ..base.clone() }));
    w.push("gffw", rec_args(&Rec { ty: b"a\nb".to_vec(), ..base.clone() }));
    w.push("gff", rec_args(&Rec { source: b"50%".to_vec(), ..base.clone() }));

    for i in 0..(420 * scale) {
        let class = match i % 20 {
            0 | 1 | 2 => 1,
            3 => 2,
            4 => 3,
            _ => 0,
        };
        let r = gen_gff(rng, class);
        w.push(if class == 3 { "gffw" } else { "gff" }, rec_args(&r));
    }
    // directives
    let dirs: Vec<(Vec<u8>, &str, Vec<u8>)> = vec![
        (b"gff-version".to_vec(), "V", b"3".to_vec()),
        (b"gff-version".to_vec(), "V", b"3.1.26".to_vec()),
        (b"gff-version".to_vec(), "V", b"3.1".to_vec()),
        (b"sequence-region".to_vec(), "R", b"ctg123 1 1497228".to_vec()),
        (b"genome-build".to_vec(), "G", b"NCBI B36".to_vec()),
        (b"#".to_vec(), "N", vec![]),
        (b"FASTA".to_vec(), "N", vec![]),
        (b"species".to_vec(), "S", b"https://example.org/?id=6239 x;y".to_vec()),
        (b"k".to_vec(), "S", vec![]),
        (b"k".to_vec(), "S", b" ".to_vec()),
        (b"k".to_vec(), "S", b" lead and trail ".to_vec()),
    ];
    for (k, kind, p) in dirs {
        w.push("gffdir", vec![hex(&k), kind.into(), hex(&p)]);
    }
    // typed values under a key that is not theirs (writer: invalid directive), keys with blanks,
    // values ending in CR, comments
    for (k, kind, p) in [
        (&b"foo"[..], "V", &b"3"[..]), (b"gff-version", "R", b"ctg 1 2"), (b"sequence-region", "G", b"a b"), (b"gff-version", "S", b"3 x"),
        (b"a b", "N", b""), (b"a\tb", "S", b"v"), (b"k", "S", b"v\r"), (b"k", "S", b"\r"), (b"", "N", b""), (b"", "S", b"v"), (b"k\r", "N", b""),
        (b"sequence-region", "R", b"chr 1 18446744073709551615"), (b"gff-version", "V", b"4294967295.0.4294967295"),
    ] {
        w.push("gffdir", vec![hex(k), kind.into(), hex(p)]);
    }
    for t in [&b""[..], b"note", b" note ", b"#x", b"a\tb", b"x\r", b"\r", b">seq", b"!"] {
        w.push("gffcom", vec![hex(t)]);
    }
    for _ in 0..(10 * scale) {
        w.push("gffcom", vec![hex(&gen_plain(rng, 0, 10, PLAIN))]);
    }
    for _ in 0..(20 * scale) {
        let k = gen_plain(rng, 1, 10, b"abcdefghijklmnopqrstuvwxyz-#ABC09");
        if rng.chance(1, 4) {
            w.push("gffdir", vec![hex(&k), "N".into(), "_".into()]);
        } else {
            let v = gen_plain(rng, 0, 12, PLAIN);
            w.push("gffdir", vec![hex(&k), "S".into(), hex(&v)]);
        }
    }
    // GTF
    let gbase = Rec { attrs: vec![(b"gene_id".to_vec(), Val::S(b"g1".to_vec()))], ..base.clone() };
    let gfixed = vec![
        gbase.clone(),
        Rec { attrs: vec![], ..base.clone() },
        Rec { attrs: vec![(b"k".to_vec(), Val::S(b"a\\b".to_vec()))], ..base.clone() },
        Rec { attrs: vec![(b"k".to_vec(), Val::S(b"\\".to_vec()))], ..base.clone() },
        Rec { attrs: vec![(b"k".to_vec(), Val::S(b"\\\\".to_vec())), (b"j".to_vec(), Val::S(b"".to_vec()))], ..base.clone() },
        Rec { attrs: vec![(b"k".to_vec(), Val::S(b"a\"b".to_vec()))], ..base.clone() },
        Rec { attrs: vec![(b"k".to_vec(), Val::S(b"\"".to_vec()))], ..base.clone() },
        Rec { attrs: vec![(b"k".to_vec(), Val::A(vec![b"x".to_vec(), b"y;z".to_vec(), b"x".to_vec()])), (b"j".to_vec(), Val::S(b"1".to_vec()))], ..base.clone() },
        Rec { strand: '?', ..gbase.clone() },
        Rec { ty: b"CDS".to_vec(), ..gbase.clone() },
    ];
    for r in &gfixed {
        w.push("gtf", rec_args(r));
    }
    for i in 0..(300 * scale) {
        let r = gen_gtf(rng, i % 3 == 0);
        w.push("gtf", rec_args(&r));
    }
    // BED
    for i in 0..(300 * scale) {
        let typed = i % 6 == 5;
        let r = gen_bed(rng, typed);
        w.push(if typed { "bedt" } else { "bed" }, bed_args(&r));
    }

    // multi-line files read with one reused record / line object
    for n in 3..=6usize {
        // extra-column counts per line: BEDn+k followed (later) by a plain BEDn line is the
        // pattern that exposes stale bounds in a reused Record
        let mut patterns: Vec<Vec<usize>> = vec![
            vec![0, 2, 0],
            vec![3, 0],
            vec![12 - n, 0, 1, 0],
            vec![1, 1, 0, 0, 9, 2, 0],
            vec![0, 0],
            vec![5, 3, 1, 0],
        ];
        for _ in 0..(6 * scale) {
            let len = rng.range(2, 8) as usize;
            patterns.push((0..len).map(|_| if rng.chance(1, 2) { 0 } else { rng.below(10) as usize }).collect());
        }
        for pat in patterns {
            let mut args = vec![n.to_string()];
            for k in pat {
                let r = gen_bed_valid(rng, n, k);
                args.push(bed_args(&r)[1..].join(" "));
            }
            w.push("bedfile", args);
        }
    }
    // arbitrary GFF3 text through read_line / Line::kind / line_bufs / record_bufs
    {
        let fixed: &[&[u8]] = &[
            b"", b"\n", b"##gff-version 3\n", b"##gff-version 3", b"##gff-version\t3.1.26\r\n", b"###\n", b"##\n", b"## x\n",
            b"#\n", b"#comment\n", b"# comment \r\n", b" \t\r\x0c\n#c\n", b"##FASTA\n>seq1\nACGT\n",
            b"chr1\t.\tgene\t1\t2\t.\t+\t.\tID=a\n##FASTA\nchr1\t.\tgene\t1\t2\t.\t+\t.\tID=b\n",
            b"chr1\t.\tgene\t1\t2\t.\t+\t.\tID=a\n#c\n\n##k v\nchr2\t.\tgene\t3\t4\t.\t-\t.\t.\r\n",
            b"%23chr\t.\tgene\t1\t2\t.\t+\t.\t.\n", b"\t.\tgene\t1\t2\t.\t+\t.\t.\n", b"chr1\t.\tgene\n", b"##key\x0cvalue\n", b"##k\r\n", b"##k \r\n",
        ];
        for t in fixed {
            w.push("gffline", vec![hex(t)]);
        }
        for _ in 0..(60 * scale) {
            let t = c18_bedrec::gen_gffline(rng);
            w.push("gffline", vec![hex(&t)]);
        }
    }
    // arbitrary GTF text through read_line / Line::kind / line_bufs / record_bufs; comments
    {
        let fixed: &[&[u8]] = &[
            b"", b"\n", b"#\n", b"##format: gtf\n", b"# c \r\n", b"\r\n", b" \n",
            b"chr1\t.\tgene\t1\t2\t.\t+\t.\tgene_id \"g\";\n#c\n\nchr2\t.\tgene\t3\t4\t.\t-\t.\t\r\n",
            b"chr1\t.\tgene\t1\t2\t.\t+\t.\ta \"1\n", b"#chr\t.\tgene\t1\t2\t.\t+\t.\t\n", b"chr1\t.\tgene\n", b"chr1\t.\tgene\t1\t2\t.\t+\t.\ta \"1\"; a \"2\";",
        ];
        for t in fixed {
            w.push("gtfline", vec![hex(t)]);
        }
        for _ in 0..(50 * scale) {
            let t = c18_bedrec::gen_gtfline(rng);
            w.push("gtfline", vec![hex(&t)]);
        }
        for t in [&b""[..], b"note", b"#format: gtf", b" a\tb ", b"x\r", b"\r", b"a\nb"] {
            w.push("gtfcom", vec![hex(t)]);
        }
        for _ in 0..(8 * scale) {
            w.push("gtfcom", vec![hex(&gen_plain(rng, 0, 10, PLAIN))]);
        }
    }
    // arbitrary BED text through the reader (comments, CR, short lines, missing final LF, ...)
    for n in 3..=6usize {
        let fixed: &[&[u8]] = &[
            b"", b"\n", b"#", b"#c\n#d", b"sq0\t0\t1\n", b"sq0\t0\t1", b"sq0\t0\t1\r\n", b"sq0\t0\t1\r\t\n",
            b"sq0\t0\t1\t\n", b"sq0\t0\t1\t", b"sq0\t0\n", b"sq0\t0", b"sq0\n", b"a\t1\t2\tn\t3\t+\tx\ty\nb\t4\t5\tm\t6\t-\n",
            b"a\t1\t2\tn\t3\t+\tx\ty\nb\t4\nc\t7\t8\tn\t9\t.\n", b"a\r\t1\t2\t\r\n", b"\r\n", b"a\t1\t2\tn\t3\t+\r",
        ];
        for t in fixed {
            w.push("bedraw", vec![n.to_string(), hex(t), "6".into()]);
        }
        for _ in 0..(12 * scale) {
            let t = c18_bedrec::gen_bedraw(rng, n);
            w.push("bedraw", vec![n.to_string(), hex(&t), "8".into()]);
        }
    }
    for i in 0..(12 * scale) {
        use c18_files::{DVal, Item};
        let len = rng.range(2, 7);
        let mut items = vec![Item::D(b"gff-version".to_vec(), if i % 2 == 0 { DVal::S(b"3".to_vec()) } else { DVal::V(3, Some(1), Some(26)) })];
        for j in 0..len {
            let mut r = gen_gff(rng, 0);
            if r.ty == b"CDS" && r.phase == '.' {
                r.phase = '0';
            }
            if i % 3 == 0 && rng.chance(1, 2) {
                r.attrs.clear();
            }
            items.push(Item::R(r));
            // blank lines, comments and directives between records
            match rng.below(8) {
                0 => items.push(Item::B(Vec::new())),
                1 => items.push(Item::C(b"a comment\twith\ttabs\t1\t2\t3\t4\t5\t6".to_vec())),
                2 => {
                    items.push(Item::D(b"#".to_vec(), DVal::N));
                    items.push(Item::B(b" \t ".to_vec()));
                }
                3 => items.push(Item::B(gen_plain(rng, 0, 3, b" \t\r\x0c"))),
                4 => {
                    let (k, v) = c18_files::gen_dval(rng, false);
                    items.push(Item::D(k, v));
                }
                5 => items.push(Item::C(gen_plain(rng, 0, 10, b"ab >!\t=;"))),
                _ => {}
            }
            if j + 1 == len && i % 4 == 3 {
                // a FASTA section: record_bufs() stops at the directive
                items.push(Item::D(b"FASTA".to_vec(), DVal::N));
                if rng.chance(1, 2) {
                    items.push(Item::R(gen_gff(rng, 0)));
                } else {
                    items.push(Item::B(b">seq1".to_vec()));
                    items.push(Item::B(b"ACGT".to_vec()));
                }
            }
        }
        w.push("gfffile", items.iter().map(c18_files::item_arg).collect());
    }
    for i in 0..(12 * scale) {
        use c18_files::Item;
        let len = rng.range(2, 7);
        let mut items = Vec::new();
        for _ in 0..len {
            let mut r = gen_gtf(rng, i % 2 == 0);
            if r.strand == '?' {
                r.strand = '.';
            }
            if rng.chance(1, 4) {
                r.attrs.clear();
            }
            items.push(Item::R(r));
            match rng.below(6) {
                0 => items.push(Item::C(b"a comment\twith\ttabs\t1\t2\t3\t4\t5\tk \"v\";".to_vec())),
                1 => items.push(Item::C(gen_plain(rng, 0, 10, b"#ab \t\";"))),
                _ => {}
            }
        }
        w.push("gtffile", items.iter().map(c18_files::item_arg).collect());
    }
    // typed directive values: FromStr on arbitrary text; typed values through writer and reader
    {
        let fixed: &[&str] = &[
            "", "3", "3.1", "3.1.26", "3.1.26.4", "3.", ".3", "3..1", "+3.+1.+26", "-3", "4294967295", "4294967296", "03.001", "3.x", "3.1.x", "+", "3.+", " 3",
            "ctg123 1 1497228", "ctg123 1", "ctg123", " ", "\t", "ctg123 0 5", "ctg123 5 0", "ctg123 x 5", "ctg123 5 x", "ctg123  1\t 2 extra", " ctg123 1 2", "a 18446744073709551615 18446744073709551616",
            "NCBI B36", "NCBI", "NCBI  B36 x", "caf\u{e9} \u{4e2d}",
        ];
        for t in fixed {
            w.push("dirval", vec![hex(t.as_bytes())]);
        }
        for _ in 0..(40 * scale) {
            let t = c18_files::gen_dirval(rng);
            w.push("dirval", vec![hex(&t)]);
        }
        use c18_files::DVal;
        let fixed: Vec<(Vec<u8>, DVal)> = vec![
            (b"gff-version".to_vec(), DVal::V(3, None, None)),
            (b"gff-version".to_vec(), DVal::V(3, Some(1), Some(26))),
            (b"gff-version".to_vec(), DVal::V(4294967295, Some(0), Some(4294967295))),
            (b"gff-version".to_vec(), DVal::S(b"3.1".to_vec())),
            (b"gff-version".to_vec(), DVal::S(b"three".to_vec())),
            (b"sequence-region".to_vec(), DVal::R(b"ctg123".to_vec(), 1, 1497228)),
            (b"sequence-region".to_vec(), DVal::R(b"chr 1".to_vec(), 1, 2)),
            (b"sequence-region".to_vec(), DVal::R(Vec::new(), 1, 2)),
            (b"sequence-region".to_vec(), DVal::R(b"c".to_vec(), 18446744073709551615, 18446744073709551615)),
            (b"sequence-region".to_vec(), DVal::S(b"ctg123 1 1497228".to_vec())),
            (b"genome-build".to_vec(), DVal::G(b"NCBI".to_vec(), b"B36".to_vec())),
            (b"genome-build".to_vec(), DVal::G(b"NCBI build".to_vec(), b"B36".to_vec())),
            (b"genome-build".to_vec(), DVal::G(b"NCBI".to_vec(), Vec::new())),
            (b"species".to_vec(), DVal::S(b"x y".to_vec())),
            (b"k".to_vec(), DVal::N),
            (b"foo".to_vec(), DVal::V(3, None, None)),
        ];
        for (k, v) in &fixed {
            w.push("gffdv", c18_files::dval_args(k, v));
        }
        for i in 0..(30 * scale) {
            let (k, v) = c18_files::gen_dval(rng, i % 5 == 4);
            w.push("gffdv", c18_files::dval_args(&k, &v));
        }
    }
    // GFF3 attribute columns: lazy iteration, lazy get, owned map and its get
    {
        let fixed: &[&[u8]] = &[
            b".", b"", b"ID=a", b"a=1;a=2", b"a=1;b=2;a=3,4", b"%61=1;a=2", b"a=1;b", b"b;a=1", b"a=1;;", b"=;=x", b"a=1,2;b=%2C", b"a==;", b"Parent=p1,p2;Dbxref=x:1,y:2;Note=n",
        ];
        for t in fixed {
            w.push("gffattr", vec![hex(t)]);
        }
        for _ in 0..(40 * scale) {
            let t = c18_files::gen_gffattr(rng);
            w.push("gffattr", vec![hex(&t)]);
        }
    }
}

fn gen_bed_valid(rng: &mut Rng, n: usize, k: usize) -> BedRec {
    let printable: Vec<u8> = (0x20u8..=0x7e).collect();
    let start = rng.range(1, 250_000_000);
    BedRec {
        n,
        name: gen_plain(rng, 1, 8, b"abcdefghijklmnopqrstuvwxyzABCDEFGHIJKLMNOPQRSTUVWXYZ0123456789_"),
        start,
        end: if rng.chance(1, 8) { None } else { Some(start + rng.below(1000)) },
        nm: if rng.chance(1, 6) { None } else { Some(gen_plain(rng, 1, 8, &printable)) },
        score: *rng.pick(&[0u16, 1, 10, 999, 1000, 65535]),
        strand: *rng.pick(&['.', '+', '-']),
        others: (0..k)
            .map(|_| match rng.below(6) {
                0 => Other::S(Vec::new()),
                1 => Other::S(b".".to_vec()),
                _ => Other::S(gen_plain(rng, 0, 8, &printable)),
            })
            .collect(),
    }
}

fn run(c: &Case) -> Obs {
    match c.kind.as_str() {
        "gff" => run_gff(c, true),
        "gffw" => run_gff(c, false),
        "gffset" => run_gffset(c),
        "gffdir" => run_gffdir(c),
        "gtf" => run_gtf(c),
        "bed" => run_bed(c, true),
        "bedt" => run_bed(c, false),
        "bedfile" => run_bedfile(c),
        "bedraw" => c18_bedrec::run_bedraw(c),
        "gffline" => c18_bedrec::run_gffline(c),
        "gffcom" => c18_bedrec::run_gffcom(c),
        "gtfline" => c18_bedrec::run_gtfline(c),
        "gtfcom" => c18_bedrec::run_gtfcom(c),
        "gfffile" => c18_files::run_gfffile(c),
        "gtffile" => c18_files::run_gtffile(c),
        "dirval" => c18_files::run_dirval(c),
        "gffdv" => c18_files::run_gffdv(c),
        "gffattr" => c18_files::run_gffattr(c),
        k => panic!("unknown kind {k}"),
    }
}

fn main() {
    nv::main_with(generate, run)
}
