(* Percent-encoding as the `percent-encoding` crate (2.3) does it.
   - [pct_enc S s] : percent_encode(s, set): every byte b with [S b = true] becomes '%' followed
     by two UPPER-case hex digits, every other byte is copied.  (The crate encodes every
     non-ASCII byte whatever the AsciiSet says: callers put [128 <=? b] into [S].)
   - [pct_dec s]   : percent_decode(s): '%XY' with X, Y hex digits of either case becomes the
     byte 16*X+Y; a '%' that is not followed by two hex digits is copied and decoding resumes
     at the next byte.
   Bytes are N (< 256 where a lemma needs it); byte strings are lists.  Definitions only; the
   lemmas are in Base/PercentProofs.v. *)
From Coq Require Import List NArith Bool.
Import ListNotations.
Open Scope N_scope.

Definition hex_digit (d : N) : N := if d <? 10 then 48 + d else 55 + d.

Definition pct_byte (b : N) : list N := [37; hex_digit (b / 16); hex_digit (b mod 16)].

Definition pct_enc (S : N -> bool) (s : list N) : list N :=
  flat_map (fun b => if S b then pct_byte b else [b]) s.

Definition hex_val (c : N) : option N :=
  if (48 <=? c) && (c <=? 57) then Some (c - 48)
  else if (65 <=? c) && (c <=? 70) then Some (c - 55)
  else if (97 <=? c) && (c <=? 102) then Some (c - 87)
  else None.

Fixpoint pct_dec (s : list N) : list N :=
  match s with
  | [] => []
  | b :: t =>
      if b =? 37 then
        match t with
        | h :: l :: t' =>
            match hex_val h, hex_val l with
            | Some x, Some y => (16 * x + y) :: pct_dec t'
            | _, _ => 37 :: pct_dec t
            end
        | _ => 37 :: pct_dec t
        end
      else b :: pct_dec t
  end.

(* what the encoder can emit besides copied bytes *)
Definition is_hex_upper (c : N) : bool :=
  ((48 <=? c) && (c <=? 57)) || ((65 <=? c) && (c <=? 70)).

Definition is_byte (b : N) : Prop := b < 256.
Definition bytes_ok (s : list N) : Prop := Forall is_byte s.
