(* Decimal text of naturals and integers, as noodles-sam io/writer/num.rs (lexical_core::write)
   prints them and as lexical_core::parse / parse_partial (default format) read them.
   Definitions only; proofs in Base/DecimalProofs.v.

   fmt : no leading '+', '-' for negatives, no leading zeros, "0" for zero.
   parse (complete): optional sign ('+' always, '-' only for signed targets), then at least
     one digit and nothing else; leading zeros accepted; the range check is the caller's
     (parse_int lo hi) -- lexical's Overflow/Underflow are errors just as out-of-range is.
   parse_partial: Empty input is an error; an optional sign is consumed; if nothing follows
     the sign it is an error; otherwise the longest (possibly empty!) digit run is read:
     "M" -> (0, "M"), ",1" -> (0, ",1"), "+M" -> (0, "M"), and for unsigned targets "-5" -> (0, "-5"). *)
From Coq Require Import List NArith ZArith Bool.
Import ListNotations.
Open Scope N_scope.

Definition bytes := list N.

Definition is_digit (c : N) : bool := (48 <=? c) && (c <=? 57).

(* least-significant digit first into the accumulator; fuel = number of bits + 1 *)
Fixpoint digits_fuel (fuel : nat) (n : N) (acc : bytes) : bytes :=
  match fuel with
  | O => acc
  | S f =>
      let acc' := (48 + n mod 10) :: acc in
      if n / 10 =? 0 then acc' else digits_fuel f (n / 10) acc'
  end.

Definition fmt_N (n : N) : bytes := digits_fuel (S (N.to_nat (N.log2 n))) n [].

Definition fmt_dec (z : Z) : bytes :=
  match z with
  | Zneg p => 45 :: fmt_N (Npos p)
  | _ => fmt_N (Z.to_N z)
  end.

Definition dstep (a d : N) : N := 10 * a + (d - 48).

(* longest digit prefix: (value, number of digits, rest) *)
Fixpoint take_digits (s : bytes) (a : N) (k : nat) : N * nat * bytes :=
  match s with
  | c :: t => if is_digit c then take_digits t (dstep a c) (S k) else (a, k, s)
  | [] => (a, k, [])
  end.

(* all of [s] is digits, at least one *)
Definition parse_N (s : bytes) : option N :=
  match take_digits s 0 O with
  | (v, S _, []) => Some v
  | _ => None
  end.

Definition parse_dec (signed : bool) (s : bytes) : option Z :=
  match s with
  | 43 :: t => option_map Z.of_N (parse_N t)
  | 45 :: t => if signed then option_map (fun v => (- Z.of_N v)%Z) (parse_N t) else None
  | _ => option_map Z.of_N (parse_N s)
  end.

Definition parse_int (signed : bool) (lo hi : Z) (s : bytes) : option Z :=
  match parse_dec signed s with
  | Some v => if ((lo <=? v) && (v <=? hi))%Z then Some v else None
  | None => None
  end.

(* lexical_core::parse_partial for an integer target with range [lo, hi] *)
Definition parse_partial_int (signed : bool) (lo hi : Z) (s : bytes) : option (Z * bytes) :=
  match s with
  | [] => None
  | c :: t =>
      let '(neg, body, had_sign) :=
        if c =? 43 then (false, t, true)
        else if (c =? 45) && signed then (true, t, true)
        else (false, s, false) in
      match body with
      | [] => None
      | _ =>
          let '(v, _, rest) := take_digits body 0 O in
          let z := if neg : bool then (- Z.of_N v)%Z else Z.of_N v in
          if ((lo <=? z) && (z <=? hi))%Z then Some (z, rest) else None
      end
  end.
