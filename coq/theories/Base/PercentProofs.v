From Coq Require Import List NArith ZArith Bool Lia ZifyBool ZifyN.
From NV Require Import Base.Percent.
Import ListNotations.
Open Scope N_scope.
Ltac Zify.zify_post_hook ::= Z.div_mod_to_equations.

Lemma lt16_cases : forall d, d < 16 ->
  d = 0 \/ d = 1 \/ d = 2 \/ d = 3 \/ d = 4 \/ d = 5 \/ d = 6 \/ d = 7 \/
  d = 8 \/ d = 9 \/ d = 10 \/ d = 11 \/ d = 12 \/ d = 13 \/ d = 14 \/ d = 15.
Proof. intros d H. lia. Qed.

Lemma hex_val_hex_digit : forall d, d < 16 -> hex_val (hex_digit d) = Some d.
Proof.
  intros d H. destruct (lt16_cases d H) as [E|[E|[E|[E|[E|[E|[E|[E|[E|[E|[E|[E|[E|[E|[E|E]]]]]]]]]]]]]]];
    subst d; reflexivity.
Qed.

Lemma hex_digit_upper : forall d, d < 16 -> is_hex_upper (hex_digit d) = true.
Proof.
  intros d H. destruct (lt16_cases d H) as [E|[E|[E|[E|[E|[E|[E|[E|[E|[E|[E|[E|[E|[E|[E|E]]]]]]]]]]]]]]];
    subst d; reflexivity.
Qed.

Lemma hex_digit_not_pct : forall d, d < 16 -> hex_digit d <> 37.
Proof. intros d H. unfold hex_digit. destruct (d <? 10) eqn:E; lia. Qed.

Lemma byte_split : forall b, b < 256 -> b / 16 < 16 /\ b mod 16 < 16 /\ 16 * (b / 16) + b mod 16 = b.
Proof. intros b H. lia. Qed.

Lemma pct_dec_pct_byte : forall b rest, b < 256 -> pct_dec (pct_byte b ++ rest) = b :: pct_dec rest.
Proof.
  intros b rest H. destruct (byte_split b H) as (H1 & H2 & H3).
  unfold pct_byte. cbn [app pct_dec]. rewrite N.eqb_refl.
  rewrite (hex_val_hex_digit _ H1), (hex_val_hex_digit _ H2). now rewrite H3.
Qed.

Lemma pct_enc_app : forall S a b, pct_enc S (a ++ b) = pct_enc S a ++ pct_enc S b.
Proof. intros. unfold pct_enc. now rewrite flat_map_app. Qed.

Lemma pct_enc_cons : forall S b s,
  pct_enc S (b :: s) = (if S b then pct_byte b else [b]) ++ pct_enc S s.
Proof. reflexivity. Qed.

(* decode after encode is the identity on byte strings, whenever '%' itself is in the set *)
Theorem pct_dec_enc : forall S s, S 37 = true -> bytes_ok s -> pct_dec (pct_enc S s) = s.
Proof.
  intros S s H37 Hb. induction Hb as [|b s Hb Hs IH]; [reflexivity|].
  rewrite pct_enc_cons. destruct (S b) eqn:ES.
  - rewrite pct_dec_pct_byte by exact Hb. now rewrite IH.
  - assert (Hne : b <> 37) by (intro E; subst b; congruence).
    cbn [app pct_dec]. apply N.eqb_neq in Hne. rewrite Hne. now rewrite IH.
Qed.

(* every emitted byte is either a copied byte outside the set, or '%', or an upper-case hex digit *)
Lemma pct_enc_chars : forall S s, bytes_ok s ->
  Forall (fun c => S c = false \/ c = 37 \/ is_hex_upper c = true) (pct_enc S s).
Proof.
  intros S s Hb. induction Hb as [|b s Hb Hs IH]; [constructor|].
  rewrite pct_enc_cons. apply Forall_app. split; [|exact IH].
  destruct (S b) eqn:ES.
  - destruct (byte_split b Hb) as (H1 & H2 & _). unfold pct_byte.
    apply Forall_cons; [right; left; reflexivity|].
    apply Forall_cons; [right; right; now apply hex_digit_upper|].
    apply Forall_cons; [right; right; now apply hex_digit_upper|]. constructor.
  - apply Forall_cons; [now left|constructor].
Qed.

(* a byte of the set, other than '%' and the hex digits, never occurs in encoded text *)
Theorem pct_enc_avoids : forall S s c, bytes_ok s ->
  S c = true -> c <> 37 -> is_hex_upper c = false -> ~ In c (pct_enc S s).
Proof.
  intros S s c Hb HS H37 Hhex Hin.
  pose proof (pct_enc_chars S s Hb) as HF. rewrite Forall_forall in HF.
  destruct (HF c Hin) as [E|[E|E]]; congruence.
Qed.

Lemma pct_enc_id : forall S s, Forall (fun b => S b = false) s -> pct_enc S s = s.
Proof.
  intros S s H. induction H as [|b s Hb Hs IH]; [reflexivity|].
  rewrite pct_enc_cons, Hb, IH. reflexivity.
Qed.

Lemma pct_enc_bytes : forall S s, bytes_ok s -> bytes_ok (pct_enc S s).
Proof.
  intros S s Hb. induction Hb as [|b s Hb Hs IH]; [constructor|].
  rewrite pct_enc_cons. apply Forall_app. split; [|exact IH].
  destruct (S b).
  - destruct (byte_split b Hb) as (H1 & H2 & _). unfold pct_byte, is_byte, hex_digit.
    apply Forall_cons; [lia|].
    apply Forall_cons; [destruct (_ <? 10); lia|].
    apply Forall_cons; [destruct (_ <? 10); lia|]. constructor.
  - apply Forall_cons; [exact Hb|constructor].
Qed.

(* the encoded text is empty only for the empty string *)
Lemma pct_enc_nil_inv : forall S s, pct_enc S s = [] -> s = [].
Proof.
  intros S [|b s] H; [reflexivity|]. rewrite pct_enc_cons in H.
  destruct (S b); discriminate.
Qed.
