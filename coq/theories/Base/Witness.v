(* Forces nat, positive, N and Z into every extracted model so that ocaml/util.ml can be
   compiled against it whatever the property uses. *)
From Coq Require Import NArith ZArith.
Definition nv_types_witness : (nat * positive * N * Z)%type := (O, xH, N0, Z0).
