(* Little-endian fixed-width integers over byte lists (bytes are [N], a byte is < 256).
   le_bytes k n = the k low-order bytes of n, least significant first (uN::to_le_bytes for
   k = N/8); le_dec = uN::from_le_bytes.  le16/le32/le64 and their decoders are instances.
   Round-trip lemmas both ways. *)
From Coq Require Import List Arith NArith Lia ZifyBool ZifyNat ZifyN.
Import ListNotations.
Open Scope N_scope.

Definition byte_ok (b : N) : Prop := b < 256.
Definition bytes_ok (l : list N) : Prop := Forall byte_ok l.

Fixpoint le_bytes (k : nat) (n : N) : list N :=
  match k with
  | O => []
  | S k' => n mod 256 :: le_bytes k' (n / 256)
  end.

Fixpoint le_dec (l : list N) : N :=
  match l with
  | [] => 0
  | b :: t => b + 256 * le_dec t
  end.

Definition le16 (n : N) : list N := le_bytes 2 n.
Definition le32 (n : N) : list N := le_bytes 4 n.
Definition le64 (n : N) : list N := le_bytes 8 n.

Definition le_dec_exact (k : nat) (l : list N) : option N :=
  if Nat.eqb (length l) k then Some (le_dec l) else None.
Definition le16_dec := le_dec_exact 2.
Definition le32_dec := le_dec_exact 4.
Definition le64_dec := le_dec_exact 8.

Lemma le_bytes_length : forall k n, length (le_bytes k n) = k.
Proof. induction k as [|k IH]; intros n; cbn [le_bytes length]; [reflexivity|]. now rewrite IH. Qed.

Lemma le16_length : forall n, length (le16 n) = 2%nat.
Proof. intros n. apply le_bytes_length. Qed.
Lemma le32_length : forall n, length (le32 n) = 4%nat.
Proof. intros n. apply le_bytes_length. Qed.
Lemma le64_length : forall n, length (le64 n) = 8%nat.
Proof. intros n. apply le_bytes_length. Qed.

Lemma le_bytes_ok : forall k n, bytes_ok (le_bytes k n).
Proof.
  induction k as [|k IH]; intros n; cbn [le_bytes]; constructor; [|apply IH].
  unfold byte_ok. apply N.mod_lt. discriminate.
Qed.

Lemma le16_bytes_ok : forall n, bytes_ok (le16 n).
Proof. intros n. apply le_bytes_ok. Qed.
Lemma le32_bytes_ok : forall n, bytes_ok (le32 n).
Proof. intros n. apply le_bytes_ok. Qed.
Lemma le64_bytes_ok : forall n, bytes_ok (le64 n).
Proof. intros n. apply le_bytes_ok. Qed.

Lemma pow256_succ : forall k, 256 ^ N.of_nat (S k) = 256 * 256 ^ N.of_nat k.
Proof. intros k. rewrite Nat2N.inj_succ. apply N.pow_succ_r'. Qed.

Lemma le_dec_le_bytes : forall k n, n < 256 ^ N.of_nat k -> le_dec (le_bytes k n) = n.
Proof.
  induction k as [|k IH]; intros n Hn.
  - cbn in Hn. cbn [le_bytes le_dec]. lia.
  - cbn [le_bytes le_dec]. rewrite pow256_succ in Hn.
    pose proof (N.div_mod n 256 ltac:(discriminate)) as Hdm.
    pose proof (N.mod_lt n 256 ltac:(discriminate)) as Hlt.
    assert (Hq : n / 256 < 256 ^ N.of_nat k).
    { apply N.div_lt_upper_bound; [discriminate|exact Hn]. }
    rewrite (IH _ Hq). lia.
Qed.

Lemma le_dec_bound : forall l, bytes_ok l -> le_dec l < 256 ^ N.of_nat (length l).
Proof.
  induction l as [|b t IH]; intros Hl.
  - cbn. lia.
  - inversion Hl as [|? ? Hb Ht]; subst. specialize (IH Ht). unfold byte_ok in Hb.
    cbn [le_dec length]. rewrite pow256_succ. lia.
Qed.

Lemma le_bytes_le_dec : forall l, bytes_ok l -> le_bytes (length l) (le_dec l) = l.
Proof.
  induction l as [|b t IH]; intros Hl; [reflexivity|].
  inversion Hl as [|? ? Hb Ht]; subst. specialize (IH Ht). unfold byte_ok in Hb.
  cbn [le_dec length le_bytes].
  replace (b + 256 * le_dec t) with (b + le_dec t * 256) by lia.
  assert (Hm : (b + le_dec t * 256) mod 256 = b).
  { rewrite N.mod_add by discriminate. apply N.mod_small. exact Hb. }
  assert (Hd : (b + le_dec t * 256) / 256 = le_dec t).
  { rewrite N.div_add by discriminate. rewrite (N.div_small b 256 Hb). lia. }
  rewrite Hm, Hd, IH. reflexivity.
Qed.

Lemma le_dec_exact_roundtrip :
  forall k n, n < 256 ^ N.of_nat k -> le_dec_exact k (le_bytes k n) = Some n.
Proof.
  intros k n Hn. unfold le_dec_exact. rewrite le_bytes_length, Nat.eqb_refl.
  now rewrite le_dec_le_bytes.
Qed.

Lemma le16_roundtrip : forall n, n < 65536 -> le16_dec (le16 n) = Some n.
Proof. intros n Hn. apply le_dec_exact_roundtrip. exact Hn. Qed.
Lemma le32_roundtrip : forall n, n < 4294967296 -> le32_dec (le32 n) = Some n.
Proof. intros n Hn. apply le_dec_exact_roundtrip. exact Hn. Qed.
Lemma le64_roundtrip : forall n, n < 18446744073709551616 -> le64_dec (le64 n) = Some n.
Proof. intros n Hn. apply le_dec_exact_roundtrip. exact Hn. Qed.

(* decoding then re-encoding gives the same bytes *)
Lemma le_dec_exact_enc :
  forall k l n, bytes_ok l -> le_dec_exact k l = Some n -> le_bytes k n = l /\ n < 256 ^ N.of_nat k.
Proof.
  intros k l n Hl Hd. unfold le_dec_exact in Hd.
  destruct (Nat.eqb (length l) k) eqn:Ek; [|discriminate Hd].
  apply Nat.eqb_eq in Ek. injection Hd as Hn. subst k n. split.
  - now apply le_bytes_le_dec.
  - now apply le_dec_bound.
Qed.

Lemma le16_dec_enc : forall l n, bytes_ok l -> le16_dec l = Some n -> le16 n = l /\ n < 65536.
Proof. intros l n Hl Hd. exact (le_dec_exact_enc 2 l n Hl Hd). Qed.
Lemma le32_dec_enc : forall l n, bytes_ok l -> le32_dec l = Some n -> le32 n = l /\ n < 4294967296.
Proof. intros l n Hl Hd. exact (le_dec_exact_enc 4 l n Hl Hd). Qed.
Lemma le64_dec_enc :
  forall l n, bytes_ok l -> le64_dec l = Some n -> le64 n = l /\ n < 18446744073709551616.
Proof. intros l n Hl Hd. exact (le_dec_exact_enc 8 l n Hl Hd). Qed.
