(* Proofs about Base/Decimal.v: parsing inverts formatting, output alphabet. *)
From Coq Require Import List NArith ZArith Bool Lia.
From Coq Require Import ZifyBool ZifyNat ZifyN.
From NV Require Import Base.Decimal.
Import ListNotations.
Open Scope N_scope.
Ltac Zify.zify_post_hook ::= Z.div_mod_to_equations.
Arguments N.add : simpl never.
Arguments N.sub : simpl never.
Arguments N.mul : simpl never.
Arguments N.div : simpl never.
Arguments N.modulo : simpl never.
Arguments N.pow : simpl never.

Definition all_digits (l : bytes) : Prop := Forall (fun c => is_digit c = true) l.

Lemma is_digit_iff c : is_digit c = true <-> 48 <= c <= 57.
Proof. unfold is_digit. lia. Qed.

Lemma digits_fuel_spec :
  forall f n acc, n < 2 ^ N.of_nat (S f) ->
    exists ds, digits_fuel (S f) n acc = ds ++ acc /\ all_digits ds /\ ds <> [] /\
               forall a, fold_left dstep ds a = a * 10 ^ N.of_nat (length ds) + n.
Proof.
  induction f as [|f IH]; intros n acc Hn; cbn [digits_fuel].
  - assert (E : n / 10 =? 0 = true) by (change (2 ^ N.of_nat 1) with 2 in Hn; lia).
    rewrite E.
    exists [48 + n mod 10]. repeat split.
    + constructor; [|constructor]. apply is_digit_iff. lia.
    + discriminate.
    + intro a. cbn. unfold dstep. change (N.of_nat 1) with 1. rewrite N.pow_1_r. lia.
  - destruct (n / 10 =? 0) eqn:E.
    + exists [48 + n mod 10]. repeat split.
      * constructor; [|constructor]. apply is_digit_iff. lia.
      * discriminate.
      * intro a. cbn. unfold dstep. change (N.of_nat 1) with 1. rewrite N.pow_1_r. lia.
    + assert (Hq : n / 10 < 2 ^ N.of_nat (S f)).
      { rewrite (Nnat.Nat2N.inj_succ (S f)), N.pow_succ_r' in Hn. lia. }
      destruct (IH (n / 10) ((48 + n mod 10) :: acc) Hq) as (ds & E1 & D1 & NE & F1).
      exists (ds ++ [48 + n mod 10]). repeat split.
      * cbn [digits_fuel] in E1. rewrite E1, <- app_assoc. reflexivity.
      * apply Forall_app. split; [exact D1|]. constructor; [|constructor]. apply is_digit_iff. lia.
      * destruct ds; discriminate.
      * intro a. rewrite fold_left_app, F1. cbn [fold_left]. unfold dstep.
        rewrite app_length. cbn [length]. rewrite Nat.add_1_r, Nnat.Nat2N.inj_succ, N.pow_succ_r'.
        replace (48 + n mod 10 - 48) with (n mod 10) by lia.
        pose proof (N.div_mod n 10). nia.
Qed.

Lemma fmt_N_spec n :
  exists ds, fmt_N n = ds /\ all_digits ds /\ ds <> [] /\ fold_left dstep ds 0 = n.
Proof.
  unfold fmt_N.
  assert (Hn : n < 2 ^ N.of_nat (S (N.to_nat (N.log2 n)))).
  { rewrite Nnat.Nat2N.inj_succ, Nnat.N2Nat.id.
    destruct n as [|p]; [cbn; lia|]. apply N.log2_spec. lia. }
  destruct (digits_fuel_spec (N.to_nat (N.log2 n)) n [] Hn) as (ds & E & D & NE & F).
  exists ds. rewrite E, app_nil_r. repeat split; auto. rewrite F. lia.
Qed.

Lemma fmt_N_digits n : all_digits (fmt_N n).
Proof. destruct (fmt_N_spec n) as (ds & E & D & _). now rewrite E. Qed.

Lemma fmt_N_nonempty n : fmt_N n <> [].
Proof. destruct (fmt_N_spec n) as (ds & E & _ & NE & _). now rewrite E. Qed.

Definition stops (rest : bytes) : Prop :=
  match rest with [] => True | c :: _ => is_digit c = false end.

Lemma take_digits_app ds : all_digits ds -> forall rest a k, stops rest ->
  take_digits (ds ++ rest) a k = (fold_left dstep ds a, (k + length ds)%nat, rest).
Proof.
  induction 1 as [|c ds Hc _ IH]; intros rest a k Hs.
  - cbn. rewrite Nat.add_0_r. destruct rest as [|c t]; [reflexivity|]. cbn in *. now rewrite Hs.
  - cbn [app take_digits fold_left length]. rewrite Hc, IH by exact Hs. f_equal. f_equal. lia.
Qed.

Lemma parse_N_fmt n : parse_N (fmt_N n) = Some n.
Proof.
  destruct (fmt_N_spec n) as (ds & E & D & NE & F). rewrite E. unfold parse_N.
  rewrite <- (app_nil_r ds), take_digits_app by (auto; exact I).
  rewrite F. destruct ds; [contradiction|reflexivity].
Qed.

Lemma fmt_N_head n : exists c t, fmt_N n = c :: t /\ is_digit c = true.
Proof.
  pose proof (fmt_N_digits n) as D. pose proof (fmt_N_nonempty n) as NE.
  destruct (fmt_N n) as [|c t]; [contradiction|]. exists c, t. split; [reflexivity|].
  now inversion D.
Qed.

Lemma parse_dec_unsigned_fmt signed n : parse_dec signed (fmt_N n) = Some (Z.of_N n).
Proof.
  destruct (fmt_N_head n) as (c & t & E & Hc). unfold parse_dec. rewrite E.
  apply is_digit_iff in Hc.
  assert (c <> 43 /\ c <> 45) as [H1 H2] by lia.
  rewrite <- E.
  destruct c as [|p]; [lia|].
  repeat (destruct p as [p|p|]; try (rewrite parse_N_fmt; reflexivity); try lia).
Qed.

(* the property theorem of this file *)
Theorem parse_fmt z : parse_dec true (fmt_dec z) = Some z.
Proof.
  destruct z as [|p|p]; cbn [fmt_dec].
  - apply (parse_dec_unsigned_fmt true 0).
  - change (Z.to_N (Z.pos p)) with (N.pos p). apply (parse_dec_unsigned_fmt true (N.pos p)).
  - cbn [parse_dec]. rewrite parse_N_fmt. reflexivity.
Qed.

Theorem parse_fmt_unsigned n : parse_dec false (fmt_dec (Z.of_N n)) = Some (Z.of_N n).
Proof.
  destruct n as [|p]; cbn [Z.of_N fmt_dec].
  - apply (parse_dec_unsigned_fmt false 0).
  - change (Z.to_N (Z.pos p)) with (N.pos p). apply (parse_dec_unsigned_fmt false (N.pos p)).
Qed.

Lemma parse_int_fmt lo hi z : (lo <= z <= hi)%Z -> parse_int true lo hi (fmt_dec z) = Some z.
Proof.
  intro H. unfold parse_int. rewrite parse_fmt.
  destruct ((lo <=? z) && (z <=? hi))%Z eqn:E; [reflexivity|lia].
Qed.

Lemma parse_int_fmt_unsigned lo hi n :
  (lo <= Z.of_N n <= hi)%Z -> parse_int false lo hi (fmt_dec (Z.of_N n)) = Some (Z.of_N n).
Proof.
  intro H. unfold parse_int. rewrite parse_fmt_unsigned.
  destruct ((lo <=? Z.of_N n) && (Z.of_N n <=? hi))%Z eqn:E; [reflexivity|lia].
Qed.

(* output alphabet: digits and '-' only (in particular no tab, newline, comma, colon) *)
Definition dec_char (c : N) : Prop := is_digit c = true \/ c = 45.

Theorem fmt_dec_chars z : Forall dec_char (fmt_dec z).
Proof.
  assert (H : forall n, Forall dec_char (fmt_N n)).
  { intro n. eapply Forall_impl; [|apply fmt_N_digits]. intros c Hc. now left. }
  destruct z; cbn [fmt_dec]; auto. constructor; [now right|auto].
Qed.

Lemma fmt_dec_nonempty z : fmt_dec z <> [].
Proof. destruct z; cbn [fmt_dec]; try apply fmt_N_nonempty. discriminate. Qed.

(* parse_partial reads back exactly the formatted number when a non-digit (or the end) follows *)
Lemma parse_partial_fmt_N signed lo hi n rest :
  stops rest -> (lo <= Z.of_N n <= hi)%Z ->
  parse_partial_int signed lo hi (fmt_N n ++ rest) = Some (Z.of_N n, rest).
Proof.
  intros Hs Hr. destruct (fmt_N_spec n) as (ds & E & D & NE & F). rewrite E.
  destruct ds as [|c t]; [contradiction|].
  assert (Hc : 48 <= c <= 57) by (inversion D; now apply is_digit_iff).
  unfold parse_partial_int. cbn [app].
  assert (E1 : (c =? 43) = false) by lia. assert (E2 : (c =? 45) = false) by lia.
  rewrite E1, E2. cbn [andb].
  change (c :: t ++ rest) with ((c :: t) ++ rest).
  rewrite take_digits_app by auto. rewrite F.
  destruct ((lo <=? Z.of_N n) && (Z.of_N n <=? hi))%Z eqn:E3; [reflexivity|lia].
Qed.

Theorem parse_partial_fmt lo hi z rest :
  stops rest -> (lo <= z <= hi)%Z ->
  parse_partial_int true lo hi (fmt_dec z ++ rest) = Some (z, rest).
Proof.
  intros Hs Hr. destruct z as [|p|p]; cbn [fmt_dec].
  - apply (parse_partial_fmt_N true lo hi 0); auto.
  - change (Z.to_N (Z.pos p)) with (N.pos p). apply (parse_partial_fmt_N true lo hi (N.pos p)); auto.
  - destruct (fmt_N_spec (N.pos p)) as (ds & E & D & NE & F). rewrite E.
    unfold parse_partial_int. cbn [app N.eqb Pos.eqb andb].
    destruct ds as [|c t]; [contradiction|]. cbn [app].
    change (c :: t ++ rest) with ((c :: t) ++ rest).
    rewrite take_digits_app by auto. rewrite F.
    change (- Z.of_N (N.pos p))%Z with (Z.neg p).
    destruct ((lo <=? Z.neg p) && (Z.neg p <=? hi))%Z eqn:E3; [reflexivity|lia].
Qed.

Example fmt_dec_examples :
  fmt_dec 0 = [48] /\ fmt_dec (-128) = [45; 49; 50; 56] /\ fmt_dec 2147483647 = [50;49;52;55;52;56;51;54;52;55]
  /\ parse_dec true [43; 53] = Some 5%Z /\ parse_dec false [45; 48] = None
  /\ parse_partial_int false 0 255 [77] = Some (0%Z, [77]).
Proof. vm_compute. repeat split. Qed.
