(* C12 — the readers that are read programs (NV.Io.Prog), written after the code:

   gzi    noodles-bgzf/src/gzi/io/reader/index.rs read_index: u64 count, count x (u64, u64), then a
          read_u8 whose UnexpectedEof is the good case (trailing data = InvalidData)
   BAI    noodles-bam/src/bai/io/reader/index.rs (+ index/magic_number.rs, reference_sequences.rs,
          reference_sequences/{bins,intervals}.rs, noodles-csi .../bins/chunks.rs, metadata.rs):
          magic, u32 n_ref, per reference read_bins (u32 n_bin; u32 id; the metadata pseudo-bin
          37450 or a chunk list; after /repo d76b74b an I/O error of read_metadata / read_chunks
          keeps its kind -- UnexpectedEof for an input that ends inside a bin -- and only their
          other variants, the invalid chunk counts, are InvalidData: exactly the kinds g_metadata /
          g_chunks fail with, so nothing is re-wrapped; duplicates InvalidData) and read_intervals, then the optional trailing u64 (a read_exact
          whose UnexpectedEof is None)
   fai    noodles-fasta/src/fai/io/reader.rs read_index (after /repo 24986d3: names are bytes):
          read_line_bytes = read_until(LF) until 0, LF / CRLF popped, parse_record_bytes; the crai
          text loop still uses BufRead::read_line (read_until(LF) + UTF-8 validation of what was
          appended): the flag [utf8]
   BCF    noodles-bcf/src/io/reader/record.rs read_record: read_exact_or_eof(4) (0 bytes or
          l_shared = 0: Ok(0)), read_u32_le, read_buf_exact = take(l_shared).read_to_end, the site
          indexer (parameter [site_ok]), take(l_indiv).read_to_end
   CRAM   the sync container reader: C19's NV.CramIdx.AsyncQuery.p_read_container false embedded

   The value types and the whole-buffer parsers they are proved equal to are C17's
   (NV.Index.Layout, NV.Index.TextIndex) and C13's (NV.Trunc.Stream.bcf_read_record).
   Definitions only; proofs in IndexProgProofs.v. *)
From Coq Require Import List NArith Arith Bool.
From NV Require Import Base.LE Io.Source Io.BufReader Trunc.Stream Io.Prog.
From NV Require Index.Layout Index.TextIndex.
Import ListNotations.
Local Open Scope N_scope.

(* `.map_err(|e| io::Error::new(InvalidData, e))` *)
Definition as_invalid (e : ekind) : ekind := match e with OutOfFuel => OutOfFuel | _ => InvalidData end.

(* ---- chunks, metadata (shared by BAI and CSI) *)
Definition g_chunk : prog Layout.chunkp :=
  bind (p_le 8) (fun a => bind (p_le 8) (fun b => Ret (a, b))).

(* n_chunk: i32, usize::try_from *)
Definition g_chunks : prog (list Layout.chunkp) :=
  bind (p_le 4) (fun n => if n <? 2147483648 then p_rep n g_chunk else Fail InvalidData).

Definition g_metadata : prog Layout.metadata :=
  bind (p_le 4) (fun n =>
    if n =? 2 then
      bind (p_le 8) (fun a => bind (p_le 8) (fun b => bind (p_le 8) (fun c => bind (p_le 8) (fun d =>
        Ret (Layout.mkmeta a b c d)))))
    else Fail InvalidData).

(* ---- gzi *)
Definition p_gzi : prog (list (N * N)) :=
  bind (p_le 8) (fun n =>
  bind (p_rep n g_chunk) (fun l =>
  bind (p_exact_opt 1) (fun o => match o with Some _ => Fail InvalidData | None => Ret l end))).

(* ---- BAI *)
Definition bins_st : Type := (list Layout.binp * option Layout.metadata)%type.

(* one turn of the loop of read_bins; the bins are kept in reverse order *)
Definition g_bin_step (st : bins_st) : prog bins_st :=
  bind (p_le 4) (fun id =>
    if id =? Layout.bai_metadata_id then
      bind g_metadata (fun md =>
        match snd st with Some _ => Fail InvalidData | None => Ret (fst st, Some md) end)
    else
      bind g_chunks (fun cs =>
        if existsb (fun b => fst b =? id) (fst st) then Fail InvalidData
        else Ret ((id, cs) :: fst st, snd st))).

Definition g_bins_n (n : N) : prog (list Layout.binp * option Layout.metadata) :=
  bind (p_iter n g_bin_step ([], None)) (fun st => Ret (rev (fst st), snd st)).

Definition g_bins : prog (list Layout.binp * option Layout.metadata) := bind (p_le 4) g_bins_n.

Definition g_intervals : prog (list N) := bind (p_le 4) (fun n => p_rep n (p_le 8)).

Definition g_bai_ref : prog Layout.bai_ref :=
  bind g_bins (fun bm => bind g_intervals (fun iv => Ret (Layout.mkbref (fst bm) (snd bm) iv))).

Definition p_bai : prog Layout.bai_index :=
  bind (p_exact 4) (fun mg =>
    if bytes_eqb mg Layout.bai_magic then
      bind (p_le 4) (fun n =>
      bind (p_rep n g_bai_ref) (fun refs =>
      bind (p_exact_opt 8) (fun o => Ret (Layout.mkbai refs (option_map le_dec o)))))
    else Fail InvalidData).

(* ---- fai: the line loop *)
(* one read_record: None = read_line returned 0 *)
Definition g_text_record {A : Type} (utf8 : bool) (parse : list N -> option A) : prog (option A) :=
  Until LF (fun l =>
    match l with
    | [] => Ret None
    | _ =>
        if negb utf8 || TextIndex.utf8_valid l then
          match parse (strip_eol l) with
          | Some r => Ret (Some r)
          | None => Fail InvalidData
          end
        else Fail InvalidData
    end).

Definition p_text_index {A : Type} (utf8 : bool) (fuel : nat) (parse : list N -> option A) : prog (list A) :=
  p_loop fuel (g_text_record utf8 parse).

Definition p_fai (fuel : nat) : prog (list TextIndex.fai_rec) :=
  p_text_index false fuel TextIndex.parse_fai_rec.
(* crai: the same loop over the GzDecoder's output (the gzip layer is outside the model) *)
Definition p_crai_text (fuel : nat) : prog (list TextIndex.crai_rec) :=
  p_text_index true fuel TextIndex.parse_crai_rec.

(* ---- BCF record *)
Section BCF.
  Variable site_ok : list N -> option ekind.

  (* None = Ok(0): end of the stream *)
  Definition p_bcf_record : prog (option (list N * list N)) :=
    bind (p_or_eof 4) (fun o =>
      match o with
      | None => Ret None
      | Some h =>
          let l_shared := le_dec h in
          if l_shared =? 0 then Ret None else
          bind (p_le 4) (fun l_indiv =>
          bind (p_take_exact (N.to_nat l_shared)) (fun site =>
            match site_ok site with
            | Some e => Fail e
            | None => bind (p_take_exact (N.to_nat l_indiv)) (fun samples => Ret (Some (site, samples)))
            end))
      end).

  Definition p_bcf_records (fuel : nat) : prog (list (list N * list N)) := p_loop fuel p_bcf_record.
End BCF.
