(* C12 — tabix read_index stacked on the BGZF block reader: what is proved.
     run_term_none            on a clean end [run_term] is [run_pure]
     run_term_fits            a program whose reads are all satisfied never sees the terminal outcome
     until_free_p_tabix       p_tabix runs over a plain Read
     run_tabix_plain_spec     p_tabix over ANY delivery (chunking / Interrupted / BufReader capacity /
                              read_to_end request sizes) of the decompressed bytes = on the whole bytes
     run_over_bgzf_spec       any program over the BGZF frames read from ANY delivery of the compressed
                              bytes = over the frames of the whole buffer, terminal error included
     run_tabix_spec           the instance for read_index
   Still only tested (kind tbir): that the LAZY block-by-block `impl Read for bgzf::io::Reader` is a
   reader delivering concat(frames) with terminal outcome term_of (see the end of the file). *)
From Coq Require Import List NArith Arith Bool Lia.
From NV Require Import Base.LE Io.Source Io.ReadExact Io.ReadExactProofs Io.BufReader Io.BufReaderProofs
  Io.BgzfRead Io.BgzfReadProofs Io.Run Io.RunProofs Trunc.Stream Io.Prog Io.ProgProofs Io.IndexProg
  Io.IndexProgProofs Io.CsiProg Io.CsiProgProofs Io.ProgRun Io.ProgRunProofs Io.TabixProg.
From NV Require Index.Layout Index.CsiLayout Bgzf.Frame Bgzf.Reader Bgzf.ReaderOps.
Import ListNotations.
Local Open Scope nat_scope.

Lemma run_term_none : forall (A : Type) (p : prog A) d, run_term None p d = run_pure p d.
Proof.
  intros A p. induction p as [a|e|n k IH|n k IH|b k IH]; intros d; cbn [run_term run_pure]; auto.
  - destruct (Nat.leb_spec n (length d)) as [H|H]; [apply IH|].
    rewrite firstn_all2, skipn_all2 by lia. reflexivity.
  - destruct (Nat.leb_spec n (length d)) as [H|H]; [apply IH|].
    rewrite firstn_all2, skipn_all2 by lia. reflexivity.
Qed.

(* every read of p on d is satisfied *)
Fixpoint fits {A : Type} (p : prog A) (d : list N) : Prop :=
  match p with
  | Ret _ | Fail _ => True
  | Fill n k | Take n k => n <= length d /\ fits (k (firstn n d)) (skipn n d)
  | Until b k => let l := take_line b d in fits (k l) (skipn (length l) d)
  end.

(* a program that has all it asks for is not affected by how the stream ends afterwards (a corrupt
   or truncated LATER block is not seen) *)
Theorem run_term_fits : forall (A : Type) (p : prog A) d t, fits p d -> run_term t p d = run_pure p d.
Proof.
  intros A p. induction p as [a|e|n k IH|n k IH|b k IH]; intros d t Hf; cbn [run_term run_pure fits] in *; auto.
  - destruct Hf as [Hn Hf]. apply Nat.leb_le in Hn. rewrite Hn. apply IH, Hf.
  - destruct Hf as [Hn Hf]. apply Nat.leb_le in Hn. rewrite Hn. apply IH, Hf.
Qed.

(* a stream that ends with UnexpectedEof (a frame cut short) is, for the caller, a clean end *)
Theorem run_term_eof : forall (A : Type) (p : prog A) d, run_term (Some UnexpectedEof) p d = run_pure p d.
Proof.
  intros A p. induction p as [a|e|n k IH|n k IH|b k IH]; intros d; cbn [run_term run_pure]; auto.
  - destruct (Nat.leb_spec n (length d)) as [H|H]; [apply IH|].
    rewrite firstn_all2, skipn_all2 by lia. reflexivity.
  - destruct (Nat.leb_spec n (length d)) as [H|H]; [apply IH|].
    rewrite firstn_all2, skipn_all2 by lia. reflexivity.
Qed.

Lemma until_free_g_count : until_free g_count.
Proof.
  unfold g_count. apply until_free_bind; [apply until_free_p_le|]. intros n.
  destruct (n <? 2147483648)%N; exact I.
Qed.

Lemma until_free_t_bin_step : forall st, until_free (t_bin_step st).
Proof.
  intros st. unfold t_bin_step. apply until_free_bind; [apply until_free_p_le|]. intros id.
  destruct (id =? Layout.bai_metadata_id)%N.
  - apply until_free_bind; [apply until_free_map_err, until_free_g_metadata|]. intros md.
    destruct (snd st); exact I.
  - apply until_free_bind; [apply until_free_map_err, until_free_g_chunks|]. intros cs.
    destruct (existsb _ _); exact I.
Qed.

Lemma until_free_t_ref : until_free t_ref.
Proof.
  unfold t_ref. apply until_free_bind.
  - unfold t_bins. apply until_free_bind; [apply until_free_g_count|]. intros n.
    apply until_free_bind; [apply until_free_iter, until_free_t_bin_step|]. intros st. exact I.
  - intros bm. apply until_free_bind; [|intros iv; exact I].
    unfold t_intervals. apply until_free_bind; [apply until_free_g_count|]. intros n.
    apply until_free_rep, until_free_p_le.
Qed.

Lemma until_free_p_tabix : until_free p_tabix.
Proof.
  unfold p_tabix. apply until_free_bind; [apply until_free_p_exact|]. intros mg.
  destruct (bytes_eqb mg tbi_magic); [|exact I].
  apply until_free_bind; [apply until_free_g_count|]. intros n.
  apply until_free_bind; [apply until_free_map_err, until_free_g_header|]. intros h.
  apply until_free_bind; [apply until_free_rep, until_free_t_ref|]. intros refs.
  apply until_free_bind; [apply until_free_p_exact_opt|]. intros o. exact I.
Qed.

(* the layer above the block reader: read_index over any delivery of the decompressed bytes *)
Theorem run_tabix_plain_spec : forall data sc cap chunk,
  run_tabix_plain cap chunk (mkSource data sc)
  = (cres_of (fst (run_pure p_tabix data)), length (snd (run_pure p_tabix data))).
Proof. intros. apply run_prog_spec. intros _. apply until_free_p_tabix. Qed.

(* the block layer: the frames (and the terminal outcome) read from any delivery of the compressed
   bytes are those of the whole buffer, so is every program run over them *)
Theorem run_over_bgzf_spec : forall (A : Type) (p : prog A) inflate data sc cap,
  run_over_bgzf p inflate cap (mkSource data sc) = whole_over_bgzf p inflate data.
Proof.
  intros A p inflate data sc cap. unfold run_over_bgzf, whole_over_bgzf. cbn [s_data].
  destruct cap as [|c].
  - destruct (d_read_frames_spec src_read rep_src src_simulates inflate (Datatypes.S (length data))
                (src_fuel (mkSource data sc) 18) (mkSource data sc) data (n_interrupted sc))
      as [s' E].
    + split; reflexivity.
    + unfold src_fuel. cbn [s_data s_script]. lia.
    + rewrite E. reflexivity.
  - destruct (d_read_frames_spec (br_read src_read (Datatypes.S c)) (rep_buf rep_src)
                (br_simulates src_read rep_src src_simulates (Datatypes.S c) ltac:(lia))
                inflate (Datatypes.S (length data))
                (b_fuel ([], mkSource data sc) 18) ([], mkSource data sc) data (n_interrupted sc))
      as [s' E].
    + exists data. cbn [fst snd app]. split; [reflexivity|]. split; reflexivity.
    + unfold b_fuel, src_fuel. cbn [fst snd s_data s_script length]. lia.
    + rewrite E. reflexivity.
Qed.

Theorem run_tabix_spec : forall inflate data sc cap,
  run_tabix inflate cap (mkSource data sc) = whole_over_bgzf p_tabix inflate data.
Proof. intros. apply run_over_bgzf_spec. Qed.

(* when the BGZF stream is well formed to its end, read_index over any delivery of the compressed
   bytes is the plain program on the concatenated block data *)
Corollary run_tabix_clean : forall inflate data sc cap fs,
  whole_frames inflate (Datatypes.S (length data)) data = (fs, Bgzf.Frame.Ok tt) ->
  run_tabix inflate cap (mkSource data sc)
  = let d := concat (map Bgzf.ReaderOps.fdata fs) in
    (cres_of (fst (run_pure p_tabix d)), length (snd (run_pure p_tabix d))).
Proof.
  intros inflate data sc cap fs H. rewrite run_tabix_spec. unfold whole_over_bgzf, prog_over_frames.
  rewrite H. cbn [fst snd term_of]. rewrite run_term_none.
  destruct (run_pure p_tabix _) as [r rest]. reflexivity.
Qed.

(* NOT proved (tested by kind tbir against the real stack): the lazy `impl Read for
   bgzf::io::Reader<R>` (fill_buf = read_nonempty_block_with on demand + copy + consume), as a reader
   with an error result, delivers concat(frame data) and then the terminal outcome [term_of]; with
   it [run_over_bgzf] would be the reader's own run instead of a composition of two proved layers. *)
