(* C12 — the whole noodles-fasta indexer over a delivered source: Indexer::index_record and the
   `while let Some(record) = indexer.index_record()?` loop of fasta::fs::index
   (noodles-fasta/src/io/indexer.rs, src/fs/index.rs), over the BufReader model.

     index_record:
       read_definition: read_line (read_until LF, strip LF / CRLF); 0 bytes -> Ok(None);
                        offset += n; parse_definition (InvalidData when malformed)
       offset' = self.offset
       (elw, elb) = consume_sequence_line (offset += elw);  elb == 0 -> EmptySequence(self.offset)
       loop { (lw, lb) = consume_sequence_line; base_count += lb;
              if is_last_sequence_line && lw <= elw && lb <= elb { break }
              if lb != elb -> InvalidLineBases(lb, elb) else if lw != elw -> InvalidLineWidth(lw, elw) }
       Record::new(name, base_count, offset', elb, elw)
     is_last_sequence_line: loop { match fill_buf { Ok(src) => return src.is_empty() || src[0] == '>',
                                                    Err(Interrupted) => {}, Err(e) => return Err(e) } }

   The fai record, the error type and parse_definition's name part are those of C11's line-driven
   model (NV.Fasta.Indexer / NV.Fasta.Layout, imported read-only); the theorem in
   FastaIndexProofs says this delivered reader returns exactly C11's [index_file] of the data. *)
From Coq Require Import List NArith Arith Bool.
From NV Require Import Io.Source Io.BufReader Io.FastaScan.
From NV Require Fasta.Layout Fasta.Indexer.
Import ListNotations.

Section DeliveredIndexer.
  Context {S : Type}.
  Variable rd : reader S.
  Variable cap : nat.

  Fixpoint is_last_sequence_line (fuel : nat) (st : bstate S) : sres * bool * bstate S :=
    match fuel with
    | 0 => (SNoFuel, false, st)
    | Datatypes.S fuel' =>
      match br_fill_buf rd cap st with
      | (RInt, st1) => is_last_sequence_line fuel' st1
      | (ROk src, st1) => (SOk, match src with [] => true | x :: _ => N.eqb x GT end, st1)
      end
    end.

  (* the `loop` of index_record; k bounds the number of lines, fuel the reads of one call *)
  Fixpoint d_seq_loop (k fuel : nat) (elw elb : N) (st : bstate S) (bc off : N)
    : (Indexer.ierr + (N * N)) * bstate S :=
    match k with
    | 0 => (inl Indexer.EOutOfFuel, st)
    | Datatypes.S k' =>
      match consume_sequence_line rd cap fuel st false false 0 0 with
      | (SNoFuel, _, _, st1) => (inl Indexer.EOutOfFuel, st1)
      | (SOk, w, b, st1) =>
        let lw := N.of_nat w in
        let lb := N.of_nat b in
        match is_last_sequence_line fuel st1 with
        | (SNoFuel, _, st2) => (inl Indexer.EOutOfFuel, st2)
        | (SOk, last, st2) =>
          if last && (lw <=? elw)%N && (lb <=? elb)%N then (inr ((bc + lb)%N, (off + lw)%N), st2)
          else if negb (lb =? elb)%N then (inl (Indexer.EInvalidLineBases lb elb), st2)
          else if negb (lw =? elw)%N then (inl (Indexer.EInvalidLineWidth lw elw), st2)
          else d_seq_loop k' fuel elw elb st2 (bc + lb)%N (off + lw)%N
        end
      end
    end.

  (* Indexer::index_record; off = self.offset before the call; inr None = end of input *)
  Definition d_index_record (k fuel : nat) (st : bstate S) (off : N)
    : (Indexer.ierr + option (Indexer.fai * N)) * bstate S :=
    match read_line rd cap fuel st with
    | (_, _, UNoFuel, st1) => (inl Indexer.EOutOfFuel, st1)
    | (0, _, UOk, st1) => (inr None, st1)
    | (n, line, UOk, st1) =>
      let off1 := (off + N.of_nat n)%N in
      match Layout.parse_def_name line with
      | None => (inl Indexer.EInvalidData, st1)
      | Some name =>
        match consume_sequence_line rd cap fuel st1 false false 0 0 with
        | (SNoFuel, _, _, st2) => (inl Indexer.EOutOfFuel, st2)
        | (SOk, w, b, st2) =>
          let lw := N.of_nat w in
          let lb := N.of_nat b in
          let off2 := (off1 + lw)%N in
          if (lb =? 0)%N then (inl (Indexer.EEmptySequence off2), st2)
          else
            match d_seq_loop k fuel lw lb st2 lb off2 with
            | (inl e, st3) => (inl e, st3)
            | (inr (bc, off3), st3) => (inr (Some (Indexer.mkfai name bc off1 lb lw, off3)), st3)
            end
        end
      end
    end.

  (* fs::index: records until the end of input, or the records so far and the error *)
  Fixpoint d_index_loop (j k fuel : nat) (st : bstate S) (off : N)
    : (list Indexer.fai * option Indexer.ierr) * bstate S :=
    match j with
    | 0 => (([], Some Indexer.EOutOfFuel), st)
    | Datatypes.S j' =>
      match d_index_record k fuel st off with
      | (inl e, st1) => (([], Some e), st1)
      | (inr None, st1) => (([], None), st1)
      | (inr (Some (r, off')), st1) =>
        let '((rs, e), st2) := d_index_loop j' k fuel st1 off' in ((r :: rs, e), st2)
      end
    end.
End DeliveredIndexer.
