(* C12 — byte sources with a delivery script (the chunking / Interrupted adversary).

   A source is the data still to be delivered plus a script of events; one event is consumed
   per [read] call (harness/src/adversary.rs::ScriptedReader):
     Deliver k    deliver min (max k 1) (buffer length) (remaining) bytes
     Interrupted  return ErrorKind::Interrupted, consume nothing
   When the script is exhausted every read delivers everything asked for.  Exhausted data
   returns Ok(0). *)
From Coq Require Import List NArith Arith.
Import ListNotations.

Inductive event := Deliver (k : nat) | Interrupted.

(* result of one read()/fill_buf() call: the bytes delivered, or ErrorKind::Interrupted *)
Inductive rres := ROk (bs : list N) | RInt.

Record source := mkSource { s_data : list N; s_script : list event }.

(* a reader over state S: [rd s n] = one call of read() with a buffer of n bytes *)
Definition reader (S : Type) := S -> nat -> rres * S.

Definition src_read : reader source := fun s n =>
  match s_script s with
  | [] => (ROk (firstn n (s_data s)), mkSource (skipn n (s_data s)) [])
  | Interrupted :: sc => (RInt, mkSource (s_data s) sc)
  | Deliver k :: sc =>
      let m := Nat.min (Nat.max k 1) n in
      (ROk (firstn m (s_data s)), mkSource (skipn m (s_data s)) sc)
  end.

Fixpoint n_interrupted (sc : list event) : nat :=
  match sc with
  | [] => 0
  | Interrupted :: sc' => S (n_interrupted sc')
  | Deliver _ :: sc' => n_interrupted sc'
  end.
