(* C12 — csi::io::Reader::read_index (the CSI index BODY) as a read program (NV.Io.Prog) stacked on
   the BGZF block reader, after noodles-csi/src/io/reader.rs read_index, io/reader/index.rs
   (read_magic, read_min_shift, read_depth, validate_binning_scheme, read_unplaced_unmapped_record_count),
   index/header.rs read_aux, index/reference_sequences.rs, reference_sequences/bins.rs read_bins:

     read_magic            read_exact(4); != "CSI\1" -> InvalidMagicNumber
     min_shift, depth      read_i32_le + u8::try_from each (the conversion of min_shift fails
                           before depth is read); then max_position(min_shift, depth) must be Ok
                           (CsiLayout.scheme_ok: min_shift >= 1, depth <= 10, min_shift + 3 depth < 64)
     read_aux              l_aux: i32 >= 0; 0 -> no header; otherwise csi read_header ([g_header],
                           NV.Io.CsiProg) run on `reader.take(l_aux)`: [limit l_aux g_header].  The
                           bytes of the take the header reader does not consume are NOT skipped.
     n_ref                 i32 >= 0; per reference read_bins(depth): n_bin i32 >= 0, then per bin
                           id u32, loffset u64, and -- id = Bin::metadata_id(depth) -- the csi
                           read_metadata body, else (index.insert(id, loffset)) read_chunks; a
                           repeated id / a second metadata pseudo-bin -> DuplicateBin
     n_no_coor             read_u64_le whose UnexpectedEof is caught (-> None)
   csi::io::Reader::read_index maps EVERY error of the above to io::ErrorKind::InvalidData
   (`read_index(&mut self.inner).map_err(|e| io::Error::new(InvalidData, e))`): [map_err as_invalid].

   [limit L p] is p run through `Read::take(L)`: Take::read asks the inner reader for
   min(buf.len(), limit), lowers the limit by what it got and returns Ok(0) at limit 0 without
   calling the inner reader -- so a read_exact loop / a take(n).read_to_end of n bytes is, for the
   inner reader, the loop for min n L bytes, and the caller gets a short result when n > L.
   Programs with read_until are outside (BufRead is not implemented by a Take over a plain Read
   here): they become Fail OutOfFuel.

   Value types are C17's (NV.Index.CsiLayout.csi_index).  Definitions only; proofs in
   CsiBodyProgProofs.v. *)
From Coq Require Import List NArith Arith Bool.
From NV Require Import Base.LE Io.Source Io.ReadExact Io.BufReader Io.BgzfRead Io.Run Trunc.Stream
  Io.Prog Io.IndexProg Io.CsiProg Io.ProgRun Io.TabixProg.
From NV Require Index.Bins Index.Layout Index.CsiLayout.
Import ListNotations.

Fixpoint limit {A : Type} (L : nat) (p : prog A) : prog A :=
  match p with
  | Ret a => Ret a
  | Fail e => Fail e
  | Fill n k => Fill (Nat.min n L) (fun bs => limit (L - length bs) (k bs))
  | Take n k => Take (Nat.min n L) (fun bs => limit (L - length bs) (k bs))
  | Until _ _ => Fail OutOfFuel
  end.

Local Open Scope N_scope.

(* read_aux *)
Definition g_aux : prog (option CsiLayout.header) :=
  bind g_i32_nonneg (fun l =>
    if 0 <? l then bind (limit (N.to_nat l) g_header) (fun h => Ret (Some h)) else Ret None).

Definition cbins_st : Type := (list CsiLayout.csi_bin * option Layout.metadata)%type.

(* one turn of the loop of csi read_bins; bins kept in reverse order *)
Definition c_bin_step (mid : N) (st : cbins_st) : prog cbins_st :=
  bind (p_le 4) (fun id =>
  bind (p_le 8) (fun lo =>
    if id =? mid then
      bind g_metadata (fun md =>
        match snd st with Some _ => Fail InvalidData | None => Ret (fst st, Some md) end)
    else
      bind g_chunks (fun cs =>
        if existsb (fun b => fst (fst b) =? id) (fst st) then Fail InvalidData
        else Ret ((id, lo, cs) :: fst st, snd st)))).

Definition c_ref (d : nat) : prog CsiLayout.csi_ref :=
  bind g_count (fun n =>
  bind (p_iter n (c_bin_step (Bins.metadata_id d)) ([], None)) (fun st =>
    let bs := rev (fst st) in
    Ret (CsiLayout.mkcref (map (fun b => (fst (fst b), snd b)) bs)
                          (map (fun b => (fst (fst b), snd (fst b))) bs) (snd st)))).

(* the body before the blanket error mapping *)
Definition p_csi_body : prog CsiLayout.csi_index :=
  bind (p_exact 4) (fun mg =>
    if bytes_eqb mg CsiLayout.csi_magic then
      bind (p_le 4) (fun ms =>
      if 256 <=? ms then Fail InvalidData else
      bind (p_le 4) (fun d =>
      if 256 <=? d then Fail InvalidData else
      if negb (CsiLayout.scheme_ok ms d) then Fail InvalidData else
      bind g_aux (fun h =>
      bind g_count (fun n =>
      bind (p_rep n (c_ref (N.to_nat d))) (fun refs =>
      bind (p_exact_opt 8) (fun o =>
        Ret (CsiLayout.mkcsi ms (N.to_nat d) h refs (option_map le_dec o))))))))
    else Fail InvalidData).

Definition p_csi : prog CsiLayout.csi_index := map_err as_invalid p_csi_body.

(* over the BGZF block reader over the scripted source (raw, cap = 0, or behind a BufReader) *)
Definition run_csi := run_over_bgzf p_csi.

(* over ANY delivery of the decompressed bytes *)
Definition run_csi_plain (cap chunk : nat) (s : source) := run_prog cap chunk p_csi s.
