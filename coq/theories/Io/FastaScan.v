(* C12 — the two fill_buf/consume scanners of noodles-fasta that carry state across buffer
   refills, over the BufReader model (windows = whatever one inner read delivered).
   This is the REPAIRED code (fixes fasta-bare-cr / fasta-midline-gt / interrupted-surfaced).

   noodles-fasta/src/io/reader/sequence.rs, Reader { inner, is_bol, has_pending_cr }:
     fill_buf: loop {
         src = match inner.fill_buf() { Ok(s) => s, Err(Interrupted) => continue, Err(e) => return Err(e) };
         if has_pending_cr { if src.first() is Some(b) and b != LF { return [CR] }   // held-back CR is data
                             has_pending_cr = false }
         b = src.first() else return []                                            // end of input
         if b == LF || (is_bol && b == CR) { inner.consume(1); is_bol = true; continue }
         if is_bol && b == '>' { return [] }                                       // next definition
         line = src up to the first LF in THIS window (or the whole window)
         match line.strip_suffix([CR]) { Some([]) => { inner.consume(1); has_pending_cr = true }   // continue
                                         Some(l) | None => return that slice } }
     consume(amt > 0): if has_pending_cr { has_pending_cr = false } else { inner.consume(amt); is_bol = false }
     read_sequence = read_to_end over that reader (modelled at the BufRead interface: fill_buf,
     consume(whole slice), until an empty slice).  The final `inner.fill_buf()` that re-borrows the
     (non-empty) buffer to build the returned slice performs no read and is not modelled.

   noodles-fasta/src/io/indexer.rs::consume_sequence_line
     loop { src = fill_buf (Interrupted => continue);
            if is_eol || src.is_empty() || (bytes_read == 0 && src[0] == '>') {break}
            (chunk_len, chunk) = match memchr(LF, src) { Some(i) => (is_eol = true; i+1, src[..i]) | None => (len, src) }
            if let Some(b) = chunk.last() { ends_with_cr = b == CR }
            base_count += chunk.len(); bytes_read += chunk_len; consume(chunk_len) }
     if ends_with_cr { base_count -= 1 } *)
From Coq Require Import List NArith Arith Bool.
From NV Require Import Io.Source Io.BufReader.
Import ListNotations.

Definition GT : N := 62%N.

Fixpoint until_lf (w : list N) : list N :=
  match w with
  | [] => []
  | x :: r => if N.eqb x LF then [] else x :: until_lf r
  end.

(* l.strip_suffix([CR]).unwrap_or(l) *)
Fixpoint strip_cr (l : list N) : list N :=
  match l with
  | [] => []
  | x :: r => match r with
              | [] => if N.eqb x CR then [] else [x]
              | _ => x :: strip_cr r
              end
  end.

(* l.last() == Some(CR) *)
Fixpoint last_cr (l : list N) : bool :=
  match l with
  | [] => false
  | x :: r => match r with [] => N.eqb x CR | _ => last_cr r end
  end.

Inductive sres := SOk | SNoFuel.

(* reader state: is_bol, has_pending_cr, BufReader state *)
Definition sstate (S : Type) : Type := (bool * bool * bstate S)%type.

Section Scan.
  Context {S : Type}.
  Variable rd : reader S.
  Variable cap : nat.

  Fixpoint seq_fill_buf (fuel : nat) (is_bol pending : bool) (st : bstate S)
    : sres * list N * sstate S :=
    match fuel with
    | 0 => (SNoFuel, [], (is_bol, pending, st))
    | Datatypes.S fuel' =>
      match br_fill_buf rd cap st with
      | (RInt, st1) => seq_fill_buf fuel' is_bol pending st1
      | (ROk src, st1) =>
        if pending && match src with x :: _ => negb (N.eqb x LF) | [] => false end
        then (SOk, [CR], (is_bol, true, st1))
        else
          match src with
          | [] => (SOk, [], (is_bol, false, st1))
          | b :: _ =>
            if N.eqb b LF || (is_bol && N.eqb b CR) then
              seq_fill_buf fuel' true false (br_consume 1 st1)
            else if is_bol && N.eqb b GT then (SOk, [], (is_bol, false, st1))
            else
              let line := until_lf src in
              match strip_cr line with
              | [] => seq_fill_buf fuel' is_bol true (br_consume 1 st1)   (* line = [CR] *)
              | piece => (SOk, piece, (is_bol, false, st1))
              end
          end
      end
    end.

  Definition seq_consume (amt : nat) (s : sstate S) : sstate S :=
    match amt with
    | 0 => s
    | _ => let '(is_bol, pending, st) := s in
           if pending then (is_bol, false, st) else (false, false, br_consume amt st)
    end.

  (* the caller's loop: fill_buf, take the whole slice, consume it, stop at an empty slice *)
  Fixpoint read_sequence (fuel : nat) (s : sstate S) (acc : list N) : sres * list N * sstate S :=
    match fuel with
    | 0 => (SNoFuel, acc, s)
    | Datatypes.S fuel' =>
      let '(is_bol, pending, st) := s in
      match seq_fill_buf (Datatypes.S fuel') is_bol pending st with
      | (SOk, [], s') => (SOk, acc, s')
      | (SOk, piece, s') => read_sequence fuel' (seq_consume (length piece) s') (acc ++ piece)
      | (e, _, s') => (e, acc, s')
      end
    end.

  (* ---- indexer: (status, line_width, base_count, state) *)
  Definition csl_finish (ends_cr : bool) (bytes bases : nat) (st : bstate S) :=
    (SOk, bytes, if ends_cr then bases - 1 else bases, st).

  Fixpoint consume_sequence_line (fuel : nat) (st : bstate S) (is_eol ends_cr : bool)
    (bytes bases : nat) : sres * nat * nat * bstate S :=
    match fuel with
    | 0 => (SNoFuel, bytes, bases, st)
    | Datatypes.S fuel' =>
      match br_fill_buf rd cap st with
      | (RInt, st1) => consume_sequence_line fuel' st1 is_eol ends_cr bytes bases
      | (ROk src, st1) =>
        match src with
        | [] => csl_finish ends_cr bytes bases st1
        | x :: _ =>
          if is_eol || ((bytes =? 0) && N.eqb x GT) then csl_finish ends_cr bytes bases st1
          else if has_byte LF src then
            let l := until_lf src in
            consume_sequence_line fuel' (br_consume (Datatypes.S (length l)) st1) true
              (match l with [] => ends_cr | _ => last_cr l end)
              (bytes + Datatypes.S (length l)) (bases + length l)
          else
            consume_sequence_line fuel' (br_consume (length src) st1) false (last_cr src)
              (bytes + length src) (bases + length src)
        end
      end
    end.
End Scan.

(* ---- closed forms on the flat data: what every delivery must produce *)
Inductive lstate := BOL | MID.

(* line terminator = LF optionally preceded by one CR; CRs at the start of a line are skipped; a CR
   elsewhere is data; '>' ends the sequence only at the start of a line; a CR just before the end
   of input is dropped *)
Fixpoint seq_out (st : lstate) (d : list N) : list N :=
  match d with
  | [] => []
  | x :: r =>
    if N.eqb x LF then seq_out BOL r
    else
      match st with
      | BOL => if N.eqb x CR then seq_out BOL r
               else if N.eqb x GT then []
               else x :: seq_out MID r
      | MID => if N.eqb x CR then
                 match r with
                 | [] => []
                 | y :: _ => if N.eqb y LF then seq_out MID r else x :: seq_out MID r
                 end
               else x :: seq_out MID r
      end
  end.

Definition seq_spec (d : list N) : list N := seq_out BOL d.

(* the raw line the indexer measures: nothing if the text starts with '>' *)
Definition idx_line (d : list N) : list N :=
  match d with
  | x :: _ => if N.eqb x GT then [] else take_line LF d
  | [] => []
  end.
