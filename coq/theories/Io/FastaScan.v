(* C12 — the two fill_buf/consume scanners of noodles-fasta that carry state across buffer
   refills, over the BufReader model (windows = whatever one inner read delivered).

   noodles-fasta/src/io/reader/sequence.rs
     consume_empty_lines: loop { if fill_buf()?.starts_with(CR) {consume(1)}
                                 if fill_buf()?.starts_with(LF) {consume(1)}  until neither }
     Reader::fill_buf:    consume_empty_lines; src = fill_buf()?;
                          empty or src[0] == '>'  -> end of sequence (empty slice)
                          line = src up to the first LF in THIS window (or the whole window);
                          a trailing CR of that slice is dropped
     read_sequence = read_to_end over that reader: pieces are appended until an empty one.
     (Modelled at the sequence_reader() BufRead interface: fill_buf, consume(whole piece).  A
     fill_buf()? that meets Interrupted returns the error to the caller.)

   noodles-fasta/src/io/indexer.rs::consume_sequence_line
     loop { src = fill_buf()?; if is_eol || src.is_empty() || src[0] == '>' {break}
            (chunk_len, bases) = match memchr(LF, src) { Some(i) => (is_eol = true; i+1, count_bases(src[..i]))
                                                         None    => (src.len(), count_bases(src)) }
            consume(chunk_len); bytes_read += chunk_len; base_count += bases }
     count_bases(buf) = buf.len() - 1 if buf ends with CR else buf.len()  -- per WINDOW. *)
From Coq Require Import List NArith Arith Bool.
From NV Require Import Io.Source Io.BufReader.
Import ListNotations.

Definition GT : N := 62%N.

Fixpoint until_lf (w : list N) : list N :=
  match w with
  | [] => []
  | x :: r => if N.eqb x LF then [] else x :: until_lf r
  end.

(* if l.ends_with(CR) { &l[..l.len()-1] } else { l } *)
Fixpoint strip_cr (l : list N) : list N :=
  match l with
  | [] => []
  | x :: r => match r with
              | [] => if N.eqb x CR then [] else [x]
              | _ => x :: strip_cr r
              end
  end.

Inductive sres := SOk | SInt | SNoFuel.

Section Scan.
  Context {S : Type}.
  Variable rd : reader S.
  Variable cap : nat.

  Definition strip_if (b : N) (w : list N) (st : bstate S) : bool * bstate S :=
    match w with
    | x :: _ => if N.eqb x b then (true, br_consume 1 st) else (false, st)
    | [] => (false, st)
    end.

  Fixpoint consume_empty_lines (fuel : nat) (st : bstate S) : sres * bstate S :=
    match fuel with
    | 0 => (SNoFuel, st)
    | Datatypes.S fuel' =>
      match br_fill_buf rd cap st with
      | (RInt, st1) => (SInt, st1)
      | (ROk w1, st1) =>
        let '(nl1, st2) := strip_if CR w1 st1 in
        match br_fill_buf rd cap st2 with
        | (RInt, st3) => (SInt, st3)
        | (ROk w2, st3) =>
          let '(nl2, st4) := strip_if LF w2 st3 in
          if nl1 || nl2 then consume_empty_lines fuel' st4 else (SOk, st4)
        end
      end
    end.

  (* sequence::Reader::fill_buf: (status, slice returned, state) *)
  Definition seq_fill_buf (fuel : nat) (st : bstate S) : sres * list N * bstate S :=
    match consume_empty_lines fuel st with
    | (SOk, st1) =>
      match br_fill_buf rd cap st1 with
      | (RInt, st2) => (SInt, [], st2)
      | (ROk src, st2) =>
        match src with
        | [] => (SOk, [], st2)
        | x :: _ => if N.eqb x GT then (SOk, [], st2)
                    else (SOk, strip_cr (until_lf src), st2)
        end
      end
    | (e, st1) => (e, [], st1)
    end.

  (* the caller's loop: fill_buf, take the whole slice, consume it, stop at an empty slice *)
  Fixpoint read_sequence (fuel : nat) (st : bstate S) (acc : list N) : sres * list N * bstate S :=
    match fuel with
    | 0 => (SNoFuel, acc, st)
    | Datatypes.S fuel' =>
      match seq_fill_buf (Datatypes.S fuel') st with
      | (SOk, [], st') => (SOk, acc, st')
      | (SOk, piece, st') => read_sequence fuel' (br_consume (length piece) st') (acc ++ piece)
      | (e, _, st') => (e, acc, st')
      end
    end.

  (* ---- indexer *)
  Definition count_bases (buf : list N) : nat := length (strip_cr buf).

  (* (status, line_width, base_count, state) *)
  Fixpoint consume_sequence_line (fuel : nat) (st : bstate S) (is_eol : bool) (bytes bases : nat)
    : sres * nat * nat * bstate S :=
    match fuel with
    | 0 => (SNoFuel, bytes, bases, st)
    | Datatypes.S fuel' =>
      match br_fill_buf rd cap st with
      | (RInt, st1) => (SInt, bytes, bases, st1)
      | (ROk src, st1) =>
        match src with
        | [] => (SOk, bytes, bases, st1)
        | x :: _ =>
          if is_eol || N.eqb x GT then (SOk, bytes, bases, st1)
          else if has_byte LF src then
            let l := until_lf src in
            consume_sequence_line fuel' (br_consume (Datatypes.S (length l)) st1) true
              (bytes + Datatypes.S (length l)) (bases + count_bases l)
          else
            consume_sequence_line fuel' (br_consume (length src) st1) false
              (bytes + length src) (bases + count_bases src)
        end
      end
    end.
End Scan.

(* ---- closed forms on the flat data (what every chunking must produce on well-formed input) *)
Definition is_nl (b : N) : bool := N.eqb b CR || N.eqb b LF.

Fixpoint take_seq (d : list N) : list N :=
  match d with
  | [] => []
  | x :: r => if N.eqb x GT then [] else x :: take_seq r
  end.

Definition seq_spec (d : list N) : list N := filter (fun b => negb (is_nl b)) (take_seq d).

(* well-formed sequence text: '>' only at the beginning of a line, CR only immediately before
   LF or as the very last byte.  [bol] = the previous byte was LF (or this is the start). *)
Fixpoint wf_seq (bol : bool) (d : list N) : Prop :=
  match d with
  | [] => True
  | x :: r =>
    if N.eqb x GT then bol = true
    else if N.eqb x CR then match r with [] => True | y :: _ => y = LF end /\ wf_seq false r
    else if N.eqb x LF then wf_seq true r
    else wf_seq false r
  end.
