(* C12 — the delivered FASTA indexer (FastaIndex) returns, for every delivery of the data through a
   BufReader of any capacity, exactly what C11's line-driven model [Indexer.index_file] returns on
   the whole data.  Bridge: C11 works on [Layout.lines d]; the delivered reader consumes one
   [take_line LF] at a time. *)
From Coq Require Import List NArith Arith Bool Lia.
From NV Require Import Io.Source Io.ReadExact Io.ReadExactProofs Io.BufReader Io.BufReaderProofs
  Io.FastaScan Io.FastaScanProofs Io.FastaIndex.
From NV Require Fasta.Layout Fasta.Indexer.
Import ListNotations.

(* ---- the two vocabularies agree *)
Lemma lines_cons : forall d, d <> [] ->
  Layout.lines d = take_line LF d :: Layout.lines (skipn (length (take_line LF d)) d).
Proof.
  induction d as [|b t IH]; intros Hne; [congruence|].
  cbn [Layout.lines take_line]. change Layout.LF with LF.
  destruct (N.eqb b LF) eqn:Hb.
  - reflexivity.
  - cbn [length skipn]. destruct t as [|c t'].
    + reflexivity.
    + rewrite (IH ltac:(discriminate)). reflexivity.
Qed.

Lemma take_line_nonempty : forall d, d <> [] -> 1 <= length (take_line LF d).
Proof.
  intros [|b t] H; [congruence|]. cbn [take_line]. destruct (N.eqb b LF); cbn [length]; lia.
Qed.

Lemma take_line_head : forall x r, exists t, take_line LF (x :: r) = x :: t.
Proof.
  intros x r. cbn [take_line]. destruct (N.eqb x LF); eauto.
Qed.

Lemma bends_with_snoc : forall b l x, ends_with b (l ++ [x]) = N.eqb x b.
Proof. intros b l x. unfold ends_with. rewrite rev_app_distr. reflexivity. Qed.

Lemma lends_with_snoc : forall b l x, Layout.ends_with b (l ++ [x]) = N.eqb x b.
Proof.
  intros b l x. induction l as [|y l IH]; [reflexivity|].
  cbn [app]. destruct (l ++ [x]) eqn:E; [destruct l; discriminate|].
  cbn [Layout.ends_with]. cbn [Layout.ends_with] in IH. exact IH.
Qed.

Lemma strip_last_snoc : forall c l x,
  Layout.strip_last c (l ++ [x]) = if N.eqb x c then l else l ++ [x].
Proof.
  intros c l x. induction l as [|y l IH].
  - cbn [app Layout.strip_last]. reflexivity.
  - cbn [app]. destruct (l ++ [x]) eqn:E; [destruct l; discriminate|].
    cbn [Layout.strip_last]. cbn [Layout.strip_last] in IH. rewrite IH.
    destruct (N.eqb x c); reflexivity.
Qed.

Lemma exists_last_or_nil : forall l : list N, l = [] \/ exists l' x, l = l' ++ [x].
Proof.
  intros l. induction l as [|x l' _] using rev_ind; [left; reflexivity|right; eauto].
Qed.

Lemma strip_eol_def_content : forall l, strip_eol l = Layout.def_content l.
Proof.
  intros l. unfold strip_eol, Layout.def_content.
  destruct (exists_last_or_nil l) as [E|[l1 [x E]]]; subst l.
  - reflexivity.
  - rewrite bends_with_snoc, lends_with_snoc. change Layout.LF with LF.
    destruct (N.eqb x LF) eqn:Hx; [|reflexivity].
    rewrite removelast_last, strip_last_snoc, Hx.
    destruct (exists_last_or_nil l1) as [E|[l2 [y E]]]; subst l1.
    + reflexivity.
    + rewrite bends_with_snoc, strip_last_snoc. change Layout.CR with CR.
      destruct (N.eqb y CR); [apply removelast_last|reflexivity].
Qed.

Lemma strip_cr_strip_last : forall l, strip_cr l = Layout.strip_last Layout.CR l.
Proof.
  induction l as [|x r IH]; [reflexivity|].
  cbn [strip_cr Layout.strip_last]. destruct r; [reflexivity|]. rewrite IH. reflexivity.
Qed.

Lemma until_lf_strip_last : forall d,
  until_lf (take_line LF d) = Layout.strip_last Layout.LF (take_line LF d).
Proof.
  induction d as [|x r IH]; [reflexivity|].
  cbn [take_line]. destruct (N.eqb x LF) eqn:Hx.
  - cbn [until_lf Layout.strip_last]. change Layout.LF with LF. rewrite Hx. reflexivity.
  - cbn [until_lf]. rewrite Hx. rewrite IH.
    destruct (take_line LF r) eqn:E.
    + cbn [Layout.strip_last]. change Layout.LF with LF. rewrite Hx. reflexivity.
    + reflexivity.
Qed.

Lemma seq_content : forall d,
  strip_cr (until_lf (take_line LF d)) = Layout.content (take_line LF d).
Proof.
  intros d. unfold Layout.content. rewrite strip_cr_strip_last, until_lf_strip_last. reflexivity.
Qed.

Section IndexProofs.
  Context {S : Type}.
  Variable rd : reader S.
  Variable Rep : S -> list N -> nat -> Prop.
  Hypothesis Hsim : simulates rd Rep.
  Variable cap : nat.
  Hypothesis Hcap : 1 <= cap.

  Notation repb st d m := (rep_buf Rep st d m).

  (* the one-byte peek: a function of the data *)
  Lemma is_last_spec : forall fuel st d m, repb st d m -> m < fuel ->
    exists st' m', is_last_sequence_line rd cap fuel st = (SOk, Indexer.at_end (Layout.lines d), st')
                   /\ repb st' d m' /\ m' <= m.
  Proof.
    induction fuel as [|fuel IH]; intros st d m HR Hf; [lia|].
    cbn [is_last_sequence_line].
    pose proof (br_fill_buf_spec rd Rep Hsim cap Hcap st d m HR) as Hfb.
    destruct (br_fill_buf rd cap st) as [[src|] st1].
    - destruct Hfb as [Hp [Hn [_ [m1 [Hm1 HR1]]]]].
      exists st1, m1. split; [|split; [exact HR1|exact Hm1]].
      destruct src as [|x w].
      + assert (d = []) by (destruct d; [reflexivity|exfalso; apply Hn; [discriminate|reflexivity]]).
        subst d. reflexivity.
      + destruct (prefix_cons x w d Hp) as [r Hd]. subst d.
        rewrite lines_cons by discriminate. destruct (take_line_head x r) as [t Ht]. rewrite Ht.
        reflexivity.
    - destruct Hfb as [m1 [Hm1 HR1]].
      destruct (IH st1 d m1 HR1 ltac:(lia)) as [st' [m' [E [HR' Hm']]]].
      exists st', m'. split; [exact E|]. split; [exact HR'|lia].
  Qed.

  (* consume_sequence_line in C11's vocabulary *)
  Lemma csl_lines : forall fuel st d m, repb st d m -> m + length d + 1 < fuel ->
    exists st' m' d',
      consume_sequence_line rd cap fuel st false false 0 0
        = (SOk, N.to_nat (fst (fst (Indexer.consume_sequence_line (Layout.lines d)))),
                N.to_nat (snd (fst (Indexer.consume_sequence_line (Layout.lines d)))), st')
      /\ snd (Indexer.consume_sequence_line (Layout.lines d)) = Layout.lines d'
      /\ repb st' d' m' /\ m' <= m /\ length d' <= length d.
  Proof.
    intros fuel st d m HR Hf.
    destruct (consume_sequence_line_full_spec rd Rep Hsim cap Hcap fuel st d m HR Hf)
      as [st' [m' [E [HR' Hm']]]].
    exists st', m', (skipn (length (idx_line d)) d). rewrite E.
    destruct d as [|x r].
    - cbn. repeat split; auto.
    - assert (Hdef : Layout.is_def (take_line LF (x :: r)) = N.eqb x GT).
      { destruct (take_line_head x r) as [t Ht]. rewrite Ht. reflexivity. }
      rewrite lines_cons by discriminate. unfold Indexer.consume_sequence_line, idx_line.
      rewrite Hdef. unfold idx_line in HR'.
      destruct (N.eqb x GT) eqn:Hg.
      + cbn [fst snd length skipn until_lf strip_cr N.to_nat]. cbn [length skipn] in HR'.
        repeat split; auto. rewrite <- lines_cons by discriminate. reflexivity.
      + cbn [fst snd]. rewrite seq_content. unfold Layout.len. rewrite !Nat2N.id.
        repeat split; auto. rewrite skipn_length. lia.
  Qed.
  Lemma leb0 : forall n : N, (0 <=? n)%N = true.
  Proof. intros n. apply N.leb_le. lia. Qed.

  (* the loop of index_record = C11's seq_loop on the lines of the data *)
  Lemma d_seq_loop_spec : forall k fuel elw elb st d m bc off,
    repb st d m -> length d < k -> m + length d + 1 < fuel ->
    match Indexer.seq_loop elw elb (Layout.lines d) bc off with
    | inl e => exists st', d_seq_loop rd cap k fuel elw elb st bc off = (inl e, st')
    | inr (bc', off', rest) =>
        exists st' d' m', d_seq_loop rd cap k fuel elw elb st bc off = (inr (bc', off'), st')
          /\ rest = Layout.lines d' /\ repb st' d' m' /\ m' <= m /\ length d' <= length d
    end.
  Proof.
    induction k as [|k IH]; intros fuel elw elb st d m bc off HR Hk Hf; [lia|].
    cbn [d_seq_loop].
    destruct (consume_sequence_line_full_spec rd Rep Hsim cap Hcap fuel st d m HR Hf)
      as [st1 [m1 [E1 [HR1 Hm1]]]].
    rewrite E1.
    destruct d as [|x r].
    - cbn [idx_line length skipn until_lf strip_cr] in *.
      destruct (is_last_spec fuel st1 [] m1 HR1 ltac:(lia)) as [st2 [m2 [E2 [HR2 Hm2]]]].
      rewrite E2. cbn [Layout.lines Indexer.at_end Indexer.seq_loop N.of_nat andb].
      rewrite !leb0. cbn [andb]. rewrite !N.add_0_r.
      exists st2, [], m2. repeat split; auto. lia.
    - assert (Hdef : Layout.is_def (take_line LF (x :: r)) = N.eqb x GT).
      { destruct (take_line_head x r) as [t Ht]. rewrite Ht. reflexivity. }
      pose proof (lines_cons (x :: r) ltac:(discriminate)) as HL.
      set (l := take_line LF (x :: r)) in *.
      set (d2 := skipn (length l) (x :: r)) in *.
      unfold idx_line in HR1 |- *. fold l in HR1 |- *.
      rewrite HL. cbn [Indexer.seq_loop]. rewrite Hdef.
      destruct (N.eqb x GT) eqn:Hg.
      + cbn [length skipn until_lf strip_cr] in *.
        destruct (is_last_spec fuel st1 (x :: r) m1 HR1 ltac:(lia)) as [st2 [m2 [E2 [HR2 Hm2]]]].
        rewrite E2. rewrite HL. cbn [Indexer.at_end]. rewrite Hdef.
        cbn [N.of_nat andb]. rewrite !leb0. cbn [andb]. rewrite !N.add_0_r.
        exists st2, (x :: r), m2. rewrite HL. repeat split; auto. lia.
      + fold d2 in HR1.
        assert (Hl1 : 1 <= length l) by (apply take_line_nonempty; discriminate).
        assert (Hd2 : length d2 + length l = length (x :: r)).
        { unfold d2. rewrite skipn_length.
          pose proof (take_line_length_le cap Hcap LF (x :: r)) as Hle. fold l in Hle. lia. }
        destruct (is_last_spec fuel st1 d2 m1 HR1 ltac:(lia)) as [st2 [m2 [E2 [HR2 Hm2]]]].
        rewrite E2. pose proof (seq_content (x :: r)) as Hsc. fold l in Hsc. rewrite Hsc.
        change (N.of_nat (length l)) with (Layout.len l).
        change (N.of_nat (length (Layout.content l))) with (Layout.len (Layout.content l)).
        destruct (Indexer.at_end (Layout.lines d2) && (Layout.len l <=? elw)%N
                  && (Layout.len (Layout.content l) <=? elb)%N).
        * exists st2, d2, m2. repeat split; auto; lia.
        * destruct (negb (Layout.len (Layout.content l) =? elb)%N); [exists st2; reflexivity|].
          destruct (negb (Layout.len l =? elw)%N); [exists st2; reflexivity|].
          pose proof (IH fuel elw elb st2 d2 m2 (bc + Layout.len (Layout.content l))%N
                        (off + Layout.len l)%N HR2 ltac:(lia) ltac:(lia)) as HI.
          destruct (Indexer.seq_loop elw elb (Layout.lines d2)
                      (bc + Layout.len (Layout.content l))%N (off + Layout.len l)%N)
            as [e|[[bc' off'] rest]].
          -- exact HI.
          -- destruct HI as [st' [d' [m' [E [Hr [HR' [Hm' Hl']]]]]]].
             exists st', d', m'. repeat split; auto; lia.
  Qed.

  (* Indexer::index_record = C11's index_record on the lines of the data *)
  Lemma d_index_record_spec : forall k fuel st d m off,
    repb st d m -> length d < k -> m + length d + 1 < fuel ->
    match Indexer.index_record (Layout.lines d) off with
    | inl e => exists st', d_index_record rd cap k fuel st off = (inl e, st')
    | inr None => exists st', d_index_record rd cap k fuel st off = (inr None, st')
    | inr (Some (r, off', rest)) =>
        exists st' d' m', d_index_record rd cap k fuel st off = (inr (Some (r, off')), st')
          /\ rest = Layout.lines d' /\ repb st' d' m' /\ m' <= m /\ length d' < length d
    end.
  Proof.
    intros k fuel st d m off HR Hk Hf. unfold d_index_record.
    destruct (read_line_spec rd Rep Hsim cap Hcap fuel st d m HR Hf) as [st1 [m1 [E1 [HR1 Hm1]]]].
    rewrite E1.
    destruct d as [|x r].
    - cbn. exists st1. reflexivity.
    - pose proof (lines_cons (x :: r) ltac:(discriminate)) as HL.
      set (l := take_line LF (x :: r)) in *.
      set (d2 := skipn (length l) (x :: r)) in *.
      assert (Hl1 : 1 <= length l) by (apply take_line_nonempty; discriminate).
      assert (Hd2 : length d2 + length l = length (x :: r)).
      { unfold d2. rewrite skipn_length.
        pose proof (take_line_length_le cap Hcap LF (x :: r)) as Hle. fold l in Hle. lia. }
      rewrite HL. cbn [Indexer.index_record].
      destruct (length l) as [|n0] eqn:En; [lia|]. rewrite <- En.
      rewrite strip_eol_def_content.
      destruct (Layout.parse_def_name (Layout.def_content l)) as [name|]; [|exists st1; reflexivity].
      destruct (csl_lines fuel st1 d2 m1 HR1 ltac:(lia)) as [st2 [m2 [d3 [E2 [Hr3 [HR2 [Hm2 Hl3]]]]]]].
      rewrite E2.
      destruct (Indexer.consume_sequence_line (Layout.lines d2)) as [[lw lb] r1].
      cbn [fst snd] in *. rewrite !N2Nat.id. subst r1.
      change (N.of_nat (length l)) with (Layout.len l).
      destruct (lb =? 0)%N; [exists st2; reflexivity|].
      pose proof (d_seq_loop_spec k fuel lw lb st2 d3 m2 lb (off + Layout.len l + lw)%N HR2
                    ltac:(lia) ltac:(lia)) as HS.
      destruct (Indexer.seq_loop lw lb (Layout.lines d3) lb (off + Layout.len l + lw)%N)
        as [e|[[bc off3] rest]].
      + destruct HS as [st3 E3]. rewrite E3. exists st3. reflexivity.
      + destruct HS as [st3 [d' [m' [E3 [Hr [HR3 [Hm3 Hl']]]]]]]. rewrite E3.
        exists st3, d', m'. repeat split; auto; lia.
  Qed.

  (* fs::index (the index_record loop) = C11's index_loop on the lines of the data *)
  Theorem d_index_loop_spec : forall j k fuel st d m off,
    repb st d m -> length d < k -> m + length d + 1 < fuel ->
    exists st', d_index_loop rd cap j k fuel st off = (Indexer.index_loop j (Layout.lines d) off, st').
  Proof.
    induction j as [|j IH]; intros k fuel st d m off HR Hk Hf.
    - exists st. reflexivity.
    - cbn [d_index_loop Indexer.index_loop].
      pose proof (d_index_record_spec k fuel st d m off HR Hk Hf) as HS.
      destruct (Indexer.index_record (Layout.lines d) off) as [e|[[[r off'] rest]|]].
      + destruct HS as [st1 E]. rewrite E. exists st1. reflexivity.
      + destruct HS as [st1 [d' [m' [E [Hr [HR' [Hm' Hl']]]]]]]. rewrite E. subst rest.
        destruct (IH k fuel st1 d' m' off' HR' ltac:(lia) ltac:(lia)) as [st2 E2].
        rewrite E2. destruct (Indexer.index_loop j (Layout.lines d') off') as [rs e].
        exists st2. reflexivity.
      + destruct HS as [st1 E]. rewrite E. exists st1. reflexivity.
  Qed.
End IndexProofs.
