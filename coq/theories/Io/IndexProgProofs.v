(* C12 — the index / record read programs of NV.Io.IndexProg run on the bytes like the
   whole-buffer parsers of C17 (NV.Index.Layout: read_gzi, read_bai) and C13
   (NV.Trunc.Stream.bcf_read_record); none of them contains a read_until except the text loop. *)
From Coq Require Import List NArith Arith Bool Lia ZifyBool ZifyNat ZifyN.
From NV Require Import Base.LE Io.Source Io.BufReader Trunc.Stream Trunc.StreamProofs Io.Prog Io.ProgProofs Io.IndexProg.
From NV Require Index.Layout Index.TextIndex.
Import ListNotations.
Local Open Scope N_scope.

Definition opt_of {A : Type} (x : rr A * list N) : option A :=
  match x with (RVal a, _) => Some a | (RErr _, _) => None end.

(* a program agrees with a whole-buffer parser (None = any io::Error) *)
Definition agrees {A : Type} (g : prog A) (p : Layout.parser A) : Prop :=
  forall d, match run_pure g d with
            | (RVal x, r) => p d = Some (x, r)
            | (RErr e, _) => p d = None /\ e <> OutOfFuel
            end.

Lemma agrees_ext : forall (A : Type) (g : prog A) (p p' : Layout.parser A),
  agrees g p -> (forall d, p d = p' d) -> agrees g p'.
Proof. intros A g p p' H E d. specialize (H d). rewrite <- E. exact H. Qed.

Lemma agrees_peq : forall (A : Type) (g g' : prog A) (p : Layout.parser A),
  peq g g' -> agrees g' p -> agrees g p.
Proof. intros A g g' p E H d. rewrite (E d). apply H. Qed.

Lemma agrees_ret : forall (A : Type) (x : A), agrees (Ret x) (fun bs => Some (x, bs)).
Proof. intros A x d. reflexivity. Qed.

Lemma agrees_fail : forall (A : Type) e, e <> OutOfFuel -> agrees (@Fail A e) (fun _ => None).
Proof. intros A e He d. cbn [run_pure]. auto. Qed.

Lemma agrees_bind : forall (A B : Type) (g : prog A) (p : Layout.parser A) (f : A -> prog B)
    (q : A -> Layout.parser B),
  agrees g p -> (forall x, agrees (f x) (q x)) ->
  agrees (bind g f) (fun bs => match p bs with None => None | Some (x, r) => q x r end).
Proof.
  intros A B g p f q Hg Hf d. rewrite run_pure_bind. specialize (Hg d).
  destruct (run_pure g d) as [[x|e] r].
  - rewrite Hg. apply Hf.
  - destruct Hg as [Hg He]. rewrite Hg. auto.
Qed.

Lemma agrees_map_err : forall (A : Type) (g : prog A) (p : Layout.parser A),
  agrees g p -> agrees (map_err as_invalid g) p.
Proof.
  intros A g p H d. rewrite run_pure_map_err. specialize (H d).
  destruct (run_pure g d) as [[x|e] r]; [exact H|]. destruct H as [H He]. split; [exact H|].
  destruct e; cbn [as_invalid]; congruence.
Qed.

Lemma agrees_le : forall k, agrees (Prog.p_le k) (Layout.p_le k).
Proof.
  intros k d. rewrite p_le_pure. unfold Layout.p_le.
  destruct (k <=? length d)%nat; [reflexivity|]. split; [reflexivity|discriminate].
Qed.

Lemma agrees_repeat_nat : forall (A : Type) (g : prog A) (p : Layout.parser A), agrees g p ->
  forall n, agrees (Prog.p_repeat n g) (Layout.p_repeat n p).
Proof.
  intros A g p H. induction n as [|n IH]; intros d.
  - reflexivity.
  - cbn [Prog.p_repeat Layout.p_repeat]. rewrite run_pure_bind. specialize (H d).
    destruct (run_pure g d) as [[x|e] r].
    + rewrite H. rewrite run_pure_bind. specialize (IH r).
      destruct (run_pure (Prog.p_repeat n g) r) as [[xs|e] r'].
      * rewrite IH. reflexivity.
      * destruct IH as [IH He]. rewrite IH. auto.
    + destruct H as [H He]. rewrite H. auto.
Qed.

Lemma agrees_rep : forall (A : Type) (g : prog A) (p : Layout.parser A), agrees g p ->
  forall n, agrees (p_rep n g) (Layout.p_repeat (N.to_nat n) p).
Proof.
  intros A g p H n. eapply agrees_peq; [apply p_rep_pure|]. apply agrees_repeat_nat. exact H.
Qed.

Lemma agrees_chunk : agrees g_chunk Layout.p_chunk.
Proof.
  eapply agrees_ext.
  - unfold g_chunk. apply agrees_bind; [apply agrees_le|]. intros a.
    apply agrees_bind; [apply agrees_le|]. intros b. apply agrees_ret.
  - intros d. reflexivity.
Qed.

Lemma agrees_chunks : agrees g_chunks Layout.p_chunks.
Proof.
  eapply agrees_ext.
  - unfold g_chunks. apply agrees_bind; [apply agrees_le|]. intros n.
    instantiate (1 := fun n => if n <? 2147483648 then Layout.p_repeat (N.to_nat n) Layout.p_chunk else fun _ => None).
    cbv beta. destruct (n <? 2147483648); [apply agrees_rep, agrees_chunk|apply agrees_fail; discriminate].
  - intros d. unfold Layout.p_chunks. destruct (Layout.p_le 4 d) as [[n r]|]; [|reflexivity].
    destruct (n <? 2147483648); reflexivity.
Qed.

Lemma agrees_metadata : agrees g_metadata Layout.p_metadata_body.
Proof.
  eapply agrees_ext.
  - unfold g_metadata. apply agrees_bind; [apply agrees_le|]. intros n.
    instantiate (1 := fun n => if n =? 2 then _ else fun _ => None).
    cbv beta. destruct (n =? 2); [|apply agrees_fail; discriminate].
    apply agrees_bind; [apply agrees_le|]. intros a.
    apply agrees_bind; [apply agrees_le|]. intros b.
    apply agrees_bind; [apply agrees_le|]. intros c.
    apply agrees_bind; [apply agrees_le|]. intros e. apply agrees_ret.
  - intros d. unfold Layout.p_metadata_body. destruct (Layout.p_le 4 d) as [[n r]|]; [|reflexivity].
    destruct (n =? 2); reflexivity.
Qed.

(* ---- gzi *)
Theorem p_gzi_is_read_gzi : forall d, opt_of (run_pure p_gzi d) = Layout.read_gzi d.
Proof.
  intros d. unfold p_gzi, Layout.read_gzi. rewrite run_pure_bind.
  pose proof (agrees_le 8 d) as H8. destruct (run_pure (Prog.p_le 8) d) as [[n|e] r].
  - rewrite H8. rewrite run_pure_bind.
    pose proof (agrees_rep _ _ _ agrees_chunk n r) as HR.
    destruct (run_pure (p_rep n g_chunk) r) as [[l|e] r'].
    + rewrite HR. rewrite run_pure_bind, p_exact_opt_pure.
      destruct r' as [|x r']; cbn [length Nat.leb run_pure opt_of]; reflexivity.
    + destruct HR as [HR _]. rewrite HR. reflexivity.
  - destruct H8 as [H8 _]. rewrite H8. reflexivity.
Qed.

Lemma until_free_g_chunk : until_free g_chunk.
Proof.
  unfold g_chunk. apply until_free_bind; [apply until_free_p_le|]. intros a.
  apply until_free_bind; [apply until_free_p_le|]. intros b. exact I.
Qed.

Lemma until_free_p_gzi : until_free p_gzi.
Proof.
  unfold p_gzi. apply until_free_bind; [apply until_free_p_le|]. intros n.
  apply until_free_bind; [apply until_free_rep, until_free_g_chunk|]. intros l.
  apply until_free_bind; [apply until_free_p_exact_opt|]. intros o. destruct o; exact I.
Qed.

(* ---- BAI *)
Lemma agrees_bins_loop : forall n acc m,
  agrees (bind (p_iter_nat n g_bin_step (acc, m)) (fun st => Ret (rev (fst st), snd st)))
         (Layout.p_bins_loop n acc m).
Proof.
  induction n as [|n IH]; intros acc m d.
  - reflexivity.
  - cbn [p_iter_nat Layout.p_bins_loop].
    rewrite (bind_assoc _ _ _ (g_bin_step (acc, m)) _ _ d). unfold g_bin_step at 1. cbn [fst snd].
    rewrite (bind_assoc _ _ _ (Prog.p_le 4) _ _ d). rewrite run_pure_bind.
    pose proof (agrees_le 4 d) as H4. destruct (run_pure (Prog.p_le 4) d) as [[id|e] r].
    + rewrite H4. destruct (id =? Layout.bai_metadata_id).
      * rewrite (bind_assoc _ _ _ g_metadata _ _ r). rewrite run_pure_bind.
        pose proof (agrees_metadata r) as HM.
        destruct (run_pure g_metadata r) as [[md|e] r'].
        -- rewrite HM. destruct m as [m0|].
           ++ cbn [bind run_pure]. split; [reflexivity|discriminate].
           ++ cbn [bind]. apply IH.
        -- destruct HM as [HM He]. rewrite HM. auto.
      * rewrite (bind_assoc _ _ _ g_chunks _ _ r). rewrite run_pure_bind.
        pose proof (agrees_chunks r) as HC.
        destruct (run_pure g_chunks r) as [[cs|e] r'].
        -- rewrite HC. destruct (existsb (fun b => fst b =? id) acc).
           ++ cbn [bind run_pure]. split; [reflexivity|discriminate].
           ++ cbn [bind]. apply IH.
        -- destruct HC as [HC He]. rewrite HC. auto.
    + destruct H4 as [H4 He]. rewrite H4. auto.
Qed.

Lemma agrees_bins : agrees g_bins Layout.p_bins.
Proof.
  eapply agrees_ext.
  - unfold g_bins. apply agrees_bind; [apply agrees_le|]. intros n.
    instantiate (1 := fun n => Layout.p_bins_loop (N.to_nat n) [] None). cbv beta.
    unfold g_bins_n. eapply agrees_peq; [|apply agrees_bins_loop].
    apply peq_bind; [apply p_iter_nat_eq|]. intros a. apply peq_refl.
  - intros d. reflexivity.
Qed.

Lemma agrees_intervals : agrees g_intervals Layout.p_intervals.
Proof.
  eapply agrees_ext.
  - unfold g_intervals. apply agrees_bind; [apply agrees_le|]. intros n.
    apply agrees_rep. apply agrees_le.
  - intros d. reflexivity.
Qed.

Lemma agrees_bai_ref : agrees g_bai_ref Layout.p_bai_ref.
Proof.
  eapply agrees_ext.
  - unfold g_bai_ref. apply agrees_bind; [apply agrees_bins|]. intros bm.
    apply agrees_bind; [apply agrees_intervals|]. intros iv. apply agrees_ret.
  - intros d. unfold Layout.p_bai_ref. destruct (Layout.p_bins d) as [[[bins m] r]|]; reflexivity.
Qed.

Fixpoint starts_with (p d : list N) : bool :=
  match p with
  | [] => true
  | a :: p' => match d with x :: d' => (x =? a) && starts_with p' d' | [] => false end
  end.
Definition prefix4 (d : list N) (a b c e : N) : bool := starts_with [a; b; c; e] d.

Ltac crush_byte a := destruct a as [|a]; [reflexivity|]; repeat (destruct a as [a|a|]; try reflexivity).

Lemma bai_magic_match : forall (X : Type) (d : list N) (y : list N -> X) (z : X),
  match d with 66 :: 65 :: 73 :: 1 :: r0 => y r0 | _ => z end
  = if prefix4 d 66 65 73 1 then y (skipn 4 d) else z.
Proof.
  intros X d y z.
  destruct d as [|a d]; [reflexivity|]. crush_byte a.
  destruct d as [|b d]; [reflexivity|]. crush_byte b.
  destruct d as [|c d]; [reflexivity|]. crush_byte c.
  destruct d as [|e d]; [reflexivity|]. crush_byte e.
Qed.

Lemma bytes_eqb_firstn4 : forall d a b c e, (4 <=? length d)%nat = true ->
  bytes_eqb (firstn 4 d) [a; b; c; e] = prefix4 d a b c e.
Proof.
  intros d a b c e H. destruct d as [|x1 [|x2 [|x3 [|x4 r]]]]; cbn [length] in H; try discriminate H.
  reflexivity.
Qed.

Theorem p_bai_is_read_bai : forall d, opt_of (run_pure p_bai d) = Layout.read_bai d.
Proof.
  intros d. unfold Layout.read_bai. rewrite bai_magic_match.
  unfold p_bai. rewrite run_pure_bind, p_exact_pure.
  destruct (4 <=? length d)%nat eqn:H4.
  - unfold Layout.bai_magic. rewrite (bytes_eqb_firstn4 d 66 65 73 1 H4).
    destruct (prefix4 d 66 65 73 1); [|reflexivity].
    set (r0 := skipn 4 d). rewrite run_pure_bind.
    pose proof (agrees_le 4 r0) as HN. destruct (run_pure (Prog.p_le 4) r0) as [[n|e] r1].
    + rewrite HN. rewrite run_pure_bind.
      pose proof (agrees_rep _ _ _ agrees_bai_ref n r1) as HR.
      destruct (run_pure (p_rep n g_bai_ref) r1) as [[refs|e] r2].
      * rewrite HR. rewrite run_pure_bind, p_exact_opt_pure. cbn [run_pure opt_of].
        unfold Layout.p_le. destruct (8 <=? length r2)%nat; reflexivity.
      * destruct HR as [HR _]. rewrite HR. reflexivity.
    + destruct HN as [HN _]. rewrite HN. reflexivity.
  - assert (Hp : prefix4 d 66 65 73 1 = false).
    { destruct d as [|x1 [|x2 [|x3 [|x4 r]]]]; unfold prefix4; cbn [starts_with];
        rewrite ?andb_false_r; try reflexivity. cbn [length] in H4. discriminate H4. }
    rewrite Hp. reflexivity.
Qed.

Lemma until_free_g_chunks : until_free g_chunks.
Proof.
  unfold g_chunks. apply until_free_bind; [apply until_free_p_le|]. intros n.
  destruct (n <? 2147483648); [apply until_free_rep, until_free_g_chunk|exact I].
Qed.

Lemma until_free_g_metadata : until_free g_metadata.
Proof.
  unfold g_metadata. apply until_free_bind; [apply until_free_p_le|]. intros n.
  destruct (n =? 2); [|exact I].
  repeat (apply until_free_bind; [apply until_free_p_le|]; intros ?). exact I.
Qed.

Lemma until_free_g_bin_step : forall st, until_free (g_bin_step st).
Proof.
  intros st. unfold g_bin_step. apply until_free_bind; [apply until_free_p_le|]. intros id.
  destruct (id =? Layout.bai_metadata_id).
  - apply until_free_bind; [apply until_free_g_metadata|]. intros md.
    destruct (snd st); exact I.
  - apply until_free_bind; [apply until_free_g_chunks|]. intros cs.
    destruct (existsb _ _); exact I.
Qed.

Lemma until_free_g_bai_ref : until_free g_bai_ref.
Proof.
  unfold g_bai_ref. apply until_free_bind.
  - unfold g_bins. apply until_free_bind; [apply until_free_p_le|]. intros n. unfold g_bins_n.
    apply until_free_bind; [apply until_free_iter, until_free_g_bin_step|]. intros st. exact I.
  - intros bm. apply until_free_bind; [|intros iv; exact I].
    unfold g_intervals. apply until_free_bind; [apply until_free_p_le|]. intros n.
    apply until_free_rep, until_free_p_le.
Qed.

Lemma until_free_p_bai : until_free p_bai.
Proof.
  unfold p_bai. apply until_free_bind; [apply until_free_p_exact|]. intros mg.
  destruct (bytes_eqb mg Layout.bai_magic); [|exact I].
  apply until_free_bind; [apply until_free_p_le|]. intros n.
  apply until_free_bind; [apply until_free_rep, until_free_g_bai_ref|]. intros refs.
  apply until_free_bind; [apply until_free_p_exact_opt|]. intros o. exact I.
Qed.

(* ---- BCF record: the program on the bytes is C13's framing model on a source that ends *)
Section BCF.
  Variable site_ok : list N -> option ekind.

  Definition step_of (x : rr (option (list N * list N)) * list N) : step (list N * list N) :=
    match x with
    | (RVal (Some r), rest) => Item r rest
    | (RVal None, _) => Stop Eof
    | (RErr e, _) => Stop (Err e)
    end.

  Theorem p_bcf_record_is_c13 : forall d,
    step_of (run_pure (p_bcf_record site_ok) d) = bcf_read_record site_ok Eof d.
  Proof.
    intros d. unfold p_bcf_record, bcf_read_record. rewrite run_pure_bind.
    unfold p_or_eof. cbn [run_pure].
    destruct d as [|x0 d0]; [reflexivity|]. set (d := x0 :: d0).
    rewrite (take_spec d 4). change (N.to_nat 4) with 4%nat.
    assert (Hf : firstn 4 d <> []) by (unfold d; cbn [firstn]; discriminate).
    destruct (firstn 4 d) as [|y ys] eqn:Ef; [congruence|]. rewrite <- Ef. clear Hf.
    rewrite firstn_short_length.
    destruct (4 <=? length d)%nat eqn:H4.
    - assert (Hlt : (N.of_nat (length d) <? 4) = false) by lia. rewrite Hlt. cbn [negb run_pure short].
      destruct (le_dec (firstn 4 d) =? 0); [reflexivity|].
      rewrite run_pure_bind, p_le_pure. set (r := skipn 4 d).
      rewrite (take_spec r 4). change (N.to_nat 4) with 4%nat.
      destruct (4 <=? length r)%nat eqn:H4r.
      + assert (Hlt2 : (N.of_nat (length r) <? 4) = false) by lia. rewrite Hlt2.
        set (r2 := skipn 4 r). rewrite run_pure_bind, p_take_exact_pure.
        rewrite (take_spec r2 (le_dec (firstn 4 d))).
        set (ls := le_dec (firstn 4 d)).
        destruct (N.to_nat ls <=? length r2)%nat eqn:HS.
        * assert (Hlt3 : (N.of_nat (length r2) <? ls) = false) by lia. rewrite Hlt3.
          destruct (site_ok (firstn (N.to_nat ls) r2)) as [e|]; [reflexivity|].
          rewrite run_pure_bind, p_take_exact_pure. set (r3 := skipn (N.to_nat ls) r2).
          rewrite (take_spec r3 (le_dec (firstn 4 r))). set (li := le_dec (firstn 4 r)).
          destruct (N.to_nat li <=? length r3)%nat eqn:HI.
          -- assert (Hlt4 : (N.of_nat (length r3) <? li) = false) by lia. rewrite Hlt4. reflexivity.
          -- assert (Hlt4 : (N.of_nat (length r3) <? li) = true) by lia. rewrite Hlt4. reflexivity.
        * assert (Hlt3 : (N.of_nat (length r2) <? ls) = true) by lia. rewrite Hlt3. reflexivity.
      + assert (Hlt2 : (N.of_nat (length r) <? 4) = true) by lia. rewrite Hlt2. reflexivity.
    - assert (Hlt : (N.of_nat (length d) <? 4) = true) by lia. rewrite Hlt. reflexivity.
  Qed.

  Lemma until_free_p_bcf_record : until_free (p_bcf_record site_ok).
  Proof.
    unfold p_bcf_record. apply until_free_bind; [apply until_free_p_or_eof|]. intros o.
    destruct o as [h|]; [|exact I]. cbv zeta. destruct (le_dec h =? 0); [exact I|].
    apply until_free_bind; [apply until_free_p_le|]. intros li.
    apply until_free_bind; [apply until_free_p_take_exact|]. intros site.
    destruct (site_ok site); [exact I|].
    apply until_free_bind; [apply until_free_p_take_exact|]. intros sm. exact I.
  Qed.
End BCF.

Lemma until_free_loop : forall (A : Type) (body : prog (option A)) fuel,
  until_free body -> until_free (p_loop fuel body).
Proof.
  intros A body fuel Hb. induction fuel as [|f IH]; cbn [p_loop]; [exact I|].
  apply until_free_bind; [exact Hb|]. intros o. destruct o as [x|]; [|exact I].
  apply until_free_bind; [exact IH|]. intros xs. exact I.
Qed.

(* ---- fai: the read_until line loop is C17's byte-based line loop (NV.Index.TextIndex.read_fai
   after /repo 24986d3) *)
Lemma break_take : forall d,
  match TextIndex.break_at LF d with
  | (raw, Some rest) => take_line LF d = raw ++ [LF] /\ skipn (length (take_line LF d)) d = rest
  | (raw, None) => take_line LF d = d /\ raw = d
  end.
Proof.
  induction d as [|x t IH].
  - cbn. auto.
  - cbn [TextIndex.break_at take_line]. destruct (x =? LF) eqn:E.
    + assert (Hx : x = LF) by (apply N.eqb_eq; exact E). subst x. cbn. auto.
    + destruct (TextIndex.break_at LF t) as [raw [rest|]].
      * destruct IH as [H1 H2]. rewrite H1 in *. cbn [app length skipn]. auto.
      * destruct IH as [H1 H2]. rewrite H1, H2. auto.
Qed.

Lemma ends_with_cons : forall b x (l : list N), l <> [] -> ends_with b (x :: l) = ends_with b l.
Proof.
  intros b x l Hl. unfold ends_with. cbn [rev].
  destruct (rev l) as [|y r] eqn:E.
  - exfalso. apply Hl. apply (f_equal (@rev N)) in E. rewrite rev_involutive in E. exact E.
  - reflexivity.
Qed.

Lemma strip_cr_spec : forall raw,
  TextIndex.strip_cr raw = if ends_with CR raw then removelast raw else raw.
Proof.
  induction raw as [|x t IH]; [reflexivity|].
  destruct t as [|y t'].
  - cbn. destruct (x =? 13); reflexivity.
  - rewrite ends_with_cons by discriminate.
    change (TextIndex.strip_cr (x :: y :: t')) with (x :: TextIndex.strip_cr (y :: t')).
    rewrite IH. destruct (ends_with CR (y :: t')); reflexivity.
Qed.

Lemma strip_eol_lf : forall raw, strip_eol (raw ++ [LF]) = TextIndex.strip_cr raw.
Proof.
  intros raw. unfold strip_eol.
  assert (E : ends_with LF (raw ++ [LF]) = true).
  { unfold ends_with. rewrite rev_app_distr. reflexivity. }
  rewrite E, removelast_last. symmetry. apply strip_cr_spec.
Qed.

Lemma break_none_no_lf_end : forall d raw,
  TextIndex.break_at LF d = (raw, None) -> ends_with LF d = false.
Proof.
  induction d as [|x t IH]; intros raw H; [reflexivity|].
  cbn [TextIndex.break_at] in H. destruct (x =? LF) eqn:E; [discriminate H|].
  destruct (TextIndex.break_at LF t) as [l [r|]] eqn:Eb; [discriminate H|].
  destruct t as [|y t'].
  - unfold ends_with. cbn [rev app]. exact E.
  - rewrite ends_with_cons by discriminate. exact (IH l eq_refl).
Qed.

Lemma p_text_index_bytes_spec : forall (A : Type) (parse : list N -> option A) fuel d,
  (length d < fuel)%nat ->
  opt_of (run_pure (p_text_index false fuel parse) d) = TextIndex.read_lines_bytes fuel parse d.
Proof.
  intros A parse. unfold TextIndex.read_lines_bytes, p_text_index.
  induction fuel as [|f IH]; intros d Hlen; [lia|].
  cbn [p_loop TextIndex.read_lines_gen]. rewrite run_pure_bind.
  unfold g_text_record at 1. cbn [run_pure].
  destruct d as [|x t]; [reflexivity|]. change TextIndex.LF with LF. set (d := x :: t) in *.
  pose proof (break_take d) as HB.
  assert (Hne : take_line LF d <> []).
  { unfold d. cbn [take_line]. destruct (x =? LF); discriminate. }
  destruct (TextIndex.break_at LF d) as [raw [rest|]] eqn:Eb.
  - destruct HB as [HT HS]. rewrite HS.
    destruct (take_line LF d) as [|y l] eqn:ET; [congruence|]. rewrite <- ET in *. clear ET.
    cbn [negb orb]. unfold TextIndex.no_check in *. rewrite HT, strip_eol_lf.
    destruct (parse (TextIndex.strip_cr raw)) as [r|]; [|reflexivity].
    cbn [run_pure]. rewrite run_pure_bind.
    assert (Hr : (length rest < f)%nat).
    { rewrite <- HS, skipn_length. rewrite HT, app_length. cbn [length].
      unfold d in Hlen. cbn [length] in Hlen. unfold d. cbn [length]. lia. }
    specialize (IH rest Hr).
    destruct (run_pure (p_loop f (g_text_record false parse)) rest) as [[xs|e] r'];
      cbn [opt_of] in IH; rewrite <- IH; reflexivity.
  - destruct HB as [HT HR]. subst raw. rewrite HT.
    unfold d at 1. cbn [negb orb]. unfold TextIndex.no_check in *.
    assert (Hs : strip_eol d = d).
    { unfold strip_eol. rewrite (break_none_no_lf_end d d Eb). reflexivity. }
    fold d. rewrite Hs.
    destruct (parse d) as [r|]; [|reflexivity].
    cbn [run_pure]. rewrite skipn_all. rewrite run_pure_bind.
    destruct f as [|f']; [unfold d in Hlen; cbn [length] in Hlen; lia|].
    reflexivity.
Qed.

Theorem p_fai_is_read_fai : forall d,
  opt_of (run_pure (p_fai (Datatypes.S (length d))) d) = TextIndex.read_fai d.
Proof. intros d. unfold p_fai, TextIndex.read_fai. apply p_text_index_bytes_spec. lia. Qed.
