(* C12 — `impl Read for header::Reader` of the SAM ('@') and VCF ('#') header adapters
   (noodles-sam/src/io/reader/header.rs, noodles-vcf/src/io/reader/header.rs):
       fn read(&mut self, buf) { let mut src = self.fill_buf()?; let amt = src.read(buf)?;
                                 if !src.is_empty() { self.is_eol = false; }
                                 self.consume(amt); Ok(amt) }
   on top of the adapter's fill_buf (NV.Io.HeaderRead.h_fill_buf: the prefix peek at a line start,
   the window cut after the first LF).  This is what `header_reader()` gives a caller that uses it
   as a plain Read (read, read_exact, read_to_end / read_to_string with whatever buffer sizes).
   [hdr_text] is the closed form: the header bytes still to come, given whether the reader stands
   at a line start.  Definitions only; proofs in HeaderAdapterProofs.v. *)
From Coq Require Import List NArith Arith Bool.
From NV Require Import Io.Source Io.BufReader Io.HeaderRead.
Import ListNotations.

Section Adapter.
  Context {S : Type}.
  Variable rd : reader S.
  Variable cap : nat.
  Variable prefix : N.

  Definition hstate : Type := (bool * bstate S)%type.

  Definition h_read : reader hstate := fun hs n =>
    match h_fill_buf rd cap prefix (fst hs) (snd hs) with
    | (RInt, e, st1) => (RInt, (e, st1))
    | (ROk src, e, st1) =>
        let amt := Nat.min n (length src) in
        (ROk (firstn amt src), (if amt <? length src then false else e, br_consume amt st1))
    end.
End Adapter.

(* e = at a line start.  k bounds the number of lines (k > length d is enough) *)
Fixpoint hdr_text (k : nat) (prefix : N) (e : bool) (d : list N) : list N :=
  match k with
  | 0 => []
  | Datatypes.S k' =>
    match d with
    | [] => []
    | x :: _ =>
      if e && negb (N.eqb x prefix) then []
      else
        let l := take_line LF d in
        if has_byte LF d then l ++ hdr_text k' prefix true (skipn (length l) d) else l
    end
  end.
