(* Liveness of the ticket pipeline NV.Io.Sched under INFINITE schedules (C03).

   A schedule is an infinite sequence of actions [sigma : nat -> act]; a disabled action is a no-op
   (the thread that would perform it is blocked), so an unfair scheduler can stutter forever.
   What is proved:
     - every step leaves the measure 5|todo| + 2|chan| + |hold| + 2|pending| + |running| unchanged
       (disabled) or strictly smaller (enabled): an infinite schedule contains at most
       [measure s] effective steps, whatever it is -- there is no infinite run of enabled actions;
     - FAIR TERMINATION: if the scheduler is minimally fair -- while the pipeline is not final it
       eventually plays SOME action that is enabled when it is played (one always exists:
       SchedProofs.pipeline_progress) -- the pipeline reaches a final state (drained, or the
       consumer stopped on an error): finish()/join and every wait of the application return. *)
From Coq Require Import List Arith Lia Bool.
From NV Require Import Io.Sched Io.SchedProofs.
Import ListNotations.

Section Fair.
  Variables (item res cst : Type).
  Variable f : item -> res.
  Variable ready : item -> bool.
  Variable cstep : cst -> res -> cst.
  Variable stopped : cst -> bool.
  Variable can_submit : nat -> bool -> bool.
  Variable pool : nat.
  Hypothesis pool_pos : 0 < pool.

  Notation state := (st item cst).
  Notation step := (Sched.step f ready cstep stopped can_submit pool).
  Notation enabled := (Sched.enabled stopped can_submit pool).
  Notation final := (Sched.final stopped).

  (* the state after the first n actions of sigma *)
  Fixpoint prefix_run (sigma : nat -> act) (n : nat) (s : state) : state :=
    match n with
    | O => s
    | S k => step (prefix_run sigma k s) (sigma k)
    end.

  Lemma prefix_run_is_run : forall sigma n s,
    prefix_run sigma n s = fold_left step (map sigma (seq 0 n)) s.
  Proof.
    intros sigma n s. induction n as [|n IH]; [reflexivity|].
    rewrite seq_S, map_app, fold_left_app. cbn [prefix_run map fold_left plus]. rewrite IH. reflexivity.
  Qed.

  Lemma step_measure_le : forall (s : state) a, measure (step s a) <= measure s.
  Proof.
    intros s a. destruct (enabled s a) eqn:E.
    - pose proof (step_measure item res cst f ready cstep stopped can_submit pool pool_pos s a E). lia.
    - unfold Sched.step. rewrite E. lia.
  Qed.

  Lemma prefix_measure_mono : forall sigma n k s, n <= k ->
    measure (prefix_run sigma k s) <= measure (prefix_run sigma n s).
  Proof.
    intros sigma n k s H. induction H as [|k H IH]; [lia|].
    cbn [prefix_run]. pose proof (step_measure_le (prefix_run sigma k s) (sigma k)). lia.
  Qed.

  (* the number of effective steps among the first n *)
  Fixpoint effective (sigma : nat -> act) (n : nat) (s : state) : nat :=
    match n with
    | O => O
    | S k => effective sigma k s + (if enabled (prefix_run sigma k s) (sigma k) then 1 else 0)
    end.

  (* NO INFINITE RUN: whatever the schedule, at most [measure s] of its actions ever take effect *)
  Theorem effective_bounded : forall sigma n s,
    effective sigma n s + measure (prefix_run sigma n s) <= measure s.
  Proof.
    intros sigma n s. induction n as [|n IH]; cbn [effective prefix_run]; [lia|].
    destruct (enabled (prefix_run sigma n s) (sigma n)) eqn:E.
    - pose proof (step_measure item res cst f ready cstep stopped can_submit pool pool_pos _ _ E). lia.
    - unfold Sched.step. rewrite E. lia.
  Qed.

  (* minimal fairness: as long as the pipeline is not final, some later action is enabled when played *)
  Definition fair (sigma : nat -> act) (s : state) : Prop :=
    forall k, final (prefix_run sigma k s) = false ->
      exists k', k <= k' /\ enabled (prefix_run sigma k' s) (sigma k') = true.

  (* FAIR TERMINATION *)
  Theorem fair_terminates : forall sigma s, fair sigma s ->
    exists n, final (prefix_run sigma n s) = true.
  Proof.
    intros sigma s Hfair.
    assert (H : forall m k, measure (prefix_run sigma k s) <= m -> exists n, final (prefix_run sigma n s) = true).
    { induction m as [|m IH]; intros k Hm.
      - exists k. apply (measure_zero_final item cst stopped pool pool_pos). lia.
      - destruct (final (prefix_run sigma k s)) eqn:F; [exists k; exact F|].
        destruct (Hfair k F) as [k' [Hk E]].
        apply (IH (S k')). cbn [prefix_run].
        pose proof (step_measure item res cst f ready cstep stopped can_submit pool pool_pos _ _ E).
        pose proof (prefix_measure_mono sigma k k' s Hk). lia. }
    apply (H (measure s) 0). cbn [prefix_run]. lia.
  Qed.

  (* fairness is not vacuous: in every reachable non-final state an action is enabled, so a
     scheduler can always comply (round-robin over the five kinds of action is fair) *)
  Theorem fair_satisfiable : can_submit 0 false = true ->
    forall sigma k s, wf item cst s -> final (prefix_run sigma k s) = false ->
      exists a, enabled (prefix_run sigma k s) a = true.
  Proof.
    intros Hc sigma k s Hw Hf.
    assert (Hw' : wf item cst (prefix_run sigma k s)).
    { clear Hf. induction k as [|k IH]; [exact Hw|]. cbn [prefix_run]. apply step_wf. exact IH. }
    exists (default_pick stopped can_submit pool (prefix_run sigma k s)).
    apply default_pick_enabled; assumption.
  Qed.
End Fair.
