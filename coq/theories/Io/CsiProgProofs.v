(* C12 — the CSI / tabix header read program runs on the bytes like C17's whole-buffer p_header *)
From Coq Require Import List NArith Arith Bool Lia ZifyBool ZifyNat ZifyN.
From NV Require Import Base.LE Io.Source Trunc.Stream Io.Prog Io.ProgProofs Io.IndexProg Io.IndexProgProofs Io.CsiProg.
From NV Require Index.Layout Index.CsiLayout.
Import ListNotations.
Local Open Scope N_scope.

Lemma agrees_i32_nonneg : agrees g_i32_nonneg CsiLayout.p_i32_nonneg.
Proof.
  eapply agrees_ext.
  - unfold g_i32_nonneg. apply agrees_bind; [apply agrees_le|]. intros n.
    instantiate (1 := fun n r => if n <? 2147483648 then Some (n, r) else None). cbv beta.
    destruct (n <? 2147483648); [apply agrees_ret|apply agrees_fail; discriminate].
  - intros d. reflexivity.
Qed.

Lemma agrees_col : agrees g_col CsiLayout.p_col.
Proof.
  eapply agrees_ext.
  - unfold g_col. apply agrees_bind; [apply agrees_le|]. intros n.
    instantiate (1 := fun n r => if (1 <=? n) && (n <? 2147483648) then Some (n - 1, r) else None). cbv beta.
    destruct ((1 <=? n) && (n <? 2147483648)); [apply agrees_ret|apply agrees_fail; discriminate].
  - intros d. reflexivity.
Qed.

Lemma agrees_format : agrees g_format CsiLayout.p_format.
Proof.
  eapply agrees_ext.
  - unfold g_format. apply agrees_bind; [apply agrees_le|]. intros n.
    instantiate (1 := fun n r =>
      if n mod 65536 =? 0 then
        (if n / 65536 =? 0 then Some (CsiLayout.FGeneric false, r)
         else if n / 65536 =? 1 then Some (CsiLayout.FGeneric true, r) else None)
      else if n mod 65536 =? 1 then Some (CsiLayout.FSam, r)
      else if n mod 65536 =? 2 then Some (CsiLayout.FVcf, r)
      else None). cbv beta zeta.
    destruct (n mod 65536 =? 0).
    + destruct (n / 65536 =? 0); [apply agrees_ret|].
      destruct (n / 65536 =? 1); [apply agrees_ret|apply agrees_fail; discriminate].
    + destruct (n mod 65536 =? 1); [apply agrees_ret|].
      destruct (n mod 65536 =? 2); [apply agrees_ret|apply agrees_fail; discriminate].
  - intros d. reflexivity.
Qed.

Lemma agrees_end : forall f beg, agrees (g_end f beg) (CsiLayout.p_end f beg).
Proof.
  intros f beg. unfold g_end, CsiLayout.p_end. destruct (CsiLayout.is_samvcf f).
  - eapply agrees_ext.
    + apply agrees_bind; [apply agrees_le|]. intros n.
      instantiate (1 := fun n r => if n =? 0 then Some (None, r) else None). cbv beta.
      destruct (n =? 0); [apply agrees_ret|apply agrees_fail; discriminate].
    + intros d. reflexivity.
  - eapply agrees_ext.
    + apply agrees_bind; [apply agrees_col|]. intros i.
      instantiate (1 := fun i r => if i =? beg then Some (None, r) else Some (Some i, r)). cbv beta.
      destruct (i =? beg); apply agrees_ret.
    + intros d. reflexivity.
Qed.

Lemma agrees_names : agrees g_names CsiLayout.p_names.
Proof.
  intros d. unfold g_names, CsiLayout.p_names. rewrite run_pure_bind.
  pose proof (agrees_i32_nonneg d) as HL.
  destruct (run_pure g_i32_nonneg d) as [[l|e] r].
  - rewrite HL. cbn [run_pure].
    destruct (CsiLayout.split_nul (firstn (N.to_nat l) r) []) as [names|].
    + destruct (CsiLayout.nodupb names).
      * rewrite firstn_short_length.
        assert (E : (length r <? N.to_nat l)%nat = negb (N.to_nat l <=? length r)%nat) by lia.
        rewrite E. destruct (N.to_nat l <=? length r)%nat; cbn [negb run_pure].
        -- reflexivity.
        -- split; [reflexivity|discriminate].
      * cbn [run_pure]. split; [reflexivity|discriminate].
    + cbn [run_pure]. split; [reflexivity|discriminate].
  - destruct HL as [HL He]. rewrite HL. auto.
Qed.

Theorem agrees_header : agrees g_header CsiLayout.p_header.
Proof.
  eapply agrees_ext.
  - unfold g_header. apply agrees_bind; [apply agrees_format|]. intros f.
    apply agrees_bind; [apply agrees_col|]. intros sq.
    apply agrees_bind; [apply agrees_col|]. intros bg.
    apply agrees_bind; [apply agrees_end|]. intros en.
    apply agrees_bind; [apply agrees_le|]. intros mt.
    instantiate (1 := fun mt => if 256 <=? mt then fun _ => None else _). cbv beta.
    destruct (256 <=? mt); [apply agrees_fail; discriminate|].
    apply agrees_bind; [apply agrees_i32_nonneg|]. intros sk.
    apply agrees_bind; [apply agrees_names|]. intros nm. apply agrees_ret.
  - intros d. unfold CsiLayout.p_header.
    destruct (CsiLayout.p_format d) as [[f r1]|]; [|reflexivity].
    destruct (CsiLayout.p_col r1) as [[sq r2]|]; [|reflexivity].
    destruct (CsiLayout.p_col r2) as [[bg r3]|]; [|reflexivity].
    destruct (CsiLayout.p_end f bg r3) as [[en r4]|]; [|reflexivity].
    destruct (Layout.p_le 4 r4) as [[mt r5]|]; [|reflexivity].
    destruct (256 <=? mt); reflexivity.
Qed.

Theorem g_header_is_p_header : forall d,
  match run_pure g_header d with
  | (RVal h, r) => CsiLayout.p_header d = Some (h, r)
  | (RErr e, _) => CsiLayout.p_header d = None /\ e <> OutOfFuel
  end.
Proof. exact agrees_header. Qed.

Lemma until_free_g_i32_nonneg : until_free g_i32_nonneg.
Proof.
  unfold g_i32_nonneg. apply until_free_bind; [apply until_free_p_le|]. intros n.
  destruct (n <? 2147483648); exact I.
Qed.

Lemma until_free_g_col : until_free g_col.
Proof.
  unfold g_col. apply until_free_bind; [apply until_free_p_le|]. intros n.
  destruct ((1 <=? n) && (n <? 2147483648)); exact I.
Qed.

Lemma until_free_g_header : until_free g_header.
Proof.
  unfold g_header. apply until_free_bind.
  { unfold g_format. apply until_free_bind; [apply until_free_p_le|]. intros n. cbv zeta.
    destruct (n mod 65536 =? 0).
    - destruct (n / 65536 =? 0); [exact I|]. destruct (n / 65536 =? 1); exact I.
    - destruct (n mod 65536 =? 1); [exact I|]. destruct (n mod 65536 =? 2); exact I. }
  intros f. apply until_free_bind; [apply until_free_g_col|]. intros sq.
  apply until_free_bind; [apply until_free_g_col|]. intros bg.
  apply until_free_bind.
  { unfold g_end. destruct (CsiLayout.is_samvcf f).
    - apply until_free_bind; [apply until_free_p_le|]. intros n. destruct (n =? 0); exact I.
    - apply until_free_bind; [apply until_free_g_col|]. intros i. destruct (i =? bg); exact I. }
  intros en. apply until_free_bind; [apply until_free_p_le|]. intros mt.
  destruct (256 <=? mt); [exact I|].
  apply until_free_bind; [apply until_free_g_i32_nonneg|]. intros sk.
  apply until_free_bind; [|intros nm; exact I].
  unfold g_names. apply until_free_bind; [apply until_free_g_i32_nonneg|]. intros l bs.
  destruct (CsiLayout.split_nul bs []) as [names|]; [|exact I].
  destruct (CsiLayout.nodupb names); [|exact I].
  destruct (length bs <? N.to_nat l)%nat; exact I.
Qed.
