(* C12 — the CSI / tabix header reader as a read program (NV.Io.Prog), after
   noodles-csi/src/io/reader/index/header.rs read_header (a public function: tabix's read_index
   calls it on the bgzf reader, csi's read_aux calls it on `reader.take(l_aux)`) and
   header/reference_sequence_names.rs read_reference_sequence_names:
     format, col_seq, col_beg, col_end, meta, skip: read_i32_le each + its conversion
       (an invalid value = InvalidData, a short read = UnexpectedEof)
     l_nm: i32 >= 0; then `BufReader::new(reader.take(l_nm))` on which read_until(NUL) is called
       until it returns 0: every name must end with NUL (ExpectedEof) and be new (DuplicateName);
       afterwards the Take must be exhausted (limit() > 0 = UnexpectedEof).
   The names block is modelled as `Take l_nm` (take(l_nm).read_to_end with arbitrary request sizes --
   the inner BufReader asks for min(8192, limit)) followed by the split of the bytes: the RESULT is
   the same function of the l_nm bytes; on the two error paths the real reader stops reading
   early, so where the stream stands after a DuplicateName / ExpectedEof error is not modelled.
   Value types and the whole-buffer parser it is proved equal to are C17's (NV.Index.CsiLayout).
   Definitions only; proofs in CsiProgProofs.v. *)
From Coq Require Import List NArith Arith Bool.
From NV Require Import Base.LE Io.Source Trunc.Stream Io.Prog.
From NV Require Index.Layout Index.CsiLayout.
Import ListNotations.
Local Open Scope N_scope.

Definition g_i32_nonneg : prog N :=
  bind (p_le 4) (fun n => if n <? 2147483648 then Ret n else Fail InvalidData).

Definition g_col : prog N :=
  bind (p_le 4) (fun n => if (1 <=? n) && (n <? 2147483648) then Ret (n - 1) else Fail InvalidData).

Definition g_format : prog CsiLayout.format :=
  bind (p_le 4) (fun n =>
    let kind := n mod 65536 in
    if kind =? 0 then
      (if n / 65536 =? 0 then Ret (CsiLayout.FGeneric false)
       else if n / 65536 =? 1 then Ret (CsiLayout.FGeneric true) else Fail InvalidData)
    else if kind =? 1 then Ret CsiLayout.FSam
    else if kind =? 2 then Ret CsiLayout.FVcf
    else Fail InvalidData).

Definition g_end (f : CsiLayout.format) (beg : N) : prog (option N) :=
  if CsiLayout.is_samvcf f then
    bind (p_le 4) (fun n => if n =? 0 then Ret None else Fail InvalidData)
  else
    bind g_col (fun i => if i =? beg then Ret None else Ret (Some i)).

Definition g_names : prog (list (list N)) :=
  bind g_i32_nonneg (fun l =>
    Take (N.to_nat l) (fun bs =>
      match CsiLayout.split_nul bs [] with
      | None => Fail InvalidData
      | Some names =>
          if CsiLayout.nodupb names then
            if (length bs <? N.to_nat l)%nat then Fail UnexpectedEof else Ret names
          else Fail InvalidData
      end)).

Definition g_header : prog CsiLayout.header :=
  bind g_format (fun f =>
  bind g_col (fun sq =>
  bind g_col (fun bg =>
  bind (g_end f bg) (fun en =>
  bind (p_le 4) (fun mt =>
  if 256 <=? mt then Fail InvalidData else
  bind g_i32_nonneg (fun sk =>
  bind g_names (fun nm =>
  Ret (CsiLayout.mkhdr f sq bg en mt sk nm)))))))).
