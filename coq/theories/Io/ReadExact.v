(* C12 — the read_exact family over an arbitrary reader.

   std::io::default_read_exact (used by Read::read_exact of every reader that does not override
   it) and noodles-bgzf io/reader.rs::default_read_exact are the same loop:
       while !buf.is_empty() { match read(buf) { Ok(0) => break, Ok(n) => buf = &mut buf[n..],
                                                 Err(Interrupted) => {}, Err(e) => return Err(e) } }
       if buf.is_empty() { Ok(()) } else { Err(UnexpectedEof) }
   noodles-bam / noodles-bcf io/reader/record.rs::read_exact_or_eof run the same loop, count
   bytes_read and finish with
       if bytes_read > 0 && !buf.is_empty() { Err(UnexpectedEof) } else { Ok(()) }
   so its outcome is three-way: nothing read (Ok, buffer untouched) / partial (error) / full.

   The loop is modelled once ([fill_loop]) with explicit fuel; it returns the bytes stored into
   the buffer, whether the buffer was filled, and the reader state afterwards. *)
From Coq Require Import List NArith Arith.
From NV Require Import Io.Source.
Import ListNotations.

Inductive fill_end := Filled | HitEof | OutOfFuel.

Section Generic.
  Context {S : Type}.
  Variable rd : reader S.

  (* acc = bytes stored so far (in order); n = bytes still wanted *)
  Fixpoint fill_loop (fuel : nat) (s : S) (n : nat) (acc : list N) : list N * fill_end * S :=
    match n with
    | 0 => (acc, Filled, s)
    | _ =>
      match fuel with
      | 0 => (acc, OutOfFuel, s)
      | Datatypes.S fuel' =>
        match rd s n with
        | (RInt, s') => fill_loop fuel' s' n acc
        | (ROk [], s') => (acc, HitEof, s')
        | (ROk bs, s') => fill_loop fuel' s' (n - length bs) (acc ++ bs)
        end
      end
    end.

  Inductive xres := XOk | XUnexpectedEof | XNoFuel.

  (* std read_exact / bgzf default_read_exact: (buffer prefix written, result, state) *)
  Definition read_exact (fuel : nat) (s : S) (n : nat) : list N * xres * S :=
    match fill_loop fuel s n [] with
    | (bs, Filled, s') => (bs, XOk, s')
    | (bs, HitEof, s') => (bs, XUnexpectedEof, s')
    | (bs, OutOfFuel, s') => (bs, XNoFuel, s')
    end.

  (* bam/bcf read_exact_or_eof: three-way outcome *)
  Inductive eres := EFull | ENothing | EPartial | ENoFuel.

  Definition read_exact_or_eof (fuel : nat) (s : S) (n : nat) : list N * eres * S :=
    match fill_loop fuel s n [] with
    | (bs, Filled, s') => (bs, EFull, s')
    | (bs, HitEof, s') => (bs, match bs with [] => ENothing | _ => EPartial end, s')
    | (bs, OutOfFuel, s') => (bs, ENoFuel, s')
    end.
End Generic.
