(* C12 — the Read side of the FASTA sequence reader (`impl Read for sequence::Reader`) over ANY
   simulating reader behind a BufReader of any capacity >= 1 is itself a simulating reader, of the
   sequence bytes [spec ib p d] (= [seq_spec d] for a fresh reader) of the data, and it never
   reports Interrupted.  Hence read_exact, every read program and read_to_end with whatever
   buffer sizes -- i.e. `read_sequence` -- return exactly the sequence bytes under every delivery. *)
From Coq Require Import List NArith Arith Bool Lia.
From NV Require Import Io.Source Io.ReadExact Io.ReadExactProofs Io.BufReader Io.BufReaderProofs
  Io.FastaScan Io.FastaScanProofs Io.SeqRead.
Import ListNotations.

(* the first k bytes of a fill_buf slice (window up to its end / first LF, minus a final CR) are
   produced verbatim in mid-line position, and the scanner is in mid-line position after them *)
Lemma mid_tail_k : forall l d k, l = firstn (length l) d -> has_byte LF l = false ->
  k <= length (strip_cr l) ->
  seq_out MID d = firstn k (strip_cr l) ++ seq_out MID (skipn k d).
Proof.
  induction l as [|x l IH]; intros d k Hp Hb Hk.
  - cbn [strip_cr length] in Hk. assert (k = 0) by lia. subst k. reflexivity.
  - destruct k as [|k]; [reflexivity|].
    destruct d as [|y d']; [discriminate|]. cbn [length firstn] in Hp.
    injection Hp as Hxy Hp'. subst y.
    cbn [has_byte existsb] in Hb. apply orb_false_iff in Hb. destruct Hb as [Hx Hb'].
    rewrite N.eqb_sym in Hx.
    destruct l as [|z l'].
    + cbn [strip_cr] in Hk |- *. destruct (N.eqb x CR) eqn:Hc; [cbn [length] in Hk; lia|].
      cbn [length] in Hk. assert (k = 0) by lia. subst k.
      cbn [firstn app skipn seq_out]. rewrite Hx, Hc. reflexivity.
    + change (strip_cr (x :: z :: l')) with (x :: strip_cr (z :: l')) in Hk |- *.
      cbn [length] in Hk. cbn [firstn app skipn].
      rewrite <- (IH d' k Hp' Hb' ltac:(lia)).
      destruct d' as [|z' d'']; [discriminate|].
      assert (z' = z) by (cbn [length firstn] in Hp'; injection Hp' as Hz _; auto). subst z'.
      assert (Hz : N.eqb z LF = false).
      { cbn [has_byte existsb] in Hb'. apply orb_false_iff in Hb'. rewrite N.eqb_sym. exact (proj1 Hb'). }
      cbn [seq_out]. rewrite Hx. destruct (N.eqb x CR); [rewrite Hz|]; reflexivity.
Qed.

Lemma spec_nil : forall ib, spec ib false [] = [].
Proof. intros ib. unfold spec, lst. destruct ib; reflexivity. Qed.

(* where the inner reader stands once the sequence reader has reported the end: at the next
   definition line ('>' at a line start) or at the end of the data *)
Fixpoint seq_rest (st : lstate) (d : list N) : list N :=
  match d with
  | [] => []
  | x :: r =>
    if N.eqb x LF then seq_rest BOL r
    else match st with
         | BOL => if N.eqb x CR then seq_rest BOL r else if N.eqb x GT then d else seq_rest MID r
         | MID => seq_rest MID r
         end
  end.

Lemma rest_mid_k : forall l d k, l = firstn (length l) d -> has_byte LF l = false ->
  k <= length l -> seq_rest MID d = seq_rest MID (skipn k d).
Proof.
  induction l as [|x l IH]; intros d k Hp Hb Hk.
  - cbn [length] in Hk. assert (k = 0) by lia. subst k. reflexivity.
  - destruct k as [|k]; [reflexivity|].
    destruct d as [|y d']; [discriminate|]. cbn [length firstn] in Hp.
    injection Hp as Hxy Hp'. subst y.
    cbn [has_byte existsb] in Hb. apply orb_false_iff in Hb. destruct Hb as [Hx Hb'].
    rewrite N.eqb_sym in Hx. cbn [length] in Hk.
    cbn [skipn seq_rest]. rewrite Hx. apply (IH d' k Hp' Hb'). lia.
Qed.

Lemma rest_ordinary : forall b r, N.eqb b LF = false -> N.eqb b CR = false -> N.eqb b GT = false ->
  seq_rest BOL (b :: r) = seq_rest MID (b :: r).
Proof. intros b r Hl Hc Hg. cbn [seq_rest]. rewrite Hl, Hc, Hg. reflexivity. Qed.

Lemma seq_rest_length_le : forall d st, length (seq_rest st d) <= length d.
Proof.
  induction d as [|x r IH]; intros st; [cbn; lia|].
  cbn [seq_rest]. destruct (N.eqb x LF); [specialize (IH BOL); cbn [length]; lia|].
  destruct st.
  - destruct (N.eqb x CR); [specialize (IH BOL); cbn [length]; lia|].
    destruct (N.eqb x GT); [lia|]. specialize (IH MID). cbn [length]. lia.
  - specialize (IH MID). cbn [length]. lia.
Qed.

Section SeqReadProofs.
  Context {S : Type}.
  Variable rd : reader S.
  Variable Rep : S -> list N -> nat -> Prop.
  Hypothesis Hsim : simulates rd Rep.
  Variable cap : nat.
  Hypothesis Hcap : 1 <= cap.

  Notation repb st d m := (rep_buf Rep st d m).

  (* one fill_buf, followed by a consume of ANY part k of the slice: the slice starts what is
     still to be produced, the state afterwards stands for the rest, and no work is added *)
  Lemma fill_spec : forall fuel ib p st d m,
    repb st d m -> (p = true -> ib = false) -> mu m d p < fuel ->
    exists piece ib1 p1 st1,
      seq_fill_buf rd cap fuel ib p st = (SOk, piece, (ib1, p1, st1))
      /\ (piece = [] -> spec ib p d = [])
      /\ forall k, k <= length piece ->
         exists ib2 p2 st2 d2 m2,
           seq_consume k (ib1, p1, st1) = (ib2, p2, st2)
           /\ repb st2 d2 m2 /\ (p2 = true -> ib2 = false)
           /\ spec ib p d = firstn k piece ++ spec ib2 p2 d2
           /\ mu m2 d2 p2 <= mu m d p
           /\ seq_rest (lst ib) d = seq_rest (lst ib2) d2
           /\ (piece = [] -> d2 = seq_rest (lst ib) d).
  Proof.
    induction fuel as [|fuel IH]; intros ib p st d m HR Hinv Hf; [lia|].
    cbn [seq_fill_buf].
    pose proof (br_fill_buf_spec rd Rep Hsim cap Hcap st d m HR) as Hfb.
    destruct (br_fill_buf rd cap st) as [[src|] st1].
    2:{ destruct Hfb as [m1 [Hm1 HR1]].
        destruct (IH ib p st1 d m1 HR1 Hinv ltac:(unfold mu in *; lia))
          as [piece [ib1 [p1 [st1' [E [Hnil Hk]]]]]].
        exists piece, ib1, p1, st1'. split; [exact E|]. split; [exact Hnil|].
        intros k Hkl. destruct (Hk k Hkl) as [ib2 [p2 [st2 [d2 [m2 [Ec [HR2 [Hi2 [Hs [Hmu [Hrs Hrn]]]]]]]]]]].
        exists ib2, p2, st2, d2, m2. repeat (split; [assumption|]). split; [unfold mu in *; lia|]. split; assumption. }
    destruct Hfb as [Hpre [Hne [Hfst [m1 [Hm1 HR1]]]]].
    destruct (p && match src with x :: _ => negb (N.eqb x LF) | [] => false end) eqn:Hpend.
    - (* the held-back CR is data: a one-byte slice *)
      apply andb_true_iff in Hpend. destruct Hpend as [Hp Hx]. subst p.
      rewrite (Hinv eq_refl) in *.
      destruct src as [|x w']; [discriminate|].
      destruct (prefix_cons x w' d Hpre) as [r Hd]. subst d.
      apply negb_true_iff in Hx.
      exists [CR], false, true, st1.
      split; [reflexivity|]. split; [discriminate|].
      intros k Hkl. cbn [length] in Hkl.
      destruct k as [|k].
      + exists false, true, st1, (x :: r), m1. split; [reflexivity|]. split; [exact HR1|].
        split; [reflexivity|]. split; [reflexivity|]. split; [unfold mu; lia|]. split; [reflexivity|discriminate].
      + assert (k = 0) by lia. subst k.
        exists false, false, st1, (x :: r), m1. split; [reflexivity|]. split; [exact HR1|].
        split; [discriminate|]. split.
        * unfold spec, lst. cbn [seq_out app firstn]. change (N.eqb CR LF) with false. cbv iota.
          change (N.eqb CR CR) with true. cbv iota. rewrite Hx. reflexivity.
        * split; [unfold mu; lia|]. split; [reflexivity|discriminate].
    - (* no held-back CR any more: what remains is seq_out (lst ib) d *)
      assert (Hcur : spec ib p d = seq_out (lst ib) d).
      { unfold spec. destruct p; [|reflexivity]. rewrite (Hinv eq_refl). unfold lst.
        cbn [andb] in Hpend. destruct src as [|x w'].
        - assert (d = []) by (destruct d; [reflexivity|exfalso; apply Hne; [discriminate|reflexivity]]).
          subst d. reflexivity.
        - destruct (prefix_cons x w' d Hpre) as [r Hd]. subst d.
          apply negb_false_iff in Hpend. cbn [seq_out].
          change (N.eqb CR LF) with false. cbv iota. change (N.eqb CR CR) with true. cbv iota.
          rewrite Hpend. reflexivity. }
      rewrite Hcur.
      assert (Hmu1 : mu m1 d false <= mu m d p) by (unfold mu; destruct p; lia).
      destruct src as [|b w'].
      + assert (d = []) by (destruct d; [reflexivity|exfalso; apply Hne; [discriminate|reflexivity]]).
        subst d. exists [], ib, false, st1.
        split; [reflexivity|]. split; [intros _; destruct ib; reflexivity|].
        intros k Hkl. cbn [length] in Hkl. assert (k = 0) by lia. subst k.
        exists ib, false, st1, [], m1. split; [reflexivity|]. split; [exact HR1|].
        split; [discriminate|]. split; [rewrite spec_nil; destruct ib; reflexivity|]. split; [exact Hmu1|]. split; [reflexivity|].
        intros _. destruct ib; reflexivity.
      + destruct (prefix_cons b w' d Hpre) as [r Hd]. subst d.
        set (src := b :: w') in *.
        destruct (N.eqb b LF || (ib && N.eqb b CR)) eqn:Hnl.
        * (* a line terminator byte, or a CR at the beginning of a line *)
          assert (HR2 : repb (br_consume 1 st1) r m1).
          { change r with (skipn 1 (b :: r)). apply (consume_k Rep st1 src); auto. unfold src. cbn [length]. lia. }
          destruct (IH true false _ r m1 HR2 ltac:(intros H; discriminate)
                      ltac:(unfold mu in *; cbn [length] in *; destruct p; lia))
            as [piece [ib1 [p1 [st1' [E [Hnil Hk]]]]]].
          assert (Hsp : seq_out (lst ib) (b :: r) = spec true false r).
          { unfold spec, lst at 2. cbn [seq_out].
            destruct (N.eqb b LF) eqn:Hl; [reflexivity|].
            cbn [orb] in Hnl. apply andb_true_iff in Hnl. destruct Hnl as [Hib Hc].
            subst ib. unfold lst. rewrite Hc. reflexivity. }
          exists piece, ib1, p1, st1'. split; [exact E|]. split; [rewrite Hsp; exact Hnil|].
          assert (Hrp : seq_rest (lst ib) (b :: r) = seq_rest (lst true) r).
          { unfold lst at 2. cbn [seq_rest].
            destruct (N.eqb b LF) eqn:Hl; [reflexivity|].
            cbn [orb] in Hnl. apply andb_true_iff in Hnl. destruct Hnl as [Hib Hc].
            subst ib. unfold lst. rewrite Hc. reflexivity. }
          intros k Hkl. destruct (Hk k Hkl) as [ib2 [p2 [st2 [d2 [m2 [Ec [HR3 [Hi2 [Hs [Hmu [Hrs Hrn]]]]]]]]]]].
          exists ib2, p2, st2, d2, m2. split; [exact Ec|]. split; [exact HR3|]. split; [exact Hi2|].
          split; [rewrite Hsp; exact Hs|]. split; [unfold mu in *; cbn [length] in *; destruct p; lia|].
          rewrite Hrp. split; assumption.
        * apply orb_false_iff in Hnl. destruct Hnl as [Hl Hbc].
          destruct (ib && N.eqb b GT) eqn:Hgt.
          -- (* the next definition *)
             apply andb_true_iff in Hgt. destruct Hgt as [Hib Hg]. subst ib.
             apply N.eqb_eq in Hg. subst b.
             exists [], true, false, st1.
             split; [reflexivity|]. split; [reflexivity|].
             intros k Hkl. cbn [length] in Hkl. assert (k = 0) by lia. subst k.
             exists true, false, st1, (GT :: r), m1. split; [reflexivity|]. split; [exact HR1|].
             split; [discriminate|]. split; [reflexivity|]. split; [exact Hmu1|]. split; reflexivity.
          -- assert (Hline : until_lf src <> []).
             { unfold src. cbn [until_lf]. rewrite Hl. discriminate. }
             pose proof (until_lf_prefix src (b :: r) Hpre) as Hlp.
             pose proof (until_lf_no_lf src) as Hnolf.
             assert (Hmid : seq_out (lst ib) (b :: r) = seq_out MID (b :: r)).
             { destruct ib; [|reflexivity]. cbn [andb] in Hbc, Hgt. unfold lst.
               apply bol_ordinary; assumption. }
             destruct (strip_cr (until_lf src)) as [|q piece'] eqn:Hsc.
             ++ (* the rest of the line in this window is a lone CR: hold it back *)
                pose proof (strip_cr_nil _ Hline Hsc) as Hcr.
                assert (Hb : b = CR).
                { unfold src in Hcr. cbn [until_lf] in Hcr. rewrite Hl in Hcr. injection Hcr as Hb _. exact Hb. }
                subst b.
                assert (Hib : ib = false).
                { destruct ib; [|reflexivity]. cbn [andb] in Hbc. discriminate. }
                subst ib.
                assert (HR2 : repb (br_consume 1 st1) r m1).
                { change r with (skipn 1 (CR :: r)). apply (consume_k Rep st1 src); auto. unfold src. cbn [length]. lia. }
                destruct (IH false true _ r m1 HR2 ltac:(auto)
                            ltac:(unfold mu in *; cbn [length] in *; destruct p; lia))
                  as [piece [ib1 [p1 [st1' [E [Hnil Hk]]]]]].
                exists piece, ib1, p1, st1'. split; [exact E|]. split; [exact Hnil|].
                intros k Hkl. destruct (Hk k Hkl) as [ib2 [p2 [st2 [d2 [m2 [Ec [HR3 [Hi2 [Hs [Hmu [Hrs Hrn]]]]]]]]]]].
                exists ib2, p2, st2, d2, m2. split; [exact Ec|]. split; [exact HR3|]. split; [exact Hi2|].
                split; [exact Hs|]. split; [unfold mu in *; cbn [length] in *; destruct p; lia|].
                change (seq_rest (lst false) (CR :: r)) with (seq_rest (lst false) r). split; assumption.
             ++ set (piece := q :: piece') in *.
                assert (Hplen : length piece <= length src).
                { rewrite <- Hsc. pose proof (strip_cr_length (until_lf src)).
                  pose proof (until_lf_length src). lia. }
                exists piece, ib, false, st1.
                split; [reflexivity|]. split; [unfold piece; discriminate|].
                intros k Hkl. destruct k as [|k].
                ** exists ib, false, st1, (b :: r), m1. split; [reflexivity|]. split; [exact HR1|].
                   split; [discriminate|]. split; [reflexivity|]. split; [exact Hmu1|]. split; [reflexivity|].
                   unfold piece; discriminate.
                ** exists false, false, (br_consume (Datatypes.S k) st1), (skipn (Datatypes.S k) (b :: r)), m1.
                   split; [reflexivity|].
                   split; [apply (consume_k Rep st1 src); auto; lia|]. split; [discriminate|]. split.
                   --- rewrite Hmid. rewrite <- Hsc.
                       apply (mid_tail_k (until_lf src) (b :: r) (Datatypes.S k) Hlp Hnolf).
                       rewrite Hsc. exact Hkl.
                   --- split; [unfold mu in *; rewrite skipn_length; cbn [length] in *; destruct p; lia|].
                       split; [|unfold piece; discriminate].
                       assert (Hrm : seq_rest (lst ib) (b :: r) = seq_rest MID (b :: r)).
                       { destruct ib; [|reflexivity]. cbn [andb] in Hbc, Hgt. unfold lst.
                         apply rest_ordinary; assumption. }
                       rewrite Hrm. apply (rest_mid_k (until_lf src) (b :: r) (Datatypes.S k) Hlp Hnolf).
                       pose proof (strip_cr_length (until_lf src)) as Hsl. rewrite Hsc in Hsl.
                       fold piece in Hsl. lia.
  Qed.

  (* ---- the Read impl *)
  Variable fuel : nat.

  (* the reader state stands for the sequence bytes still to come of the data its BufReader
     stands for; the work left (pending Interrupted + bytes + held-back CR) is below the fuel *)
  Definition rep_seq (s : sstate S) (dS : list N) (m : nat) : Prop :=
    exists d mi, repb (snd s) d mi /\ (snd (fst s) = true -> fst (fst s) = false)
                 /\ mu mi d (snd (fst s)) < fuel
                 /\ dS = spec (fst (fst s)) (snd (fst s)) d.

  Theorem sq_read_simulates : simulates (sq_read rd cap fuel) rep_seq.
  Proof.
    intros [[ib p] st] dS m n [d [mi [HR [Hinv [Hf HdS]]]]]. cbn [fst snd] in HR, Hinv, Hf, HdS.
    unfold sq_read. cbn [fst snd].
    destruct (fill_spec fuel ib p st d mi HR Hinv Hf) as [piece [ib1 [p1 [st1 [E [Hnil Hk]]]]]].
    rewrite E.
    set (amt := Nat.min n (length piece)).
    destruct (Hk amt ltac:(unfold amt; lia)) as [ib2 [p2 [st2 [d2 [m2 [Ec [HR2 [Hi2 [Hs [Hmu _]]]]]]]]]].
    rewrite Ec.
    assert (Hlen : length (firstn amt piece) = amt) by (rewrite firstn_length; unfold amt; lia).
    split.
    - split; [|split].
      + rewrite Hlen. subst dS. rewrite Hs. rewrite firstn_app_le by lia.
        rewrite <- Hlen at 2. symmetry. apply firstn_all.
      + rewrite Hlen. unfold amt. lia.
      + intros Hn Hne. rewrite Hlen. destruct piece as [|q piece'].
        * exfalso. apply Hne. subst dS. apply Hnil. reflexivity.
        * unfold amt. cbn [length]. lia.
    - exists m. split; [lia|]. exists d2, m2. cbn [fst snd].
      split; [exact HR2|]. split; [exact Hi2|]. split; [lia|].
      rewrite Hlen. subst dS. rewrite Hs.
      rewrite skipn_app_le by lia. rewrite <- Hlen at 1. rewrite skipn_all. reflexivity.
  Qed.

  (* it never reports Interrupted (fill_buf retries it) *)
  Theorem sq_read_never_interrupted : forall s dS m n, rep_seq s dS m ->
    exists bs s', sq_read rd cap fuel s n = (ROk bs, s').
  Proof.
    intros [[ib p] st] dS m n [d [mi [HR [Hinv [Hf HdS]]]]]. cbn [fst snd] in HR, Hinv, Hf.
    unfold sq_read. cbn [fst snd].
    destruct (fill_spec fuel ib p st d mi HR Hinv Hf) as [piece [ib1 [p1 [st1 [E _]]]]].
    rewrite E. eexists. eexists. reflexivity.
  Qed.

  (* ---- where the inner reader is left.  [rep_pos R]: as rep_seq, and the data its BufReader
     stands for ends, after the sequence, with R (the next definition line onwards) *)
  Definition rep_pos (R : list N) (s : sstate S) (dS : list N) (m : nat) : Prop :=
    exists d mi, repb (snd s) d mi /\ (snd (fst s) = true -> fst (fst s) = false)
                 /\ mu mi d (snd (fst s)) < fuel
                 /\ dS = spec (fst (fst s)) (snd (fst s)) d
                 /\ seq_rest (lst (fst (fst s))) d = R.

  Theorem sq_read_simulates_pos : forall R, simulates (sq_read rd cap fuel) (rep_pos R).
  Proof.
    intros R [[ib p] st] dS m n [d [mi [HR [Hinv [Hf [HdS HRest]]]]]]. cbn [fst snd] in HR, Hinv, Hf, HdS, HRest.
    unfold sq_read. cbn [fst snd].
    destruct (fill_spec fuel ib p st d mi HR Hinv Hf) as [piece [ib1 [p1 [st1 [E [Hnil Hk]]]]]].
    rewrite E.
    set (amt := Nat.min n (length piece)).
    destruct (Hk amt ltac:(unfold amt; lia)) as [ib2 [p2 [st2 [d2 [m2 [Ec [HR2 [Hi2 [Hs [Hmu [Hrs _]]]]]]]]]]].
    rewrite Ec.
    assert (Hlen : length (firstn amt piece) = amt) by (rewrite firstn_length; unfold amt; lia).
    split.
    - split; [|split].
      + rewrite Hlen. subst dS. rewrite Hs. rewrite firstn_app_le by lia.
        rewrite <- Hlen at 2. symmetry. apply firstn_all.
      + rewrite Hlen. unfold amt. lia.
      + intros Hn Hne. rewrite Hlen. destruct piece as [|q piece'].
        * exfalso. apply Hne. subst dS. apply Hnil. reflexivity.
        * unfold amt. cbn [length]. lia.
    - exists m. split; [lia|]. exists d2, m2. cbn [fst snd].
      split; [exact HR2|]. split; [exact Hi2|]. split; [lia|]. split.
      + rewrite Hlen. subst dS. rewrite Hs.
        rewrite skipn_app_le by lia. rewrite <- Hlen at 1. rewrite skipn_all. reflexivity.
      + rewrite <- Hrs. exact HRest.
  Qed.

  (* a read into a non-empty buffer that returns Ok(0) leaves the BufReader exactly at R, with
     no held-back CR *)
  Lemma sq_read_eof_pos : forall R s dS m n s', rep_pos R s dS m -> 0 < n ->
    sq_read rd cap fuel s n = (ROk [], s') -> exists mi, repb (snd s') R mi.
  Proof.
    intros R [[ib p] st] dS m n s' [d [mi [HR [Hinv [Hf [HdS HRest]]]]]] Hn.
    cbn [fst snd] in HR, Hinv, Hf, HdS, HRest. unfold sq_read. cbn [fst snd].
    destruct (fill_spec fuel ib p st d mi HR Hinv Hf) as [piece [ib1 [p1 [st1 [E [Hnil Hk]]]]]].
    rewrite E. intros Hrd.
    assert (Hp : piece = []).
    { destruct piece as [|q piece']; [reflexivity|]. exfalso.
      injection Hrd as Hbs _. apply (f_equal (@length N)) in Hbs. rewrite firstn_length in Hbs.
      cbn [length] in Hbs. lia. }
    subst piece. cbn [length] in Hrd. rewrite Nat.min_0_r in Hrd.
    destruct (Hk 0 ltac:(cbn; lia)) as [ib2 [p2 [st2 [d2 [m2 [Ec [HR2 [_ [_ [_ [_ Hd2]]]]]]]]]]].
    rewrite Ec in Hrd. injection Hrd as Hs'. subst s'. cbn [snd].
    exists m2. rewrite <- HRest, <- (Hd2 eq_refl). exact HR2.
  Qed.

  (* a fresh sequence reader (is_bol = true, no held-back CR) on a BufReader that stands for d *)
  Lemma rep_seq_fresh : forall st d m, repb st d m -> m + 2 * length d < fuel ->
    rep_seq (true, false, st) (seq_spec d) 0.
  Proof.
    intros st d m HR Hf. exists d, m. cbn [fst snd]. split; [exact HR|]. split; [discriminate|].
    split; [unfold mu; lia|reflexivity].
  Qed.
  Lemma rep_pos_fresh : forall st d m, repb st d m -> m + 2 * length d < fuel ->
    rep_pos (seq_rest BOL d) (true, false, st) (seq_spec d) 0.
  Proof.
    intros st d m HR Hf. exists d, m. cbn [fst snd]. split; [exact HR|]. split; [discriminate|].
    split; [unfold mu; lia|]. split; reflexivity.
  Qed.
End SeqReadProofs.

(* the sequence bytes are no longer than the data *)
Lemma seq_out_length_le : forall d st, length (seq_out st d) <= length d.
Proof.
  induction d as [|x r IH]; intros st; [cbn; lia|].
  cbn [seq_out]. destruct (N.eqb x LF); [specialize (IH BOL); cbn [length]; lia|].
  destruct st.
  - destruct (N.eqb x CR); [specialize (IH BOL); cbn [length]; lia|].
    destruct (N.eqb x GT); [cbn; lia|]. specialize (IH MID). cbn [length]. lia.
  - destruct (N.eqb x CR).
    + destruct r as [|y r']; [cbn; lia|].
      destruct (N.eqb y LF); [specialize (IH MID); cbn [length] in *; lia|].
      specialize (IH MID). cbn [length] in *. lia.
    + specialize (IH MID). cbn [length]. lia.
Qed.
