(* C12 — the BGZF frame reader over a delivered source equals C01's whole-buffer frame reader on
   the data, for every simulating reader (every script, raw or behind a BufReader); hence the
   parsed frames handed to C02's position state machine do not depend on the delivery. *)
From Coq Require Import List NArith Arith Bool Lia.
From NV Require Import Io.Source Io.ReadExact Io.ReadExactProofs Io.BgzfRead.
From NV Require Base.LE Bgzf.Frame Bgzf.Reader Bgzf.ReaderOps.
Import ListNotations.

Section BgzfProofs.
  Context {S : Type}.
  Variable rd : reader S.
  Variable Rep : S -> list N -> nat -> Prop.
  Hypothesis Hsim : simulates rd Rep.

  Lemma d_read_frame_spec : forall fuel s d m, Rep s d m -> m + 18 < fuel ->
    match Bgzf.Reader.read_frame d with
    | Bgzf.Frame.Ok None => exists s', d_read_frame rd fuel s = (DEof, s')
    | Bgzf.Frame.Err e => exists s', d_read_frame rd fuel s = (DErr e, s')
    | Bgzf.Frame.Ok (Some (f, rest)) =>
        exists s' m', d_read_frame rd fuel s = (DFrame f, s')
                      /\ Rep s' rest m' /\ m' <= m /\ length rest < length d
    | Bgzf.Frame.Panic => True
    end.
  Proof.
    intros fuel s d m HR Hf. unfold d_read_frame, Bgzf.Reader.read_frame.
    destruct (read_exact_spec rd Rep Hsim fuel s d m 18 HR Hf) as [s1 [m1 [E1 [HR1 Hm1]]]].
    rewrite E1. unfold Bgzf.Frame.lenN, Bgzf.Frame.BGZF_HEADER_SIZE.
    destruct (Nat.leb_spec 18 (length d)) as [H18|H18].
    2:{ replace (N.of_nat (length d) <? 18)%N with true by (symmetry; apply N.ltb_lt; lia).
        exists s1. reflexivity. }
    replace (N.of_nat (length d) <? 18)%N with false by (symmetry; apply N.ltb_ge; lia).
    unfold Bgzf.Frame.slice. rewrite skipn_firstn_comm.
    change (18 - 16) with 2.
    set (bs := (LE.le_dec (firstn 2 (skipn 16 d)) + 1)%N).
    destruct (bs <? Bgzf.Frame.MIN_FRAME_SIZE)%N eqn:Hmin; [exists s1; reflexivity|].
    apply N.ltb_ge in Hmin. unfold Bgzf.Frame.MIN_FRAME_SIZE in Hmin.
    set (n := N.to_nat bs - 18).
    destruct (read_exact_spec rd Rep Hsim (fuel + n) s1 (skipn 18 d) m1 n HR1 ltac:(lia))
      as [s2 [m2 [E2 [HR2 Hm2]]]].
    rewrite E2. rewrite skipn_length.
    destruct (Nat.leb_spec n (length d - 18)) as [Hn|Hn].
    - replace (N.of_nat (length d) <? bs)%N with false by (symmetry; apply N.ltb_ge; lia).
      exists s2, m2. split; [|split; [|split; [lia|]]].
      + f_equal. f_equal. rewrite (firstn_split_at N 18 (N.to_nat bs) d) by lia. reflexivity.
      + rewrite skipn_skipn_add in HR2. replace (18 + n) with (N.to_nat bs) in HR2 by lia. exact HR2.
      + rewrite skipn_length. lia.
    - replace (N.of_nat (length d) <? bs)%N with true by (symmetry; apply N.ltb_lt; lia).
      exists s2. reflexivity.
  Qed.

  Variable inflate : list N -> N -> option (list N).

  (* all frames: the delivered reader = the whole-buffer reader, for the same frame fuel k *)
  Theorem d_read_frames_spec : forall k fuel s d m, Rep s d m -> m + 18 < fuel ->
    exists s', d_read_frames rd inflate k fuel s = (whole_frames inflate k d, s').
  Proof.
    induction k as [|k IH]; intros fuel s d m HR Hf.
    - exists s. reflexivity.
    - cbn [d_read_frames whole_frames].
      pose proof (d_read_frame_spec fuel s d m HR Hf) as HS.
      destruct (Bgzf.Reader.read_frame d) as [[[f rest]|]|e|] eqn:ER.
      + destruct HS as [s1 [m1 [E [HR1 [Hm1 _]]]]]. rewrite E.
        destruct (Bgzf.Reader.parse_block inflate f) as [[bs dd]|e|]; try (exists s1; reflexivity).
        destruct (IH fuel s1 rest m1 HR1 ltac:(lia)) as [s2 E2]. rewrite E2.
        destruct (whole_frames inflate k rest) as [fs r]. exists s2. reflexivity.
      + destruct HS as [s1 E]. rewrite E. exists s1. reflexivity.
      + destruct HS as [s1 E]. rewrite E. exists s1. reflexivity.
      + (* read_frame never panics *)
        exfalso. unfold Bgzf.Reader.read_frame in ER.
        destruct (Bgzf.Frame.lenN d <? Bgzf.Frame.BGZF_HEADER_SIZE)%N; [discriminate|].
        destruct (LE.le_dec (Bgzf.Frame.slice d 16 18) + 1 <? Bgzf.Frame.MIN_FRAME_SIZE)%N; [discriminate|].
        destruct (Bgzf.Frame.lenN d <? LE.le_dec (Bgzf.Frame.slice d 16 18) + 1)%N; discriminate.
  Qed.
End BgzfProofs.

(* C01's read_to_end view: the data of the frames = read_blocks on the whole input *)
Lemma whole_frames_read_blocks : forall inflate k d,
  (map Bgzf.ReaderOps.fdata (fst (whole_frames inflate k d)), snd (whole_frames inflate k d))
  = Bgzf.Reader.read_blocks inflate k d.
Proof.
  intros inflate. induction k as [|k IH]; intros d; [reflexivity|].
  cbn [whole_frames Bgzf.Reader.read_blocks].
  destruct (Bgzf.Reader.read_frame d) as [[[f rest]|]|e|]; try reflexivity.
  destruct (Bgzf.Reader.parse_block inflate f) as [[bs dd]|e|]; try reflexivity.
  specialize (IH rest). destruct (whole_frames inflate k rest) as [fs r].
  destruct (Bgzf.Reader.read_blocks inflate k rest) as [bl r']. cbn [fst snd map] in *.
  injection IH as <- <-. reflexivity.
Qed.
