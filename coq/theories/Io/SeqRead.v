(* C12 — `impl Read for sequence::Reader` of noodles-fasta (src/io/reader/sequence.rs):
       fn read(&mut self, buf) { let mut src = self.fill_buf()?;      // NV.Io.FastaScan.seq_fill_buf
                                 let amt = src.read(buf)?;            // min(buf.len(), src.len()) bytes copied
                                 self.consume(amt); Ok(amt) }         // seq_consume: a PARTIAL consume
   This is what `read_sequence` (= `Reader::new(inner).read_to_end(buf)`) and every caller that uses
   `sequence_reader()` as a plain Read (read, read_exact, read_to_end with whatever buffer growth)
   goes through: std's read_to_end chooses the buffer sizes, so a slice returned by fill_buf is in
   general consumed in part, the held-back CR is handed out through a 1-byte slice, and a call with
   an empty buffer consumes nothing.

   fill_buf retries Interrupted itself, so `read` never reports it; the model gives the loop the
   fuel [fuel] and shows an exhausted fuel as RInt (excluded by the theorems: the representation
   relation bounds the work left by the fuel).

   Definitions only; proofs in SeqReadProofs.v. *)
From Coq Require Import List NArith Arith Bool.
From NV Require Import Io.Source Io.BufReader Io.FastaScan.
Import ListNotations.

Section SeqRead.
  Context {S : Type}.
  Variable rd : reader S.
  Variable cap : nat.
  Variable fuel : nat.

  Definition sq_read : reader (sstate S) := fun s n =>
    match seq_fill_buf rd cap fuel (fst (fst s)) (snd (fst s)) (snd s) with
    | (SOk, piece, s') =>
        let amt := Nat.min n (length piece) in
        (ROk (firstn amt piece), seq_consume amt s')
    | (SNoFuel, _, s') => (RInt, s')
    end.

  (* a sequence of read calls with buffers of the given sizes *)
  Fixpoint sq_reads (sizes : list nat) (s : sstate S) : list rres * sstate S :=
    match sizes with
    | [] => ([], s)
    | n :: t =>
        let '(r, s1) := sq_read s n in
        let '(l, s2) := sq_reads t s1 in (r :: l, s2)
    end.
End SeqRead.
