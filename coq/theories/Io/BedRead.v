(* C12 — the noodles-bed record reader over a delivered source (BufReader model):
   noodles-bed/src/io/reader/record.rs — a field scanner over fill_buf windows, not a line reader.

     skip_comment_lines: loop { src = fill_buf (Interrupted => continue);
                                if src.starts_with('#') { discard_line } else { break } }
     discard_line:       while !is_eol { src = fill_buf (Interrupted => continue); if src.is_empty() {break}
                                         n = memchr(LF, src) -> (is_eol = true; i+1) | src.len(); consume(n) }
     read_field:         loop { src = fill_buf (Interrupted => continue);
                                if match.is_some() || src.is_empty() { break }      // one more fill_buf after the delimiter
                                (buf, n) = memchr2(TAB, LF, src) -> (match = src[i]; src[..i], i+1) | (src, len)
                                dst.extend(buf); len += n; consume(n) }
                         is_eol = match == LF; if is_eol && dst.len() > start && dst.ends_with(CR) { dst.pop() }
                         (start = dst.len() on entry: the CR must belong to this field — /repo 6993cf2; the
                         same function, with the same rule, is noodles-sam io/reader/record.rs read_field)
     read_required_field, read_other_fields, read_record_N: as in C18's whole-buffer model

   memchr2 on one window is C18's [BedRec.scan_field] applied to that window.  The record type, the
   result type, skip_comments, scan_field and the accessor views are those of C18's NV.Text.BedRec
   (imported read-only), whose header says "the loops of read_field / discard_line over several
   fill_buf chunks compute the same thing" — that sentence is the theorem of BedReadProofs.  The
   whole-buffer closed form [w_bed_read_record] below is C18's bed_read_record with the CR rule of
   the current tree (C18's BedRec.read_field still pops a CR of the previous field). *)
From Coq Require Import List NArith Arith Bool.
From NV Require Import Io.Source Io.BufReader Io.FastaScan.
From NV Require Text.TextBase Text.BedRec.
Import ListNotations.

(* ---- the whole-buffer closed forms (what every delivery must produce) *)
Definition w_read_field (src dst : list N) : list N * nat * bool * list N :=
  let '(f, d, r) := BedRec.scan_field src in
  match d with
  | Some c =>
      let eol := N.eqb c 10 in
      (if eol && (length dst <? length (dst ++ f)) then TextBase.strip_cr (dst ++ f) else dst ++ f,
       Datatypes.S (length f), eol, r)
  | None => (dst ++ f, length f, false, r)
  end.

Fixpoint w_read_required (k : nat) (src dst : list N) (ends : list nat) (len : nat)
  : bool * list N * list N * list nat * nat :=
  match k with
  | 0 => (true, src, dst, ends, len)
  | Datatypes.S k' =>
      let '(dst1, n1, eol, src1) := w_read_field src dst in
      if eol then (false, src1, dst1, ends, len)
      else w_read_required k' src1 dst1 (ends ++ [length dst1]) (len + n1)
  end.

Fixpoint w_read_others (fuel : nat) (src dst : list N) (oth : list nat) (len : nat)
  : option (list N * list N * list nat * nat) :=
  match fuel with
  | 0 => None
  | Datatypes.S fuel' =>
      let '(dst1, n1, eol, src1) := w_read_field src dst in
      if Nat.eqb n1 0 then Some (src1, dst1, oth, len)
      else
        let oth1 := oth ++ [length dst1] in
        if eol then Some (src1, dst1, oth1, len + n1)
        else w_read_others fuel' src1 dst1 oth1 (len + n1)
  end.

(* (io result, rest of the input, record) *)
Definition w_bed_read_record (n : nat) (src : list N) (old : BedRec.bed_fields)
  : TextBase.res nat * list N * BedRec.bed_fields :=
  let merge (e : list nat) := e ++ skipn (length e) (BedRec.bf_std old) in
  let mk b s o := BedRec.Build_bed_fields b s o in
  let src0 := BedRec.skip_comments src in
  let '(ok, src1, dst1, ends, len) := w_read_required (n - 1) src0 [] [] 0 in
  if negb ok then (TextBase.Err TextBase.InvalidData, src1, mk dst1 (merge ends) [])
  else
    let '(dst2, n2, eol, src2) := w_read_field src1 dst1 in
    let ends2 := ends ++ [length dst2] in
    if eol then (TextBase.Ok (len + n2), src2, mk dst2 (merge ends2) [])
    else
      match w_read_others (Datatypes.S (length src2)) src2 dst2 [] (len + n2) with
      | None => (TextBase.Err TextBase.OutOfFuel, src2, mk dst2 (merge ends2) [])
      | Some (src3, dst3, oth, len3) => (TextBase.Ok len3, src3, mk dst3 (merge ends2) oth)
      end.

Fixpoint w_bed_read_raw (fuel n : nat) (src : list N) (rec : BedRec.bed_fields)
  : list (TextBase.res nat * BedRec.bed_view) :=
  match fuel with
  | 0 => []
  | Datatypes.S fuel' =>
      let '(r, src', rec') := w_bed_read_record n src rec in
      (r, BedRec.bed_view_of n rec') ::
      match r with
      | TextBase.Ok 0 => []
      | _ => w_bed_read_raw fuel' n src' rec'
      end
  end.

Section DeliveredBed.
  Context {S : Type}.
  Variable rd : reader S.
  Variable cap : nat.

  Fixpoint d_discard_line (fuel : nat) (st : bstate S) (is_eol : bool) : sres * bstate S :=
    match fuel with
    | 0 => if is_eol then (SOk, st) else (SNoFuel, st)
    | Datatypes.S fuel' =>
      if is_eol then (SOk, st)
      else
        match br_fill_buf rd cap st with
        | (RInt, st1) => d_discard_line fuel' st1 false
        | (ROk [], st1) => (SOk, st1)
        | (ROk src, st1) =>
          if has_byte LF src
          then d_discard_line fuel' (br_consume (length (take_line LF src)) st1) true
          else d_discard_line fuel' (br_consume (length src) st1) false
        end
    end.

  (* k bounds the turns of the outer loop (Interrupted results + comment lines) *)
  Fixpoint d_skip_comments (k fuel : nat) (st : bstate S) : sres * bstate S :=
    match k with
    | 0 => (SNoFuel, st)
    | Datatypes.S k' =>
      match br_fill_buf rd cap st with
      | (RInt, st1) => d_skip_comments k' fuel st1
      | (ROk [], st1) => (SOk, st1)
      | (ROk (x :: _), st1) =>
        if N.eqb x 35 then
          match d_discard_line fuel st1 false with
          | (SOk, st2) => d_skip_comments k' fuel st2
          | (SNoFuel, st2) => (SNoFuel, st2)
          end
        else (SOk, st1)
      end
    end.

  Fixpoint d_read_field_loop (fuel : nat) (st : bstate S) (dst : list N) (mat : option N) (len : nat)
    : sres * list N * option N * nat * bstate S :=
    match fuel with
    | 0 => (SNoFuel, dst, mat, len, st)
    | Datatypes.S fuel' =>
      match br_fill_buf rd cap st with
      | (RInt, st1) => d_read_field_loop fuel' st1 dst mat len
      | (ROk src, st1) =>
        match mat, src with
        | Some _, _ => (SOk, dst, mat, len, st1)
        | None, [] => (SOk, dst, mat, len, st1)
        | None, _ =>
          match BedRec.scan_field src with
          | (f, Some c, _) =>
              d_read_field_loop fuel' (br_consume (Datatypes.S (length f)) st1) (dst ++ f) (Some c)
                (len + Datatypes.S (length f))
          | (_, None, _) =>
              d_read_field_loop fuel' (br_consume (length src) st1) (dst ++ src) None (len + length src)
          end
        end
      end
    end.

  (* (status, dst', bytes consumed, is_eol, state) *)
  Definition d_read_field (fuel : nat) (st : bstate S) (dst : list N)
    : sres * list N * nat * bool * bstate S :=
    match d_read_field_loop fuel st dst None 0 with
    | (r, dst1, mat, len, st1) =>
      let eol := match mat with Some c => N.eqb c 10 | None => false end in
      (* is_eol && dst.len() > start && dst.ends_with(CR) -> dst.pop() *)
      (r, if eol && (length dst <? length dst1) then TextBase.strip_cr dst1 else dst1, len, eol, st1)
    end.

  (* k times read_required_field; None = out of fuel *)
  Fixpoint d_read_required (k fuel : nat) (st : bstate S) (dst : list N) (ends : list nat) (len : nat)
    : option (bool * list N * list nat * nat) * bstate S :=
    match k with
    | 0 => (Some (true, dst, ends, len), st)
    | Datatypes.S k' =>
      match d_read_field fuel st dst with
      | (SNoFuel, _, _, _, st1) => (None, st1)
      | (SOk, dst1, n1, eol, st1) =>
        if eol then (Some (false, dst1, ends, len), st1)
        else d_read_required k' fuel st1 dst1 (ends ++ [length dst1]) (len + n1)
      end
    end.

  Fixpoint d_read_others (ko fuel : nat) (st : bstate S) (dst : list N) (oth : list nat) (len : nat)
    : option (list N * list nat * nat) * bstate S :=
    match ko with
    | 0 => (None, st)
    | Datatypes.S ko' =>
      match d_read_field fuel st dst with
      | (SNoFuel, _, _, _, st1) => (None, st1)
      | (SOk, dst1, n1, eol, st1) =>
        if Nat.eqb n1 0 then (Some (dst1, oth, len), st1)
        else
          let oth1 := oth ++ [length dst1] in
          if eol then (Some (dst1, oth1, len + n1), st1)
          else d_read_others ko' fuel st1 dst1 oth1 (len + n1)
      end
    end.

  (* read_record_N into the caller's record [old]; k = loop bound (see the theorem) *)
  Definition d_bed_read_record (n k fuel : nat) (st : bstate S) (old : BedRec.bed_fields)
    : TextBase.res nat * BedRec.bed_fields * bstate S :=
    let merge (e : list nat) := e ++ skipn (length e) (BedRec.bf_std old) in
    let mk b s o := BedRec.Build_bed_fields b s o in
    match d_skip_comments k fuel st with
    | (SNoFuel, st0) => (TextBase.Err TextBase.OutOfFuel, old, st0)
    | (SOk, st0) =>
      match d_read_required (n - 1) fuel st0 [] [] 0 with
      | (None, st1) => (TextBase.Err TextBase.OutOfFuel, old, st1)
      | (Some (false, dst1, ends, _), st1) =>
          (TextBase.Err TextBase.InvalidData, mk dst1 (merge ends) [], st1)
      | (Some (true, dst1, ends, len), st1) =>
        match d_read_field fuel st1 dst1 with
        | (SNoFuel, _, _, _, st2) => (TextBase.Err TextBase.OutOfFuel, old, st2)
        | (SOk, dst2, n2, eol, st2) =>
          let ends2 := ends ++ [length dst2] in
          if eol then (TextBase.Ok (len + n2), mk dst2 (merge ends2) [], st2)
          else
            match d_read_others k fuel st2 dst2 [] (len + n2) with
            | (None, st3) => (TextBase.Err TextBase.OutOfFuel, mk dst2 (merge ends2) [], st3)
            | (Some (dst3, oth, len3), st3) => (TextBase.Ok len3, mk dst3 (merge ends2) oth, st3)
            end
        end
      end
    end.

  (* the caller's loop over one reused record, going on after errors (C18's bed_read_raw):
     result and accessor view of every call, the final Ok(0) included *)
  Fixpoint d_bed_read_raw (j n k fuel : nat) (st : bstate S) (rec : BedRec.bed_fields)
    : list (TextBase.res nat * BedRec.bed_view) * bstate S :=
    match j with
    | 0 => ([], st)
    | Datatypes.S j' =>
      match d_bed_read_record n k fuel st rec with
      | (r, rec', st1) =>
        match r with
        | TextBase.Ok 0 => ([(r, BedRec.bed_view_of n rec')], st1)
        | _ => let '(l, st2) := d_bed_read_raw j' n k fuel st1 rec' in
               ((r, BedRec.bed_view_of n rec') :: l, st2)
        end
      end
    end.
End DeliveredBed.
