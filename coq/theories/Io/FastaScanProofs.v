(* C12 — the repaired FASTA sequence scanner and indexer line consumer return closed forms on
   the data for EVERY delivery (any windows, any placement of Interrupted): no side condition. *)
From Coq Require Import List NArith Arith Bool Lia.
From NV Require Import Io.Source Io.ReadExact Io.ReadExactProofs Io.BufReader Io.BufReaderProofs Io.FastaScan.
Import ListNotations.

Definition lst (ib : bool) : lstate := if ib then BOL else MID.

(* what is still to be produced from reader state (is_bol, has_pending_cr) and remaining data d;
   a held-back CR is a CR seen in mid-line position *)
Definition spec (ib p : bool) (d : list N) : list N :=
  if p then seq_out MID (CR :: d) else seq_out (lst ib) d.

Definition mu (m : nat) (d : list N) (p : bool) : nat := m + 2 * length d + (if p then 1 else 0).

Lemma until_lf_no_lf : forall w, has_byte LF (until_lf w) = false.
Proof.
  induction w as [|x w IH]; [reflexivity|]. cbn [until_lf].
  destruct (N.eqb x LF) eqn:Hl; [reflexivity|].
  cbn [has_byte existsb]. rewrite N.eqb_sym, Hl. exact IH.
Qed.

Lemma until_lf_all : forall w, has_byte LF w = false -> until_lf w = w.
Proof.
  induction w as [|x w IH]; intros H; [reflexivity|].
  cbn [has_byte existsb] in H. apply orb_false_iff in H. destruct H as [Hx Hw].
  cbn [until_lf]. rewrite N.eqb_sym, Hx. f_equal. exact (IH Hw).
Qed.

Lemma until_lf_split : forall w, has_byte LF w = true ->
  w = until_lf w ++ LF :: skipn (Datatypes.S (length (until_lf w))) w.
Proof.
  induction w as [|x w IH]; intros H; [discriminate|].
  cbn [until_lf]. destruct (N.eqb x LF) eqn:Hl.
  - apply N.eqb_eq in Hl. subst x. reflexivity.
  - cbn [has_byte existsb] in H. rewrite N.eqb_sym, Hl in H. cbn [orb] in H.
    cbn [app length skipn]. f_equal. exact (IH H).
Qed.

Lemma until_lf_prefix : forall src d, src = firstn (length src) d ->
  until_lf src = firstn (length (until_lf src)) d.
Proof.
  induction src as [|x s IH]; intros d Hp; [reflexivity|].
  destruct d as [|y d']; [discriminate|]. cbn [length firstn] in Hp.
  injection Hp as Hxy Hp'. subst y. cbn [until_lf].
  destruct (N.eqb x LF); [reflexivity|]. cbn [length firstn]. f_equal. exact (IH d' Hp').
Qed.

Lemma until_lf_length : forall w, length (until_lf w) <= length w.
Proof.
  induction w as [|x w IH]; [cbn; lia|]. cbn [until_lf].
  destruct (N.eqb x LF); cbn [length]; lia.
Qed.

Lemma strip_cr_length : forall l, length (strip_cr l) <= length l.
Proof.
  induction l as [|a l IH]; [cbn; lia|]. cbn [strip_cr].
  destruct l; [destruct (N.eqb a CR); cbn [length]; lia|]. cbn [length] in *. lia.
Qed.

Lemma strip_cr_nil : forall l, l <> [] -> strip_cr l = [] -> l = [CR].
Proof.
  intros l Hne H. destruct l as [|x [|y l']]; [congruence| |discriminate].
  cbn [strip_cr] in H. destruct (N.eqb x CR) eqn:Hc; [|discriminate].
  apply N.eqb_eq in Hc. subst x. reflexivity.
Qed.

(* the bytes of a window up to its end / first LF, minus a final CR, are produced verbatim in
   mid-line position *)
Lemma mid_tail : forall l d, l = firstn (length l) d -> has_byte LF l = false ->
  seq_out MID d = strip_cr l ++ seq_out MID (skipn (length (strip_cr l)) d).
Proof.
  induction l as [|x l IH]; intros d Hp Hb; [reflexivity|].
  destruct d as [|y d']; [discriminate|]. cbn [length firstn] in Hp.
  injection Hp as Hxy Hp'. subst y.
  cbn [has_byte existsb] in Hb. apply orb_false_iff in Hb. destruct Hb as [Hx Hb'].
  rewrite N.eqb_sym in Hx.
  destruct l as [|z l'].
  - cbn [strip_cr]. destruct (N.eqb x CR) eqn:Hc; [reflexivity|].
    cbn [app length skipn seq_out]. rewrite Hx, Hc. reflexivity.
  - change (strip_cr (x :: z :: l')) with (x :: strip_cr (z :: l')).
    cbn [app length skipn]. rewrite <- (IH d' Hp' Hb').
    destruct d' as [|z' d'']; [discriminate|].
    assert (z' = z) by (cbn [length firstn] in Hp'; injection Hp' as Hz _; auto). subst z'.
    assert (Hz : N.eqb z LF = false).
    { cbn [has_byte existsb] in Hb'. apply orb_false_iff in Hb'. rewrite N.eqb_sym. exact (proj1 Hb'). }
    cbn [seq_out]. rewrite Hx. destruct (N.eqb x CR); [rewrite Hz|]; reflexivity.
Qed.

Lemma bol_ordinary : forall b r, N.eqb b LF = false -> N.eqb b CR = false -> N.eqb b GT = false ->
  seq_out BOL (b :: r) = seq_out MID (b :: r).
Proof. intros b r Hl Hc Hg. cbn [seq_out]. rewrite Hl, Hc, Hg. reflexivity. Qed.

Lemma prefix_cons : forall (b : N) w' d, b :: w' = firstn (length (b :: w')) d ->
  exists r, d = b :: r.
Proof.
  intros b w' d H. destruct d as [|y r]; [discriminate|]. cbn [length firstn] in H.
  injection H as Hy _. subst y. exists r. reflexivity.
Qed.

Lemma until_lf_app : forall l r, has_byte LF l = false -> until_lf (l ++ r) = l ++ until_lf r.
Proof.
  induction l as [|a l IH]; intros r H; [reflexivity|].
  cbn [has_byte existsb] in H. apply orb_false_iff in H. destruct H as [Ha Hl].
  cbn [app until_lf]. rewrite N.eqb_sym, Ha. f_equal. exact (IH r Hl).
Qed.

Lemma last_cr_app : forall p q, q <> [] -> last_cr (p ++ q) = last_cr q.
Proof.
  induction p as [|x p IH]; intros q Hq; [reflexivity|].
  cbn [app]. destruct (p ++ q) eqn:E.
  - destruct p; [cbn [app] in E; congruence|discriminate].
  - change (last_cr (x :: n :: l)) with (last_cr (n :: l)). rewrite <- E. exact (IH q Hq).
Qed.

Section ScanProofs.
  Context {S : Type}.
  Variable rd : reader S.
  Variable Rep : S -> list N -> nat -> Prop.
  Hypothesis Hsim : simulates rd Rep.
  Variable cap : nat.
  Hypothesis Hcap : 1 <= cap.

  Notation repb st d m := (rep_buf Rep st d m).

  Lemma consume_k : forall st1 w d m k, fst st1 = w -> repb st1 d m -> k <= length w ->
    repb (br_consume k st1) (skipn k d) m.
  Proof.
    intros st1 w d m k Hfst HR Hk. apply br_consume_spec; [exact HR|]. rewrite Hfst. exact Hk.
  Qed.

  (* one fill_buf followed by consume(whole slice) *)
  Lemma step_spec : forall fuel ib p st d m,
    repb st d m -> (p = true -> ib = false) -> mu m d p < fuel ->
    exists piece s' ib2 p2 st2 d2 m2,
      seq_fill_buf rd cap fuel ib p st = (SOk, piece, s')
      /\ seq_consume (length piece) s' = (ib2, p2, st2)
      /\ repb st2 d2 m2 /\ (p2 = true -> ib2 = false)
      /\ spec ib p d = piece ++ match piece with [] => [] | _ => spec ib2 p2 d2 end
      /\ (piece <> [] -> mu m2 d2 p2 < mu m d p).
  Proof.
    induction fuel as [|fuel IH]; intros ib p st d m HR Hinv Hf; [lia|].
    cbn [seq_fill_buf].
    pose proof (br_fill_buf_spec rd Rep Hsim cap Hcap st d m HR) as Hfb.
    destruct (br_fill_buf rd cap st) as [[src|] st1].
    2:{ destruct Hfb as [m1 [Hm1 HR1]].
        destruct (IH ib p st1 d m1 HR1 Hinv ltac:(unfold mu in *; lia))
          as [piece [s' [ib2 [p2 [st2 [d2 [m2 [E [Ec [HR2 [Hi2 [Hs Hmu]]]]]]]]]]]].
        exists piece, s', ib2, p2, st2, d2, m2.
        split; [exact E|]. split; [exact Ec|]. split; [exact HR2|]. split; [exact Hi2|].
        split; [exact Hs|].
        intros Hne. specialize (Hmu Hne). unfold mu in *. lia. }
    destruct Hfb as [Hpre [Hne [Hfst [m1 [Hm1 HR1]]]]].
    destruct (p && match src with x :: _ => negb (N.eqb x LF) | [] => false end) eqn:Hpend.
    - (* the held-back CR is data *)
      apply andb_true_iff in Hpend. destruct Hpend as [Hp Hx]. subst p.
      rewrite (Hinv eq_refl) in *.
      destruct src as [|x w']; [discriminate|].
      destruct (prefix_cons x w' d Hpre) as [r Hd]. subst d.
      apply negb_true_iff in Hx.
      exists [CR], (false, true, st1), false, false, st1, (x :: r), m1.
      split; [reflexivity|]. split; [reflexivity|]. split; [exact HR1|].
      split; [intros H; discriminate|]. split.
      + unfold spec, lst. cbn [seq_out app]. change (N.eqb CR LF) with false. cbv iota.
        change (N.eqb CR CR) with true. cbv iota. rewrite Hx. reflexivity.
      + intros _. unfold mu. lia.
    - (* no held-back CR any more: what remains is seq_out (lst ib) d *)
      assert (Hcur : spec ib p d = seq_out (lst ib) d).
      { unfold spec. destruct p; [|reflexivity]. rewrite (Hinv eq_refl). unfold lst.
        cbn [andb] in Hpend. destruct src as [|x w'].
        - assert (d = []) by (destruct d; [reflexivity|exfalso; apply Hne; [discriminate|reflexivity]]).
          subst d. reflexivity.
        - destruct (prefix_cons x w' d Hpre) as [r Hd]. subst d.
          apply negb_false_iff in Hpend. cbn [seq_out].
          change (N.eqb CR LF) with false. cbv iota. change (N.eqb CR CR) with true. cbv iota.
          rewrite Hpend. reflexivity. }
      rewrite Hcur.
      destruct src as [|b w'].
      + assert (d = []) by (destruct d; [reflexivity|exfalso; apply Hne; [discriminate|reflexivity]]).
        subst d. exists [], (ib, false, st1), ib, false, st1, [], m1.
        split; [reflexivity|]. split; [reflexivity|]. split; [exact HR1|].
        split; [intros H; discriminate|]. split; [destruct ib; reflexivity|].
        intros H; congruence.
      + destruct (prefix_cons b w' d Hpre) as [r Hd]. subst d.
        set (src := b :: w') in *.
        destruct (N.eqb b LF || (ib && N.eqb b CR)) eqn:Hnl.
        * (* a line terminator byte, or a CR at the beginning of a line *)
          assert (HR2 : repb (br_consume 1 st1) r m1).
          { change r with (skipn 1 (b :: r)). apply (consume_k st1 src); auto. unfold src. cbn [length]. lia. }
          destruct (IH true false _ r m1 HR2 ltac:(intros H; discriminate)
                      ltac:(unfold mu in *; cbn [length] in *; destruct p; lia))
            as [piece [s' [ib2 [p2 [st2 [d2 [m2 [E [Ec [HR3 [Hi2 [Hs Hmu]]]]]]]]]]]].
          exists piece, s', ib2, p2, st2, d2, m2.
          split; [exact E|]. split; [exact Ec|]. split; [exact HR3|]. split; [exact Hi2|]. split.
          -- rewrite <- Hs. unfold spec, lst at 2. cbn [seq_out].
             destruct (N.eqb b LF) eqn:Hl; [reflexivity|].
             cbn [orb] in Hnl. apply andb_true_iff in Hnl. destruct Hnl as [Hib Hc].
             subst ib. unfold lst. rewrite Hc. reflexivity.
          -- intros Hn. specialize (Hmu Hn). unfold mu in *. cbn [length] in *. destruct p; lia.
        * apply orb_false_iff in Hnl. destruct Hnl as [Hl Hbc].
          destruct (ib && N.eqb b GT) eqn:Hgt.
          -- (* the next definition *)
             apply andb_true_iff in Hgt. destruct Hgt as [Hib Hg]. subst ib.
             apply N.eqb_eq in Hg. subst b.
             exists [], (true, false, st1), true, false, st1, (GT :: r), m1.
             split; [reflexivity|]. split; [reflexivity|]. split; [exact HR1|].
             split; [intros H; discriminate|]. split; [reflexivity|]. intros H; congruence.
          -- assert (Hline : until_lf src <> []).
             { unfold src. cbn [until_lf]. rewrite Hl. discriminate. }
             pose proof (until_lf_prefix src (b :: r) Hpre) as Hlp.
             pose proof (until_lf_no_lf src) as Hnolf.
             pose proof (mid_tail (until_lf src) (b :: r) Hlp Hnolf) as Hmt.
             assert (Hmid : seq_out (lst ib) (b :: r) = seq_out MID (b :: r)).
             { destruct ib; [|reflexivity]. cbn [andb] in Hbc, Hgt. unfold lst.
               apply bol_ordinary; assumption. }
             destruct (strip_cr (until_lf src)) as [|q piece'] eqn:Hsc.
             ++ (* the rest of the line in this window is a lone CR: hold it back *)
                pose proof (strip_cr_nil _ Hline Hsc) as Hcr.
                assert (Hb : b = CR).
                { unfold src in Hcr. cbn [until_lf] in Hcr. rewrite Hl in Hcr. injection Hcr as Hb _. exact Hb. }
                subst b.
                assert (Hib : ib = false).
                { destruct ib; [|reflexivity]. cbn [andb] in Hbc. discriminate. }
                subst ib.
                assert (HR2 : repb (br_consume 1 st1) r m1).
                { change r with (skipn 1 (CR :: r)). apply (consume_k st1 src); auto. unfold src. cbn [length]. lia. }
                destruct (IH false true _ r m1 HR2 ltac:(auto)
                            ltac:(unfold mu in *; cbn [length] in *; destruct p; lia))
                  as [piece [s' [ib2 [p2 [st2 [d2 [m2 [E [Ec [HR3 [Hi2 [Hs Hmu]]]]]]]]]]]].
                exists piece, s', ib2, p2, st2, d2, m2.
                split; [exact E|]. split; [exact Ec|]. split; [exact HR3|]. split; [exact Hi2|].
                split; [rewrite <- Hs; reflexivity|].
                intros Hn. specialize (Hmu Hn). unfold mu in *. cbn [length] in *. destruct p; lia.
             ++ set (piece := q :: piece') in *.
                assert (Hplen : length piece <= length src).
                { rewrite <- Hsc. pose proof (strip_cr_length (until_lf src)).
                  pose proof (until_lf_length src). lia. }
                exists piece, (ib, false, st1), false, false, (br_consume (length piece) st1),
                       (skipn (length piece) (b :: r)), m1.
                split; [reflexivity|]. split; [reflexivity|].
                split; [apply (consume_k st1 src); auto|]. split; [intros H; discriminate|]. split.
                ** rewrite Hmid, Hmt. reflexivity.
                ** intros _. unfold mu. rewrite skipn_length.
                   unfold piece. cbn [length]. destruct p; lia.
  Qed.

  (* read_sequence: the closed form, for every delivery *)
  Theorem read_sequence_spec : forall fuel ib p st d m acc,
    repb st d m -> (p = true -> ib = false) -> mu m d p < fuel ->
    exists s', read_sequence rd cap fuel (ib, p, st) acc = (SOk, acc ++ spec ib p d, s').
  Proof.
    induction fuel as [|fuel IH]; intros ib p st d m acc HR Hinv Hf; [lia|].
    cbn [read_sequence].
    destruct (step_spec (Datatypes.S fuel) ib p st d m HR Hinv ltac:(lia))
      as [piece [s' [ib2 [p2 [st2 [d2 [m2 [E [Ec [HR2 [Hi2 [Hs Hmu]]]]]]]]]]]].
    rewrite E. destruct piece as [|q piece'].
    - exists s'. rewrite Hs. rewrite app_nil_r. reflexivity.
    - rewrite Ec.
      destruct (IH ib2 p2 st2 d2 m2 (acc ++ q :: piece') HR2 Hi2) as [sf Ef].
      { assert (mu m2 d2 p2 < mu m d p) by (apply Hmu; discriminate). lia. }
      exists sf. rewrite Ef. rewrite Hs. rewrite <- app_assoc. reflexivity.
  Qed.

  (* ---- indexer::consume_sequence_line *)
  Definition flag (ec : bool) (l : list N) : bool := match l with [] => ec | _ => last_cr l end.
  Definition fin (f : bool) (n : nat) : nat := if f then n - 1 else n.

  Lemma csl_eol : forall fuel st d m ec w b, repb st d m -> m < fuel ->
    exists st' m', consume_sequence_line rd cap fuel st true ec w b = (SOk, w, fin ec b, st')
                   /\ repb st' d m' /\ m' <= m.
  Proof.
    induction fuel as [|fuel IH]; intros st d m ec w b HR Hf; [lia|].
    cbn [consume_sequence_line].
    pose proof (br_fill_buf_spec rd Rep Hsim cap Hcap st d m HR) as Hfb.
    destruct (br_fill_buf rd cap st) as [[src|] st1].
    - destruct Hfb as [_ [_ [_ [m1 [Hm1 HR1]]]]].
      destruct src; [|cbn [orb]]; exists st1, m1; (split; [reflexivity|split; [exact HR1|exact Hm1]]).
    - destruct Hfb as [m1 [Hm1 HR1]].
      destruct (IH st1 d m1 ec w b HR1 ltac:(lia)) as [st' [m' [E [HR' Hm']]]].
      exists st', m'. split; [exact E|]. split; [exact HR'|lia].
  Qed.

  Lemma csl_loop : forall fuel st d m ec w b,
    repb st d m -> m + length d + 1 < fuel ->
    (w = 0 -> match d with x :: _ => N.eqb x GT = false | [] => True end) ->
    exists st' m', consume_sequence_line rd cap fuel st false ec w b
                = (SOk, w + length (take_line LF d),
                   fin (flag ec (until_lf d)) (b + length (until_lf d)), st')
                /\ repb st' (skipn (length (take_line LF d)) d) m' /\ m' <= m.
  Proof.
    induction fuel as [|fuel IH]; intros st d m ec w b HR Hf Hgt; [lia|].
    cbn [consume_sequence_line].
    pose proof (br_fill_buf_spec rd Rep Hsim cap Hcap st d m HR) as Hfb.
    destruct (br_fill_buf rd cap st) as [[src|] st1].
    2:{ destruct Hfb as [m1 [Hm1 HR1]].
        destruct (IH st1 d m1 ec w b HR1 ltac:(lia) Hgt) as [st' [m' [E [HR' Hm']]]].
        exists st', m'. split; [exact E|]. split; [exact HR'|lia]. }
    destruct Hfb as [Hp [Hn [Hfst [m1 [Hm1 HR1]]]]].
    destruct src as [|x w'].
    - assert (d = []) by (destruct d; [reflexivity|exfalso; apply Hn; [discriminate|reflexivity]]).
      subst d. exists st1, m1. unfold csl_finish, fin, flag. cbn [take_line until_lf length skipn].
      rewrite !Nat.add_0_r. split; [reflexivity|]. split; [exact HR1|exact Hm1].
    - destruct (prefix_cons x w' d Hp) as [r Hdx].
      set (src := x :: w') in *.
      assert (Hchk : ((w =? 0) && N.eqb x GT) = false).
      { destruct (Nat.eqb_spec w 0) as [Hw|Hw]; [|reflexivity]. cbn [andb].
        specialize (Hgt Hw). rewrite Hdx in Hgt. exact Hgt. }
      rewrite Hchk. cbn [orb].
      assert (Hd : d = src ++ skipn (length src) d).
      { pose proof (firstn_skipn (length src) d) as Hx. rewrite <- Hp in Hx. apply eq_sym. exact Hx. }
      destruct (has_byte LF src) eqn:Hb.
      + set (l := until_lf src) in *.
        pose proof (until_lf_split src Hb) as Hs. fold l in Hs.
        pose proof (until_lf_no_lf src) as Hnl. fold l in Hnl.
        assert (Hlen : Datatypes.S (length l) <= length src).
        { pose proof (f_equal (@length N) Hs) as Hx. rewrite app_length in Hx. cbn [length] in Hx. lia. }
        assert (HR2 : repb (br_consume (Datatypes.S (length l)) st1) (skipn (Datatypes.S (length l)) d) m1)
          by (apply (consume_k st1 src); auto).
        destruct (csl_eol fuel _ _ m1 (match l with [] => ec | _ => last_cr l end)
                    (w + Datatypes.S (length l)) (b + length l) HR2 ltac:(lia)) as [st' [m' [E [HR' Hm']]]].
        exists st', m'. rewrite E.
        assert (Hdl : d = l ++ LF :: (skipn (Datatypes.S (length l)) src ++ skipn (length src) d)).
        { rewrite Hd at 1. rewrite Hs at 1. rewrite <- app_assoc. reflexivity. }
        assert (Htl : take_line LF d = l ++ [LF]).
        { rewrite Hdl. rewrite (has_byte_false_take_line LF l _ Hnl).
          cbn [take_line]. rewrite N.eqb_refl. reflexivity. }
        assert (Hul : until_lf d = l).
        { rewrite Hdl. rewrite (until_lf_app l _ Hnl). cbn [until_lf]. rewrite N.eqb_refl.
          apply app_nil_r. }
        rewrite Htl, Hul, app_length. cbn [length]. unfold flag.
        replace (length l + 1) with (Datatypes.S (length l)) by lia.
        split; [reflexivity|]. split; [exact HR'|lia].
      + pose proof (until_lf_all src Hb) as Hall.
        set (rest := skipn (length src) d) in *.
        assert (HR2 : repb (br_consume (length src) st1) rest m1)
          by (apply (consume_k st1 src); auto).
        destruct (IH _ rest m1 (last_cr src) (w + length src) (b + length src) HR2) as [st' [m' [E [HR' Hm']]]].
        { assert (length d = length src + length rest) by (rewrite Hd at 1; apply app_length).
          unfold src in *. cbn [length] in *. lia. }
        { intros H0. unfold src in H0. cbn [length] in H0. lia. }
        exists st', m'. rewrite E.
        assert (Htl : take_line LF d = src ++ take_line LF rest).
        { rewrite Hd at 1. apply has_byte_false_take_line. exact Hb. }
        assert (Hul : until_lf d = src ++ until_lf rest).
        { rewrite Hd at 1. apply until_lf_app. exact Hb. }
        rewrite Htl, Hul, !app_length.
        assert (Hfl : flag ec (src ++ until_lf rest) = flag (last_cr src) (until_lf rest)).
        { unfold flag. destruct (until_lf rest) as [|u us] eqn:Hu.
          - rewrite app_nil_r. reflexivity.
          - rewrite last_cr_app by discriminate. unfold src. reflexivity. }
        rewrite Hfl. rewrite !Nat.add_assoc. split; [reflexivity|].
        split; [|lia].
        replace (skipn (length src + length (take_line LF rest)) d)
          with (skipn (length (take_line LF rest)) rest); [exact HR'|].
        unfold rest. rewrite skipn_skipn_add. reflexivity.
  Qed.

  Lemma strip_cr_len : forall l, length (strip_cr l) = fin (last_cr l) (length l).
  Proof.
    induction l as [|a l IHl]; [reflexivity|]. cbn [strip_cr last_cr].
    destruct l; [unfold fin; destruct (N.eqb a CR); reflexivity|].
    cbn [length] in *. rewrite IHl. unfold fin. destruct (last_cr (n :: l)); lia.
  Qed.

  Lemma until_lf_take_line : forall d, until_lf (take_line LF d) = until_lf d.
  Proof.
    induction d as [|x d IH]; [reflexivity|]. cbn [take_line until_lf].
    destruct (N.eqb x LF) eqn:Hl; cbn [until_lf]; rewrite Hl; [reflexivity|]. f_equal. exact IH.
  Qed.

  (* one call at the beginning of a line: width of the raw line (including its LF), number of its
     bytes before the LF minus a final CR — for every delivery *)
  (* one call at the beginning of a line: width of the raw line (including its LF), number of its
     bytes before the LF minus a final CR — for every delivery; afterwards the reader represents
     the data behind that line *)
  Theorem consume_sequence_line_full_spec : forall fuel st d m,
    repb st d m -> m + length d + 1 < fuel ->
    exists st' m', consume_sequence_line rd cap fuel st false false 0 0
                = (SOk, length (idx_line d), length (strip_cr (until_lf (idx_line d))), st')
                /\ repb st' (skipn (length (idx_line d)) d) m' /\ m' <= m.
  Proof.
    intros fuel st d m HR Hf.
    destruct d as [|x r].
    - destruct (csl_loop fuel st [] m false 0 0 HR Hf (fun _ => I)) as [st' [m' [E [HR' Hm']]]].
      exists st', m'. rewrite E. split; [reflexivity|]. split; [exact HR'|exact Hm'].
    - destruct (N.eqb x GT) eqn:Hg.
      + (* a definition line: nothing is consumed *)
        unfold idx_line. rewrite Hg. cbn [until_lf strip_cr length skipn].
        assert (forall f st0 m0, m0 < f -> repb st0 (x :: r) m0 ->
                 exists st' m', consume_sequence_line rd cap f st0 false false 0 0 = (SOk, 0, 0, st')
                                /\ repb st' (x :: r) m' /\ m' <= m0) as Hgen.
        { induction f as [|f IHf]; intros st0 m0 Hm HR0; [lia|].
          cbn [consume_sequence_line].
          pose proof (br_fill_buf_spec rd Rep Hsim cap Hcap st0 (x :: r) m0 HR0) as Hfb.
          destruct (br_fill_buf rd cap st0) as [[src|] st1].
          - destruct Hfb as [Hp [Hn [_ [m1 [Hm1 HR1]]]]]. destruct src as [|y w'].
            + exists st1, m1. split; [reflexivity|]. split; [exact HR1|exact Hm1].
            + destruct (prefix_cons y w' _ Hp) as [r' Hd]. injection Hd as Hy _. subst y.
              rewrite Hg. cbn [Nat.eqb andb orb]. exists st1, m1.
              split; [reflexivity|]. split; [exact HR1|exact Hm1].
          - destruct Hfb as [m1 [Hm1 HR1]].
            destruct (IHf st1 m1 ltac:(lia) HR1) as [st' [m' [E [HR' Hm']]]].
            exists st', m'. split; [exact E|]. split; [exact HR'|lia]. }
        apply (Hgen fuel st m); [|exact HR]. lia.
      + destruct (csl_loop fuel st (x :: r) m false 0 0 HR Hf (fun _ => Hg)) as [st' [m' [E [HR' Hm']]]].
        exists st', m'. rewrite E. unfold idx_line. rewrite Hg.
        rewrite until_lf_take_line. rewrite strip_cr_len.
        cbn [Nat.add]. unfold flag.
        split; [destruct (until_lf (x :: r)); reflexivity|]. split; [exact HR'|exact Hm'].
  Qed.

  Theorem consume_sequence_line_spec : forall fuel st d m,
    repb st d m -> m + length d + 1 < fuel ->
    exists st', consume_sequence_line rd cap fuel st false false 0 0
                = (SOk, length (idx_line d), length (strip_cr (until_lf (idx_line d))), st').
  Proof.
    intros fuel st d m HR Hf.
    destruct (consume_sequence_line_full_spec fuel st d m HR Hf) as [st' [m' [E _]]].
    exists st'. exact E.
  Qed.
End ScanProofs.
