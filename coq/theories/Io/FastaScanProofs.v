(* C12 — chunk independence of the FASTA sequence scanner on well-formed sequence text, and its
   refutation on text with a bare CR or a '>' inside a line (candidate finding F4). *)
From Coq Require Import List NArith Arith Bool Lia.
From NV Require Import Io.Source Io.ReadExact Io.ReadExactProofs Io.BufReader Io.BufReaderProofs Io.FastaScan.
Import ListNotations.

Fixpoint drop_nl (d : list N) : list N :=
  match d with
  | [] => []
  | x :: r => if is_nl x then drop_nl r else d
  end.

Lemma drop_nl_length : forall d, length (drop_nl d) <= length d.
Proof.
  induction d as [|x r IH]; cbn [drop_nl length]; [lia|].
  destruct (is_nl x); cbn [length]; lia.
Qed.

Definition ordinary (b : N) : Prop := N.eqb b GT = false /\ N.eqb b CR = false /\ N.eqb b LF = false.

Lemma seq_spec_ordinary_app : forall p r, Forall ordinary p -> seq_spec (p ++ r) = p ++ seq_spec r.
Proof.
  intros p r H. induction H as [|x p [Hg [Hc Hl]] Hp IH]; [reflexivity|].
  unfold seq_spec in *. cbn [app take_seq]. rewrite Hg. cbn [filter].
  unfold is_nl at 1. rewrite Hc, Hl. cbn [orb negb]. f_equal. exact IH.
Qed.

Lemma seq_spec_drop_nl : forall d, seq_spec (drop_nl d) = seq_spec d.
Proof.
  induction d as [|x r IH]; [reflexivity|].
  cbn [drop_nl]. destruct (is_nl x) eqn:Hx; [|reflexivity].
  rewrite IH. unfold seq_spec. cbn [take_seq].
  assert (Hg : N.eqb x GT = false).
  { unfold is_nl in Hx. apply orb_true_iff in Hx. destruct Hx as [H|H]; apply N.eqb_eq in H; subst x; reflexivity. }
  rewrite Hg. cbn [filter]. rewrite Hx. reflexivity.
Qed.

Lemma wf_seq_drop_nl : forall d b, wf_seq b d -> exists b', wf_seq b' (drop_nl d).
Proof.
  induction d as [|x r IH]; intros b H.
  - exists b. exact H.
  - cbn [drop_nl]. destruct (is_nl x) eqn:Hx; [|exists b; exact H].
    unfold is_nl in Hx. cbn [wf_seq] in H.
    destruct (N.eqb x GT) eqn:Hg.
    { apply N.eqb_eq in Hg. subst x. discriminate. }
    destruct (N.eqb x CR) eqn:Hc.
    + destruct H as [_ H]. exact (IH false H).
    + cbn [orb] in Hx. rewrite Hx in H. exact (IH true H).
Qed.

(* the slice returned for the tail of a window: ordinary bytes only, a prefix of the data, and
   what follows is still well-formed in mid-line position *)
Lemma piece_tail : forall src d, src = firstn (length src) d -> wf_seq false d ->
  exists rest, d = strip_cr (until_lf src) ++ rest /\ Forall ordinary (strip_cr (until_lf src))
               /\ wf_seq false rest.
Proof.
  induction src as [|x s IH]; intros d Hp Hw.
  - exists d. cbn [until_lf strip_cr app]. auto.
  - destruct d as [|y d']; [discriminate|]. cbn [length firstn] in Hp.
    injection Hp as Hxy Hp'. subst y. cbn [until_lf].
    destruct (N.eqb x LF) eqn:Hl.
    { exists (x :: d'). cbn [strip_cr app]. auto. }
    cbn [wf_seq] in Hw. destruct (N.eqb x GT) eqn:Hg; [discriminate|].
    destruct (N.eqb x CR) eqn:Hc.
    + (* CR: the next byte of the data is LF or the data ends *)
      destruct Hw as [Hnext Hw'].
      assert (Hul : until_lf s = []).
      { destruct s as [|z s']; [reflexivity|].
        destruct d' as [|z' d'']; [discriminate|]. cbn [length firstn] in Hp'.
        injection Hp' as Hz _. subst z'. subst z. reflexivity. }
      rewrite Hul. cbn [strip_cr]. rewrite Hc. exists (x :: d'). cbn [app].
      split; [reflexivity|]. split; [constructor|].
      cbn [wf_seq]. rewrite Hg, Hc. auto.
    + rewrite Hl in Hw.
      destruct (IH d' Hp' Hw) as [rest [Hd [Hord Hwr]]].
      destruct (until_lf s) as [|z l] eqn:Hul.
      * cbn [strip_cr] in *. rewrite Hc. exists d'. cbn [app].
        split; [reflexivity|]. split; [|exact Hw].
        constructor; [|constructor]. unfold ordinary. auto.
      * exists rest. change (strip_cr (x :: z :: l)) with (x :: strip_cr (z :: l)).
        cbn [app]. split; [f_equal; exact Hd|]. split; [|exact Hwr].
        constructor; [unfold ordinary; auto|exact Hord].
Qed.

Lemma piece_head : forall x s d' b,
  (x :: s) = firstn (length (x :: s)) (x :: d') -> wf_seq b (x :: d') ->
  is_nl x = false -> N.eqb x GT = false ->
  exists p rest, strip_cr (until_lf (x :: s)) = x :: p /\ x :: d' = (x :: p) ++ rest
                 /\ Forall ordinary (x :: p) /\ wf_seq false rest.
Proof.
  intros x s d' b Hp Hw Hnl Hg.
  unfold is_nl in Hnl. apply orb_false_iff in Hnl. destruct Hnl as [Hc Hl].
  cbn [length firstn] in Hp. injection Hp as Hp'.
  cbn [wf_seq] in Hw. rewrite Hg, Hc, Hl in Hw.
  destruct (piece_tail s d' Hp' Hw) as [rest [Hd [Hord Hwr]]].
  cbn [until_lf]. rewrite Hl.
  destruct (until_lf s) as [|z l] eqn:Hul.
  - cbn [strip_cr] in *. rewrite Hc. exists [], d'. cbn [app].
    split; [reflexivity|]. split; [reflexivity|]. split; [|exact Hw].
    constructor; [unfold ordinary; auto|constructor].
  - exists (strip_cr (z :: l)), rest.
    change (strip_cr (x :: z :: l)) with (x :: strip_cr (z :: l)).
    split; [reflexivity|]. cbn [app]. split; [f_equal; exact Hd|].
    split; [|exact Hwr]. constructor; [unfold ordinary; auto|exact Hord].
Qed.


(* ---- indexer line consumer: facts about one window *)
Definition not_nl (b : N) : bool := negb (is_nl b).
Definition seq_line (d : list N) : list N := take_line LF (take_seq d).

Lemma until_lf_no_lf : forall w, has_byte LF (until_lf w) = false.
Proof.
  induction w as [|x w IH]; [reflexivity|]. cbn [until_lf].
  destruct (N.eqb x LF) eqn:Hl; [reflexivity|].
  cbn [has_byte existsb]. rewrite N.eqb_sym, Hl. exact IH.
Qed.

Lemma until_lf_all : forall w, has_byte LF w = false -> until_lf w = w.
Proof.
  induction w as [|x w IH]; intros H; [reflexivity|].
  cbn [has_byte existsb] in H. apply orb_false_iff in H. destruct H as [Hx Hw].
  cbn [until_lf]. rewrite N.eqb_sym, Hx. f_equal. exact (IH Hw).
Qed.

Lemma until_lf_split : forall w, has_byte LF w = true ->
  w = until_lf w ++ LF :: skipn (Datatypes.S (length (until_lf w))) w.
Proof.
  induction w as [|x w IH]; intros H; [discriminate|].
  cbn [until_lf]. destruct (N.eqb x LF) eqn:Hl.
  - apply N.eqb_eq in Hl. subst x. reflexivity.
  - cbn [has_byte existsb] in H. rewrite N.eqb_sym, Hl in H. cbn [orb] in H.
    cbn [app length skipn]. f_equal. exact (IH H).
Qed.

Lemma take_seq_app_nogt : forall l r, Forall (fun b => N.eqb b GT = false) l ->
  take_seq (l ++ r) = l ++ take_seq r.
Proof.
  intros l r H. induction H as [|x l Hx Hl IH]; [reflexivity|].
  cbn [app take_seq]. rewrite Hx. f_equal. exact IH.
Qed.

Lemma win_any : forall src d b, src = firstn (length src) d -> wf_seq b d ->
  match src with x :: _ => N.eqb x GT = false | [] => True end ->
  let l := until_lf src in
  Forall (fun c => N.eqb c GT = false) l
  /\ length (filter not_nl l) = length (strip_cr l)
  /\ (l <> [] -> wf_seq false (skipn (length l) d)).
Proof.
  induction src as [|x s IH]; intros d b Hp Hw Hh; cbn zeta.
  - cbn [until_lf]. split; [constructor|]. split; [reflexivity|]. intros H; congruence.
  - destruct d as [|y d']; [discriminate|]. cbn [length firstn] in Hp.
    injection Hp as Hxy Hp'. subst y. cbn [until_lf].
    destruct (N.eqb x LF) eqn:Hl.
    { split; [constructor|]. split; [reflexivity|]. intros H; congruence. }
    cbn [wf_seq] in Hw. rewrite Hh in Hw.
    assert (Hw' : wf_seq false d').
    { destruct (N.eqb x CR); [exact (proj2 Hw)|]. rewrite Hl in Hw. exact Hw. }
    assert (Hh' : match s with z :: _ => N.eqb z GT = false | [] => True end).
    { destruct s as [|z s']; [exact I|].
      destruct d' as [|z' d'']; [discriminate|]. cbn [length firstn] in Hp'.
      injection Hp' as Hz _. subst z'. cbn [wf_seq] in Hw'.
      destruct (N.eqb z GT); [discriminate|reflexivity]. }
    destruct (IH d' false Hp' Hw' Hh') as [H1 [H2 H4]].
    split; [constructor; assumption|]. split.
    + cbn [filter]. unfold not_nl at 1, is_nl. rewrite Hl, orb_false_r.
      destruct (N.eqb x CR) eqn:Hc.
      * (* CR: the window ends here or LF follows, so nothing more on this line *)
        assert (Hul : until_lf s = []).
        { destruct Hw as [Hnext _].
          destruct s as [|z s']; [reflexivity|].
          destruct d' as [|z' d'']; [discriminate|]. cbn [length firstn] in Hp'.
          injection Hp' as Hz _. subst z'. subst z. reflexivity. }
        rewrite Hul. cbn [negb filter strip_cr length]. rewrite Hc. reflexivity.
      * cbn [negb]. destruct (until_lf s) as [|z l'] eqn:Hul.
        -- cbn [filter strip_cr length]. rewrite Hc. reflexivity.
        -- change (strip_cr (x :: z :: l')) with (x :: strip_cr (z :: l')).
           cbn [length]. f_equal. exact H2.
    + intros _. cbn [length skipn].
      destruct (until_lf s) as [|z l'] eqn:Hul; [exact Hw'|].
      apply H4. congruence.
Qed.

Section ScanProofs.
  Context {S : Type}.
  Variable rd : reader S.
  Variable Rep : S -> list N -> nat -> Prop.
  Hypothesis Hsim : simulates rd Rep.
  Variable cap : nat.
  Hypothesis Hcap : 1 <= cap.

  Notation rep0 st d := (rep_buf Rep st d 0).

  Lemma fill0_nil : forall st, rep0 st [] ->
    exists st1, br_fill_buf rd cap st = (ROk [], st1) /\ rep0 st1 [].
  Proof.
    intros st HR. pose proof (br_fill_buf_spec rd Rep Hsim cap Hcap st [] 0 HR) as H.
    destruct (br_fill_buf rd cap st) as [[w|] st1].
    - destruct H as [Hpre [_ [_ [m' [Hm' HR']]]]]. rewrite firstn_nil in Hpre. subst w.
      exists st1. assert (m' = 0) by lia. subst m'. auto.
    - destruct H as [m' [Hm' _]]. lia.
  Qed.

  Lemma fill0_cons : forall st x r, rep0 st (x :: r) ->
    exists w' st1, br_fill_buf rd cap st = (ROk (x :: w'), st1)
      /\ x :: w' = firstn (length (x :: w')) (x :: r)
      /\ fst st1 = x :: w' /\ rep0 st1 (x :: r).
  Proof.
    intros st x r HR. pose proof (br_fill_buf_spec rd Rep Hsim cap Hcap st (x :: r) 0 HR) as H.
    destruct (br_fill_buf rd cap st) as [[w|] st1].
    - destruct H as [Hpre [Hne [Hfst [m' [Hm' HR']]]]].
      assert (m' = 0) by lia. subst m'.
      destruct w as [|y w']; [exfalso; apply Hne; [discriminate|reflexivity]|].
      assert (y = x). { cbn [length firstn] in Hpre. injection Hpre as Hy _. exact Hy. }
      subst y. exists w', st1. auto.
    - destruct H as [m' [Hm' _]]. lia.
  Qed.

  Lemma consume1 : forall st1 x w' r, fst st1 = x :: w' -> rep0 st1 (x :: r) ->
    rep0 (br_consume 1 st1) r.
  Proof.
    intros st1 x w' r Hfst HR.
    change r with (skipn 1 (x :: r)). apply br_consume_spec; [exact HR|].
    rewrite Hfst. cbn [length]. lia.
  Qed.

  Lemma cel_spec : forall fuel st d, rep0 st d -> length d < fuel ->
    exists st', consume_empty_lines rd cap fuel st = (SOk, st') /\ rep0 st' (drop_nl d).
  Proof.
    induction fuel as [|fuel IH]; intros st d HR Hf; [lia|].
    cbn [consume_empty_lines].
    destruct d as [|x r].
    - destruct (fill0_nil st HR) as [st1 [E1 HR1]]. rewrite E1. cbn [strip_if].
      destruct (fill0_nil st1 HR1) as [st3 [E3 HR3]]. rewrite E3. cbn [strip_if orb].
      exists st3. auto.
    - destruct (fill0_cons st x r HR) as [w' [st1 [E1 [Hp1 [Hf1 HR1]]]]]. rewrite E1.
      cbn [strip_if drop_nl]. unfold is_nl.
      destruct (N.eqb x CR) eqn:Hc.
      + cbn [orb].
        pose proof (consume1 st1 x w' r Hf1 HR1) as HR2.
        destruct r as [|y r'].
        * destruct (fill0_nil _ HR2) as [st3 [E3 HR3]]. rewrite E3. cbn [strip_if orb].
          destruct (IH st3 [] HR3 ltac:(cbn [length] in *; lia)) as [st' [E HR']].
          exists st'. auto.
        * destruct (fill0_cons _ y r' HR2) as [w2 [st3 [E3 [Hp3 [Hf3 HR3]]]]]. rewrite E3.
          cbn [strip_if]. destruct (N.eqb y LF) eqn:Hl.
          -- cbn [orb]. pose proof (consume1 st3 y w2 r' Hf3 HR3) as HR4.
             destruct (IH _ r' HR4 ltac:(cbn [length] in *; lia)) as [st' [E HR']].
             exists st'. split; [exact E|]. cbn [drop_nl]. unfold is_nl. rewrite Hl.
             rewrite orb_true_r. exact HR'.
          -- cbn [orb].
             destruct (IH st3 (y :: r') HR3 ltac:(cbn [length] in *; lia)) as [st' [E HR']].
             exists st'. auto.
      + cbn [orb].
        destruct (fill0_cons st1 x r HR1) as [w2 [st3 [E3 [Hp3 [Hf3 HR3]]]]]. rewrite E3.
        cbn [strip_if]. destruct (N.eqb x LF) eqn:Hl.
        * cbn [orb]. pose proof (consume1 st3 x w2 r Hf3 HR3) as HR4.
          destruct (IH _ r HR4 ltac:(cbn [length] in *; lia)) as [st' [E HR']].
          exists st'. auto.
        * cbn [orb]. exists st3. auto.
  Qed.

  (* read_sequence: on well-formed text the result is seq_spec of the data, whatever the windows *)
  Theorem read_sequence_spec : forall fuel st d b acc,
    rep0 st d -> wf_seq b d -> length d < fuel ->
    exists st', read_sequence rd cap fuel st acc = (SOk, acc ++ seq_spec d, st').
  Proof.
    induction fuel as [|fuel IH]; intros st d b acc HR Hw Hf; [lia|].
    cbn [read_sequence]. unfold seq_fill_buf.
    destruct (cel_spec (Datatypes.S fuel) st d HR Hf) as [st1 [E1 HR1]]. rewrite E1.
    destruct (wf_seq_drop_nl d b Hw) as [b1 Hw1].
    rewrite <- (seq_spec_drop_nl d).
    pose proof (drop_nl_length d) as Hdl.
    assert (Hhead : match drop_nl d with [] => True | x :: _ => is_nl x = false end).
    { clear. induction d as [|x r IHd]; cbn [drop_nl]; [exact I|].
      destruct (is_nl x) eqn:Hx; [exact IHd|exact Hx]. }
    destruct (drop_nl d) as [|x r].
    - destruct (fill0_nil st1 HR1) as [st2 [E2 HR2]]. rewrite E2.
      exists st2. unfold seq_spec. cbn [take_seq filter]. rewrite app_nil_r. reflexivity.
    - destruct (fill0_cons st1 x r HR1) as [w' [st2 [E2 [Hp2 [Hf2 HR2]]]]]. rewrite E2.
      destruct (N.eqb x GT) eqn:Hg.
      + exists st2. unfold seq_spec. cbn [take_seq]. rewrite Hg. cbn [filter].
        rewrite app_nil_r. reflexivity.
      + destruct (piece_head x w' r b1 Hp2 Hw1 Hhead Hg) as [p [rest [Ep [Hd [Hord Hwr]]]]].
        rewrite Ep.
        assert (HR3 : rep0 (br_consume (length (x :: p)) st2) rest).
        { replace rest with (skipn (length (x :: p)) (x :: r)).
          - apply br_consume_spec; [exact HR2|]. rewrite Hf2.
            rewrite <- Ep. clear. generalize (x :: w'). intros l.
            assert (H1 : forall l0, length (strip_cr l0) <= length l0).
            { induction l0 as [|a l0 IHl]; [cbn; lia|]. cbn [strip_cr].
              destruct l0; [destruct (N.eqb a CR); cbn [length]; lia|].
              cbn [length] in *. lia. }
            assert (H2 : forall l0, length (until_lf l0) <= length l0).
            { induction l0 as [|a l0 IHl]; [cbn; lia|]. cbn [until_lf].
              destruct (N.eqb a LF); cbn [length]; lia. }
            specialize (H1 (until_lf l)). specialize (H2 l). lia.
          - rewrite Hd. rewrite skipn_app_le by lia.
            rewrite skipn_all. reflexivity. }
        destruct (IH _ rest false (acc ++ x :: p) HR3 Hwr) as [st' E].
        { assert (length (x :: r) = length (x :: p) + length rest) by (rewrite Hd, app_length; reflexivity).
          cbn [length] in *. lia. }
        exists st'. rewrite E. rewrite Hd. rewrite (seq_spec_ordinary_app (x :: p) rest Hord).
        rewrite <- app_assoc. reflexivity.
  Qed.

  (* ---- indexer::consume_sequence_line *)
  Lemma csl_eol : forall fuel st d w b, rep0 st d -> 0 < fuel ->
    exists st', consume_sequence_line rd cap fuel st true w b = (SOk, w, b, st').
  Proof.
    intros fuel st d w b HR Hf. destruct fuel as [|fuel]; [lia|].
    cbn [consume_sequence_line]. destruct d as [|x r].
    - destruct (fill0_nil st HR) as [st1 [E1 _]]. rewrite E1. exists st1. reflexivity.
    - destruct (fill0_cons st x r HR) as [w' [st1 [E1 _]]]. rewrite E1. cbn [orb].
      exists st1. reflexivity.
  Qed.

  Theorem consume_sequence_line_spec : forall fuel st d b w0 b0,
    rep0 st d -> wf_seq b d -> length d + 1 < fuel ->
    exists st', consume_sequence_line rd cap fuel st false w0 b0
                = (SOk, w0 + length (seq_line d), b0 + length (filter not_nl (seq_line d)), st').
  Proof.
    induction fuel as [|fuel IH]; intros st d b w0 b0 HR Hw Hf; [lia|].
    cbn [consume_sequence_line]. destruct d as [|x r].
    - destruct (fill0_nil st HR) as [st1 [E1 _]]. rewrite E1. exists st1.
      unfold seq_line. cbn [take_seq take_line filter length]. rewrite !Nat.add_0_r. reflexivity.
    - destruct (fill0_cons st x r HR) as [w' [st1 [E1 [Hp1 [Hf1 HR1]]]]]. rewrite E1.
      cbn [orb]. destruct (N.eqb x GT) eqn:Hg.
      { exists st1. unfold seq_line. cbn [take_seq]. rewrite Hg.
        cbn [take_line filter length]. rewrite !Nat.add_0_r. reflexivity. }
      set (src := x :: w') in *.
      destruct (win_any src (x :: r) b Hp1 Hw Hg) as [H1 [H2 H4]].
      assert (Hd : x :: r = src ++ skipn (length src) (x :: r)).
      { pose proof (firstn_skipn (length src) (x :: r)) as Hx. rewrite <- Hp1 in Hx.
        apply eq_sym. exact Hx. }
      destruct (has_byte LF src) eqn:Hb.
      + (* the line ends inside this window *)
        set (l := until_lf src) in *.
        pose proof (until_lf_split src Hb) as Hs. fold l in Hs.
        assert (Hline : seq_line (x :: r) = l ++ [LF]).
        { unfold seq_line. rewrite Hd. rewrite Hs at 1. rewrite <- app_assoc.
          rewrite (take_seq_app_nogt l _ H1). cbn [app take_seq].
          change (N.eqb LF GT) with false. cbv iota.
          rewrite (has_byte_false_take_line LF l _ (until_lf_no_lf src)).
          cbn [take_line]. rewrite N.eqb_refl. reflexivity. }
        assert (HR2 : rep0 (br_consume (Datatypes.S (length l)) st1) (skipn (Datatypes.S (length l)) (x :: r))).
        { apply br_consume_spec; [exact HR1|]. rewrite Hf1.
          pose proof (f_equal (@length N) Hs) as Hx. rewrite app_length in Hx.
          cbn [length] in Hx. fold src. lia. }
        destruct (csl_eol fuel _ _ (w0 + Datatypes.S (length l)) (b0 + count_bases l) HR2)
          as [st' E]; [cbn [length] in Hf; lia|].
        exists st'. rewrite E. rewrite Hline. rewrite app_length. cbn [length].
        rewrite filter_app. cbn [filter]. unfold not_nl at 2, is_nl.
        change (N.eqb LF LF) with true. rewrite orb_true_r. cbn [negb].
        rewrite app_nil_r. unfold count_bases. rewrite H2.
        replace (length l + 1) with (Datatypes.S (length l)) by lia. reflexivity.
      + (* no line feed in this window: the line continues *)
        pose proof (until_lf_all src Hb) as Hall. rewrite Hall in H1, H2, H4.
        set (rest := skipn (length src) (x :: r)) in *.
        assert (Hwr : wf_seq false rest) by (apply H4; unfold src; discriminate).
        assert (HR2 : rep0 (br_consume (length src) st1) rest).
        { apply br_consume_spec; [exact HR1|]. rewrite Hf1. lia. }
        destruct (IH _ rest false (w0 + length src) (b0 + count_bases src) HR2 Hwr) as [st' E].
        { assert (length (x :: r) = length src + length rest) by (rewrite Hd at 1; apply app_length).
          unfold src in *. cbn [length] in *. lia. }
        exists st'. rewrite E.
        assert (Hline : seq_line (x :: r) = src ++ seq_line rest).
        { unfold seq_line. rewrite Hd. rewrite (take_seq_app_nogt src _ H1).
          apply has_byte_false_take_line. exact Hb. }
        rewrite Hline. rewrite app_length, filter_app, app_length.
        unfold count_bases. rewrite H2. rewrite !Nat.add_assoc. reflexivity.
  Qed.
End ScanProofs.
