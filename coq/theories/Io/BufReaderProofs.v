(* C12 — BufReader is transparent (any capacity >= 1) and read_until / read_line do not depend
   on the delivery schedule. *)
From Coq Require Import List NArith Arith Bool Lia.
From NV Require Import Io.Source Io.ReadExact Io.ReadExactProofs Io.BufReader.
Import ListNotations.

Lemma skipn_app_le : forall (A : Type) (j : nat) (w r : list A),
  j <= length w -> skipn j (w ++ r) = skipn j w ++ r.
Proof.
  intros A j. induction j as [|j IH]; intros w r Hj.
  - reflexivity.
  - destruct w as [|x w]; cbn [length] in Hj; [lia|].
    cbn [skipn app]. apply IH. lia.
Qed.

Lemma firstn_app_le : forall (A : Type) (j : nat) (w r : list A),
  j <= length w -> firstn j (w ++ r) = firstn j w.
Proof.
  intros A j. induction j as [|j IH]; intros w r Hj.
  - reflexivity.
  - destruct w as [|x w]; cbn [length] in Hj; [lia|].
    cbn [firstn app]. f_equal. apply IH. lia.
Qed.

Lemma firstn_min_length : forall (A : Type) (n : nat) (l : list A),
  firstn n l = firstn (Nat.min n (length l)) l.
Proof.
  intros A n l. destruct (Nat.le_ge_cases n (length l)) as [H|H].
  - rewrite Nat.min_l by exact H. reflexivity.
  - rewrite Nat.min_r by exact H. rewrite !firstn_all2; auto.
Qed.

Lemma skipn_min_length : forall (A : Type) (n : nat) (l : list A),
  skipn n l = skipn (Nat.min n (length l)) l.
Proof.
  intros A n l. destruct (Nat.le_ge_cases n (length l)) as [H|H].
  - rewrite Nat.min_l by exact H. reflexivity.
  - rewrite Nat.min_r by exact H. rewrite !skipn_all2; auto.
Qed.

Section BufReaderProofs.
  Context {S : Type}.
  Variable rd : reader S.
  Variable Rep : S -> list N -> nat -> Prop.
  Hypothesis Hsim : simulates rd Rep.
  Variable cap : nat.
  Hypothesis Hcap : 1 <= cap.

  Definition rep_buf (st : bstate S) (d : list N) (m : nat) : Prop :=
    exists d', d = fst st ++ d' /\ Rep (snd st) d' m.

  (* fill_buf: Interrupted (m decreases) or a window that is a prefix of the data, non-empty
     unless the data is exhausted; the state still represents the same data *)
  Lemma br_fill_buf_spec : forall st d m, rep_buf st d m ->
    match br_fill_buf rd cap st with
    | (RInt, st') => exists m', m' < m /\ rep_buf st' d m'
    | (ROk w, st') => w = firstn (length w) d /\ (d <> [] -> w <> []) /\ fst st' = w /\
                      exists m', m' <= m /\ rep_buf st' d m'
    end.
  Proof.
    intros [buf s] d m [d' [Hd HR]]. cbn [fst snd] in Hd, HR.
    destruct buf as [|b buf].
    - cbn [app] in Hd. subst d'. cbn [br_fill_buf].
      pose proof (Hsim s d m cap HR) as Hs.
      destruct (rd s cap) as [[bs|] s'].
      + destruct Hs as [[Hpre [Hle Hpos]] [m' [Hm' HR']]].
        split; [exact Hpre|]. split.
        * intros Hne Hbs. subst bs. cbn [length] in Hpos.
          assert (0 < 0) by (apply Hpos; [lia|exact Hne]). lia.
        * split; [reflexivity|]. exists m'. split; [exact Hm'|].
          exists (skipn (length bs) d). cbn [fst snd]. split; [|exact HR'].
          pose proof (firstn_skipn (length bs) d) as Hx. rewrite <- Hpre in Hx.
          apply eq_sym. exact Hx.
      + destruct Hs as [m' [Hm' HR']]. exists m'. split; [exact Hm'|].
        exists d. cbn [fst snd app]. auto.
    - cbn [br_fill_buf]. split.
      + rewrite Hd. rewrite firstn_app_le by lia. rewrite firstn_all. reflexivity.
      + split; [intros _ H; discriminate|]. split; [reflexivity|].
        exists m. split; [lia|]. exists d'. cbn [fst snd]. auto.
  Qed.

  Lemma br_consume_spec : forall st d m n, rep_buf st d m -> n <= length (fst st) ->
    rep_buf (br_consume n st) (skipn n d) m.
  Proof.
    intros [buf s] d m n [d' [Hd HR]] Hn. cbn [fst snd] in *.
    exists d'. unfold br_consume. cbn [fst snd]. split; [|exact HR].
    subst d. apply skipn_app_le. exact Hn.
  Qed.

  (* a BufReader over a well-behaved reader is a well-behaved reader of the same data *)
  Theorem br_simulates : simulates (br_read rd cap) rep_buf.
  Proof.
    intros [buf s] d m n HR.
    destruct buf as [|b buf].
    - cbn [br_read]. destruct (Nat.leb_spec cap n) as [Hc|Hc].
      + (* bypass *)
        destruct HR as [d' [Hd HR]]. cbn [fst snd app] in Hd, HR. subst d'.
        pose proof (Hsim s d m n HR) as Hs.
        destruct (rd s n) as [[bs|] s'].
        * destruct Hs as [Hok [m' [Hm' HR']]]. split; [exact Hok|].
          exists m'. split; [exact Hm'|]. exists (skipn (length bs) d). cbn [fst snd app]. auto.
        * destruct Hs as [m' [Hm' HR']]. exists m'. split; [exact Hm'|].
          exists d. cbn [fst snd app]. auto.
      + pose proof (br_fill_buf_spec ([], s) d m HR) as Hf.
        destruct (br_fill_buf rd cap ([], s)) as [[w|] st'].
        * destruct Hf as [Hpre [Hne [Hfst [m' [Hm' HR']]]]].
          assert (Hwd : length w <= length d).
          { rewrite Hpre. rewrite firstn_length. lia. }
          split.
          -- repeat split.
             ++ rewrite firstn_length.
                transitivity (firstn (Nat.min n (length w)) (firstn (length w) d)).
                { rewrite <- Hpre. apply firstn_min_length. }
                rewrite firstn_firstn. f_equal. lia.
             ++ rewrite firstn_length. lia.
             ++ intros Hn Hd. rewrite firstn_length.
                assert (w <> []) by (apply Hne; exact Hd).
                destruct w; [congruence|cbn [length]; lia].
          -- exists m'. split; [exact Hm'|].
             rewrite firstn_length.
             assert (Ec : br_consume n st' = br_consume (Nat.min n (length w)) st').
             { unfold br_consume. f_equal. rewrite Hfst. apply skipn_min_length. }
             rewrite Ec. apply br_consume_spec; [exact HR'|]. rewrite Hfst. lia.
        * destruct Hf as [m' [Hm' HR']]. exists m'. auto.
    - cbn [br_read]. destruct HR as [d' [Hd HR]]. cbn [fst snd] in Hd, HR.
      set (buf' := b :: buf) in *.
      split.
      + repeat split.
        * rewrite firstn_length. rewrite (firstn_min_length N n buf').
          rewrite Hd. rewrite firstn_app_le by lia. reflexivity.
        * rewrite firstn_length. lia.
        * intros Hn _. rewrite firstn_length. unfold buf'. cbn [length]. lia.
      + exists m. split; [lia|]. exists d'. cbn [fst snd]. split; [|exact HR].
        rewrite firstn_length. rewrite Hd. rewrite skipn_app_le by lia.
        rewrite <- (skipn_min_length N n buf'). reflexivity.
  Qed.

  (* ---- read_until *)
  Lemma has_byte_false_take_line : forall delim w r,
    has_byte delim w = false -> take_line delim (w ++ r) = w ++ take_line delim r.
  Proof.
    intros delim w r. induction w as [|x w IH]; intros H.
    - reflexivity.
    - cbn [has_byte existsb] in H. apply orb_false_iff in H. destruct H as [Hx Hw].
      cbn [app take_line]. rewrite N.eqb_sym in Hx. rewrite Hx. f_equal. apply IH. exact Hw.
  Qed.

  Lemma has_byte_true_take_line : forall delim w r,
    has_byte delim w = true -> take_line delim (w ++ r) = take_line delim w.
  Proof.
    intros delim w r. induction w as [|x w IH]; intros H.
    - discriminate.
    - cbn [has_byte existsb] in H. cbn [app take_line].
      destruct (N.eqb x delim) eqn:Hx; [reflexivity|].
      rewrite N.eqb_sym in H. rewrite Hx in H. cbn [orb] in H. f_equal. apply IH. exact H.
  Qed.

  Lemma take_line_length_le : forall delim w, length (take_line delim w) <= length w.
  Proof.
    intros delim w. induction w as [|x w IH]; cbn [take_line length]; [lia|].
    destruct (N.eqb x delim); cbn [length]; lia.
  Qed.

  Theorem read_until_loop_spec : forall delim fuel st d m acc,
    rep_buf st d m -> m + length d + 1 < fuel ->
    exists st' m',
      read_until_loop rd cap delim fuel st acc = (acc ++ take_line delim d, UOk, st')
      /\ rep_buf st' (skipn (length (take_line delim d)) d) m' /\ m' <= m.
  Proof.
    intros delim fuel. induction fuel as [|fuel IH]; intros st d m acc HR Hf; [lia|].
    cbn [read_until_loop].
    pose proof (br_fill_buf_spec st d m HR) as Hfb.
    destruct (br_fill_buf rd cap st) as [[w|] st1].
    - destruct Hfb as [Hpre [Hne [Hfst [m1 [Hm1 HR1]]]]].
      assert (Hd : d = w ++ skipn (length w) d).
      { pose proof (firstn_skipn (length w) d) as Hx. rewrite <- Hpre in Hx.
        apply eq_sym. exact Hx. }
      destruct (has_byte delim w) eqn:Hb.
      + (* delimiter inside the window *)
        assert (Htl : take_line delim d = take_line delim w).
        { rewrite Hd. apply has_byte_true_take_line. exact Hb. }
        exists (br_consume (length (take_line delim w)) st1), m1.
        rewrite Htl. split; [reflexivity|]. split; [|exact Hm1].
        apply br_consume_spec; [exact HR1|]. rewrite Hfst. apply take_line_length_le.
      + assert (Htl : take_line delim d = w ++ take_line delim (skipn (length w) d)).
        { rewrite Hd at 1. apply has_byte_false_take_line. exact Hb. }
        destruct w as [|x w].
        * (* end of data *)
          assert (Hdn : d = []).
          { destruct d as [|y d]; [reflexivity|]. exfalso. apply Hne; [discriminate|reflexivity]. }
          subst d. cbn [take_line length skipn]. rewrite app_nil_r.
          exists st1, m1. auto.
        * set (w' := x :: w) in *.
          assert (Hlen : length w' <= length d).
          { rewrite Hpre. rewrite firstn_length. lia. }
          assert (HR2 : rep_buf (br_consume (length w') st1) (skipn (length w') d) m1).
          { apply br_consume_spec; [exact HR1|]. rewrite Hfst. lia. }
          destruct (IH (br_consume (length w') st1) (skipn (length w') d) m1 (acc ++ w') HR2)
            as [st' [m' [E [HR' Hm']]]].
          { rewrite skipn_length. unfold w' in *. cbn [length] in *. lia. }
          exists st', m'. rewrite E. rewrite Htl. rewrite <- app_assoc.
          split; [reflexivity|]. split; [|lia].
          rewrite app_length. rewrite skipn_skipn_add in HR'. exact HR'.
    - destruct Hfb as [m1 [Hm1 HR1]].
      destruct (IH st1 d m1 acc HR1 ltac:(lia)) as [st' [m' [E [HR' Hm']]]].
      exists st', m'. rewrite E. split; [reflexivity|]. split; [exact HR'|lia].
  Qed.

  Theorem read_until_spec : forall delim fuel st d m,
    rep_buf st d m -> m + length d + 1 < fuel ->
    exists st' m',
      read_until rd cap delim fuel st = (take_line delim d, UOk, st')
      /\ rep_buf st' (skipn (length (take_line delim d)) d) m' /\ m' <= m.
  Proof.
    intros delim fuel st d m HR Hf.
    destruct (read_until_loop_spec delim fuel st d m [] HR Hf) as [st' [m' [E H]]].
    exists st', m'. unfold read_until. rewrite E. auto.
  Qed.

  (* noodles read_line: consumed length and stripped line are functions of the data alone *)
  Theorem read_line_spec : forall fuel st d m,
    rep_buf st d m -> m + length d + 1 < fuel ->
    exists st' m',
      read_line rd cap fuel st
        = (length (take_line LF d), strip_eol (take_line LF d), UOk, st')
      /\ rep_buf st' (skipn (length (take_line LF d)) d) m' /\ m' <= m.
  Proof.
    intros fuel st d m HR Hf.
    destruct (read_until_spec LF fuel st d m HR Hf) as [st' [m' [E H]]].
    exists st', m'. unfold read_line. rewrite E. auto.
  Qed.

  (* gff::io::Reader::read_line: blank lines are skipped; closed form on the data *)
  Fixpoint gff_closed (lines : nat) (d : list N) : option (nat * list N * list N) :=
    match lines with
    | 0 => None
    | Datatypes.S k =>
      let l := take_line LF d in
      if (length l =? 0) || negb (forallb is_ascii_ws (strip_eol l))
      then Some (length l, strip_eol l, skipn (length l) d)
      else gff_closed k (skipn (length l) d)
    end.

  Theorem gff_read_line_spec : forall lines fuel st d m n l rest,
    rep_buf st d m -> m + length d + 1 < fuel -> gff_closed lines d = Some (n, l, rest) ->
    exists st' m', gff_read_line rd cap lines fuel st = (n, l, UOk, st') /\ rep_buf st' rest m' /\ m' <= m.
  Proof.
    induction lines as [|lines IH]; intros fuel st d m n l rest HR Hf Hc; [discriminate|].
    cbn [gff_read_line gff_closed] in *.
    destruct (read_line_spec fuel st d m HR Hf) as [st1 [m1 [E1 [HR1 Hm1]]]]. rewrite E1.
    destruct ((length (take_line LF d) =? 0) || negb (forallb is_ascii_ws (strip_eol (take_line LF d)))).
    - injection Hc as Hn Hl Hr. subst n l rest. exists st1, m1. auto.
    - destruct (IH fuel st1 _ m1 n l rest HR1) as [st' [m' [E [HR' Hm']]]]; [|exact Hc|].
      + rewrite skipn_length. lia.
      + exists st', m'. split; [exact E|]. split; [exact HR'|lia].
  Qed.
End BufReaderProofs.
