(* C12 — the delivered BED record reader (BedRead) equals the whole-buffer closed form
   [w_bed_read_record] (C18's bed_read_record with the tree's CR rule) on the data, for every delivery through a BufReader of capacity >= 1:
   same result, same record (buffer and bounds, including the stale bounds of a reused record),
   and the reader is left at the same rest. *)
From Coq Require Import List NArith Arith Bool Lia.
From NV Require Import Io.Source Io.ReadExact Io.ReadExactProofs Io.BufReader Io.BufReaderProofs
  Io.FastaScan Io.FastaScanProofs Io.BedRead.
From NV Require Text.TextBase Text.BedRec.
Import ListNotations.

(* ---- vocabulary *)
Lemma skip_aux_true : forall d,
  BedRec.skip_comments_aux true d = BedRec.skip_comments (skipn (length (take_line LF d)) d).
Proof.
  induction d as [|b t IH]; [reflexivity|].
  cbn [BedRec.skip_comments_aux take_line]. change (b =? 10)%N with (N.eqb b LF).
  destruct (N.eqb b LF); [reflexivity|]. cbn [length skipn]. exact IH.
Qed.

Lemma skip_comments_len : forall b d, length (BedRec.skip_comments_aux b d) <= length d.
Proof.
  intros b d. revert b. induction d as [|x t IH]; intros b; [destruct b; cbn; lia|].
  cbn [BedRec.skip_comments_aux]. destruct b.
  - destruct (x =? 10)%N; specialize (IH false) + specialize (IH true); cbn [length]; lia.
  - destruct (x =? 35)%N; [specialize (IH true); cbn [length]; lia|cbn [length]; lia].
Qed.

Lemma bscan_none : forall w f r0, BedRec.scan_field w = (f, None, r0) ->
  f = w /\ r0 = [] /\
  forall r, BedRec.scan_field (w ++ r)
            = (w ++ fst (fst (BedRec.scan_field r)), snd (fst (BedRec.scan_field r)),
               snd (BedRec.scan_field r)).
Proof.
  induction w as [|b t IH]; intros f r0 H.
  - cbn [BedRec.scan_field] in H. injection H as <- <-. repeat split.
    intros r. cbn [app]. destruct (BedRec.scan_field r) as [[a c] e]. reflexivity.
  - cbn [BedRec.scan_field] in H.
    destruct ((b =? 9)%N || (b =? 10)%N) eqn:Hd; [discriminate|].
    destruct (BedRec.scan_field t) as [[n1 dl1] r1] eqn:E.
    injection H as <- Hdl <-. subst dl1.
    destruct (IH n1 r1 eq_refl) as [Hn [Hr Hall]]. subst n1 r1. repeat split.
    intros r. cbn [app BedRec.scan_field]. rewrite Hd. rewrite Hall. reflexivity.
Qed.

Lemma bscan_some : forall w f b rw, BedRec.scan_field w = (f, Some b, rw) ->
  w = f ++ b :: rw /\ forall r, BedRec.scan_field (w ++ r) = (f, Some b, rw ++ r).
Proof.
  induction w as [|c t IH]; intros f b rw H.
  - cbn [BedRec.scan_field] in H. discriminate.
  - cbn [BedRec.scan_field] in H.
    destruct ((c =? 9)%N || (c =? 10)%N) eqn:Hd.
    + injection H as <- <- <-. split; [reflexivity|]. intros r. cbn [app BedRec.scan_field].
      rewrite Hd. reflexivity.
    + destruct (BedRec.scan_field t) as [[n1 dl1] r1] eqn:E.
      injection H as <- Hdl <-. subst dl1.
      destruct (IH n1 b r1 eq_refl) as [Hw Hall]. split; [cbn [app]; f_equal; exact Hw|].
      intros r. cbn [app BedRec.scan_field]. rewrite Hd. rewrite Hall. reflexivity.
Qed.

Lemma bscan_len : forall src f d r, BedRec.scan_field src = (f, d, r) ->
  match d with
  | None => r = [] /\ length f = length src
  | Some _ => length src = Datatypes.S (length f + length r)
  end.
Proof.
  induction src as [|b t IH]; intros f d r H.
  - cbn [BedRec.scan_field] in H. injection H as <- <- <-. auto.
  - cbn [BedRec.scan_field] in H. destruct ((b =? 9)%N || (b =? 10)%N).
    + injection H as <- <- <-. cbn [length]. lia.
    + destruct (BedRec.scan_field t) as [[f' d'] r'] eqn:E. injection H as <- <- <-.
      specialize (IH f' d' r' eq_refl). destruct d'; cbn [length]; [lia|].
      destruct IH as [Hr Hl]. split; [exact Hr|lia].
Qed.

Section BedProofs.
  Context {S : Type}.
  Variable rd : reader S.
  Variable Rep : S -> list N -> nat -> Prop.
  Hypothesis Hsim : simulates rd Rep.
  Variable cap : nat.
  Hypothesis Hcap : 1 <= cap.

  Notation repb st d m := (rep_buf Rep st d m).

  Lemma wsplit : forall (src d : list N), src = firstn (length src) d ->
    d = src ++ skipn (length src) d.
  Proof.
    intros src d Hp. pose proof (firstn_skipn (length src) d) as Hx. rewrite <- Hp in Hx.
    apply eq_sym. exact Hx.
  Qed.

  Lemma d_discard_line_spec : forall fuel st d m, repb st d m -> m + length d + 1 < fuel ->
    exists st' m', d_discard_line rd cap fuel st false = (SOk, st')
                   /\ repb st' (skipn (length (take_line LF d)) d) m' /\ m' <= m.
  Proof.
    induction fuel as [|fuel IH]; intros st d m HR Hf; [lia|].
    cbn [d_discard_line].
    pose proof (br_fill_buf_spec rd Rep Hsim cap Hcap st d m HR) as Hfb.
    destruct (br_fill_buf rd cap st) as [[src|] st1].
    2:{ destruct Hfb as [m1 [Hm1 HR1]].
        destruct (IH st1 d m1 HR1 ltac:(lia)) as [st' [m' [E [HR' Hm']]]].
        exists st', m'. split; [exact E|]. split; [exact HR'|lia]. }
    destruct Hfb as [Hp [Hn [Hfst [m1 [Hm1 HR1]]]]].
    destruct src as [|x w'].
    - assert (d = []) by (destruct d; [reflexivity|exfalso; apply Hn; [discriminate|reflexivity]]).
      subst d. exists st1, m1. cbn [take_line length skipn].
      split; [reflexivity|]. split; [exact HR1|exact Hm1].
    - set (src := x :: w') in *.
      pose proof (wsplit src d Hp) as Hd.
      set (rest := skipn (length src) d) in *.
      destruct (has_byte LF src) eqn:Hb.
      + assert (Htl : take_line LF d = take_line LF src).
        { rewrite Hd. apply has_byte_true_take_line. exact Hb. }
        pose proof (take_line_length_le cap Hcap LF src) as Hle.
        exists (br_consume (length (take_line LF src)) st1), m1.
        rewrite Htl. split.
        * destruct fuel; reflexivity.
        * split; [|exact Hm1]. apply (consume_k Rep st1 src); auto.
      + assert (HR2 : repb (br_consume (length src) st1) rest m1)
          by (apply (consume_k Rep st1 src); auto).
        assert (Hlr : length d = length src + length rest) by (rewrite Hd at 1; apply app_length).
        destruct (IH _ rest m1 HR2) as [st' [m' [E [HR' Hm']]]].
        { unfold src in *. cbn [length] in *. lia. }
        exists st', m'. rewrite E. split; [reflexivity|]. split; [|lia].
        assert (Htl : take_line LF d = src ++ take_line LF rest).
        { rewrite Hd at 1. apply has_byte_false_take_line. exact Hb. }
        rewrite Htl, app_length.
        replace (skipn (length src + length (take_line LF rest)) d)
          with (skipn (length (take_line LF rest)) rest); [exact HR'|].
        unfold rest. rewrite skipn_skipn_add. reflexivity.
  Qed.

  Lemma d_skip_comments_spec : forall k fuel st d m,
    repb st d m -> m + length d < k -> m + length d + 1 < fuel ->
    exists st' m', d_skip_comments rd cap k fuel st = (SOk, st')
                   /\ repb st' (BedRec.skip_comments d) m' /\ m' <= m.
  Proof.
    induction k as [|k IH]; intros fuel st d m HR Hk Hf; [lia|].
    cbn [d_skip_comments].
    pose proof (br_fill_buf_spec rd Rep Hsim cap Hcap st d m HR) as Hfb.
    destruct (br_fill_buf rd cap st) as [[src|] st1].
    2:{ destruct Hfb as [m1 [Hm1 HR1]].
        destruct (IH fuel st1 d m1 HR1 ltac:(lia) ltac:(lia)) as [st' [m' [E [HR' Hm']]]].
        exists st', m'. split; [exact E|]. split; [exact HR'|lia]. }
    destruct Hfb as [Hp [Hn [Hfst [m1 [Hm1 HR1]]]]].
    destruct src as [|x w'].
    - assert (d = []) by (destruct d; [reflexivity|exfalso; apply Hn; [discriminate|reflexivity]]).
      subst d. exists st1, m1. split; [reflexivity|]. split; [exact HR1|exact Hm1].
    - destruct (prefix_cons x w' d Hp) as [r Hd]. subst d.
      unfold BedRec.skip_comments. cbn [BedRec.skip_comments_aux].
      change (x =? 35)%N with (N.eqb x 35).
      destruct (N.eqb x 35) eqn:Hx.
      + destruct (d_discard_line_spec fuel st1 (x :: r) m1 HR1 ltac:(lia)) as [st2 [m2 [E2 [HR2 Hm2]]]].
        rewrite E2. rewrite skip_aux_true.
        assert (Htl : take_line LF (x :: r) = x :: take_line LF r).
        { cbn [take_line]. apply N.eqb_eq in Hx. subst x. reflexivity. }
        rewrite Htl in HR2. cbn [length skipn] in HR2.
        pose proof (take_line_length_le cap Hcap LF r) as Hle.
        destruct (IH fuel st2 _ m2 HR2) as [st' [m' [E [HR' Hm']]]].
        { rewrite skipn_length. cbn [length] in Hk. lia. }
        { rewrite skipn_length. cbn [length] in Hf. lia. }
        exists st', m'. split; [exact E|]. split; [exact HR'|lia].
      + exists st1, m1. split; [reflexivity|]. split; [exact HR1|exact Hm1].
  Qed.

  (* after the delimiter has been met: one more fill_buf, nothing consumed *)
  Lemma d_read_field_done : forall fuel st d m dst c len, repb st d m -> m < fuel ->
    exists st' m', d_read_field_loop rd cap fuel st dst (Some c) len = (SOk, dst, Some c, len, st')
                   /\ repb st' d m' /\ m' <= m.
  Proof.
    induction fuel as [|fuel IH]; intros st d m dst c len HR Hf; [lia|].
    cbn [d_read_field_loop].
    pose proof (br_fill_buf_spec rd Rep Hsim cap Hcap st d m HR) as Hfb.
    destruct (br_fill_buf rd cap st) as [[src|] st1].
    - destruct Hfb as [_ [_ [_ [m1 [Hm1 HR1]]]]].
      exists st1, m1. split; [reflexivity|]. split; [exact HR1|exact Hm1].
    - destruct Hfb as [m1 [Hm1 HR1]].
      destruct (IH st1 d m1 dst c len HR1 ltac:(lia)) as [st' [m' [E [HR' Hm']]]].
      exists st', m'. split; [exact E|]. split; [exact HR'|lia].
  Qed.

  Definition fld_n (f : list N) (dl : option N) : nat :=
    match dl with Some _ => Datatypes.S (length f) | None => length f end.

  Lemma d_read_field_loop_spec : forall fuel st d m dst len,
    repb st d m -> m + length d + 2 < fuel ->
    exists st' m',
      d_read_field_loop rd cap fuel st dst None len
        = (SOk, dst ++ fst (fst (BedRec.scan_field d)), snd (fst (BedRec.scan_field d)),
           len + fld_n (fst (fst (BedRec.scan_field d))) (snd (fst (BedRec.scan_field d))), st')
      /\ repb st' (snd (BedRec.scan_field d)) m' /\ m' <= m.
  Proof.
    induction fuel as [|fuel IH]; intros st d m dst len HR Hf; [lia|].
    cbn [d_read_field_loop].
    pose proof (br_fill_buf_spec rd Rep Hsim cap Hcap st d m HR) as Hfb.
    destruct (br_fill_buf rd cap st) as [[src|] st1].
    2:{ destruct Hfb as [m1 [Hm1 HR1]].
        destruct (IH st1 d m1 dst len HR1 ltac:(lia)) as [st' [m' [E [HR' Hm']]]].
        exists st', m'. split; [exact E|]. split; [exact HR'|lia]. }
    destruct Hfb as [Hp [Hn [Hfst [m1 [Hm1 HR1]]]]].
    destruct src as [|x w'].
    - assert (d = []) by (destruct d; [reflexivity|exfalso; apply Hn; [discriminate|reflexivity]]).
      subst d. exists st1, m1. cbn [BedRec.scan_field fst snd fld_n length]. rewrite app_nil_r, Nat.add_0_r.
      split; [reflexivity|]. split; [exact HR1|exact Hm1].
    - set (src := x :: w') in *.
      pose proof (wsplit src d Hp) as Hd.
      set (rest := skipn (length src) d) in *.
      assert (Hlr : length d = length src + length rest) by (rewrite Hd at 1; apply app_length).
      destruct (BedRec.scan_field src) as [[f dl] rw] eqn:Esc.
      unfold src at 1. fold src.
      destruct dl as [b|].
      + destruct (bscan_some src f b rw Esc) as [Hw Hall].
        assert (Hsc : BedRec.scan_field d = (f, Some b, rw ++ rest)) by (rewrite Hd at 1; apply Hall).
        rewrite Hsc. cbn [fst snd fld_n].
        pose proof (f_equal (@length N) Hw) as Hx. rewrite app_length in Hx. cbn [length] in Hx.
        assert (HR2 : repb (br_consume (Datatypes.S (length f)) st1) (rw ++ rest) m1).
        { replace (rw ++ rest) with (skipn (Datatypes.S (length f)) d).
          { apply (consume_k Rep st1 src); auto. lia. }
          assert (Hdd : d = f ++ [b] ++ (rw ++ rest)).
          { rewrite Hd. rewrite Hw. rewrite <- !app_assoc. reflexivity. }
          rewrite Hdd at 1.
          replace (Datatypes.S (length f)) with (length f + 1) by lia.
          rewrite <- skipn_skipn_add. rewrite skipn_app_le by lia.
          rewrite skipn_all. reflexivity. }
        destruct (d_read_field_done fuel _ _ m1 (dst ++ f) b (len + Datatypes.S (length f)) HR2 ltac:(lia))
          as [st' [m' [E [HR' Hm']]]].
        exists st', m'. rewrite E. split; [reflexivity|]. split; [exact HR'|lia].
      + destruct (bscan_none src f rw Esc) as [Hn' [Hrw Hall]]. subst f rw.
        assert (HR2 : repb (br_consume (length src) st1) rest m1)
          by (apply (consume_k Rep st1 src); auto).
        destruct (IH _ rest m1 (dst ++ src) (len + length src) HR2) as [st' [m' [E [HR' Hm']]]].
        { unfold src in *. cbn [length] in *. lia. }
        assert (Hsc : BedRec.scan_field d = (src ++ fst (fst (BedRec.scan_field rest)),
                  snd (fst (BedRec.scan_field rest)), snd (BedRec.scan_field rest)))
          by (rewrite Hd at 1; apply Hall).
        exists st', m'. rewrite E. rewrite Hsc. cbn [fst snd].
        rewrite <- app_assoc. split; [|split; [exact HR'|lia]].
        unfold fld_n. destruct (snd (fst (BedRec.scan_field rest)));
          rewrite app_length; repeat (f_equal; try lia).
  Qed.

  (* read_field = the whole-buffer closed form on the data *)
  Lemma d_read_field_spec : forall fuel st d m dst,
    repb st d m -> m + length d + 2 < fuel ->
    exists st' m',
      d_read_field rd cap fuel st dst
        = (SOk, fst (fst (fst (w_read_field d dst))), snd (fst (fst (w_read_field d dst))),
           snd (fst (w_read_field d dst)), st')
      /\ repb st' (snd (w_read_field d dst)) m' /\ m' <= m
      /\ length (snd (w_read_field d dst)) + snd (fst (fst (w_read_field d dst))) = length d.
  Proof.
    intros fuel st d m dst HR Hf. unfold d_read_field, w_read_field.
    destruct (d_read_field_loop_spec fuel st d m dst 0 HR Hf) as [st' [m' [E [HR' Hm']]]].
    rewrite E.
    destruct (BedRec.scan_field d) as [[f dl] r] eqn:Esc. cbn [fst snd] in *.
    pose proof (bscan_len _ _ _ _ Esc) as Hl.
    exists st', m'. destruct dl as [c|]; cbn [fst snd fld_n Nat.add].
    - split; [reflexivity|]. split; [exact HR'|]. split; [exact Hm'|].
      cbn [fld_n] in *. lia.
    - destruct Hl as [Hr Hlen]. subst r. split; [reflexivity|]. split; [exact HR'|]. split; [exact Hm'|].
      cbn [length]. lia.
  Qed.

  Lemma d_read_required_spec : forall k fuel st d m dst ends len,
    repb st d m -> m + length d + 2 < fuel ->
    match w_read_required k d dst ends len with
    | (ok, src1, dst1, ends1, len1) =>
        exists st' m', d_read_required rd cap k fuel st dst ends len = (Some (ok, dst1, ends1, len1), st')
                       /\ repb st' src1 m' /\ m' <= m /\ length src1 <= length d
    end.
  Proof.
    induction k as [|k IH]; intros fuel st d m dst ends len HR Hf.
    - cbn [w_read_required d_read_required]. exists st, m. auto.
    - cbn [w_read_required d_read_required].
      destruct (d_read_field_spec fuel st d m dst HR Hf) as [st1 [m1 [E1 [HR1 [Hm1 Hl1]]]]].
      rewrite E1. destruct (w_read_field d dst) as [[[dst1 n1] eol] src1]. cbn [fst snd] in *.
      destruct eol.
      + exists st1, m1. split; [reflexivity|]. split; [exact HR1|]. split; lia.
      + pose proof (IH fuel st1 src1 m1 dst1 (ends ++ [length dst1]) (len + n1) HR1 ltac:(lia)) as HI.
        destruct (w_read_required k src1 dst1 (ends ++ [length dst1]) (len + n1))
          as [[[[ok src2] dst2] ends2] len2].
        destruct HI as [st' [m' [E [HR' [Hm' Hl']]]]].
        exists st', m'. split; [exact E|]. split; [exact HR'|]. split; lia.
  Qed.

  Lemma w_read_field_len : forall d dst,
    length (snd (w_read_field d dst)) + snd (fst (fst (w_read_field d dst))) = length d.
  Proof.
    intros d dst. unfold w_read_field.
    destruct (BedRec.scan_field d) as [[f dl] r] eqn:Esc.
    pose proof (bscan_len _ _ _ _ Esc) as Hl.
    destruct dl as [c|]; cbn [fst snd].
    - lia.
    - destruct Hl as [Hr Hlen]. subst r. cbn [length]. lia.
  Qed.

  (* the other-fields loop ends within |src| + 1 turns, and its rest is no longer than its input *)
  Lemma w_read_others_fuel : forall fuel src dst oth len, length src < fuel ->
    exists src3 dst3 oth3 len3,
      w_read_others fuel src dst oth len = Some (src3, dst3, oth3, len3) /\ length src3 <= length src.
  Proof.
    induction fuel as [|fuel IH]; intros src dst oth len Hf; [lia|].
    cbn [w_read_others]. pose proof (w_read_field_len src dst) as Hl.
    destruct (w_read_field src dst) as [[[dst1 n1] eol] src1]. cbn [fst snd] in Hl.
    destruct (Nat.eqb_spec n1 0) as [Hn|Hn].
    - eexists _, _, _, _. split; [reflexivity|lia].
    - destruct eol.
      + eexists _, _, _, _. split; [reflexivity|lia].
      + destruct (IH src1 dst1 (oth ++ [length dst1]) (len + n1) ltac:(lia))
          as [s3 [d3 [o3 [l3 [E Hle]]]]].
        exists s3, d3, o3, l3. split; [exact E|lia].
  Qed.

  Lemma d_read_others_spec : forall fo ko fuel st d m dst oth len,
    repb st d m -> length d < fo -> fo <= ko -> m + length d + 2 < fuel ->
    match w_read_others fo d dst oth len with
    | Some (src3, dst3, oth3, len3) =>
        exists st' m', d_read_others rd cap ko fuel st dst oth len = (Some (dst3, oth3, len3), st')
                       /\ repb st' src3 m' /\ m' <= m
    | None => True
    end.
  Proof.
    induction fo as [|fo IH]; intros ko fuel st d m dst oth len HR Hfo Hko Hf; [lia|].
    destruct ko as [|ko]; [lia|].
    cbn [w_read_others d_read_others].
    destruct (d_read_field_spec fuel st d m dst HR Hf) as [st1 [m1 [E1 [HR1 [Hm1 Hl1]]]]].
    rewrite E1. destruct (w_read_field d dst) as [[[dst1 n1] eol] src1]. cbn [fst snd] in *.
    destruct (Nat.eqb_spec n1 0) as [Hn|Hn].
    - exists st1, m1. split; [reflexivity|]. split; [exact HR1|exact Hm1].
    - destruct eol.
      + exists st1, m1. split; [reflexivity|]. split; [exact HR1|exact Hm1].
      + pose proof (IH ko fuel st1 src1 m1 dst1 (oth ++ [length dst1]) (len + n1) HR1
                      ltac:(lia) ltac:(lia) ltac:(lia)) as HI.
        destruct (w_read_others fo src1 dst1 (oth ++ [length dst1]) (len + n1))
          as [[[[src3 dst3] oth3] len3]|]; [|exact I].
        destruct HI as [st' [m' [E [HR' Hm']]]].
        exists st', m'. split; [exact E|]. split; [exact HR'|lia].
  Qed.

  (* read_record_N = the whole-buffer closed form on the data *)
  Theorem d_bed_read_record_spec : forall n k fuel st d m old,
    repb st d m -> m + length d < k -> m + length d + 2 < fuel ->
    exists st' m',
      d_bed_read_record rd cap n k fuel st old
        = (fst (fst (w_bed_read_record n d old)), snd (w_bed_read_record n d old), st')
      /\ repb st' (snd (fst (w_bed_read_record n d old))) m' /\ m' <= m
      /\ length (snd (fst (w_bed_read_record n d old))) <= length d.
  Proof.
    intros n k fuel st d m old HR Hk Hf. unfold d_bed_read_record, w_bed_read_record.
    destruct (d_skip_comments_spec k fuel st d m HR Hk ltac:(lia)) as [st0 [m0 [E0 [HR0 Hm0]]]].
    rewrite E0.
    pose proof (skip_comments_len false d) as Hl0. fold (BedRec.skip_comments d) in Hl0.
    set (d0 := BedRec.skip_comments d) in *.
    pose proof (d_read_required_spec (n - 1) fuel st0 d0 m0 [] [] 0 HR0 ltac:(lia)) as H1.
    destruct (w_read_required (n - 1) d0 [] [] 0) as [[[[ok src1] dst1] ends] len].
    destruct H1 as [st1 [m1 [E1 [HR1 [Hm1 Hl1]]]]]. rewrite E1.
    destruct ok; cbn [negb].
    2:{ exists st1, m1. cbn [fst snd]. split; [reflexivity|]. split; [exact HR1|]. split; lia. }
    destruct (d_read_field_spec fuel st1 src1 m1 dst1 HR1 ltac:(lia)) as [st2 [m2 [E2 [HR2 [Hm2 Hl2]]]]].
    rewrite E2. destruct (w_read_field src1 dst1) as [[[dst2 n2] eol] src2]. cbn [fst snd] in *.
    destruct eol.
    - exists st2, m2. cbn [fst snd]. split; [reflexivity|]. split; [exact HR2|]. split; lia.
    - pose proof (d_read_others_spec (Datatypes.S (length src2)) k fuel st2 src2 m2 dst2 [] (len + n2)
                    HR2 ltac:(lia) ltac:(lia) ltac:(lia)) as H3.
      destruct (w_read_others_fuel (Datatypes.S (length src2)) src2 dst2 [] (len + n2) ltac:(lia))
        as [src3 [dst3 [oth3 [len3 [E3 Hle3]]]]].
      rewrite E3 in *. destruct H3 as [st3 [m3 [E3' [HR3 Hm3]]]]. rewrite E3'.
      exists st3, m3. cbn [fst snd]. split; [reflexivity|]. split; [exact HR3|]. split; lia.
  Qed.

  Theorem d_bed_read_raw_spec : forall j n k fuel st d m rec,
    repb st d m -> m + length d < k -> m + length d + 2 < fuel ->
    exists st', d_bed_read_raw rd cap j n k fuel st rec = (w_bed_read_raw j n d rec, st').
  Proof.
    induction j as [|j IH]; intros n k fuel st d m rec HR Hk Hf.
    - exists st. reflexivity.
    - cbn [d_bed_read_raw w_bed_read_raw].
      destruct (d_bed_read_record_spec n k fuel st d m rec HR Hk Hf) as [st1 [m1 [E [HR1 [Hm1 Hl1]]]]].
      rewrite E.
      destruct (w_bed_read_record n d rec) as [[r src'] rec']. cbn [fst snd] in *.
      destruct (IH n k fuel st1 src' m1 rec' HR1 ltac:(lia) ltac:(lia)) as [st2 E2].
      destruct r as [[|q]|e|].
      + exists st1. reflexivity.
      + rewrite E2. exists st2. reflexivity.
      + rewrite E2. exists st2. reflexivity.
      + rewrite E2. exists st2. reflexivity.
  Qed.
End BedProofs.
