(* C12 — read_sequence (read_to_end through the sequence reader's Read impl): over ANY simulating
   reader behind a BufReader of any capacity >= 1, with whatever sizes read_to_end asks for,
   exactly the sequence bytes [seq_spec] of the data; on the scripted source: every script. *)
From Coq Require Import List NArith Arith Bool Lia.
From NV Require Import Io.Source Io.ReadExact Io.ReadExactProofs Io.BufReader Io.BufReaderProofs
  Io.FastaScan Io.FastaScanProofs Io.Run Io.Prog Io.ProgProofs Io.ProgRun Io.ProgRunProofs
  Io.SeqRead Io.SeqReadProofs Io.SeqRun.
Import ListNotations.
Local Open Scope nat_scope.

Theorem sq_read_to_end_spec :
  forall (S : Type) (rd : reader S) (Rep : S -> list N -> nat -> Prop), simulates rd Rep ->
  forall cap, 1 <= cap ->
  forall fuel (req : nat -> nat) st d m, rep_buf Rep st d m -> m + 2 * length d < fuel ->
    exists s', run_raw (sq_read rd cap fuel) req (fun _ n => n + 1)
                 (Take (Datatypes.S (length d)) (fun bs => Ret bs)) (true, false, st)
               = (RVal (seq_spec d), s').
Proof.
  intros S rd Rep Hsim cap Hcap fuel req st d m HR Hf.
  pose proof (sq_read_simulates rd Rep Hsim cap Hcap fuel) as HsimS.
  pose proof (simulates_bounded _ _ _ 0 HsimS) as HsimB.
  destruct (run_raw_spec _ (sq_read rd cap fuel) (bounded (rep_seq Rep fuel) 0) HsimB
              req (fun _ n => n + 1)
              ltac:(intros s0 d0 m0 n0 [_ Hb]; lia)
              _ (Take (Datatypes.S (length d)) (fun bs => Ret bs)) ltac:(intros bs; exact I)
              (true, false, st) (seq_spec d) 0)
    as [s' [m' [E _]]].
  - split; [|lia]. exact (rep_seq_fresh Rep cap Hcap fuel st d m HR Hf).
  - exists s'. rewrite E. cbn [run_pure fst].
    rewrite firstn_all2; [reflexivity|].
    pose proof (seq_out_length_le d BOL). unfold seq_spec. lia.
Qed.

(* read_to_end ends with a read that returned Ok(0): whatever holds after such a read holds for
   the state read_to_end leaves *)
Lemma drain_loop_eof_post :
  forall (S : Type) (rd : reader S) (Rep : S -> list N -> nat -> Prop), simulates rd Rep ->
  forall (Q : S -> Prop),
    (forall s d m n s', Rep s d m -> 0 < n -> rd s n = (ROk [], s') -> Q s') ->
  forall req fuel s d m n acc bs s', Rep s d m ->
    NV.Async.ReadExact.drain_loop rd req fuel s n acc = (bs, HitEof, s') -> Q s'.
Proof.
  intros S rd Rep Hsim Q Hq req fuel.
  induction fuel as [|fuel IH]; intros s d m n acc bs s' HR E.
  - destruct n; cbn [NV.Async.ReadExact.drain_loop] in E; discriminate.
  - destruct n as [|n]; [cbn [NV.Async.ReadExact.drain_loop] in E; discriminate|].
    cbn [NV.Async.ReadExact.drain_loop] in E.
    set (q := Nat.min (Datatypes.S n) (Nat.max 1 (req (Datatypes.S fuel)))) in E.
    assert (Hq0 : 0 < q) by (unfold q; lia).
    pose proof (Hsim s d m q HR) as Hs.
    destruct (rd s q) as [[bs0|] s1] eqn:Er.
    + destruct Hs as [_ [m' [_ HR']]].
      destruct bs0 as [|x bs0].
      * injection E as _ Es. subst s1. exact (Hq s d m q s' HR Hq0 Er).
      * exact (IH _ _ _ _ _ _ _ HR' E).
    + destruct Hs as [m' [_ HR']]. exact (IH _ _ _ _ _ _ _ HR' E).
Qed.

(* read_sequence, result AND position: the bytes are the sequence bytes of the data and the inner
   BufReader is left standing for exactly [seq_rest BOL d]: the data from the next definition line
   (a '>' at a line start) on, or nothing *)
Theorem sq_read_to_end_pos_spec :
  forall (S : Type) (rd : reader S) (Rep : S -> list N -> nat -> Prop), simulates rd Rep ->
  forall cap, 1 <= cap ->
  forall fuel (req : nat -> nat) st d m, rep_buf Rep st d m -> m + 2 * length d < fuel ->
    exists s' mi, run_raw (sq_read rd cap fuel) req (fun _ n => n + 1)
                    (Take (Datatypes.S (length d)) (fun bs => Ret bs)) (true, false, st)
                  = (RVal (seq_spec d), s')
                  /\ rep_buf Rep (snd s') (seq_rest BOL d) mi.
Proof.
  intros S rd Rep Hsim cap Hcap fuel req st d m HR Hf.
  set (R := seq_rest BOL d).
  pose proof (sq_read_simulates_pos rd Rep Hsim cap Hcap fuel R) as HsimS.
  pose proof (simulates_bounded _ _ _ 0 HsimS) as HsimB.
  assert (HR0 : bounded (rep_pos Rep fuel R) 0 (true, false, st) (seq_spec d) 0).
  { split; [|lia]. exact (rep_pos_fresh Rep cap Hcap fuel st d m HR Hf). }
  set (n := Datatypes.S (length d)).
  destruct (NV.Async.ReadExactProofs.drain_loop_spec (sq_read rd cap fuel) _ HsimB req (n + 1)
              (true, false, st) (seq_spec d) 0 n [] HR0 ltac:(lia)) as [s1 [m1 [E _]]].
  assert (Hlen : length (seq_spec d) < n).
  { pose proof (seq_out_length_le d BOL). unfold seq_spec, n. lia. }
  assert (Hle : (n <=? length (seq_spec d)) = false) by (apply Nat.leb_gt; exact Hlen).
  rewrite Hle in E. cbn [app] in E. rewrite firstn_all2 in E by lia.
  pose proof (drain_loop_eof_post _ (sq_read rd cap fuel) _ HsimB
                (fun s' => exists mi, rep_buf Rep (snd s') R mi)
                ltac:(intros s0 d0 m0 n0 s0' [HRp _] Hn0 Er; exact (sq_read_eof_pos rd Rep Hsim cap Hcap fuel R s0 d0 m0 n0 s0' HRp Hn0 Er))
                req (n + 1) _ _ _ n [] _ _ HR0 E) as [mi Hpos].
  exists s1, mi. split; [|exact Hpos].
  unfold run_raw. cbn [run_rd]. fold n. rewrite E. reflexivity.
Qed.

Theorem run_seq_read_to_end_spec : forall data sc cap chunk, 1 <= cap ->
  fst (run_seq_read_to_end cap chunk (mkSource data sc)) = COk (seq_spec data).
Proof.
  intros data sc cap chunk Hcap. unfold run_seq_read_to_end, seq_fuel. cbn [s_script s_data].
  set (fuel := n_interrupted sc + 2 * length data + 2).
  destruct (sq_read_to_end_spec source src_read rep_src src_simulates cap Hcap fuel (fun _ => chunk)
              ([], mkSource data sc) data (n_interrupted sc)) as [s' E].
  - exists data. cbn [fst snd app]. split; [reflexivity|]. split; reflexivity.
  - unfold fuel. lia.
  - unfold bstate in E. rewrite E. reflexivity.
Qed.

(* ... and the number of source bytes not yet handed to the sequence reader is the length of
   what follows the sequence: the position of the inner reader is a function of the data alone *)
Theorem run_seq_read_to_end_pos_spec : forall data sc cap chunk, 1 <= cap ->
  run_seq_read_to_end cap chunk (mkSource data sc) = (COk (seq_spec data), length (seq_rest BOL data)).
Proof.
  intros data sc cap chunk Hcap. unfold run_seq_read_to_end, seq_fuel. cbn [s_script s_data].
  set (fuel := n_interrupted sc + 2 * length data + 2).
  destruct (sq_read_to_end_pos_spec source src_read rep_src src_simulates cap Hcap fuel (fun _ => chunk)
              ([], mkSource data sc) data (n_interrupted sc)) as [s' [mi [E [d' [Hd [Hs _]]]]]].
  - exists data. cbn [fst snd app]. split; [reflexivity|]. split; reflexivity.
  - unfold fuel. lia.
  - unfold bstate in E. rewrite E. cbn [cres_of]. f_equal.
    unfold b_left. rewrite Hd, app_length, Hs. reflexivity.
Qed.
