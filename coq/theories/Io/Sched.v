(* Generic ticket pipeline (C03, C16): a producer submits items in order; each item gets a ticket
   that is put in a bounded FIFO channel and a pool task that computes [f item]; pool tasks start
   FIFO on at most [pool] threads and complete in ANY order; a single consumer takes tickets from
   the channel in order, waits for the ticket it holds, and feeds the result to its own state
   machine [cstep] (a sink, an application buffer...) until that machine reports [stopped].

   Mirrors  noodles-bgzf/src/io/multithreaded_writer.rs  (send / spawn_writer) and
            noodles-bgzf/src/io/multithreaded_reader.rs  (spawn_reader / read_block):
     Submit     = write_tx.send(buffered_rx) + rayon::spawn      (reader: recycle_rx.recv, read frame, spawn, read_tx.send)
     Start      = a pool thread picks the oldest queued task (the harness gate sits here)
     Complete t = the task of ticket t sends its result on its one-shot channel
     Take       = write_rx.recv() / read_rx.recv()               (consumer removes the head ticket)
     Emit       = buffered_rx.recv() returns; the consumer processes the result
   The scheduler's choices are an explicit list of actions; theorems quantify over all of them. *)
From Coq Require Import List Arith Lia Bool.
Import ListNotations.

Section Pipeline.
  Variables (item res cst : Type).
  Variable f : item -> res.                 (* the pool task *)
  Variable ready : item -> bool.            (* the result is known at submission: the ticket is sent
                                               already answered and no pool task is spawned *)
  Variable cstep : cst -> res -> cst.       (* the in-order consumer *)
  Variable stopped : cst -> bool.           (* consumer has exited with an error *)
  Variable can_submit : nat -> bool -> bool.  (* window guard: |channel| -> consumer holds a ticket? -> may submit *)
  Variable pool : nat.                      (* pool threads *)

  Record st := mk {
    todo : list item;            (* not yet submitted, in submission order *)
    next : nat;                  (* next ticket id *)
    chan : list (nat * item);    (* tickets in the bounded channel, oldest first *)
    hold : option (nat * item);  (* ticket the consumer is blocked on *)
    pending : list nat;          (* spawned tasks not yet started (rayon injector, FIFO) *)
    running : list nat;          (* tasks occupying a pool thread *)
    done : list nat;             (* completed tasks *)
    cons : list item;            (* ghost: items consumed so far, in order *)
    cs : cst                     (* consumer state *)
  }.

  Inductive act := Submit | Start | Complete (t : nat) | Take | Emit.

  Definition mem (t : nat) (l : list nat) : bool := existsb (Nat.eqb t) l.
  Definition is_some {A} (o : option A) : bool := match o with Some _ => true | None => false end.
  Definition olist {A} (o : option A) : list A := match o with Some a => [a] | None => [] end.

  Definition enabled (s : st) (a : act) : bool :=
    match a with
    | Submit => match todo s with
                | [] => false
                | _ :: _ => can_submit (length (chan s)) (is_some (hold s)) && negb (stopped (cs s))
                end
    | Start => match pending s with [] => false | _ :: _ => length (running s) <? pool end
    | Complete t => mem t (running s)
    | Take => match hold s, chan s with
              | None, _ :: _ => negb (stopped (cs s))
              | _, _ => false
              end
    | Emit => match hold s with
              | Some (t, _) => mem t (done s) && negb (stopped (cs s))
              | None => false
              end
    end.

  Definition step (s : st) (a : act) : st :=
    if enabled s a then
      match a with
      | Submit => match todo s with
                  | [] => s
                  | x :: xs =>
                    if ready x
                    then mk xs (S (next s)) (chan s ++ [(next s, x)]) (hold s)
                            (pending s) (running s) (next s :: done s) (cons s) (cs s)
                    else mk xs (S (next s)) (chan s ++ [(next s, x)]) (hold s)
                            (pending s ++ [next s]) (running s) (done s) (cons s) (cs s)
                  end
      | Start => match pending s with
                 | [] => s
                 | t :: p => mk (todo s) (next s) (chan s) (hold s) p (running s ++ [t]) (done s) (cons s) (cs s)
                 end
      | Complete t => mk (todo s) (next s) (chan s) (hold s) (pending s)
                         (filter (fun u => negb (Nat.eqb t u)) (running s)) (t :: done s) (cons s) (cs s)
      | Take => match chan s with
                | [] => s
                | q :: c => mk (todo s) (next s) c (Some q) (pending s) (running s) (done s) (cons s) (cs s)
                end
      | Emit => match hold s with
                | None => s
                | Some (_, x) => mk (todo s) (next s) (chan s) None (pending s) (running s) (done s)
                                    (cons s ++ [x]) (cstep (cs s) (f x))
                end
      end
    else s.

  Definition init (c0 : cst) (xs : list item) : st := mk xs 0 [] None [] [] [] [] c0.
  Definition run (c0 : cst) (xs : list item) (sched : list act) : st := fold_left step sched (init c0 xs).

  (* nothing left to do, or the consumer has stopped (its error is what finish()/join returns) *)
  Definition drained (s : st) : bool :=
    match todo s, chan s, hold s with [], [], None => true | _, _, _ => false end.
  Definition final (s : st) : bool := stopped (cs s) || drained s.

  (* the sequential specification: feed the results in submission order, stop at the first stop *)
  Fixpoint st_consume (c : cst) (rs : list res) : cst :=
    match rs with
    | [] => c
    | r :: rs' => if stopped c then c else st_consume (cstep c r) rs'
    end.

  (* ---- a deterministic scheduler driven by a release order (what the harness gate forces):
          make all internal progress possible, then let the next task of [rel] complete ---- *)
  Definition auto_act (s : st) : option act :=
    if enabled s Emit then Some Emit
    else if enabled s Take then Some Take
    else if enabled s Submit then Some Submit
    else if enabled s Start then Some Start
    else None.

  Fixpoint drive (fuel : nat) (s : st) (rel : list nat) : st * list act :=
    match fuel with
    | O => (s, [])
    | S k =>
      if final s then (s, []) else
      match auto_act s with
      | Some a => let '(s', l) := drive k (step s a) rel in (s', a :: l)
      | None =>
        match rel with
        | t :: rel' =>
          if enabled s (Complete t)
          then let '(s', l) := drive k (step s (Complete t)) rel' in (s', Complete t :: l)
          else (s, [])      (* the release order is infeasible for this window / pool: stuck *)
        | [] => (s, [])
        end
      end
    end.

  (* a strategy: iterate a choice function until a final state *)
  Fixpoint iter (pick : st -> act) (n : nat) (s : st) : st :=
    match n with
    | O => s
    | S k => if final s then s else iter pick k (step s (pick s))
    end.

  (* the canonical strategy used to witness progress *)
  Definition default_pick (s : st) : act :=
    match auto_act s with
    | Some a => a
    | None => match running s with t :: _ => Complete t | [] => Submit end
    end.

  Definition measure (s : st) : nat :=
    5 * length (todo s) + 2 * length (chan s) + length (olist (hold s))
    + 2 * length (pending s) + length (running s).

  Definition tickets (s : st) : list nat := map fst (olist (hold s) ++ chan s).
End Pipeline.

Arguments mk {item cst}.
Arguments todo {item cst}.
Arguments next {item cst}.
Arguments chan {item cst}.
Arguments hold {item cst}.
Arguments pending {item cst}.
Arguments running {item cst}.
Arguments done {item cst}.
Arguments cons {item cst}.
Arguments cs {item cst}.
Arguments init {item cst}.
Arguments drained {item cst}.
Arguments tickets {item cst}.
Arguments measure {item cst}.
Arguments enabled {item cst}.
Arguments step {item res cst}.
Arguments run {item res cst}.
Arguments final {item cst}.
Arguments st_consume {res cst}.
Arguments auto_act {item cst}.
Arguments drive {item res cst}.
Arguments iter {item res cst}.
Arguments default_pick {item cst}.
